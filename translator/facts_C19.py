"""facts read off frappy/protocol/discovery.py and frappy/server.py for C19"""
import ast
import copy

from translator import parse, find_class, find_func, find_assign, Shape, const, cnat, cz, cbool, cstr, src, \
    walk_type, is_self_attr

F = 'frappy/protocol/discovery.py'
S = 'frappy/server.py'


def _mod():
    return parse(F)


def _cls():
    return find_class(_mod(), 'UDPListener')


def _init():
    return find_func(_cls(), '__init__')


def _run():
    return find_func(_cls(), 'run')


def _getmsg():
    return find_func(_cls(), '_getMessage')


def _int_expr(node, depth=0):
    """constant integer expression made of literals, module level constants, + - * ** (e.g. 2**16-1)"""
    if isinstance(node, ast.Constant) and isinstance(node.value, int) and not isinstance(node.value, bool):
        return node.value
    if isinstance(node, ast.Name) and depth < 4:
        # a module level constant of discovery.py (assigned exactly once, never rebound in a function)
        assigns = [n for n in ast.walk(_mod()) if isinstance(n, (ast.Assign, ast.AugAssign, ast.AnnAssign))
                   and any(isinstance(t, ast.Name) and t.id == node.id
                           for t in (n.targets if isinstance(n, ast.Assign) else [n.target]))]
        top = [n for n in _mod().body if n in assigns]
        if len(assigns) != 1 or len(top) != 1 or not isinstance(top[0], ast.Assign):
            raise Shape(f'{node.id} is not a module level constant assigned exactly once')
        return _int_expr(top[0].value, depth + 1)
    if isinstance(node, ast.BinOp):
        a, b = _int_expr(node.left, depth), _int_expr(node.right, depth)
        if isinstance(node.op, ast.Add):
            return a + b
        if isinstance(node.op, ast.Sub):
            return a - b
        if isinstance(node.op, ast.Mult):
            return a * b
        if isinstance(node.op, ast.Pow) and 0 <= b <= 64:
            return a ** b
    raise Shape(f'not a constant integer expression: {src(node)}')


def _cN(n):
    if not isinstance(n, int) or isinstance(n, bool) or n < 0:
        raise Shape(f'not a natural number: {n!r}')
    return f'{n}%N'


class _StripLog(ast.NodeTransformer):
    """remove `self.log.<x>(...)` statements (they carry no behaviour of interest)"""

    def visit_Expr(self, node):
        v = node.value
        if isinstance(v, ast.Call) and isinstance(v.func, ast.Attribute) and is_self_attr(v.func.value, 'log'):
            return None
        return node


def _text(node):
    """normalised source of a statement with logging removed"""
    n = _StripLog().visit(copy.deepcopy(node))
    ast.fix_missing_locations(n)
    return ast.unparse(n)


# ---------------------------------------------------------------- constants
def UDP_PORT():
    return 'N', _cN(const(find_assign(_mod(), 'UDP_PORT')))


def MAX_MESSAGE_LEN():
    return 'Z', cz(const(find_assign(_mod(), 'MAX_MESSAGE_LEN')))


def _available_assign():
    res = [a for a in walk_type(_init(), ast.Assign)
           if len(a.targets) == 1 and isinstance(a.targets[0], ast.Name) and a.targets[0].id == 'available']
    if len(res) != 1:
        raise Shape('expected exactly one assignment to `available` in __init__')
    return res[0]


def budget_port():
    """available = MAX_MESSAGE_LEN - len(self._getMessage(<const expr>))"""
    v = _available_assign().value
    ok = (isinstance(v, ast.BinOp) and isinstance(v.op, ast.Sub)
          and isinstance(v.left, ast.Name) and v.left.id == 'MAX_MESSAGE_LEN'
          and isinstance(v.right, ast.Call) and isinstance(v.right.func, ast.Name) and v.right.func.id == 'len'
          and len(v.right.args) == 1 and isinstance(v.right.args[0], ast.Call)
          and is_self_attr(v.right.args[0].func, '_getMessage') and len(v.right.args[0].args) == 1
          and not v.right.args[0].keywords)
    if not ok:
        raise Shape('available is not MAX_MESSAGE_LEN - len(self._getMessage(<port>))')
    return 'N', _cN(_int_expr(v.right.args[0].args[0]))


def _recv_call():
    calls = [c for c in walk_type(_run(), ast.Call)
             if isinstance(c.func, ast.Attribute) and c.func.attr == 'recvfrom']
    if len(calls) != 1 or len(calls[0].args) != 1 or calls[0].keywords \
            or not is_self_attr(calls[0].func.value, 'sock'):
        raise Shape('expected exactly one self.sock.recvfrom(n)')
    return calls[0]


def recv_bufsize():
    """exactly one self.sock.recvfrom(<constant int expression>) in run: the datagram is cut to this size"""
    return 'N', _cN(_int_expr(_recv_call().args[0]))


def measure_json_depth_limit(maxdepth=1 << 20):
    """smallest nesting depth at which json.loads of this interpreter raises something that is not a ValueError
    (RecursionError of the C scanner), measured with arrays, objects and both mixed; maxdepth if there is none"""
    import json

    def raises(text):
        try:
            json.loads(text)
        except ValueError:
            return False
        except BaseException:      # RecursionError (or MemoryError ...): not caught by `except ValueError`
            return True
        return False

    def threshold(unit, levels):
        lo, hi = 1, maxdepth
        if not raises(unit * (hi // levels)):
            return maxdepth
        while lo < hi:
            m = (lo + hi) // 2
            if raises(unit * ((m + levels - 1) // levels)):
                hi = m
            else:
                lo = m + 1
        return lo
    return min(threshold('[', 1), threshold('{"a":', 1), threshold('[{"a":', 2))


# C frames of whoever calls json.loads count against the same limit of the interpreter as the nesting of the text
# (seen: 1497 levels in a fresh thread, 1494 below the harness): allowance for the caller
JSON_DEPTH_ALLOWANCE = 64


def json_depth_limit():
    """NOT read off the source: a property of the CPython that runs frappy here (the translator runs under the same
    /venv/bin/python as the implementation driver).  json.loads raises only ValueErrors on text nested less deep
    than this: the depth at which RecursionError is first seen in a fresh thread (how frappy runs the responder),
    minus an allowance for C frames of the caller.  The harness checks every datagram of every case against it."""
    import threading
    res = []
    t = threading.Thread(target=lambda: res.append(measure_json_depth_limit()))
    t.start()
    t.join()
    if not res:
        raise Shape('measurement of the json.loads nesting limit failed')
    n = res[0]       # only the fresh thread: the same value whoever calls the translator (Gen/C19.v stays stable)
    if n <= 2 * JSON_DEPTH_ALLOWANCE:
        raise Shape(f'json.loads nesting limit {n} is implausibly small')
    return 'N', _cN(n - JSON_DEPTH_ALLOWANCE)


def firmware_prefix():
    """self.firmware = '<literal>' + get_version()"""
    vals = [a.value for a in walk_type(_init(), ast.Assign) if any(is_self_attr(t, 'firmware') for t in a.targets)]
    if len(vals) != 1:
        raise Shape('expected one assignment to self.firmware')
    v = vals[0]
    ok = (isinstance(v, ast.BinOp) and isinstance(v.op, ast.Add) and isinstance(v.left, ast.Constant)
          and isinstance(v.left.value, str) and src(v.right) == 'get_version()')
    if not ok:
        raise Shape("self.firmware is not '<literal>' + get_version()")
    return 'list N', cstr(v.left.value)


# ---------------------------------------------------------------- message builder
def _dumps_call():
    f = _getmsg()
    rets = [n for n in f.body if isinstance(n, ast.Return)]
    if len(rets) != 1 or len([n for n in f.body if not isinstance(n, ast.Expr)]) != 1:
        raise Shape('_getMessage: expected a single return statement')
    v = rets[0].value
    ok = (isinstance(v, ast.Call) and isinstance(v.func, ast.Attribute) and v.func.attr == 'encode'
          and len(v.args) == 1 and not v.keywords and const(v.args[0]).lower().replace('-', '') == 'utf8')
    if not ok:
        raise Shape("_getMessage does not return <...>.encode('utf-8')")
    d = v.func.value
    if not (isinstance(d, ast.Call) and src(d.func) == 'json.dumps' and len(d.args) == 1
            and isinstance(d.args[0], ast.Dict)):
        raise Shape('_getMessage does not encode json.dumps({...})')
    return d


def msg_keys():
    d = _dumps_call().args[0]
    return 'list (list N)', '[' + '; '.join(cstr(const(k)) for k in d.keys) + ']'


def msg_values():
    """source text of the values of the dict literal, in order"""
    d = _dumps_call().args[0]
    return 'list (list N)', '[' + '; '.join(cstr(src(v)) for v in d.values) + ']'


def dumps_compact_no_ascii_escape():
    """keywords are exactly ensure_ascii=False, separators=(',', ':')"""
    kw = {k.arg: k.value for k in _dumps_call().keywords}
    ok = (set(kw) == {'ensure_ascii', 'separators'} and const(kw['ensure_ascii']) is False
          and const(kw['separators']) == (',', ':'))
    return 'bool', cbool(ok)


def getmsg_args():
    f = _getmsg()
    return 'list (list N)', '[' + '; '.join(cstr(a.arg) for a in f.args.args) + ']'


# ---------------------------------------------------------------- constructor
def _assign_text(func, attr):
    res = [src(a.value) for a in walk_type(func, ast.Assign) if any(is_self_attr(t, attr) for t in a.targets)]
    return res


def init_assignments():
    """the plain attribute initialisations of __init__ the model relies on"""
    f = _init()
    want = {
        'equipment_id': ['equipment_id'],
        'ports': ["[int(iface.split('://')[1]) for iface in ifaces if iface.startswith('tcp')]"],
        'startup_broadcast': ['startup_broadcast'],
        'running': ['False'],
    }
    ok = all(_assign_text(f, k) == v for k, v in want.items())
    # description and is_enabled are assigned twice: initial value first
    d = _assign_text(f, 'description')
    e = _assign_text(f, 'is_enabled')
    ok = ok and len(d) == 2 and d[0] == "description or ''" and len(e) == 2 and e[0] == 'True'
    return 'bool', cbool(ok)


BUDGET_TEXT = """if available < 0:
    desc_length = len(self.description.encode('utf-8'))
    if available + desc_length < 0:
        self.is_enabled = False
    else:
        self.description = self.description.encode('utf-8')[:available].decode('utf-8', errors='ignore')"""


def budget_shape():
    """the statement after `available = ...` is the budgeting `if`, with exactly the modelled structure,
    and it is the last statement of __init__"""
    f = _init()
    a = _available_assign()
    idx = [i for i, n in enumerate(f.body) if n is a]
    if len(idx) != 1 or idx[0] + 2 != len(f.body):
        raise Shape('`available = ...` is not followed by exactly one final statement in __init__')
    return 'bool', cbool(_text(f.body[idx[0] + 1]) == BUDGET_TEXT)


# ---------------------------------------------------------------- run()
RUN_TEXT = """def run(self):
    if self.startup_broadcast and self.is_enabled:
        for port in self.ports:
            self.sock.sendto(self._getMessage(port), ('255.255.255.255', UDP_PORT))
    self.running = True
    while self.running and self.is_enabled:
        try:
            msg, addr = self.sock.recvfrom(%s)
        except socket.error:
            return
        try:
            request = json.loads(msg.decode('utf-8'))
        except ValueError:
            continue
        if not isinstance(request, dict) or request.get('SECoP') != 'discover':
            continue
        for port in self.ports:
            self.sock.sendto(self._getMessage(port), addr)"""


def _handlers(func, pred):
    """exception names caught by the try statement whose body satisfies pred"""
    res = []
    for t in walk_type(func, ast.Try):
        if any(pred(n) for b in t.body for n in ast.walk(b)):
            names = []
            for h in t.handlers:
                if h.type is None:
                    names.append('<bare>')
                elif isinstance(h.type, ast.Tuple):
                    names.extend(src(e) for e in h.type.elts)
                else:
                    names.append(src(h.type))
            res.append((t, names))
    return res


def loads_catches():
    """exceptions caught around json.loads(msg.decode('utf-8'))"""
    hs = _handlers(_run(), lambda n: isinstance(n, ast.Call) and src(n.func) == 'json.loads')
    if len(hs) != 1:
        raise Shape('expected exactly one try statement around json.loads')
    return 'list (list N)', '[' + '; '.join(cstr(n) for n in hs[0][1]) + ']'


def filter_expr():
    """the test of the `if ...: continue` following the decoding"""
    tests = [n for n in walk_type(_run(), ast.If)
             if len(n.body) == 1 and isinstance(n.body[0], ast.Continue) and not n.orelse]
    if len(tests) != 1:
        raise Shape('expected exactly one `if ...: continue` in run')
    return 'list N', cstr(src(tests[0].test))


def broadcast_guarded_by_enabled():
    """the start-up broadcast is the first statement of run and is sent only `if self.startup_broadcast and self.is_enabled`"""
    f = _run()
    first = f.body[0] if not isinstance(f.body[0], ast.Expr) else f.body[1]
    ok = (isinstance(first, ast.If) and src(first.test) == 'self.startup_broadcast and self.is_enabled'
          and not first.orelse)
    return 'bool', cbool(ok)


def run_shape():
    """run() is, up to logging, exactly the modelled text"""
    return 'bool', cbool(_text(_run()) == RUN_TEXT % src(_recv_call().args[0]))


# ---------------------------------------------------------------- server.py
def _server_run():
    return find_func(find_class(parse(S), 'Server'), 'run')


def server_passes_opened_interfaces():
    """UDPListener(<equipment id>, <description>, list(self.interfaces), ...) and its run is started in a thread"""
    f = _server_run()
    calls = [c for c in walk_type(f, ast.Call) if isinstance(c.func, ast.Name) and c.func.id == 'UDPListener']
    if len(calls) != 1:
        raise Shape('expected exactly one UDPListener(...) call in Server.run')
    c = calls[0]
    ok = (len(c.args) == 4 and not c.keywords and src(c.args[2]) == 'list(self.interfaces)'
          and src(c.args[0]) == 'self.secnode.equipment_id'
          and src(c.args[1]) == "self.secnode.get_secnode_property('description')")
    started = any(src(x) == 'mkthread(self.discovery.run)' for x in walk_type(f, ast.Call))
    assigned = any(isinstance(a, ast.Assign) and any(is_self_attr(t, 'discovery') for t in a.targets) and a.value is c
                   for a in walk_type(f, ast.Assign))
    return 'bool', cbool(ok and started and assigned)


STARTUP_TEXT = """self.interfaces = {}
iface_threads = []
interfaces_started = MultiEvent(default_timeout=12)
lock = threading.Lock()
failed = {}
interfaces = [self.node_cfg['interface']] + self.node_cfg.get('secondary', [])
interfaces = [iface if '://' in iface else f'tcp://{iface}' for iface in interfaces]
with lock:
    for interface in interfaces:
        opts = {'uri': interface}
        t = mkthread(self._interfaceThread, opts, lock, failed, interfaces, interfaces_started.get_trigger())
        iface_threads.append(t)
if not interfaces_started.wait():
    for iface in interfaces:
        if iface not in failed and iface not in self.interfaces:
while failed:
    iface, err = failed.popitem()
if not self.interfaces:
    return
self.secnode.add_secnode_property('_interfaces', list(self.interfaces))
self.discovery = UDPListener(self.secnode.equipment_id, self.secnode.get_secnode_property('description'), %s, self.log.getChild('discovery'))
mkthread(self.discovery.run)"""

IFACE_THREAD_TEXT = """def _interfaceThread(self, opts, lock, failed, interfaces, start_cb):
    iface = opts['uri']
    scheme = iface.split('://')[0]
    cls = get_class(self.INTERFACES[scheme])
    try:
        with cls(scheme, self.log.getChild(scheme), opts, self) as interface:
            if opts:
                raise ConfigError(self.unknown_options(cls, opts))
            with lock:
                self.interfaces[iface] = interface
            start_cb()
            interface.serve_forever()
    except Exception as e:
        with lock:
            failed[iface] = e
            interfaces.remove(iface)
        start_cb()
    else:
        with lock:
            interfaces.remove(iface)"""


def _stmts_text(stmts):
    m = ast.Module(body=copy.deepcopy(list(stmts)), type_ignores=[])
    m = _StripLog().visit(m)
    ast.fix_missing_locations(m)
    return ast.unparse(m)


def _listener_call():
    calls = [c for c in walk_type(_server_run(), ast.Call) if isinstance(c.func, ast.Name) and c.func.id == 'UDPListener']
    if len(calls) != 1 or len(calls[0].args) != 4 or calls[0].keywords:
        raise Shape('expected exactly one UDPListener(<4 arguments>) call in Server.run')
    return calls[0]


def server_startup_shape():
    """the start-up of the interfaces in Server.run -- from `self.interfaces = {}` to `mkthread(self.discovery.run)`
    -- is, up to logging and up to the interface list handed to UDPListener (fact server_passes_opened_interfaces),
    exactly the modelled text; these statements stand directly in the `while self._restart:` loop"""
    loops = [n for n in _server_run().body if isinstance(n, ast.While) and src(n.test) == 'self._restart']
    if len(loops) != 1:
        raise Shape('expected one `while self._restart:` loop in Server.run')
    body = loops[0].body
    first = [i for i, n in enumerate(body) if isinstance(n, ast.Assign) and src(n) == 'self.interfaces = {}']
    last = [i for i, n in enumerate(body) if isinstance(n, ast.Expr) and src(n) == 'mkthread(self.discovery.run)']
    if len(first) != 1 or len(last) != 1 or first[0] > last[0]:
        raise Shape('start-up statements of Server.run not found')
    text = _stmts_text(body[first[0]:last[0] + 1])
    return 'bool', cbool(text == STARTUP_TEXT % src(_listener_call().args[2]))


def interface_thread_shape():
    """Server._interfaceThread is, up to logging, exactly the modelled text: registration in self.interfaces only
    after the constructor returned, a failing constructor removes the uri from the local list and files it under
    failed, the trigger fires after either"""
    it = find_func(find_class(parse(S), 'Server'), '_interfaceThread')
    return 'bool', cbool(_text(it) == IFACE_THREAD_TEXT)


def startup_broadcast_default():
    """the server does not pass startup_broadcast: the default of UDPListener.__init__ applies (modelled: True)"""
    a = _init().args
    names = [x.arg for x in a.kwonlyargs]
    if 'startup_broadcast' not in names:
        raise Shape('startup_broadcast is not a keyword-only argument of UDPListener.__init__')
    return 'bool', cbool(const(a.kw_defaults[names.index('startup_broadcast')]) is True)


def interfaces_registered_after_open():
    """self.interfaces[iface] = interface happens only inside `with cls(...) as interface:` in _interfaceThread
    (i.e. after the server socket was bound), and Server.run only resets self.interfaces = {} before starting them"""
    tree = parse(S)
    cls = find_class(tree, 'Server')
    subs = []
    for a in walk_type(cls, ast.Assign):
        for t in a.targets:
            if isinstance(t, ast.Subscript) and is_self_attr(t.value, 'interfaces'):
                subs.append(a)
    if len(subs) != 1:
        raise Shape('expected exactly one self.interfaces[...] = ... in Server')
    it = find_func(cls, '_interfaceThread')
    inside = False
    for w in walk_type(it, ast.With):
        for item in w.items:
            if (isinstance(item.context_expr, ast.Call) and isinstance(item.optional_vars, ast.Name)
                    and item.optional_vars.id == 'interface' and src(item.context_expr.func) == 'cls'):
                if any(n is subs[0] for b in w.body for n in ast.walk(b)):
                    inside = True
    ok = inside and src(subs[0]) == 'self.interfaces[iface] = interface'
    plain = [src(a.value) for a in walk_type(cls, ast.Assign) if any(is_self_attr(t, 'interfaces') for t in a.targets)]
    return 'bool', cbool(ok and plain == ['{}'])


def tcp_port_parse_agrees():
    """TCPServer binds int(uri.split('://', 1)[-1]) -- the same number the discovery advertises"""
    t = parse('frappy/protocol/interface/tcp.py')
    init = find_func(find_class(t, 'TCPServer'), '__init__')
    vals = [src(a.value) for a in walk_type(init, ast.Assign)
            if len(a.targets) == 1 and isinstance(a.targets[0], ast.Name) and a.targets[0].id == 'port']
    return 'bool', cbool(vals == ["int(options.pop('uri').split('://', 1)[-1])"])


FACTS = [UDP_PORT, MAX_MESSAGE_LEN, budget_port, recv_bufsize, json_depth_limit, firmware_prefix,
         msg_keys, msg_values, dumps_compact_no_ascii_escape, getmsg_args,
         init_assignments, budget_shape, loads_catches, filter_expr, broadcast_guarded_by_enabled, run_shape,
         server_passes_opened_interfaces, interfaces_registered_after_open, tcp_port_parse_agrees,
         server_startup_shape, interface_thread_shape, startup_broadcast_default]

FINGERPRINTS = {
    'UDPListener.__init__': _init,
    'UDPListener._getMessage': _getmsg,
    'UDPListener.run': _run,
    'Server._interfaceThread': lambda: find_func(find_class(parse(S), 'Server'), '_interfaceThread'),
    # Server.run is not fingerprinted as a whole: its modelled part (the start-up of the interfaces) is compared
    # as text by server_startup_shape, the rest of the function (restart loop, systemd) is not modelled
}
