"""facts read off the request path for C04: dispatcher._setParameterValue/_execute_command/handle_change/handle_do,
modulebase write wrapper / checkLimits / _add_accessible / announceUpdate, params.Command.do, handler error mapping,
errors class names.  Every fact is a boolean "the modelled order/shape is present" (fail closed: Shape when the function
is missing, false when the shape differs)."""
import ast

from translator import parse, find_class, find_func, Shape, const, cbool, src, walk_type

DISP = 'frappy/protocol/dispatcher.py'
MODB = 'frappy/modulebase.py'
PARA = 'frappy/params.py'
HAND = 'frappy/protocol/interface/handler.py'
ERRS = 'frappy/errors.py'


def _lines(func):
    """first source line of every statement of func in pre-order (docstrings dropped), blanks normalised"""
    res = []

    def visit(stmts):
        for s in stmts:
            if isinstance(s, ast.Expr) and isinstance(s.value, ast.Constant) and isinstance(s.value.value, str):
                continue
            if isinstance(s, (ast.FunctionDef, ast.AsyncFunctionDef, ast.ClassDef)):
                res.append(f'def {s.name}')
                continue
            res.append(src(s).split('\n')[0].strip())
            for field in ('body', 'handlers', 'orelse', 'finalbody'):
                sub = getattr(s, field, None)
                if sub:
                    for h in sub:
                        if isinstance(h, ast.ExceptHandler):
                            res.append('except ' + (src(h.type) if h.type else '') + (f' as {h.name}' if h.name else '') + ':')
                            visit(h.body)
                        else:
                            visit([h])
    visit(func.body)
    return res


def _ordered(lines, wanted):
    """every wanted prefix occurs, in this order"""
    i = 0
    for w in wanted:
        while i < len(lines) and not lines[i].startswith(w):
            i += 1
        if i == len(lines):
            return False
        i += 1
    return True


def _count(lines, prefix):
    return sum(1 for ln in lines if ln.startswith(prefix))


def _disp(name):
    return find_func(find_class(parse(DISP), 'Dispatcher'), name)


def set_parameter_order():
    """_setParameterValue: module, parameter, constant, readonly refusals, then import, validate(previous=cache), write_<p>(value)"""
    ln = _lines(_disp('_setParameterValue'))
    ok = _ordered(ln, [
        'moduleobj = self.secnode.get_module(modulename)',
        'if moduleobj is None:', 'raise NoSuchModuleError(',
        'pname = moduleobj.accessiblename2attr.get(exportedname)',
        'pobj = moduleobj.parameters.get(pname)',
        'if pobj is None:', 'raise NoSuchParameterError(',
        'if pobj.constant is not None:', 'raise ReadOnlyError(',
        'if pobj.readonly:', 'raise ReadOnlyError(',
        'value = pobj.datatype.import_value(value)',
        'value = pobj.datatype.validate(value, previous=pobj.value)',
        "getattr(moduleobj, 'write_' + pname)(value)",
        'return '])
    ok = ok and _count(ln, 'getattr(moduleobj') == 1 and _count(ln, 'value = ') == 2 and not _count(ln, 'try:')
    return 'bool', cbool(ok)


def execute_command_order():
    """_execute_command: module, command refusals, then exactly one cobj.do(moduleobj, argument)"""
    ln = _lines(_disp('_execute_command'))
    ok = _ordered(ln, [
        'moduleobj = self.secnode.get_module(modulename)',
        'if moduleobj is None:', 'raise NoSuchModuleError(',
        'cname = moduleobj.accessiblename2attr.get(exportedname)',
        'cobj = moduleobj.commands.get(cname)',
        'if cobj is None:', 'raise NoSuchCommandError(',
        'result = cobj.do(moduleobj, argument)',
        'if cobj.result:', 'result = cobj.result.export_value(result)',
        'return '])
    ok = ok and _count(ln, 'result = cobj.do(') == 1 and not _count(ln, 'try:')
    return 'bool', cbool(ok)


def handle_change_shape():
    """handle_change: default accessible 'target', split at the first colon, one call of _setParameterValue with data"""
    ln = _lines(_disp('handle_change'))
    ok = _ordered(ln, [
        'if not specifier:', 'raise ProtocolError(',
        "modulename, pname = (specifier, 'target')",
        "if ':' in specifier:", "modulename, pname = specifier.split(':', 1)",
        'return (WRITEREPLY, specifier, list(self._setParameterValue(modulename, pname, data)))'])
    return 'bool', cbool(ok)


def handle_do_shape():
    """handle_do: a specifier without colon is a ProtocolError, then split at the first colon, one call of _execute_command"""
    ln = _lines(_disp('handle_do'))
    ok = _ordered(ln, [
        'if not specifier:', 'raise ProtocolError(',
        "if ':' not in specifier:", 'raise ProtocolError(',
        "modulename, cmd = specifier.split(':', 1)",
        'return (COMMANDREPLY, specifier, list(self._execute_command(modulename, cmd, data)))'])
    ok = ok and _count(ln, 'raise ProtocolError(') == 2 and _count(ln, 'modulename, cmd = ') == 1
    return 'bool', cbool(ok)


def command_do_shape():
    """Command.do: None test, import, argument = validate(argument), call with argument; no-argument branch; result conversion"""
    ln = _lines(find_func(find_class(parse(PARA), 'Command'), 'do'))
    ok = _ordered(ln, [
        'func = self.__get__(module_obj)',
        'if self.argument:',
        'if argument is None:', 'raise WrongTypeError(',
        'argument = self.argument.import_value(argument)',
        'argument = self.argument.validate(argument)',
        'if isinstance(self.argument, TupleOf):', 'res = func(*argument)',
        'if isinstance(self.argument, StructOf):',          # the elif arm (unparsed as nested if)
        'res = func(**argument)',
        'res = func(argument)',
        'if argument is not None:', 'raise WrongTypeError(',
        'res = func()',
        'if self.result:', 'return self.result(res)',
        'return None'])
    ok = ok and _count(ln, 'res = func') == 4 and _count(ln, 'argument = ') == 2
    return 'bool', cbool(ok)


def _wfunc():
    isc = find_func(find_class(parse(MODB), 'HasAccessibles'), '__init_subclass__')
    for f in walk_type(isc, ast.FunctionDef):
        if f.name == 'new_wfunc':
            return isc, f
    raise Shape('new_wfunc not found')


def write_wrapper_shape():
    """new_wfunc: validate, all check functions (break on truthy), driver with the validated value, Done, read-back, announce"""
    _, f = _wfunc()
    ln = _lines(f)
    ok = _ordered(ln, [
        'with self.accessLock:',
        'validate = self.parameters[pname].datatype.validate',
        'try:',
        'new_value = validate(value)',
        'for c in check_funcs:', 'if c(self, value):', 'break',
        'if wfunc:', 'new_value = wfunc(self, new_value)',
        'if new_value is Done:', 'return getattr(self, pname)',
        'new_value = value if new_value is None else validate(new_value)',
        'except SECoPError as e:', 'raise',
        'self.announceUpdate(pname, new_value, validate=False)',
        'return new_value'])
    ok = ok and _count(ln, 'new_value = wfunc(') == 1 and _count(ln, 'self.announceUpdate(') == 1
    args = [a.arg for a in f.args.args]
    ok = ok and args == ['self', 'value', 'pname', 'wfunc', 'check_funcs']
    return 'bool', cbool(ok)


def wrapper_body_under_access_lock():
    """new_wfunc consists of ONE statement `with self.accessLock:`; validation, the check loop, the driver call, the
    read-back validation and announceUpdate are all inside it, the lock is not mentioned anywhere else in the wrapper,
    and Module.__init__ creates it as a threading.RLock per instance (obligation of C04_limits_current_at_driver_call:
    a limit cannot move between the limit check and the driver call)"""
    _, f = _wfunc()
    body = [s for s in f.body
            if not (isinstance(s, ast.Expr) and isinstance(s.value, ast.Constant) and isinstance(s.value.value, str))]
    ok = len(body) == 1 and isinstance(body[0], ast.With) and len(body[0].items) == 1
    if ok:
        item = body[0].items[0]
        ok = src(item.context_expr) == 'self.accessLock' and item.optional_vars is None
    if ok:
        inner = body[0]
        calls = [src(c.func) for st in inner.body for c in walk_type(st, ast.Call)]
        ok = all(n in calls for n in ('validate', 'c', 'wfunc', 'self.announceUpdate'))
        # nothing is deferred to a nested function / lambda / other thread
        ok = ok and not any(walk_type(st, (ast.FunctionDef, ast.Lambda, ast.AsyncFunctionDef)) for st in inner.body)
        mentions = [n for n in walk_type(f, ast.Attribute) if n.attr == 'accessLock']
        ok = ok and len(mentions) == 1
    init = find_func(find_class(parse(MODB), 'Module'), '__init__')
    assigns = [src(st) for st in walk_type(init, ast.Assign) if 'accessLock' in src(st)]
    ok = ok and assigns == ['self.accessLock = threading.RLock()']
    return 'bool', cbool(ok)


def check_funcs_from_mro():
    """cfuncs = all check_<p> entries of the class dicts along cls.__mro__; generated lambda calls checkLimits for the
    postfixes _limits, _min, _max when the defining class has no check_<p> yet"""
    isc, _ = _wfunc()
    ln = _lines(isc)
    ok = _ordered(ln, [
        "cname = 'check_' + pname",
        "for postfix in ('_limits', '_min', '_max'):",
        'limname = pname + postfix',
        'if limname in accessibles:',
        'base = next((b for b in reversed(cls.__mro__) if limname in b.__dict__))',
        'if cname not in base.__dict__:',
        'setattr(base, cname, lambda self, value, pname=pname: self.checkLimits(value, pname))',
        'cfuncs = tuple(filter(None, (b.__dict__.get(cname) for b in cls.__mro__)))',
        "wname = 'write_' + pname",
        'wfunc = getattr(cls, wname, None)',
        'if wfunc or not pobj.readonly:'])
    return 'bool', cbool(ok)


def check_limits_shape():
    """checkLimits: <p>_limits test (AttributeError -> pass) WITHOUT return, then <p>_min/<p>_max with infinite defaults:
    inverted, below, above"""
    f = find_func(find_class(parse(MODB), 'Module'), 'checkLimits')
    ln = _lines(f)
    ok = _ordered(ln, [
        'try:',
        "min_, max_ = getattr(self, pname + '_limits')",
        'if not min_ <= value <= max_:', 'raise RangeError(',
        'except AttributeError:', 'pass',
        "min_ = getattr(self, pname + '_min', float('-inf'))",
        "max_ = getattr(self, pname + '_max', float('inf'))",
        'if min_ > max_:', 'raise RangeError(',
        'if value < min_:', 'raise RangeError(',
        'if value > max_:', 'raise RangeError('])
    ok = ok and _count(ln, 'raise RangeError(') == 4 and not walk_type(f, ast.Return)
    # the min/max part is at the top level of the function, not inside the except handler
    top = [src(st).split('\n')[0].strip() for st in f.body]
    ok = ok and "min_ = getattr(self, pname + '_min', float('-inf'))" in top and 'if value > max_:' in top
    return 'bool', cbool(ok)


def export_map_shape():
    """_add_accessible: configuration first, then an unexported module unexports its accessibles, fixExport, and only
    exported accessibles get a wire name (a name used twice is a configuration error)"""
    ln = _lines(find_func(find_class(parse(MODB), 'Module'), '_add_accessible'))
    ok = _ordered(ln, [
        'self.accessibles[name] = accessible',
        'if isinstance(accessible, Parameter):', 'self.parameters[name] = accessible',
        'if isinstance(accessible, Command):', 'self.commands[name] = accessible',
        'if cfg is not None:',
        'if not self.export:', 'accessible.export = False',
        'accessible.fixExport()',
        'if accessible.export:',
        'if accessible.export in self.accessiblename2attr:', 'self.errors.append(',
        'self.accessiblename2attr[accessible.export] = name'])
    ok = ok and _count(ln, 'self.accessiblename2attr[') == 1
    return 'bool', cbool(ok)


def announce_store_then_emit():
    """announceUpdate: without error the value is stored, the update callback runs only for exported parameters"""
    ln = _lines(find_func(find_class(parse(MODB), 'Module'), 'announceUpdate'))
    ok = _ordered(ln, [
        'with self.updateLock:',
        'pobj = self.parameters[pname]',
        'if not err:',
        'if validate:', 'value = pobj.datatype(value)',
        'pobj.value = value',
        'if err:',
        'if pobj.export:', 'self.updateCallback(self, pobj)'])
    ok = ok and _count(ln, 'pobj.value = ') == 1 and _count(ln, 'self.updateCallback(') == 1
    return 'bool', cbool(ok)


def handler_error_mapping():
    """RequestHandler.handle: SECoPError -> (ERRORPREFIX + action, specifier, [err.name, ...]); other -> 'InternalError'"""
    f = find_func(find_class(parse(HAND), 'RequestHandler'), 'handle')
    found = False
    for t in walk_type(f, ast.Try):
        names = [src(h.type) if h.type else '' for h in t.handlers]
        if names != ['SECoPError', 'Exception']:
            continue
        if not any('dispatcher.handle_request' in src(s) for s in t.body):
            continue
        h1, h2 = t.handlers
        s1, s2 = src(h1).replace(' ', '').replace('\n', ''), src(h2).replace(' ', '').replace('\n', '')
        if 'result=(ERRORPREFIX+msg[0],msg[1],[err.name,str(err),' in s1 and \
                "result=(ERRORPREFIX+msg[0],msg[1],['InternalError',repr(err)," in s2:
            found = True
    return 'bool', cbool(found)


WANTED_NAMES = {
    'NoSuchModuleError': 'NoSuchModule', 'NoSuchParameterError': 'NoSuchParameter', 'NoSuchCommandError': 'NoSuchCommand',
    'ReadOnlyError': 'ReadOnly', 'WrongTypeError': 'WrongType', 'RangeError': 'RangeError', 'HardwareError': 'HardwareError',
    'InternalError': 'InternalError', 'SECoPError': 'InternalError', 'ProtocolError': 'ProtocolError',
}


def error_class_names():
    """the `name` attributes of the error classes used by the model; RangeError/WrongTypeError derive from BadValueError"""
    tree = parse(ERRS)
    ok = True
    for cls, want in WANTED_NAMES.items():
        c = find_class(tree, cls)
        vals = [const(n.value) for n in c.body if isinstance(n, ast.Assign)
                and any(isinstance(t, ast.Name) and t.id == 'name' for t in n.targets)]
        ok = ok and vals == [want]
    for cls in ('RangeError', 'WrongTypeError'):
        ok = ok and 'BadValueError' in [src(b) for b in find_class(tree, cls).bases]
    ok = ok and [src(b) for b in find_class(tree, 'BadValueError').bases] == ['SECoPError']
    return 'bool', cbool(ok)


FACTS = [set_parameter_order, execute_command_order, handle_change_shape, handle_do_shape, command_do_shape,
         write_wrapper_shape, wrapper_body_under_access_lock, check_funcs_from_mro, check_limits_shape, export_map_shape, announce_store_then_emit,
         handler_error_mapping, error_class_names]

FINGERPRINTS = {
    'Dispatcher._setParameterValue': lambda: _disp('_setParameterValue'),
    'Dispatcher._execute_command': lambda: _disp('_execute_command'),
    'Dispatcher.handle_change': lambda: _disp('handle_change'),
    'Dispatcher.handle_do': lambda: _disp('handle_do'),
    'Command.do': lambda: find_func(find_class(parse(PARA), 'Command'), 'do'),
    'HasAccessibles.__init_subclass__': lambda: find_func(find_class(parse(MODB), 'HasAccessibles'), '__init_subclass__'),
    'Module.checkLimits': lambda: find_func(find_class(parse(MODB), 'Module'), 'checkLimits'),
    'Module._add_accessible': lambda: find_func(find_class(parse(MODB), 'Module'), '_add_accessible'),
    'Module.announceUpdate': lambda: find_func(find_class(parse(MODB), 'Module'), 'announceUpdate'),
    'RequestHandler.handle': lambda: find_func(find_class(parse(HAND), 'RequestHandler'), 'handle'),
}
