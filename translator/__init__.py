"""Fail-closed translator: reads /repo sources with `ast` (never imports them) and writes
coq/theories/Gen/<PROP>.v.  A fact whose expected syntactic shape is not found is *omitted*
(with a comment), so that the Coq files depending on it no longer compile."""
import ast
import hashlib
import importlib
import os

REPO = os.environ.get('VERIF_REPO', '/repo')
GEN_DIR = os.path.join(os.path.dirname(os.path.dirname(os.path.abspath(__file__))), 'coq', 'theories', 'Gen')


class Shape(Exception):
    """expected syntactic shape not found"""


_cache = {}


def parse(relpath):
    path = os.path.join(REPO, relpath)
    if path not in _cache:
        with open(path, encoding='utf-8') as f:
            src = f.read()
        _cache[path] = ast.parse(src, filename=path)
    return _cache[path]


def find_class(tree, name):
    for node in tree.body:
        if isinstance(node, ast.ClassDef) and node.name == name:
            return node
    raise Shape(f'class {name} not found')


def find_func(container, name):
    body = container.body
    for node in body:
        if isinstance(node, (ast.FunctionDef, ast.AsyncFunctionDef)) and node.name == name:
            return node
    raise Shape(f'function {name} not found')


def find_assign(container, name):
    """value node of `name = <value>` at the top of container"""
    for node in container.body:
        if isinstance(node, ast.Assign):
            for t in node.targets:
                if isinstance(t, ast.Name) and t.id == name:
                    return node.value
        if isinstance(node, ast.AnnAssign) and isinstance(node.target, ast.Name) and node.target.id == name:
            return node.value
    raise Shape(f'assignment {name} not found')


def const(node):
    try:
        return ast.literal_eval(node)
    except Exception as e:
        raise Shape(f'not a literal: {ast.dump(node)[:80]}') from e


def src(node):
    return ast.unparse(node)


def walk_type(node, typ):
    return [n for n in ast.walk(node) if isinstance(n, typ)]


def is_self_attr(node, attr):
    return (isinstance(node, ast.Attribute) and node.attr == attr
            and isinstance(node.value, ast.Name) and node.value.id == 'self')


def with_lock_bodies(func, lockattr):
    """all `with self.<lockattr>:` statements inside func"""
    res = []
    for w in walk_type(func, ast.With):
        for item in w.items:
            if is_self_attr(item.context_expr, lockattr):
                res.append(w)
    return res


def contains(node, pred):
    return any(pred(n) for n in ast.walk(node))


def fingerprint(node):
    return hashlib.sha256(ast.dump(node, include_attributes=False).encode()).hexdigest()[:16]


# ---- Coq rendering helpers
def cnat(n):
    if not isinstance(n, int) or isinstance(n, bool) or n < 0 or n > 5000:
        raise Shape(f'not a small nat: {n!r}')
    return f'{n}%nat'


def cz(n):
    if not isinstance(n, int) or isinstance(n, bool):
        raise Shape(f'not an int: {n!r}')
    return f'({n})%Z'


def cbool(b):
    return 'true' if b else 'false'


def cstr(s):
    """python str -> list N of code points"""
    return '[' + '; '.join(f'{ord(c)}%N' for c in s) + ']'


def generate(prop):
    """run translator/facts_<prop>.py; returns (path, n_ok, failures)"""
    mod = importlib.import_module(f'translator.facts_{prop}')
    lines = [f'(* GENERATED from {REPO} by translator/facts_{prop}.py — do not edit *)',
             'From Coq Require Import List ZArith NArith Bool String.',
             'Import ListNotations.', '']
    ok = 0
    failures = []
    fps = {}
    for fact in mod.FACTS:
        name = fact.__name__
        try:
            typ, term = fact()
            lines.append(f'Definition {name} : {typ} := {term}.')
            ok += 1
        except Shape as e:
            failures.append((name, str(e)))
            lines.append(f'(* OMITTED {name}: {e} *)')
        except Exception as e:  # fail closed on anything
            failures.append((name, f'{type(e).__name__}: {e}'))
            lines.append(f'(* OMITTED {name}: {type(e).__name__} *)')
    for label, getter in getattr(mod, 'FINGERPRINTS', {}).items():
        try:
            fps[label] = fingerprint(getter())
        except Exception as e:
            fps[label] = f'missing: {e}'
    text = '\n'.join(lines) + '\n'
    os.makedirs(GEN_DIR, exist_ok=True)
    path = os.path.join(GEN_DIR, f'{prop}.v')
    old = None
    if os.path.exists(path):
        with open(path, encoding='utf-8') as f:
            old = f.read()
    if old != text:
        with open(path, 'w', encoding='utf-8') as f:
            f.write(text)
    return path, ok, failures, fps
