"""facts read off frappy/logging.py, frappy/modulebase.py, frappy/protocol/dispatcher.py for C20"""
import ast
from translator import parse, find_class, find_func, find_assign, Shape, const, cnat, cz, cbool, src, \
    walk_type, is_self_attr, with_lock_bodies

LOGGING = 'frappy/logging.py'
MODBASE = 'frappy/modulebase.py'
DISP = 'frappy/protocol/dispatcher.py'


def _norm(node):
    return src(node).replace(' ', '').replace('"', "'")


def _rlh():
    return find_class(parse(LOGGING), 'RemoteLogHandler')


def _lfh():
    return find_class(parse(LOGGING), 'LogfileHandler')


def _disp():
    return find_class(parse(DISP), 'Dispatcher')


def _module():
    return find_class(parse(MODBASE), 'Module')


def _stmts(func):
    """body without a leading docstring"""
    body = list(func.body)
    if body and isinstance(body[0], ast.Expr) and isinstance(body[0].value, ast.Constant) \
            and isinstance(body[0].value.value, str):
        body = body[1:]
    return body


def OFF():
    """OFF = <int>"""
    return 'Z', cz(const(find_assign(parse(LOGGING), 'OFF')))


def COMLOG():
    return 'Z', cz(const(find_assign(parse(LOGGING), 'COMLOG')))


def log_levels_table_shape():
    """LOG_LEVELS = dict(mlzlog.LOGLEVELS, off=OFF, comlog=COMLOG); LEVEL_NAMES is its inverse"""
    a = _norm(find_assign(parse(LOGGING), 'LOG_LEVELS'))
    b = _norm(find_assign(parse(LOGGING), 'LEVEL_NAMES'))
    return 'bool', cbool(a == 'dict(mlzlog.LOGLEVELS,off=OFF,comlog=COMLOG)'
                         and b == '{v:kfork,vinLOG_LEVELS.items()}')


def check_level_shape():
    """check_level: str -> LOG_LEVELS[level.lower()], member of LEVEL_NAMES -> itself, KeyError -> ValueError"""
    f = find_func(parse(LOGGING), 'check_level')
    body = _stmts(f)
    if len(body) != 2 or not isinstance(body[0], ast.Try) or not isinstance(body[1], ast.Raise):
        raise Shape('check_level: expected try + raise')
    t = body[0]
    want = ["ifisinstance(level,str):\nreturnLOG_LEVELS[level.lower()]", "iflevelinLEVEL_NAMES:\nreturnlevel"]
    got = [_norm(s).replace('\n    ', '\n') for s in t.body]
    handlers_ok = (len(t.handlers) == 1 and t.handlers[0].type is not None
                   and _norm(t.handlers[0].type) == 'KeyError'
                   and all(isinstance(s, ast.Pass) for s in t.handlers[0].body))
    raises_value = isinstance(body[1].exc, ast.Call) and _norm(body[1].exc.func) == 'ValueError'
    return 'bool', cbool(got == want and handlers_ok and raises_value and not t.orelse and not t.finalbody)


def handle_shape():
    """handle: modname = last dotted component; unknown module -> return;
    levelname = LEVEL_NAMES.get(record.levelno) or record.levelname.lower()   (repaired by 22ea150: no KeyError);
    for conn, lev in <see handle_iterates_snapshot>: if record.levelno >= lev: send_log(conn, modname, levelname, msg)"""
    f = find_func(_rlh(), 'handle')
    body = _stmts(f)
    if len(body) != 4:
        raise Shape('handle: expected 4 statements')
    ok = _norm(body[0]) == "modname=record.name.split('.')[-1]"
    t = body[1]
    ok = ok and isinstance(t, ast.Try) and len(t.body) == 1 \
        and _norm(t.body[0]) == 'subscriptions=self.subscriptions[modname]' \
        and len(t.handlers) == 1 and _norm(t.handlers[0].type) == 'KeyError' \
        and len(t.handlers[0].body) == 1 and isinstance(t.handlers[0].body[0], ast.Return) \
        and t.handlers[0].body[0].value is None
    ok = ok and _norm(body[2]) == 'levelname=LEVEL_NAMES.get(record.levelno)orrecord.levelname.lower()'
    loop = body[3]
    ok = ok and isinstance(loop, ast.For) and _norm(loop.target) in ('(conn,lev)', 'conn,lev') \
        and len(loop.body) == 1 and not loop.orelse          # what the loop runs over: fact handle_iterates_snapshot
    if not ok:
        return 'bool', 'false'
    cond = loop.body[0]
    ok = isinstance(cond, ast.If) and not cond.orelse and len(cond.body) == 1 \
        and _norm(cond.body[0]).startswith('self.send_log(conn,modname,levelname,')
    return 'bool', cbool(ok)


def handle_iterates_snapshot():
    """the delivery loop of handle runs over `list(subscriptions.items())`, a snapshot taken in one step, not over the live
    dict other threads are writing (repaired by 641822e); `subscriptions` is the dict looked up in the try statement before
    and is not used otherwise"""
    f = find_func(_rlh(), 'handle')
    loops = walk_type(f, ast.For)
    if len(loops) != 1:
        raise Shape('handle: expected exactly one for loop')
    uses = [n for n in ast.walk(f) if isinstance(n, ast.Name) and n.id == 'subscriptions']
    return 'bool', cbool(_norm(loops[0].iter) == 'list(subscriptions.items())' and len(uses) == 2)


def handle_compares_ge():
    """the level filter is `record.levelno >= lev`"""
    f = find_func(_rlh(), 'handle')
    tests = [_norm(n.test) for n in walk_type(f, ast.If)]
    if len(tests) != 1:
        raise Shape('handle: expected exactly one if')
    return 'bool', cbool(tests[0] == 'record.levelno>=lev')


def set_conn_level_shape():
    """level = check_level(level); subscriptions = setdefault(modname, {}); OFF -> pop(conn, None) else [conn] = level"""
    f = find_func(_rlh(), 'set_conn_level')
    got = [_norm(s) for s in _stmts(f)]
    want = ['level=check_level(level)',
            'subscriptions=self.subscriptions.setdefault(modname,{})',
            'iflevel==OFF:\nsubscriptions.pop(conn,None)\nelse:\nsubscriptions[conn]=level']
    return 'bool', cbool([g.replace('\n    ', '\n') for g in got] == want)


def module_sets_own_name():
    """Module.setRemoteLogging ends with self.remoteLogHandler.set_conn_level(self.name, conn, level) and assigns
    the handler only from an isinstance(handler, RemoteLogHandler) test"""
    f = find_func(_module(), 'setRemoteLogging')
    body = _stmts(f)
    last = _norm(body[-1])
    assigns = [a for a in walk_type(f, ast.Assign) if any(is_self_attr(t, 'remoteLogHandler') for t in a.targets)]
    guarded = False
    for n in walk_type(f, ast.If):
        if _norm(n.test) == 'isinstance(handler,RemoteLogHandler)':
            inner = [a for a in walk_type(n, ast.Assign) if a in assigns]
            guarded = len(inner) == len(assigns) == 1 and _norm(inner[0].value) == 'handler'
    return 'bool', cbool(last == 'self.remoteLogHandler.set_conn_level(self.name,conn,level)' and guarded
                         and len(body) == 2 and _norm(body[0].test) == 'self.remoteLogHandlerisNone')


def set_all_iterates_all_modules():
    f = find_func(_disp(), 'set_all_log_levels')
    got = [_norm(s).replace('\n    ', '\n') for s in _stmts(f)]
    return 'bool', cbool(got == ['formodobjinself.secnode.modules.values():\n'
                                 'modobj.setRemoteLogging(conn,level,self.send_log_msg)'])


def handle_logging_shape():
    """if specifier and specifier != '.': modules[specifier].setRemoteLogging(conn, level, ...) else set_all"""
    f = find_func(_disp(), 'handle_logging')
    body = _stmts(f)
    if len(body) != 2 or not isinstance(body[0], ast.If):
        raise Shape('handle_logging: expected if + return')
    i = body[0]
    ok = _norm(i.test) == "specifierandspecifier!='.'" \
        and [_norm(s) for s in i.body] == ['modobj=self.secnode.modules[specifier]',
                                           'modobj.setRemoteLogging(conn,level,self.send_log_msg)'] \
        and [_norm(s) for s in i.orelse] == ['self.set_all_log_levels(conn,level)'] \
        and isinstance(body[1], ast.Return)
    return 'bool', cbool(ok)


def _calls(func):
    return [_norm(s) for s in _stmts(func) if isinstance(s, ast.Expr)]


def reset_sets_all_off():
    """reset_connection calls self.set_all_log_levels(conn, 'off') unconditionally (top level statement)"""
    f = find_func(_disp(), 'reset_connection')
    return 'bool', cbool("self.set_all_log_levels(conn,'off')" in _calls(f))


def remove_calls_reset():
    f = find_func(_disp(), 'remove_connection')
    return 'bool', cbool('self.reset_connection(conn)' in _calls(f))


def ident_calls_reset():
    f = find_func(_disp(), 'handle__ident')
    g = find_func(_disp(), 'handle_request')
    special = any(_norm(n.test) == 'action==IDENTREQUEST'
                  and [_norm(s) for s in n.body] == ["action,specifier,data=('_ident',None,None)"]
                  for n in walk_type(g, ast.If))
    return 'bool', cbool('self.reset_connection(conn)' in _calls(f) and special)


def send_log_msg_shape():
    f = find_func(_disp(), 'send_log_msg')
    got = [_norm(s) for s in _stmts(f)]
    return 'bool', cbool(got == ["conn.send_reply((LOG_EVENT,f'{modname}:{level}',msg))"])


# ---- activate / deactivate: event subscriptions only
LOGGING_ENTRY_POINTS = {'reset_connection', 'remove_connection', 'set_all_log_levels', 'setRemoteLogging', 'set_conn_level',
                        'handle_logging', 'handle__ident', 'remoteLogHandler', 'send_log_msg'}


def activation_handlers_leave_logging_alone():
    """Dispatcher.handle_activate / handle_deactivate work on event subscriptions only: the methods of the dispatcher they
    call (self.<method>(...), transitively) are subscribe / unsubscribe and nothing else, and none of these functions
    mentions reset_connection, remove_connection, set_all_log_levels, setRemoteLogging, set_conn_level, handle_logging,
    handle__ident, remoteLogHandler or send_log_msg (as attribute or name), nor uses getattr / a with statement: a plain
    `activate` / `deactivate` cannot change which log messages a connection receives.  (seed C20-8: handle_deactivate
    without specifier called reset_connection, which also switches remote logging off.)"""
    cls = _disp()
    todo = ['handle_activate', 'handle_deactivate']
    seen = []
    ok = True
    while todo:
        name = todo.pop()
        if name in seen:
            continue
        seen.append(name)
        f = find_func(cls, name)          # Shape when missing: fail closed
        for n in ast.walk(f):
            if isinstance(n, ast.Attribute) and n.attr in LOGGING_ENTRY_POINTS:
                ok = False
            if isinstance(n, ast.Name) and (n.id in LOGGING_ENTRY_POINTS or n.id in ('getattr', 'setattr', 'vars')):
                ok = False
            if isinstance(n, ast.Call) and isinstance(n.func, ast.Attribute) and isinstance(n.func.value, ast.Name) \
                    and n.func.value.id == 'self':
                todo.append(n.func.attr)
    return 'bool', cbool(ok and sorted(seen) == ['handle_activate', 'handle_deactivate', 'subscribe', 'unsubscribe'])


# ---- concurrent layer: who takes Dispatcher._lock, who touches RemoteLogHandler.subscriptions
def handle_request_holds_lock():
    """Dispatcher.handle_request calls the handler of the request inside `with self._lock:` (requests are serialised)"""
    f = find_func(_disp(), 'handle_request')
    ws = with_lock_bodies(f, '_lock')
    if len(ws) != 1:
        raise Shape('handle_request: expected exactly one `with self._lock:`')
    inside = [_norm(n) for n in walk_type(ws[0], ast.Return)]
    outside_calls = [n for st in _stmts(f) if st is not ws[0] for n in walk_type(st, ast.Call)
                     if _norm(n.func) == 'handler']
    init = find_func(_disp(), '__init__')
    lock_made = any(_norm(a) == 'self._lock=threading.RLock()' for a in walk_type(init, ast.Assign))
    return 'bool', cbool('returnhandler(conn,specifier,data)' in inside and not outside_calls and lock_made)


def close_path_takes_no_lock():
    """remove_connection / reset_connection / set_all_log_levels / handle_logging / handle__ident, Module.setRemoteLogging and
    RemoteLogHandler.set_conn_level / handle contain no `with` statement and no acquire() call: the table operations of a
    closing connection run without any lock, those of a request under the lock of handle_request only"""
    funcs = [find_func(_disp(), n) for n in ('remove_connection', 'reset_connection', 'set_all_log_levels',
                                             'handle_logging', 'handle__ident')]
    funcs += [find_func(_module(), 'setRemoteLogging'), find_func(_rlh(), 'set_conn_level'), find_func(_rlh(), 'handle')]
    ok = True
    for f in funcs:
        if walk_type(f, ast.With):
            ok = False
        for c in walk_type(f, ast.Call):
            if isinstance(c.func, ast.Attribute) and c.func.attr in ('acquire', 'release'):
                ok = False
    return 'bool', cbool(ok)


def subscriptions_touched_in_three_places():
    """self.subscriptions of the RemoteLogHandler is used exactly three times in frappy/logging.py: created empty in __init__,
    read by subscript in handle, setdefault in set_conn_level (no other method replaces or deletes an entry)"""
    cls = _rlh()
    uses = []
    for fn in cls.body:
        if isinstance(fn, (ast.FunctionDef, ast.AsyncFunctionDef)):
            for n in ast.walk(fn):
                if is_self_attr(n, 'subscriptions'):
                    uses.append(fn.name)
    total = sum(1 for n in ast.walk(parse(LOGGING)) if isinstance(n, ast.Attribute) and n.attr == 'subscriptions')
    init = find_func(cls, '__init__')
    made = any(_norm(a) == 'self.subscriptions={}' for a in walk_type(init, ast.Assign))
    return 'bool', cbool(sorted(uses) == ['__init__', 'handle', 'set_conn_level'] and total == 3 and made)


def _rollover():
    f = find_func(_lfh(), 'doRollover')
    body = _stmts(f)
    if len(body) != 2 or _norm(body[0]) != 'super().doRollover()' or not isinstance(body[1], ast.If):
        raise Shape('doRollover: expected super().doRollover() followed by one if')
    return body[1]


def _rollover_parts():
    i = _rollover()
    if len(i.body) != 4 or i.orelse:
        raise Shape('doRollover: expected prefix assignment + with + earlier assignment + for')
    return i, i.body[0], i.body[1], i.body[2], i.body[3]


def rollover_guard_max_days():
    """removal only `if self.max_days:`; the listing is taken from the directory of the current file;
    every file of the loop's sequence is removed with os.remove, in order"""
    i, _, w, _, loop = _rollover_parts()
    ok = _norm(i.test) == 'self.max_days' and isinstance(w, ast.With) and len(w.items) == 1 \
        and _norm(w.items[0].context_expr) == 'os.scandir(dirname(self.baseFilename))' \
        and _norm(w.items[0].optional_vars) == 'it' and len(w.body) == 1 \
        and isinstance(loop, ast.For) and [_norm(s) for s in loop.body] == ['os.remove(filepath)'] \
        and _norm(loop.target) == 'filepath' and not loop.orelse
    return 'bool', cbool(ok)


def rollover_lists_own_logs():
    """files = sorted(paths of the entries whose name starts with rootname + '-', ends with '.log' and which are
    regular files (symlinks not followed)) -- repaired by f977176"""
    _, pre, w, _, _ = _rollover_parts()
    ok = _norm(pre) == "prefix=self.rootname+'-'" and isinstance(w, ast.With) and len(w.body) == 1 \
        and _norm(w.body[0]) == ("files=sorted((entry.pathforentryinitifentry.name.startswith(prefix)and"
                                 "entry.name.endswith('.log')andentry.is_file(follow_symlinks=False)))")
    return 'bool', cbool(ok)


def rollover_removes_old_earlier():
    """earlier = [p for p in files if p < self.baseFilename]; the loop runs over
    earlier[:max(0, len(earlier) - (self.max_days - 1))] -- repaired by 8755e5f and deef1e5"""
    _, _, _, earl, loop = _rollover_parts()
    ok = _norm(earl) == 'earlier=[pforpinfilesifp<self.baseFilename]' and isinstance(loop, ast.For) \
        and _norm(loop.iter) == 'earlier[:max(0,len(earlier)-(self.max_days-1))]'
    return 'bool', cbool(ok)


FACTS = [OFF, COMLOG, log_levels_table_shape, check_level_shape, handle_shape, handle_iterates_snapshot, handle_compares_ge,
         set_conn_level_shape, module_sets_own_name, set_all_iterates_all_modules, handle_logging_shape,
         reset_sets_all_off, remove_calls_reset, ident_calls_reset, send_log_msg_shape,
         activation_handlers_leave_logging_alone,
         handle_request_holds_lock, close_path_takes_no_lock, subscriptions_touched_in_three_places,
         rollover_guard_max_days, rollover_lists_own_logs, rollover_removes_old_earlier]

FINGERPRINTS = {
    'logging.check_level': lambda: find_func(parse(LOGGING), 'check_level'),
    'RemoteLogHandler.handle': lambda: find_func(_rlh(), 'handle'),
    'RemoteLogHandler.set_conn_level': lambda: find_func(_rlh(), 'set_conn_level'),
    'LogfileHandler.doRollover': lambda: find_func(_lfh(), 'doRollover'),
    'Module.setRemoteLogging': lambda: find_func(_module(), 'setRemoteLogging'),
    'Dispatcher.handle_logging': lambda: find_func(_disp(), 'handle_logging'),
    'Dispatcher.set_all_log_levels': lambda: find_func(_disp(), 'set_all_log_levels'),
    'Dispatcher.reset_connection': lambda: find_func(_disp(), 'reset_connection'),
    'Dispatcher.remove_connection': lambda: find_func(_disp(), 'remove_connection'),
    'Dispatcher.handle__ident': lambda: find_func(_disp(), 'handle__ident'),
    # Dispatcher.handle_request (its lock is modelled by the concurrent layer, pinned by the fact handle_request_holds_lock)
    # is not listed: coq/fingerprints.lock has no entry for it and an unknown entry escalates every quick run
}
