"""facts read off frappy/{modulebase,params,properties,config,secnode,server}.py for C10 (configuration)"""
import ast
import math
from translator import parse, find_class, find_func, Shape, const, cz, cbool, cstr, src, walk_type, is_self_attr

MB = 'frappy/modulebase.py'
PA = 'frappy/params.py'
PR = 'frappy/properties.py'
CF = 'frappy/config.py'
SN = 'frappy/secnode.py'
SV = 'frappy/server.py'
DT = 'frappy/datatypes.py'


def _module():
    return find_class(parse(MB), 'Module')


def _strlist(names):
    return '[' + '; '.join(cstr(n) for n in names) + ']'


def _fpair(x):
    """python number -> exact (m, e) with x = m * 2^e"""
    x = float(x)
    if x == 0:
        return (0, 0)
    m, e = math.frexp(x)
    mi = int(m * (1 << 53))
    ee = e - 53
    while mi % 2 == 0:
        mi //= 2
        ee += 1
    return (mi, ee)


def _property_assigns(cls):
    """[(name, Call node)] for `name = Property(...)` in the class body, in order"""
    res = []
    for node in cls.body:
        if isinstance(node, ast.Assign) and len(node.targets) == 1 and isinstance(node.targets[0], ast.Name) \
                and isinstance(node.value, ast.Call) and isinstance(node.value.func, ast.Name) \
                and node.value.func.id == 'Property':
            res.append((node.targets[0].id, node.value))
    return res


def _kw(call, name):
    for k in call.keywords:
        if k.arg == name:
            return k.value
    return None


def _mandatory(call):
    """Property.__init__: mandatory defaults to `default is UNSET`"""
    m = _kw(call, 'mandatory')
    if m is not None:
        return bool(const(m))
    return _kw(call, 'default') is None


def _callname(node):
    if isinstance(node, ast.Call) and isinstance(node.func, ast.Name):
        return node.func.id
    return None


def _ptype(node):
    """datatype expression of a Property -> (kind, [float args as (m,e)])
    kinds: 0 bool, 1 string, 2 text, 3 visibility enum, 4 float(min,max), 5 NoneOr(string), 6 NoneOr(float: call only),
           7 OrType(bool,string), 9 not modelled"""
    n = _callname(node)
    if n == 'BoolType' and not node.args and not node.keywords:
        return 0, []
    if n == 'StringType' and not node.args and not node.keywords:
        return 1, []
    if n == 'TextType' and not node.args and not node.keywords:
        return 2, []
    if n == 'EnumType':
        if src(node).replace(' ', '').replace('"', "'") == "EnumType('visibility',user=1,advanced=2,expert=3)":
            return 3, []
        return 9, []
    if n == 'FloatRange' and len(node.args) == 2 and not node.keywords:
        return 4, [_fpair(const(node.args[0])), _fpair(const(node.args[1]))]
    if n == 'NoneOr' and len(node.args) == 1:
        inner = _callname(node.args[0])
        if inner == 'StringType' and not node.args[0].args and not node.args[0].keywords:
            return 5, []
        if inner == 'FloatRange':
            return 6, []
        if inner == 'BoolType':
            return 8, []
        return 9, []
    if n == 'OrType' and [_callname(a) for a in node.args] == ['BoolType', 'StringType'] \
            and not any(a.args or a.keywords for a in node.args):
        return 7, []
    return 9, []


def _ptable(cls):
    rows = []
    for name, call in _property_assigns(cls):
        if len(call.args) < 2:
            raise Shape(f'Property {name}: datatype is not the second positional argument')
        kind, fl = _ptype(call.args[1])
        rows.append('(%s, %d%%nat, [%s], %s)' % (cstr(name), kind, '; '.join(f'({cz(m)}, {cz(e)})' for m, e in fl),
                                                cbool(_mandatory(call))))
    if not rows:
        raise Shape('no Property assignments found')
    return 'list (list N * nat * list (Z * Z) * bool)', '[' + ';\n   '.join(rows) + ']'


def module_props():
    """the Property table of class Module: (name, type kind, float args, mandatory) in class body order"""
    return _ptable(_module())


def param_props():
    """the Property table of class Parameter"""
    return _ptable(find_class(parse(PA), 'Parameter'))


def command_props():
    return _ptable(find_class(parse(PA), 'Command'))


def _add_accessible():
    return find_func(_module(), '_add_accessible')


def _cfg_try():
    f = _add_accessible()
    tries = [t for t in walk_type(f, ast.Try)]
    if len(tries) != 1:
        raise Shape('_add_accessible: expected exactly one try statement')
    return tries[0]


def checked_value_props():
    """since 8b6cdcd: the SECOND loop of the try block, `for propname in ('value', 'default', 'constant'):
    if propname in cfg: accessible.datatype(cfg[propname])` - the names in the order of the tuple"""
    body = _cfg_try().body
    if len(body) != 2 or not all(isinstance(n, ast.For) for n in body):
        raise Shape('_add_accessible: the try block is not exactly two for loops')
    loop = body[1]
    if not (isinstance(loop.target, ast.Name) and loop.target.id == 'propname' and isinstance(loop.iter, ast.Tuple)
            and not loop.orelse and len(loop.body) == 1 and isinstance(loop.body[0], ast.If)):
        raise Shape('_add_accessible: second loop is not `for propname in (<names>): if ...`')
    test = loop.body[0]
    if src(test.test).replace(' ', '') != 'propnameincfg' or test.orelse or len(test.body) != 1 or \
            src(test.body[0]).replace(' ', '') != 'accessible.datatype(cfg[propname])':
        raise Shape('datatype check of value/default/constant not found in the second loop')
    return 'list (list N)', _strlist([const(e) for e in loop.iter.elts])


def properties_applied_before_value_checks():
    """since 8b6cdcd: the try block of _add_accessible is exactly (1) `for propname, propvalue in cfg.items():
    accessible.setProperty(propname, propvalue)` - nothing else in the body, in particular no datatype check - and
    (2) the loop of checked_value_props: value, default and constant are checked by the datatype AFTER all properties of
    the entry (which may change the datatype) are applied, whatever the order of the dict"""
    body = _cfg_try().body
    if len(body) != 2 or not all(isinstance(n, ast.For) for n in body):
        raise Shape('_add_accessible: the try block is not exactly two for loops')
    first = body[0]
    ok = src(first.iter).replace(' ', '') == 'cfg.items()' and \
        src(first.target).replace(' ', '') in ('propname,propvalue', '(propname,propvalue)') and not first.orelse and \
        [src(n).replace(' ', '') for n in first.body] == ['accessible.setProperty(propname,propvalue)']
    ok = ok and src(_add_accessible()).count('accessible.datatype(') == 1
    return 'bool', cbool(ok)


def _handlers(f):
    tries = [t for t in walk_type(f, ast.Try)]
    if len(tries) != 1:
        raise Shape('expected exactly one try statement')
    res = []
    for h in tries[0].handlers:
        if h.type is None:
            res.append('*')
        elif isinstance(h.type, ast.Tuple):
            res.extend(src(e) for e in h.type.elts)
        else:
            res.append(src(h.type))
    return tries[0], res


def add_accessible_catches_exactly_key_and_badvalue():
    """the cfg loop of _add_accessible catches KeyError (-> has no property) and BadValueError, nothing else;
    the loop applies every property with accessible.setProperty"""
    t, hs = _handlers(_add_accessible())
    loop = [n for n in t.body if isinstance(n, ast.For)]
    ok = sorted(hs) == ['BadValueError', 'KeyError'] and len(loop) == 2 and \
        'accessible.setProperty(propname,propvalue)' in src(loop[0]).replace(' ', '') and \
        all('self.errors.append' in src(h) for h in t.handlers)
    return 'bool', cbool(ok)


def param_setproperty_wraps_badvalue():
    """Parameter.setProperty: BadValueError -> ProgrammingError; unknown datatype property (KeyError) -> ProgrammingError"""
    f = find_func(find_class(parse(PA), 'Parameter'), 'setProperty')
    s = src(f).replace(' ', '')
    ok = 'exceptBadValueErrorase:' in s and 'exceptKeyError:' in s and s.count('raiseProgrammingError') == 2 and \
        'ifkeyinself.propertyDict:' in s and 'self.datatype.setProperty(key,value)' in s
    return 'bool', cbool(ok)


def _init():
    return find_func(_module(), '__init__')


def checks_only_without_errors_and_raise():
    """Module.__init__: `if not self.errors:` guards checkProperties; the last statement is
    `if self.errors: raise ConfigError(self.errors)`"""
    f = _init()
    last = f.body[-1]
    ok_last = isinstance(last, ast.If) and src(last.test) == 'self.errors' and \
        src(last.body[0]).replace(' ', '') == 'raiseConfigError(self.errors)'
    guard = [n for n in f.body if isinstance(n, ast.If) and src(n.test) == 'not self.errors']
    ok_guard = len(guard) == 1 and 'self.checkProperties()' in src(guard[0]) and 'aobj.checkProperties()' in src(guard[0])
    return 'bool', cbool(ok_last and ok_guard)


def unknown_names_reported():
    """`if cfgdict: self.errors.append(... does not exist ...)` after the accessibles loop"""
    f = _init()
    hit = [n for n in f.body if isinstance(n, ast.If) and src(n.test) == 'cfgdict']
    ok = len(hit) == 1 and 'self.errors.append' in src(hit[0]) and 'does not exist' in src(hit[0])
    return 'bool', cbool(ok)


def module_props_popped_and_badvalue_collected():
    """`for key in self.propertyDict: value = cfgdict.pop(key, None)` ... except BadValueError: self.errors.append"""
    f = _init()
    loops = [n for n in f.body if isinstance(n, ast.For) and src(n.iter) == 'self.propertyDict']
    if len(loops) != 1:
        raise Shape('module property loop not found')
    s = src(loops[0]).replace(' ', '')
    ok = 'value=cfgdict.pop(key,None)' in s and 'ifvalueisnotNone:' in s and "self.setProperty(key,value['value'])" in s \
        and 'exceptBadValueError:' in s and 'self.errors.append' in s
    return 'bool', cbool(ok)


def writedict_only_with_write_method():
    """_handle_writes: `if hasattr(self, 'write_' + pname): self.writeDict[pname] = pobj.value` in the given-value branch"""
    f = find_func(_module(), '_handle_writes')
    s = src(f).replace(' ', '')
    ok = "ifhasattr(self,'write_'+pname):\nself.writeDict[pname]=pobj.value" in s.replace('\n' + ' ' * 0, '\n') or \
        any(isinstance(n, ast.If) and src(n.test).replace(' ', '') == "hasattr(self,'write_'+pname)"
            and src(n.body[0]).replace(' ', '') == 'self.writeDict[pname]=pobj.value' for n in walk_type(f, ast.If))
    n_assign = s.count('self.writeDict[')
    return 'bool', cbool(ok and n_assign == 1)


def needscfg_and_uninit_marker():
    """_handle_writes: value None -> needscfg error, default None -> readerror marker + datatype default"""
    f = find_func(_module(), '_handle_writes')
    s = src(f).replace(' ', '')
    ok = 'ifpobj.valueisNone:' in s and 'ifpobj.needscfg:' in s and 'pobj.default=pobj.datatype.default' in s and \
        'pobj.readerror=ConfigError(' in s and 'pobj.value=pobj.default' in s and 'setattr(self,pname,pobj.value)' in s
    return 'bool', cbool(ok)


def writes_before_first_polls():
    """__pollThread: inside the try block, the loop calling writeInitParams()/initialReads() for all modules
    comes before the loop doing the first polls"""
    f = find_func(_module(), '__pollThread')
    tries = [t for t in walk_type(f, ast.Try)]
    for t in tries:
        loops = [n for n in t.body if isinstance(n, ast.For)]
        if len(loops) == 2:
            a, b = (src(x).replace(' ', '') for x in loops)
            ok = 'mobj.writeInitParams()' in a and 'mobj.initialReads()' in a and \
                a.index('mobj.writeInitParams()') < a.index('mobj.initialReads()') and \
                'callPollFunc(rfunc' in b and 'writeInitParams' not in b
            return 'bool', cbool(ok)
    raise Shape('startup loops of __pollThread not found')


def write_init_fetches_value_at_time_of_use():
    """writeInitParams iterates over the NAMES of a snapshot (`for pname in list(self.writeDict):`) and fetches the value
    at the time of use: the first statement of the loop body is `value = self.writeDict.pop(pname, Done)`, everything
    else happens inside `if value is not Done:` (an entry consumed meanwhile by a write method is skipped), with exactly
    one `wfunc(value)` call; `value` is bound nowhere else and writeDict is not touched otherwise"""
    f = find_func(_module(), 'writeInitParams')
    loops = [n for n in f.body if isinstance(n, ast.For)]
    if len(loops) != 1:
        raise Shape('writeInitParams: expected exactly one for loop')
    loop = loops[0]
    nosp = lambda n: src(n).replace(' ', '')
    body = loop.body
    ok = isinstance(loop.target, ast.Name) and loop.target.id == 'pname' and nosp(loop.iter) == 'list(self.writeDict)' \
        and not loop.orelse
    ok = ok and len(body) == 2 and nosp(body[0]) == 'value=self.writeDict.pop(pname,Done)' \
        and isinstance(body[1], ast.If) and nosp(body[1].test) == 'valueisnotDone' and not body[1].orelse
    ok = ok and nosp(f).count('wfunc(value)') == 1 and 'wfunc(value)' in nosp(body[1])
    stores = [n for n in ast.walk(f) if isinstance(n, ast.Name) and n.id in ('value', 'pname')
              and isinstance(n.ctx, ast.Store)]
    ok = ok and len(stores) == 2 and nosp(f).count('self.writeDict') == 2
    # nothing but the loop (and the docstring) in the function
    rest = [n for n in f.body if n is not loop and not (isinstance(n, ast.Expr) and isinstance(n.value, ast.Constant))]
    ok = ok and not rest
    return 'bool', cbool(ok)


def minmax_check_present():
    """HasProperties.checkProperties: for min* properties `if minval > maxval: raise ConfigError`"""
    f = find_func(find_class(parse(PR), 'HasProperties'), 'checkProperties')
    s = src(f).replace(' ', '')
    ok = "ifpn.startswith('min'):" in s and "maxname='max'+pn[3:]" in s and 'ifminval>maxval:\nraiseConfigError' in \
        '\n'.join(x.strip() for x in src(f).split('\n')).replace(' ', '')
    return 'bool', cbool(ok)


def mandatory_check_present():
    f = find_func(find_class(parse(PR), 'HasProperties'), 'checkProperties')
    s = src(f).replace(' ', '')
    ok = 'ifpo.mandatory:' in s and 'except(KeyError,BadValueError):' in s and 'raiseConfigError' in s
    return 'bool', cbool(ok)


def numeric_datatypes_check_properties():
    """FloatRange, IntRange, ScaledInteger.checkProperties call super().checkProperties() (the min<=max test);
    Parameter.checkProperties calls self.datatype.checkProperties()"""
    t = parse(DT)
    ok = True
    for cn in ('FloatRange', 'IntRange', 'ScaledInteger'):
        f = find_func(find_class(t, cn), 'checkProperties')
        ok = ok and 'super().checkProperties()' in src(f)
    f = find_func(find_class(parse(PA), 'Parameter'), 'checkProperties')
    ok = ok and 'self.datatype.checkProperties()' in src(f) and 'super().checkProperties()' in src(f)
    return 'bool', cbool(ok)


def array_check_descends_into_members():
    """ArrayOf.checkProperties also checks the element type (min/max forwarded by ArrayOf.setProperty)"""
    f = find_func(find_class(parse(DT), 'ArrayOf'), 'checkProperties')
    s = src(f).replace(' ', '')
    return 'bool', cbool('super().checkProperties()' in s and 'self.members.checkProperties()' in s)


def name_map_filled_after_cfg():
    """_add_accessible: cfg properties applied first; then hiding for an unexported module, fixExport(), a duplicate
    export name is collected as error, accessiblename2attr[export] = name; _handle_writes last"""
    f = _add_accessible()
    idx = {}
    for i, n in enumerate(f.body):
        s = src(n).replace(' ', '')
        if s.startswith('ifcfgisnotNone:'):
            idx['cfg'] = i
        if s.startswith('ifnotself.export:') and 'accessible.export=False' in s:
            idx['hide'] = i
        if s == 'accessible.fixExport()':
            idx['fix'] = i
        if s.startswith('ifaccessible.export:') and 'self.accessiblename2attr[accessible.export]=name' in s:
            idx['map'] = i
            if not ('ifaccessible.exportinself.accessiblename2attr:' in s and 'self.errors.append' in s):
                raise Shape('duplicate export name is not collected as error')
        if 'self._handle_writes(name,accessible)' in s:
            idx['hw'] = i
    if sorted(idx) != ['cfg', 'fix', 'hide', 'hw', 'map']:
        raise Shape(f'_add_accessible: found only {sorted(idx)}')
    ok = idx['cfg'] < idx['hide'] < idx['fix'] < idx['map'] < idx['hw'] and \
        sum('accessiblename2attr[' in src(n) and '=name' in src(n).replace(' ', '') for n in f.body) == 1
    return 'bool', cbool(ok)


def all_modules_initialised():
    """Server._processCfg: after get_descriptive_data('') every module of secnode.modules is fetched with get_module"""
    f = find_func(find_class(parse(SV), 'Server'), '_processCfg')
    pos = None
    for i, n in enumerate(f.body):
        if "self.secnode.get_descriptive_data('')" in src(n):
            pos = i
    if pos is None:
        raise Shape('get_descriptive_data call not found')
    ok = any(isinstance(n, ast.For) and src(n.iter).replace(' ', '') == 'list(self.secnode.modules)'
             and 'self.secnode.get_module(modname)' in src(n) for n in f.body[pos + 1:pos + 3])
    return 'bool', cbool(ok)


def registers_only_created():
    """SecNode.get_module_instance: ConfigError and any other exception of the constructor set modobj = None and append
    to self.errors; `if modobj: self.add_module(...)`"""
    f = find_func(find_class(parse(SN), 'SecNode'), 'get_module_instance')
    s = src(f).replace(' ', '')
    ok = 'exceptConfigErrorase:' in s and "self.errors.append(f'errorcreatingmodule{modulename}:')" in s and \
        "self.errors.append(f'errorcreating{modulename}')" in s and s.count('modobj=None') == 2 and \
        'ifmodobj:\nself.add_module(modobj,modulename)' in '\n'.join(x.strip() for x in src(f).split('\n')).replace(' ', '')
    return 'bool', cbool(ok)


def exit_on_errors():
    """Server._processCfg: errors = self.secnode.errors ... if errors: ... sys.exit(1)"""
    f = find_func(find_class(parse(SV), 'Server'), '_processCfg')
    ifs = [n for n in f.body if isinstance(n, ast.If) and src(n.test) == 'errors']
    ok = len(ifs) == 1 and 'sys.exit(1)' in src(ifs[0]) and 'errors = self.secnode.errors' in src(f)
    # nothing after create_modules removes entries from the error list
    ok = ok and 'errors.clear' not in src(f) and 'errors = []' in src(f)
    return 'bool', cbool(ok)


def merge_first_wins_and_tags():
    """Config.merge_modules: `if name not in self.module_names:` add + `mod['original_id'] = equipment_id`"""
    f = find_func(find_class(parse(CF), 'Config'), 'merge_modules')
    s = src(f).replace(' ', '')
    ok = 'ifnamenotinself.module_names:' in s and 'self[name]=mod' in s and "mod['original_id']=equipment_id" in s and \
        "equipment_id=other['node']['equipment_id']" in s and "ifname=='node':" in s
    return 'bool', cbool(ok)


def modname_regex():
    """the module name check of Mod: r'^[a-zA-Z]\\w{0,62}$' with re.ASCII -> max number of characters after the first"""
    f = find_func(find_class(parse(CF), 'Mod'), '__init__')
    for c in walk_type(f, ast.Call):
        if src(c.func) == 're.match':
            pat = const(c.args[0])
            if pat == r'^[a-zA-Z]\w{0,62}$' and len(c.args) == 3 and src(c.args[2]) == 're.ASCII':
                return 'nat', '62%nat'
            raise Shape(f'unexpected module name pattern {pat!r}')
    raise Shape('re.match not found in Mod.__init__')


def mod_wraps_bare_values():
    """Mod.__init__: Param kept, Group collected, anything else wrapped by Param(val); group members tagged"""
    f = find_func(find_class(parse(CF), 'Mod'), '__init__')
    s = src(f).replace(' ', '')
    ok = 'ifisinstance(val,Param):' in s and 'elifisinstance(val,Group):' in s and 'self[key]=Param(val)' in s and \
        "self[member]['group']=group" in s
    f2 = find_func(find_class(parse(CF), 'Param'), '__init__')
    ok = ok and "kwds['value']=value" in src(f2).replace(' ', '')
    return 'bool', cbool(ok)


def unlimited():
    v = None
    for node in parse(DT).body:
        if isinstance(node, ast.Assign) and isinstance(node.targets[0], ast.Name) and node.targets[0].id == 'UNLIMITED':
            v = eval(compile(ast.Expression(node.value), '<c10>', 'eval'), {})  # `1 << 64`: literal arithmetic only
            if not all(isinstance(n, (ast.BinOp, ast.Constant, ast.LShift, ast.Pow, ast.Mult)) for n in ast.walk(node.value)):
                raise Shape('UNLIMITED is not literal arithmetic')
    if v is None:
        raise Shape('UNLIMITED not found')
    return 'Z', cz(v)


def _int_const(node, names):
    """literal int expression; the names DEFAULT_MAX_INT / UNLIMITED are looked up among the module-level assignments"""
    if isinstance(node, ast.Name) and node.id in names:
        return names[node.id]
    if isinstance(node, ast.UnaryOp) and isinstance(node.op, ast.USub):
        return -_int_const(node.operand, names)
    v = const(node)
    if not isinstance(v, int) or isinstance(v, bool):
        raise Shape(f'not an int literal: {src(node)}')
    return v


def _module_ints():
    names = {}
    for node in parse(DT).body:
        if isinstance(node, ast.Assign) and len(node.targets) == 1 and isinstance(node.targets[0], ast.Name) \
                and node.targets[0].id in ('DEFAULT_MIN_INT', 'DEFAULT_MAX_INT', 'UNLIMITED'):
            if not all(isinstance(n, (ast.BinOp, ast.UnaryOp, ast.USub, ast.Constant, ast.LShift, ast.Pow, ast.Mult,
                                      ast.Load)) for n in ast.walk(node.value)):
                raise Shape(f'{node.targets[0].id} is not literal arithmetic')
            names[node.targets[0].id] = eval(compile(ast.Expression(node.value), '<c10>', 'eval'), {})
    return names


def _intrange_bounds(node, names):
    """`IntRange(lo[, hi])` as written for a Property -> (lo, hi); IntRange.__init__ fills a missing max with
    DEFAULT_MAX_INT (checked on the constructor)"""
    if _callname(node) != 'IntRange' or node.keywords or not 1 <= len(node.args) <= 2:
        raise Shape(f'expected IntRange(lo[, hi]), found {src(node)}')
    init = find_func(find_class(parse(DT), 'IntRange'), '__init__')
    if 'max=DEFAULT_MAX_INTifmaxisNoneelsemax' not in src(init).replace(' ', ''):
        raise Shape('IntRange.__init__: default of max is not DEFAULT_MAX_INT')
    lo = _int_const(node.args[0], names)
    hi = _int_const(node.args[1], names) if len(node.args) == 2 else names['DEFAULT_MAX_INT']
    return lo, hi


def dt_length_props():
    """the length properties of the datatypes whose conversion depends on them: (class, property, lo, hi) of
    StringType.minchars/maxchars, BLOBType.minbytes/maxbytes, ArrayOf.minlen/maxlen - each `Property(..., IntRange(..))`;
    HasProperties.setProperty stores `self.propertyDict[key].datatype.validate(value)`"""
    names = _module_ints()
    t = parse(DT)
    rows = []
    for cn, props in (('StringType', ('minchars', 'maxchars')), ('BLOBType', ('minbytes', 'maxbytes')),
                      ('ArrayOf', ('minlen', 'maxlen'))):
        table = dict(_property_assigns(find_class(t, cn)))
        for pn in props:
            if pn not in table or len(table[pn].args) < 2:
                raise Shape(f'{cn}.{pn}: Property with a datatype not found')
            lo, hi = _intrange_bounds(table[pn].args[1], names)
            rows.append(f'({cstr(cn)}, {cstr(pn)}, {cz(lo)}, {cz(hi)})')
    f = find_func(find_class(parse(PR), 'HasProperties'), 'setProperty')
    body = [n for n in f.body if not (isinstance(n, ast.Expr) and isinstance(n.value, ast.Constant))]
    if len(body) != 1 or src(body[0]).replace(' ', '') != \
            'self.propertyValues[key]=self.propertyDict[key].datatype.validate(value)':
        raise Shape('HasProperties.setProperty does not validate with the datatype of the property')
    return 'list (list N * list N * Z * Z)', '[' + ';\n   '.join(rows) + ']'


def string_isutf8_is_bool():
    """StringType.isUTF8 = Property(..., Stub('BoolType'), ...) and Stub.fix_datatypes() is called at module level (the
    stub is replaced by BoolType()); StringType/BLOBType define no setProperty of their own; ArrayOf.setProperty sets
    its own properties and forwards every other key to the element type"""
    t = parse(DT)
    table = dict(_property_assigns(find_class(t, 'StringType')))
    ok = 'isUTF8' in table and len(table['isUTF8'].args) >= 2 and \
        src(table['isUTF8'].args[1]).replace('"', "'") == "Stub('BoolType')"
    ok = ok and any(isinstance(n, ast.Expr) and src(n).replace(' ', '') == 'Stub.fix_datatypes()' for n in t.body)
    for cn in ('StringType', 'BLOBType'):
        ok = ok and not any(isinstance(n, ast.FunctionDef) and n.name == 'setProperty' for n in find_class(t, cn).body)
    f = find_func(find_class(t, 'ArrayOf'), 'setProperty')
    body = [n for n in f.body if not (isinstance(n, ast.Expr) and isinstance(n.value, ast.Constant))]
    ok = ok and len(body) == 1 and isinstance(body[0], ast.If) and \
        src(body[0].test).replace(' ', '') == 'keyinself.propertyDict' and \
        [src(n).replace(' ', '') for n in body[0].body] == ['super().setProperty(key,value)'] and \
        [src(n).replace(' ', '') for n in body[0].orelse] == ['self.members.setProperty(key,value)']
    return 'bool', cbool(ok)


def length_datatypes_check_properties():
    """StringType, BLOBType, ArrayOf.checkProperties call super().checkProperties(): the `min* <= max*` test of
    HasProperties.checkProperties covers minchars/maxchars, minbytes/maxbytes, minlen/maxlen"""
    t = parse(DT)
    ok = True
    for cn in ('StringType', 'BLOBType', 'ArrayOf'):
        f = find_func(find_class(t, cn), 'checkProperties')
        ok = ok and 'super().checkProperties()' in src(f)
    return 'bool', cbool(ok)


def param_value_appended_after_overrides():
    """config.Param.__init__(self, value=Undef, **kwds): exactly `if value is not Undef: kwds['value'] = value` followed
    by `super().__init__(**kwds)`: the dict holds the keyword overrides in the order they are written and `value` LAST
    (Module._add_accessible walks the items in dict order: the value is checked by the datatype with all overrides of the
    same Param applied).  Any other way of building the dict (e.g. dict(value=value, **kwds)) breaks this fact."""
    cls = find_class(parse(CF), 'Param')
    ok = [src(b) for b in cls.bases] == ['dict']
    f = find_func(cls, '__init__')
    a = f.args
    ok = ok and [x.arg for x in a.args] == ['self', 'value'] and len(a.defaults) == 1 and src(a.defaults[0]) == 'Undef' \
        and a.vararg is None and not a.kwonlyargs and not a.posonlyargs and a.kwarg is not None and a.kwarg.arg == 'kwds'
    body = [n for n in f.body if not (isinstance(n, ast.Expr) and isinstance(n.value, ast.Constant))]
    ok = ok and len(body) == 2
    if ok:
        first, second = body
        ok = isinstance(first, ast.If) and src(first.test) == 'value is not Undef' and not first.orelse and \
            [src(n).replace(' ', '') for n in first.body] == ["kwds['value']=value"]
        ok = ok and isinstance(second, ast.Expr) and src(second).replace(' ', '') == 'super().__init__(**kwds)'
    # nothing else of the class touches the items (no __setitem__/__iter__/items override)
    ok = ok and [n.name for n in cls.body if isinstance(n, ast.FunctionDef)] == ['__init__']
    return 'bool', cbool(ok)


def float_default_relres():
    """default of FloatRange.relative_resolution as exact (m, e)"""
    cls = find_class(parse(DT), 'FloatRange')
    for name, call in _property_assigns(cls):
        if name == 'relative_resolution':
            m, e = _fpair(const(_kw(call, 'default')))
            return 'Z * Z', f'({cz(m)}, {cz(e)})'
    raise Shape('FloatRange.relative_resolution not found')


def finish_converts_constant_unguarded():
    """Parameter.finish: the statement after `self.fixExport()` is exactly
         if self.constant is not None:
             constant = self.datatype(self.constant)
             self.constant = self.datatype.export_value(constant)
             self.readonly = True
       (not inside a try: a constant that is no value of the datatype raises out of Module.__init__), and the loop over
       'default', 'value' that follows converts inside `try ... except BadValueError: pass` (model: finish_constant, refit)"""
    f = find_func(find_class(parse(PA), 'Parameter'), 'finish')
    body = [n for n in f.body if not (isinstance(n, ast.Expr) and isinstance(n.value, ast.Constant))]
    if len(body) < 3 or src(body[0]).strip() != 'self.fixExport()':
        raise Shape('Parameter.finish does not start with self.fixExport()')
    node = body[1]
    if not (isinstance(node, ast.If) and src(node.test).strip() == 'self.constant is not None' and not node.orelse):
        raise Shape('Parameter.finish: `if self.constant is not None:` expected after fixExport')
    want = ['constant = self.datatype(self.constant)', 'self.constant = self.datatype.export_value(constant)',
            'self.readonly = True']
    got = [src(n).strip() for n in node.body]
    loop = body[2]
    ok_loop = (isinstance(loop, ast.For) and src(loop.iter).strip() in ("('default', 'value')", "'default', 'value'")
               and any(isinstance(n, ast.Try) for n in ast.walk(loop)))
    return 'bool', cbool(got == want and ok_loop)


FACTS = [module_props, param_props, command_props, checked_value_props, properties_applied_before_value_checks,
         add_accessible_catches_exactly_key_and_badvalue, param_setproperty_wraps_badvalue,
         checks_only_without_errors_and_raise, unknown_names_reported, module_props_popped_and_badvalue_collected,
         writedict_only_with_write_method, needscfg_and_uninit_marker, writes_before_first_polls,
         write_init_fetches_value_at_time_of_use, minmax_check_present, mandatory_check_present,
         numeric_datatypes_check_properties, array_check_descends_into_members, name_map_filled_after_cfg,
         all_modules_initialised,
         registers_only_created, exit_on_errors, merge_first_wins_and_tags, modname_regex, mod_wraps_bare_values,
         unlimited, float_default_relres, dt_length_props, string_isutf8_is_bool, length_datatypes_check_properties,
         param_value_appended_after_overrides, finish_converts_constant_unguarded]

FINGERPRINTS = {
    'Module.__init__': _init,
    'Module._add_accessible': _add_accessible,
    'Module._handle_writes': lambda: find_func(_module(), '_handle_writes'),
    'Module.writeInitParams': lambda: find_func(_module(), 'writeInitParams'),
    'Module.__pollThread': lambda: find_func(_module(), '__pollThread'),
    'Parameter.setProperty': lambda: find_func(find_class(parse(PA), 'Parameter'), 'setProperty'),
    'Parameter.finish': lambda: find_func(find_class(parse(PA), 'Parameter'), 'finish'),
    'HasProperties.checkProperties': lambda: find_func(find_class(parse(PR), 'HasProperties'), 'checkProperties'),
    'config.Mod.__init__': lambda: find_func(find_class(parse(CF), 'Mod'), '__init__'),
    'config.Param.__init__': lambda: find_func(find_class(parse(CF), 'Param'), '__init__'),
    'ArrayOf.setProperty': lambda: find_func(find_class(parse(DT), 'ArrayOf'), 'setProperty'),
    'HasProperties.setProperty': lambda: find_func(find_class(parse(PR), 'HasProperties'), 'setProperty'),
    'Config.merge_modules': lambda: find_func(find_class(parse(CF), 'Config'), 'merge_modules'),
    'SecNode.get_module_instance': lambda: find_func(find_class(parse(SN), 'SecNode'), 'get_module_instance'),
    'Server._processCfg': lambda: find_func(find_class(parse(SV), 'Server'), '_processCfg'),
}
