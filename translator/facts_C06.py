"""facts read off frappy/params.py, properties.py, modulebase.py, secnode.py, datatypes.py, protocol/dispatcher.py for C06"""
import ast
from translator import parse, find_class, find_func, find_assign, Shape, const, cnat, cbool, cstr, src, walk_type, \
    is_self_attr

P = 'frappy/params.py'
PR = 'frappy/properties.py'
MB = 'frappy/modulebase.py'
SN = 'frappy/secnode.py'
DT = 'frappy/datatypes.py'
DI = 'frappy/protocol/dispatcher.py'


def _norm(node):
    return src(node).replace(' ', '').replace('"', "'")


def _stmts(func):
    """all statements of a function in source order"""
    return sorted((n for n in ast.walk(func) if isinstance(n, ast.stmt) and n is not func),
                  key=lambda n: (n.lineno, n.col_offset))


def _first_line(func, pred, what):
    for n in _stmts(func):
        if pred(n):
            return n.lineno
    raise Shape(f'{func.name}: {what} not found')


# ------------------------------------------------------------------ tables
def predefined_accessibles():
    """PREDEFINED_ACCESSIBLES = {name: Parameter|Command, ...} in order"""
    d = find_assign(parse(P), 'PREDEFINED_ACCESSIBLES')
    if not isinstance(d, ast.Dict):
        raise Shape('PREDEFINED_ACCESSIBLES is not a dict display')
    items = []
    for k, v in zip(d.keys, d.values):
        if not (isinstance(v, ast.Name) and v.id in ('Parameter', 'Command')):
            raise Shape('PREDEFINED_ACCESSIBLES value is not Parameter/Command')
        items.append(f'({cstr(const(k))}, {cbool(v.id == "Parameter")})')
    return 'list (list N * bool)', '[' + '; '.join(items) + ']'


def secop_base_classes():
    v = const(find_assign(parse(MB), 'SECoP_BASE_CLASSES'))
    if not isinstance(v, list) or not all(isinstance(x, str) for x in v):
        raise Shape('SECoP_BASE_CLASSES is not a list of strings')
    return 'list (list N)', '[' + '; '.join(cstr(x) for x in v) + ']'


def _module_init():
    return find_func(find_class(parse(MB), 'Module'), '__init__')


def interface_classes_limit():
    """self.interface_classes = [b.__name__ for b in mycls.__mro__ if b.__name__ in SECoP_BASE_CLASSES][:1]"""
    for a in walk_type(_module_init(), ast.Assign):
        if any(is_self_attr(t, 'interface_classes') for t in a.targets):
            v = a.value
            if not (isinstance(v, ast.Subscript) and isinstance(v.slice, ast.Slice) and v.slice.lower is None
                    and v.slice.step is None and isinstance(v.value, ast.ListComp)):
                raise Shape('interface_classes is not <listcomp>[:n]')
            lc = v.value
            if _norm(lc) != "[b.__name__forbinmycls.__mro__ifb.__name__inSECoP_BASE_CLASSES]":
                raise Shape('interface_classes comprehension changed: ' + _norm(lc))
            return 'nat', cnat(const(v.slice.upper))
    raise Shape('assignment to self.interface_classes not found')


def features_from_direct_feature_bases():
    """self.features = [b.__name__ for b in mycls.__mro__ if Feature in b.__bases__]; implementation = module.name"""
    ok1 = ok2 = ok3 = False
    for a in walk_type(_module_init(), ast.Assign):
        if any(is_self_attr(t, 'features') for t in a.targets):
            ok1 = _norm(a.value) == "[b.__name__forbinmycls.__mro__ifFeatureinb.__bases__]"
        if any(is_self_attr(t, 'implementation') for t in a.targets):
            ok2 = _norm(a.value) == 'myclassname'
        if any(isinstance(t, ast.Name) and t.id == 'myclassname' for t in a.targets):
            ok3 = _norm(a.value) == "f'{mycls.__module__}.{mycls.__name__}'"
    return 'bool', cbool(ok1 and ok2 and ok3)


# ------------------------------------------------------------------ wire names
def fixexport_shape():
    """Accessible.fixExport: only `export is True` is rewritten: custom -> '_' + name, predefined of the right kind -> name,
    otherwise ProgrammingError"""
    f = find_func(find_class(parse(P), 'Accessible'), 'fixExport')
    if len(f.body) != 1 or not isinstance(f.body[0], ast.If) or _norm(f.body[0].test) != 'self.exportisTrue' or f.body[0].orelse:
        raise Shape('fixExport: expected a single `if self.export is True:`')
    body = f.body[0].body
    want = ("predefined_cls=PREDEFINED_ACCESSIBLES.get(self.name)",)
    if _norm(body[0]) != want[0] or not isinstance(body[1], ast.If):
        raise Shape('fixExport: predefined lookup changed')
    i = body[1]
    ok = (_norm(i.test) == 'predefined_clsisNone' and _norm(i.body[0]) == "self.export='_'+self.name"
          and len(i.orelse) == 1 and isinstance(i.orelse[0], ast.If)
          and _norm(i.orelse[0].test) == 'isinstance(self,predefined_cls)'
          and _norm(i.orelse[0].body[0]) == 'self.export=self.name'
          and isinstance(i.orelse[0].orelse[0], ast.Raise))
    return 'bool', cbool(ok)


def _add_accessible():
    return find_func(find_class(parse(MB), 'Module'), '_add_accessible')


def add_accessible_registers_final_export():
    """_add_accessible: the configured properties are applied first (accessible.setProperty), then
    `if not self.export: accessible.export = False`, `accessible.fixExport()`, and only then
    `if accessible.export:` a name already in accessiblename2attr is a configuration error (self.errors) and the name is
    registered; this is the only assignment to accessiblename2attr[...] in the class"""
    f = _add_accessible()
    cfg = _first_line(f, lambda n: isinstance(n, ast.Expr) and _norm(n) == 'accessible.setProperty(propname,propvalue)',
                      'application of configured properties')
    hide = _first_line(f, lambda n: isinstance(n, ast.If) and _norm(n.test) == 'notself.export'
                       and _norm(n.body[0]) == 'accessible.export=False', 'module-level hiding')
    fix = _first_line(f, lambda n: isinstance(n, ast.Expr) and _norm(n) == 'accessible.fixExport()', 'fixExport call')

    def is_reg(n):
        return (isinstance(n, ast.If) and _norm(n.test) == 'accessible.export' and len(n.body) == 2
                and isinstance(n.body[0], ast.If) and _norm(n.body[0].test) == 'accessible.exportinself.accessiblename2attr'
                and _norm(n.body[0].body[0]).startswith('self.errors.append(') and not n.body[0].orelse
                and _norm(n.body[1]) == 'self.accessiblename2attr[accessible.export]=name')
    reg = _first_line(f, is_reg, 'duplicate test + registration')
    regs = [n for n in ast.walk(find_class(parse(MB), 'Module')) if isinstance(n, ast.Subscript)
            and isinstance(n.ctx, ast.Store) and is_self_attr(n.value, 'accessiblename2attr')]
    # errors collected in self.errors make Module.__init__ raise ConfigError
    init = _module_init()
    raises = any(isinstance(n, ast.If) and _norm(n.test) == 'self.errors' and isinstance(n.body[0], ast.Raise)
                 and 'ConfigError(self.errors)' in _norm(n.body[0]) for n in init.body)
    return 'bool', cbool(cfg < hide < fix < reg and len(regs) == 1 and raises)


def finish_calls_class_constant():
    """how often Parameter.finish runs on a constant given in the class: merge (class creation), clone (copy per
    instance), Module.__init__ (aobj.finish(self))"""
    par = find_class(parse(P), 'Parameter')
    n = 0
    for fname in ('merge', 'clone'):
        calls = [c for c in walk_type(find_func(par, fname), ast.Call) if _norm(c) in ('self.finish()', 'res.finish()')]
        if len(calls) != 1:
            raise Shape(f'Parameter.{fname}: expected exactly one finish() call')
        n += 1
    calls = [c for c in walk_type(_module_init(), ast.Call) if _norm(c) == 'aobj.finish(self)']
    if len(calls) != 1:
        raise Shape('Module.__init__: expected exactly one aobj.finish(self)')
    copies = [c for c in walk_type(_module_init(), ast.Call) if _norm(c) == 'aobj.copy()']
    if len(copies) != 1:
        raise Shape('Module.__init__: expected exactly one aobj.copy()')
    return 'nat', cnat(n + 1)


def finish_reexports_constant():
    """Parameter.finish: fixExport; constant = datatype.export_value(datatype(constant)); readonly = True"""
    f = find_func(find_class(parse(P), 'Parameter'), 'finish')
    if _norm(f.body[0] if not isinstance(f.body[0], ast.Expr) or not isinstance(f.body[0].value, ast.Constant) else f.body[1]) \
            != 'self.fixExport()':
        raise Shape('finish does not start with fixExport')
    ifs = [n for n in f.body if isinstance(n, ast.If) and _norm(n.test) == 'self.constantisnotNone']
    if len(ifs) != 1:
        raise Shape('finish: constant branch not found')
    got = [_norm(s) for s in ifs[0].body]
    want = ['constant=self.datatype(self.constant)', 'self.constant=self.datatype.export_value(constant)', 'self.readonly=True']
    return 'bool', cbool(got == want)


def main_unit_after_cfg_and_dollar_replace():
    """Module.__init__: applyMainUnit(unit of `value`) after all accessibles were added and finished;
    HasUnit.set_main_unit replaces '$'; applyMainUnit walks self.parameters only"""
    init = _module_init()
    fin = _first_line(init, lambda n: isinstance(n, ast.Expr) and _norm(n) == 'aobj.finish(self)', 'finish loop')
    mu = _first_line(init, lambda n: isinstance(n, ast.Expr) and _norm(n) == 'self.applyMainUnit(mainunit)', 'applyMainUnit')
    mv = any(_norm(a) == "mainvalue=self.parameters.get('value')" for a in walk_type(init, ast.Assign))
    m2 = any(_norm(a) == 'mainunit=mainvalue.datatype.unit' for a in walk_type(init, ast.Assign))
    amu = find_func(find_class(parse(MB), 'Module'), 'applyMainUnit')
    loop = [n for n in amu.body if isinstance(n, ast.For)]
    ok_loop = len(loop) == 1 and _norm(loop[0].iter) == 'self.parameters.values()' \
        and _norm(loop[0].body[0]) == 'pobj.datatype.set_main_unit(mainunit)'
    smu = find_func(find_class(parse(DT), 'HasUnit'), 'set_main_unit')
    ok_rep = [_norm(s) for s in smu.body] == ["if'$'inself.unit:\nself.setProperty('unit',self.unit.replace('$',unit))"] or \
        (len(smu.body) == 1 and isinstance(smu.body[0], ast.If) and _norm(smu.body[0].test) == "'$'inself.unit"
         and _norm(smu.body[0].body[0]) == "self.setProperty('unit',self.unit.replace('$',unit))")
    return 'bool', cbool(fin < mu and mv and m2 and ok_loop and ok_rep)


# ------------------------------------------------------------------ the report
def export_properties_nondefault_rule():
    """HasProperties.exportProperties: listed iff po.export and (po.export == 'always' or po.mandatory or val != po.default),
    under extname (group and visibility are not mandatory: see property_export_table)"""
    f = find_func(find_class(parse(PR), 'HasProperties'), 'exportProperties')
    ifs = [n for n in walk_type(f, ast.If) if 'po.export' in _norm(n.test)]
    if len(ifs) != 1:
        raise Shape('exportProperties: export test not found')
    ok = _norm(ifs[0].test) == "po.exportand(po.export=='always'orpo.mandatoryorval!=po.default)"
    ok = ok and any(_norm(a) == 'res[po.extname]=val' for a in walk_type(ifs[0], ast.Assign))
    ok = ok and any(_norm(a) == 'val=self.propertyValues.get(pn,po.default)' for a in walk_type(f, ast.Assign))
    return 'bool', cbool(ok)


def _prop_kw(cls, name, fname=P):
    v = find_assign(find_class(parse(fname), cls), name)
    if not (isinstance(v, ast.Call) and isinstance(v.func, ast.Name) and v.func.id == 'Property'):
        raise Shape(f'{cls}.{name} is not a Property(...)')
    return {k.arg: k.value for k in v.keywords}


def property_export_table():
    """the Property declarations the model relies on: which are exported always, which only when not default, the defaults"""
    ok = True
    for cls in ('Parameter', 'Command'):
        for name, always in (('description', True), ('datatype', True), ('group', False), ('visibility', False)):
            kw = _prop_kw(cls, name)
            exp = const(kw['export']) if 'export' in kw else None
            ok = ok and ((exp == 'always') == always) and 'extname' in kw
        ok = ok and const(_prop_kw(cls, 'group')['default']) == '' and const(_prop_kw(cls, 'visibility')['default']) == 1
        for name in ('group', 'visibility'):          # a default is given and mandatory is not: listed only when not default
            kw = _prop_kw(cls, name)
            ok = ok and 'default' in kw and ('mandatory' not in kw or const(kw['mandatory']) is False)
        ok = ok and const(_prop_kw(cls, 'export')['export']) is False and const(_prop_kw(cls, 'export')['default']) is True
        ok = ok and const(_prop_kw(cls, 'datatype')['extname']) == 'datainfo'
    kw = _prop_kw('Parameter', 'readonly')
    ok = ok and const(kw['export']) == 'always' and const(kw['default']) is True
    kw = _prop_kw('Parameter', 'constant')
    ok = ok and const(kw['extname']) == 'constant' and const(kw['default']) is None
    for name in ('default', 'value'):
        ok = ok and const(_prop_kw('Parameter', name)['export']) is False
    for name in ('argument', 'result'):
        ok = ok and const(_prop_kw('Command', name)['export']) is False
    kw = _prop_kw('Module', 'export', MB)
    ok = ok and const(kw['export']) is False and const(kw['default']) is True
    ok = ok and const(_prop_kw('Module', 'group', MB)['default']) == '' and const(_prop_kw('Module', 'visibility', MB)['default']) == 'user'
    for name in ('group', 'visibility'):
        ok = ok and 'mandatory' not in _prop_kw('Module', name, MB)
    ok = ok and 'mandatory' not in _prop_kw('Parameter', 'constant')
    for name in ('implementation', 'interface_classes', 'features'):
        ok = ok and const(_prop_kw('Module', name, MB)['extname']) == name
    return 'bool', cbool(ok)


def for_export_shapes():
    """Parameter.for_export = exportProperties + readonly; Command.for_export = exportProperties;
    Parameter.export_value = datatype.export_value(value)"""
    pf = find_func(find_class(parse(P), 'Parameter'), 'for_export')
    cf = find_func(find_class(parse(P), 'Command'), 'for_export')
    ev = find_func(find_class(parse(P), 'Parameter'), 'export_value')
    ok = _norm(pf.body[-1]) == 'returndict(self.exportProperties(),readonly=self.readonly)' \
        and _norm(cf.body[-1]) == 'returnself.exportProperties()' \
        and _norm(ev.body[-1]) == 'returnself.datatype.export_value(self.value)'
    return 'bool', cbool(ok)


def export_accessibles_shape():
    """SecNode.export_accessibles: for exported modules, `if aobj.export: res[aobj.export] = aobj.for_export()` over
    get_module(name).accessibles.values(); get_descriptive_data walks self.export and skips `not module.export`;
    add_module appends to self.export iff module.export"""
    cls = find_class(parse(SN), 'SecNode')
    f = find_func(cls, 'export_accessibles')
    ok = any(isinstance(n, ast.If) and _norm(n.test) == 'modulenameinself.export' for n in f.body)
    loops = [n for n in walk_type(f, ast.For)]
    ok = ok and len(loops) == 1 and _norm(loops[0].iter) == 'self.get_module(modulename).accessibles.values()'
    ok = ok and len(loops[0].body) == 1 and isinstance(loops[0].body[0], ast.If) \
        and _norm(loops[0].body[0].test) == 'aobj.export' \
        and _norm(loops[0].body[0].body[0]) == 'res[aobj.export]=aobj.for_export()'
    g = find_func(cls, 'get_descriptive_data')
    gl = [n for n in g.body if isinstance(n, ast.For)]
    ok = ok and len(gl) == 1 and _norm(gl[0].iter) == 'self.export'
    ok = ok and any(isinstance(n, ast.If) and _norm(n.test) == 'notmodule.export' and isinstance(n.body[0], ast.Continue)
                    for n in gl[0].body)
    ok = ok and any(_norm(n) == "mod_desc={'accessibles':self.export_accessibles(modulename)}" for n in gl[0].body)
    ok = ok and any(_norm(n) == 'mod_desc.update(module.exportProperties())' for n in gl[0].body)
    ok = ok and any(_norm(n) == 'modules[modulename]=mod_desc' for n in gl[0].body)
    am = find_func(cls, 'add_module')
    ok = ok and any(isinstance(n, ast.If) and _norm(n.test) == 'module.export'
                    and _norm(n.body[0]) == 'self.export.append(modulename)' for n in am.body)
    return 'bool', cbool(ok)


# ------------------------------------------------------------------ request paths
def _disp(name):
    return find_func(find_class(parse(DI), 'Dispatcher'), name)


def _lookup_ok(f, table, errname):
    s = [_norm(n) for n in f.body]
    return ('moduleobj=self.secnode.get_module(modulename)' in s
            and any(x.startswith('ifmoduleobjisNone:\nraiseNoSuchModuleError') or x.startswith('ifmoduleobjisNone:raiseNoSuchModuleError')
                    for x in s)
            and any(x.endswith('=moduleobj.accessiblename2attr.get(exportedname)') for x in s)
            and any(x.endswith(f'=moduleobj.{table}.get(pname)') or x.endswith(f'=moduleobj.{table}.get(cname)') for x in s)
            and any(('isNone:' in x) and ('raise' + errname) in x.replace('\n', '') for x in s))


def change_path_shape():
    """_setParameterValue: lookup through accessiblename2attr and parameters; constant and readonly are tested (ReadOnlyError)
    before the value is touched; the SAME pobj.datatype imports and validates (previous=pobj.value); write_<pname>;
    reply from pobj.export_value()"""
    f = _disp('_setParameterValue')
    ok = _lookup_ok(f, 'parameters', 'NoSuchParameterError')
    l_const = _first_line(f, lambda n: isinstance(n, ast.If) and _norm(n.test) == 'pobj.constantisnotNone'
                          and isinstance(n.body[0], ast.Raise) and 'ReadOnlyError' in _norm(n.body[0]), 'constant test')
    l_ro = _first_line(f, lambda n: isinstance(n, ast.If) and _norm(n.test) == 'pobj.readonly'
                       and isinstance(n.body[0], ast.Raise) and 'ReadOnlyError' in _norm(n.body[0]), 'readonly test')
    l_imp = _first_line(f, lambda n: _norm(n) == 'value=pobj.datatype.import_value(value)', 'import_value')
    l_val = _first_line(f, lambda n: _norm(n) == 'value=pobj.datatype.validate(value,previous=pobj.value)', 'validate')
    l_wr = _first_line(f, lambda n: _norm(n) == "getattr(moduleobj,'write_'+pname)(value)", 'write call')
    ok = ok and l_const < l_ro < l_imp < l_val < l_wr
    ok = ok and _norm(f.body[-1]).startswith('return(pobj.export_value(),')
    return 'bool', cbool(ok)


def read_path_shape():
    """_getParameterValue: a constant is answered with (pobj.constant, {}) (the property holds the exported value),
    otherwise read_<pname>() then (pobj.export_value(), qualifiers); handle_read wraps the pair in list(...)"""
    f = _disp('_getParameterValue')
    ok = _lookup_ok(f, 'parameters', 'NoSuchParameterError')
    cs = [n for n in f.body if isinstance(n, ast.If) and _norm(n.test) == 'pobj.constantisnotNone']
    ok = ok and len(cs) == 1 and _norm(cs[0].body[-1]) == 'return(pobj.constant,{})'
    ok = ok and any(_norm(n) == "getattr(moduleobj,'read_'+pname)()" for n in f.body)
    ok = ok and _norm(f.body[-1]).startswith('return(pobj.export_value(),')
    h = _disp('handle_read')
    ok = ok and _norm(h.body[-1]) == 'return(READREPLY,specifier,list(self._getParameterValue(modulename,pname)))'
    return 'bool', cbool(ok)


def do_path_shape():
    """_execute_command: lookup through accessiblename2attr and commands, cobj.do(moduleobj, argument), result exported by
    cobj.result; Command.do imports and validates with self.argument, converts the result with self.result"""
    f = _disp('_execute_command')
    ok = _lookup_ok(f, 'commands', 'NoSuchCommandError')
    ok = ok and any(_norm(n) == 'result=cobj.do(moduleobj,argument)' for n in f.body)
    ok = ok and any(isinstance(n, ast.If) and _norm(n.test) == 'cobj.result'
                    and _norm(n.body[0]) == 'result=cobj.result.export_value(result)' for n in f.body)
    d = find_func(find_class(parse(P), 'Command'), 'do')
    s = [_norm(n) for n in _stmts(d)]
    ok = ok and 'argument=self.argument.import_value(argument)' in s and ('self.argument.validate(argument)' in s or 'argument=self.argument.validate(argument)' in s) \
        and 'returnself.result(res)' in s
    return 'bool', cbool(ok)


def activate_path_shape():
    """handle_activate: module must be in secnode.export; name looked up with accessiblename2attr.get(exportedname, True);
    subscribe() runs before the updates are produced; the single-parameter update indexes moduleobj.parameters[pname];
    module updates are sent for Parameters with truthy export"""
    f = _disp('handle_activate')
    l_exp = _first_line(f, lambda n: isinstance(n, ast.If) and _norm(n.test) == 'modulenamenotinself.secnode.export'
                        and 'NoSuchModuleError' in _norm(n.body[0]), 'export test')
    l_get = _first_line(f, lambda n: _norm(n) == 'pname=moduleobj.accessiblename2attr.get(exportedname,True)', 'lookup')
    l_chk = _first_line(f, lambda n: isinstance(n, ast.If) and _norm(n.test) == 'pnameandpnamenotinmoduleobj.accessibles'
                        and 'NoSuchParameterError' in _norm(n.body[-1]), 'existence test')
    l_sub = _first_line(f, lambda n: _norm(n) == 'self.subscribe(conn,specifier)', 'subscribe')
    l_upd = _first_line(f, lambda n: _norm(n) == 'conn.send_reply(make_update(modulename,moduleobj.parameters[pname]))', 'single update')
    ok = l_exp < l_get < l_chk < l_sub < l_upd
    ok = ok and any(isinstance(n, ast.If) and _norm(n.test) == 'isinstance(pobj,Parameter)andpobj.export'
                    and _norm(n.body[0]) == 'conn.send_reply(make_update(modulename,pobj))' for n in _stmts(f))
    ok = ok and any(_norm(n) == 'modules=[(m,None)forminself.secnode.export]' for n in _stmts(f))
    mu = find_func(parse(DI), 'make_update')
    ok = ok and isinstance(mu.body[0], ast.If) and _norm(mu.body[0].test) == 'pobj.readerror' \
        and "f'{modulename}:{pobj.export}'" in _norm(mu.body[-1]) and 'pobj.export_value()' in _norm(mu.body[-1])
    return 'bool', cbool(ok)


def announce_update_shape():
    """announceUpdate: validate=True converts with pobj.datatype(value) (no limit check), a failure becomes the readerror;
    the value is stored, readerror replaced, and the dispatcher is told iff pobj.export; an error equal to the stored
    read error returns early"""
    f = find_func(find_class(parse(MB), 'Module'), 'announceUpdate')
    s = [_norm(n) for n in _stmts(f)]
    ok = 'value=pobj.datatype(value)' in s and 'pobj.value=value' in s and 'pobj.readerror=err' in s
    ok = ok and any(isinstance(n, ast.If) and _norm(n.test) == 'pobj.export'
                    and _norm(n.body[0]) == 'self.updateCallback(self,pobj)' for n in _stmts(f))
    # an error equal to the stored read error is not announced again (and nothing is stored)
    ok = ok and any(isinstance(n, ast.If) and _norm(n.test) == 'secop_error(err)==pobj.readerror'
                    and isinstance(n.body[-1], ast.Return) and n.body[-1].value is None for n in _stmts(f))
    st = find_func(find_class(parse(P), 'Parameter'), '__set__')
    ok = ok and any(_norm(n) == 'obj.announceUpdate(self.name,value)' for n in _stmts(st))
    return 'bool', cbool(ok)


# ------------------------------------------------------------------ generated read_/write_ wrappers, automatic properties
def _init_subclass():
    return find_func(find_class(parse(MB), 'HasAccessibles'), '__init_subclass__')


def _inner_funcs(name):
    return [n for n in ast.walk(_init_subclass()) if isinstance(n, ast.FunctionDef) and n.name == name]


def _free_outer_names(func, bound_outside):
    """names a nested function reads that are neither its arguments nor assigned in its body before use
    (names of the enclosing loop, evaluated late) - restricted to the given names of the enclosing scope"""
    args = {a.arg for a in func.args.args + func.args.kwonlyargs}
    assigned = {t.id for n in ast.walk(func) if isinstance(n, (ast.Assign, ast.AugAssign))
                for t in (n.targets if isinstance(n, ast.Assign) else [n.target]) if isinstance(t, ast.Name)}
    assigned |= {h.name for h in ast.walk(func) if isinstance(h, ast.ExceptHandler) and h.name}
    used = {n.id for st in func.body for n in ast.walk(st) if isinstance(n, ast.Name) and isinstance(n.ctx, ast.Load)}
    return (used - args - assigned) & set(bound_outside)


def access_wrappers_use_instance_datatype():
    """HasAccessibles.__init_subclass__: the generated read wrapper binds only pname and rfunc at class creation and converts
    what read_<pname> returned with the datatype of the INSTANCE's Parameter, looked up on every call
    (`pobj = self.accessibles[pname]; value = pobj.datatype(value)` inside the try); a failure is announced
    (`self.announceUpdate(pname, err=e)`) and re-raised, success is announced with validate=False.  The write wrapper
    validates with `self.parameters[pname].datatype.validate`, looked up on every call.  Neither wrapper reads the
    class-level `pobj` of the enclosing loop."""
    rf = [f for f in _inner_funcs('new_rfunc') if any(a.arg == 'rfunc' for a in f.args.args)]
    wf = _inner_funcs('new_wfunc')
    if len(rf) != 1 or len(wf) != 1:
        raise Shape('__init_subclass__: expected one read wrapper with an rfunc argument and one write wrapper')
    rf, wf = rf[0], wf[0]
    ok = [a.arg for a in rf.args.args] == ['self', 'pname', 'rfunc'] and [_norm(d) for d in rf.args.defaults] == ['pname', 'rfunc']
    ok = ok and not rf.args.kwonlyargs and rf.args.vararg is None and rf.args.kwarg is None
    tries = [n for n in ast.walk(rf) if isinstance(n, ast.Try)]
    if len(tries) != 1:
        raise Shape('read wrapper: expected exactly one try statement')
    t = tries[0]
    body = [_norm(n) for n in t.body]
    ok = ok and body[0] == 'value=rfunc(self)' and body[-2:] == ['pobj=self.accessibles[pname]', 'value=pobj.datatype(value)']
    # the only conversions / calls on the value are the two above
    calls = [_norm(c) for c in walk_type(t, ast.Call)]
    ok = ok and calls.count('pobj.datatype(value)') == 1 and calls.count('rfunc(self)') == 1
    ok = ok and len(t.handlers) == 1 and _norm(t.handlers[0].type) == 'Exception' and not t.orelse and not t.finalbody
    hb = [_norm(n) for n in t.handlers[0].body]
    ok = ok and 'self.announceUpdate(pname,err=e)' in hb and hb[-1] == 'raise'
    after = [_norm(n) for n in _stmts(rf) if n.lineno > t.end_lineno]
    ok = ok and after == ['self.announceUpdate(pname,value,validate=False)', 'returnvalue']
    ok = ok and not _free_outer_names(rf, ['pobj', 'accessibles', 'cls', 'wfunc', 'cfuncs', 'rname'])
    # write wrapper
    ok = ok and [a.arg for a in wf.args.args] == ['self', 'value', 'pname', 'wfunc', 'check_funcs']
    ok = ok and [_norm(d) for d in wf.args.defaults] == ['pname', 'wfunc', 'cfuncs']
    ws = [_norm(n) for n in _stmts(wf)]
    ok = ok and 'validate=self.parameters[pname].datatype.validate' in ws and 'new_value=validate(value)' in ws
    ok = ok and ws[-2:] == ['self.announceUpdate(pname,new_value,validate=False)', 'returnnew_value']
    ok = ok and ws.index('validate=self.parameters[pname].datatype.validate') < ws.index('new_value=validate(value)')
    ok = ok and not _free_outer_names(wf, ['pobj', 'accessibles', 'cls', 'rfunc', 'cfuncs'])
    return 'bool', cbool(ok)


def auto_props_after_cfg():
    """Module.__init__: the loop applying the module properties of the configuration (`for key in self.propertyDict:` ...
    `self.setProperty(key, ...)`) comes BEFORE the assignments of the automatic properties self.implementation,
    self.interface_classes, self.features, each of which is assigned exactly once in Module.__init__ (and nowhere
    else in the class), unconditionally (top level of the function body)"""
    init = _module_init()
    loops = [n for n in init.body if isinstance(n, ast.For) and _norm(n.iter) == 'self.propertyDict'
             and any(_norm(c).startswith('self.setProperty(key,') for c in walk_type(n, ast.Call))]
    if len(loops) != 1:
        raise Shape('Module.__init__: loop applying configured module properties not found')
    cfg_end = loops[0].end_lineno
    cls = find_class(parse(MB), 'Module')
    after = True
    for attr in ('implementation', 'interface_classes', 'features'):
        top = [n for n in init.body if isinstance(n, ast.Assign) and any(is_self_attr(t, attr) for t in n.targets)]
        everywhere = [n for n in ast.walk(cls) if isinstance(n, ast.Attribute) and isinstance(n.ctx, (ast.Store, ast.Del))
                      and is_self_attr(n, attr)]
        if len(top) != 1 or len(everywhere) != 1:
            raise Shape(f'Module: expected exactly one unconditional assignment to self.{attr}')
        after = after and top[0].lineno > cfg_end
    # no other setProperty on these names
    for c in walk_type(cls, ast.Call):
        s = _norm(c)
        if s.startswith('self.setProperty(') and any(f"'{a}'" in s for a in ('implementation', 'interface_classes', 'features')):
            raise Shape('Module: explicit setProperty of an automatic property')
    return 'bool', cbool(after)


# ------------------------------------------------------------------ start-up order, description built from the live objects
SV = 'frappy/server.py'
MX = 'frappy/mixins.py'
EN = 'frappy/lib/enum.py'


def _self_stores(func):
    """names of attributes of self the function assigns / deletes, plus setattr / __dict__ tricks"""
    res = []
    for n in ast.walk(func):
        if isinstance(n, ast.Attribute) and isinstance(n.ctx, (ast.Store, ast.Del)) and isinstance(n.value, ast.Name) \
                and n.value.id == 'self':
            res.append(n.attr)
        if isinstance(n, ast.Call) and _norm(n.func) in ('setattr', 'delattr', 'vars', 'object.__setattr__'):
            res.append('<setattr>')
        if isinstance(n, ast.Attribute) and n.attr == '__dict__':
            res.append('<__dict__>')
        if isinstance(n, (ast.Global, ast.Nonlocal)):
            res.append('<global>')
    return res


def description_built_per_call():
    """SecNode.get_descriptive_data / export_accessibles build their result on every call from the live module objects:
    undecorated methods with the plain arguments (self, specifier) / (self, modulename), `modules = {}` is the only binding
    of `modules` and stands at the top level of the function, the loop over self.export stands at the top level (not
    under a condition), the only things read from self are export, get_module, export_accessibles, equipment_id,
    nodeprops (no attribute that could hold an earlier result), nothing is stored on self, no global state;
    export_accessibles reads self.export, self.get_module, self.log only and binds `res` to a fresh OrderedDict;
    Dispatcher.handle_describe returns self.secnode.get_descriptive_data(specifier) itself"""
    cls = find_class(parse(SN), 'SecNode')
    g = find_func(cls, 'get_descriptive_data')
    e = find_func(cls, 'export_accessibles')
    ok = True
    for f, args in ((g, ['self', 'specifier']), (e, ['self', 'modulename'])):
        a = f.args
        ok = ok and not f.decorator_list and [x.arg for x in a.args] == args and not a.defaults and not a.kwonlyargs \
            and a.vararg is None and a.kwarg is None and not getattr(a, 'posonlyargs', [])
        ok = ok and not _self_stores(f)
    binds = [n for n in ast.walk(g) if isinstance(n, ast.Name) and n.id == 'modules' and isinstance(n.ctx, ast.Store)]
    top = [n for n in g.body if isinstance(n, ast.Assign) and _norm(n) == 'modules={}']
    ok = ok and len(binds) == 1 and len(top) == 1
    loops = [n for n in g.body if isinstance(n, ast.For) and _norm(n.iter) == 'self.export']
    ok = ok and len(loops) == 1 and len(list(walk_type(g, ast.For))) == 2     # + the loop over nodeprops
    ok = ok and top and loops and top[0].lineno < loops[0].lineno
    reads = {n.attr for n in ast.walk(g) if isinstance(n, ast.Attribute) and isinstance(n.value, ast.Name) and n.value.id == 'self'}
    ok = ok and reads <= {'export', 'get_module', 'export_accessibles', 'equipment_id', 'nodeprops'}
    reads_e = {n.attr for n in ast.walk(e) if isinstance(n, ast.Attribute) and isinstance(n.value, ast.Name) and n.value.id == 'self'}
    ok = ok and reads_e <= {'export', 'get_module', 'log'}
    rb = [n for n in ast.walk(e) if isinstance(n, ast.Name) and n.id == 'res' and isinstance(n.ctx, ast.Store)]
    ok = ok and len(rb) == 1 and any(_norm(n) == 'res=OrderedDict()' for n in walk_type(e, ast.Assign))
    h = _disp('handle_describe')
    ok = ok and not h.decorator_list and len(h.body) == 1 and isinstance(h.body[0], ast.Return) \
        and _norm(h.body[0].value) == "(DESCRIPTIONREPLY,specifieror'.',self.secnode.get_descriptive_data(specifier))"
    return 'bool', cbool(bool(ok))


def startup_order():
    """Server._processCfg: self.secnode.create_modules() (all module objects are constructed), then
    self.secnode.get_descriptive_data('') as an expression statement (it initialises the exported modules one by one, its
    result is dropped), then `for modname in list(self.secnode.modules): self.secnode.get_module(modname)` (the others);
    SecNode.get_module initialises a module once (`if modobj._isinitialized: return modobj`, earlyInit then initModule, flag
    set afterwards); get_descriptive_data obtains each module with self.get_module(modulename) BEFORE describing it"""
    f = find_func(find_class(parse(SV), 'Server'), '_processCfg')
    lines = {}
    for n in f.body:
        s = _norm(n)
        if isinstance(n, ast.Expr) and s == 'self.secnode.create_modules()':
            lines.setdefault('create', n.lineno)
        if isinstance(n, ast.Expr) and s == "self.secnode.get_descriptive_data('')":
            lines.setdefault('describe', n.lineno)
        if isinstance(n, ast.For) and _norm(n.iter) == 'list(self.secnode.modules)' and len(n.body) == 1 \
                and _norm(n.body[0]) == 'self.secnode.get_module(modname)':
            lines.setdefault('rest', n.lineno)
    if set(lines) != {'create', 'describe', 'rest'}:
        raise Shape('Server._processCfg: create_modules / get_descriptive_data / get_module loop not found at top level')
    ok = lines['create'] < lines['describe'] < lines['rest']
    calls = [c for c in walk_type(f, ast.Call) if _norm(c.func) == 'self.secnode.get_descriptive_data']
    ok = ok and len(calls) == 1
    cls = find_class(parse(SN), 'SecNode')
    gm = find_func(cls, 'get_module')
    st = [_norm(n) for n in _stmts(gm)]
    ok = ok and any(isinstance(n, ast.If) and _norm(n.test) == 'modobj._isinitialized' and _norm(n.body[0]) == 'returnmodobj'
                    for n in gm.body)
    ok = ok and 'modobj.earlyInit()' in st and 'modobj.initModule()' in st and 'modobj._isinitialized=True' in st \
        and st.index('modobj.earlyInit()') < st.index('modobj.initModule()') < st.index('modobj._isinitialized=True')
    g = find_func(cls, 'get_descriptive_data')
    loop = [n for n in g.body if isinstance(n, ast.For) and _norm(n.iter) == 'self.export']
    ok = ok and len(loop) == 1 and _norm(loop[0].body[0]) == 'module=self.get_module(modulename)'
    return 'bool', cbool(bool(ok))


def register_input_extends_enum():
    """mixins.HasOutputModule.initModule: `super().initModule()` then `if self.output_module:
    self.output_module.register_input(self.name, self.deactivate_control)`; HasControlledBy.register_input replaces the
    datatype of the Parameter object `controlled_by` of the INSTANCE by the enum extended with the controller's name
    (value None = Enum takes max(values) + 1); the class-level enum is {'self': 0}"""
    tree = parse(MX)
    cb = find_class(tree, 'HasControlledBy')
    om = find_class(tree, 'HasOutputModule')
    reg = find_func(cb, 'register_input')
    st = [_norm(n) for n in reg.body if not (isinstance(n, ast.Expr) and isinstance(n.value, ast.Constant))]
    ok = [a.arg for a in reg.args.args] == ['self', 'name', 'deactivate_control']
    ok = ok and st[-2:] == ["prev_enum=self.parameters['controlled_by'].datatype.export_datatype()['members']",
                            "self.parameters['controlled_by'].datatype=EnumType(Enum(prev_enum,**{name:None}))"]
    ok = ok and not any('controlled_by' in s for s in st[:-2])
    decl = find_assign(cb, 'controlled_by')
    ok = ok and "EnumType(members={'self':0})" in _norm(decl) and 'default=0' in _norm(decl)
    ini = find_func(om, 'initModule')
    st = [_norm(n) for n in ini.body if not (isinstance(n, ast.Expr) and isinstance(n.value, ast.Constant))]
    ok = ok and st[0] == 'super().initModule()' and len(st) == 2 and isinstance(ini.body[-1], ast.If) \
        and _norm(ini.body[-1].test) == 'self.output_module' and len(ini.body[-1].body) == 1 and not ini.body[-1].orelse \
        and _norm(ini.body[-1].body[0]) == 'self.output_module.register_input(self.name,self.deactivate_control)'
    att = find_assign(om, 'output_module')
    ok = ok and _norm(att) == 'Attached(HasControlledBy,mandatory=False)'
    enum_init = find_func(find_class(parse(EN), 'Enum'), '__init__')
    ok = ok and any(isinstance(n, ast.If) and _norm(n.test) == 'visNone' and _norm(n.body[-1]) == 'v=max(valuesor[0])+1'
                    for n in ast.walk(enum_init))
    return 'bool', cbool(bool(ok))


FACTS = [predefined_accessibles, secop_base_classes, interface_classes_limit, features_from_direct_feature_bases,
         fixexport_shape, add_accessible_registers_final_export, finish_calls_class_constant,
         finish_reexports_constant, main_unit_after_cfg_and_dollar_replace, export_properties_nondefault_rule,
         property_export_table, for_export_shapes, export_accessibles_shape, change_path_shape, read_path_shape,
         do_path_shape, activate_path_shape, announce_update_shape, access_wrappers_use_instance_datatype,
         auto_props_after_cfg, description_built_per_call, startup_order, register_input_extends_enum]

FINGERPRINTS = {
    'Accessible.fixExport': lambda: find_func(find_class(parse(P), 'Accessible'), 'fixExport'),
    'Parameter.finish': lambda: find_func(find_class(parse(P), 'Parameter'), 'finish'),
    'Parameter.for_export': lambda: find_func(find_class(parse(P), 'Parameter'), 'for_export'),
    'HasProperties.exportProperties': lambda: find_func(find_class(parse(PR), 'HasProperties'), 'exportProperties'),
    'Module.__init__': _module_init,
    'Module._add_accessible': _add_accessible,
    'Module.announceUpdate': lambda: find_func(find_class(parse(MB), 'Module'), 'announceUpdate'),
    'SecNode.export_accessibles': lambda: find_func(find_class(parse(SN), 'SecNode'), 'export_accessibles'),
    'SecNode.get_descriptive_data': lambda: find_func(find_class(parse(SN), 'SecNode'), 'get_descriptive_data'),
    'Dispatcher._setParameterValue': lambda: _disp('_setParameterValue'),
    'Dispatcher._getParameterValue': lambda: _disp('_getParameterValue'),
    'Dispatcher._execute_command': lambda: _disp('_execute_command'),
    'Dispatcher.handle_activate': lambda: _disp('handle_activate'),
    'make_update': lambda: find_func(parse(DI), 'make_update'),
    'HasUnit.set_main_unit': lambda: find_func(find_class(parse(DT), 'HasUnit'), 'set_main_unit'),
    'HasAccessibles.__init_subclass__': _init_subclass,
    'Server._processCfg': lambda: find_func(find_class(parse(SV), 'Server'), '_processCfg'),
    'HasControlledBy.register_input': lambda: find_func(find_class(parse(MX), 'HasControlledBy'), 'register_input'),
    'HasOutputModule.initModule': lambda: find_func(find_class(parse(MX), 'HasOutputModule'), 'initModule'),
}
