"""facts read off frappy/lib/statemachine.py for C14"""
import ast
from translator import parse, find_class, find_func, Shape, const, cnat, cbool, src, \
    walk_type, is_self_attr, with_lock_bodies

F = 'frappy/lib/statemachine.py'


def _sm():
    return find_class(parse(F), 'StateMachine')


def maxloops():
    """self.maxloops = <int> in __init__"""
    init = find_func(_sm(), '__init__')
    vals = [n.value for n in walk_type(init, ast.Assign)
            if any(is_self_attr(t, 'maxloops') for t in n.targets)]
    if len(vals) != 1:
        raise Shape('expected exactly one assignment self.maxloops = ...')
    return 'nat', cnat(const(vals[0]))


def _cycle_loops():
    cyc = find_func(_sm(), 'cycle')
    outer = [n for n in cyc.body if isinstance(n, ast.For)]
    if len(outer) != 1 or any(isinstance(n, (ast.While, ast.Try)) for n in cyc.body):
        raise Shape('cycle: expected exactly one top-level for loop')
    return cyc, outer[0]


def outer_rounds():
    """for _ in range(<int>) as the only top level loop of cycle"""
    _, outer = _cycle_loops()
    it = outer.iter
    if not (isinstance(it, ast.Call) and isinstance(it.func, ast.Name) and it.func.id == 'range'
            and len(it.args) == 1):
        raise Shape('cycle: outer loop is not range(n)')
    return 'nat', cnat(const(it.args[0]))


def inner_loop_is_range_maxloops():
    """the only nested loop is `for _ in range(self.maxloops)` and there is no while loop"""
    cyc, outer = _cycle_loops()
    if walk_type(cyc, ast.While):
        raise Shape('cycle contains a while loop')
    inner = [n for n in walk_type(outer, ast.For) if n is not outer]
    if len(inner) != 1:
        raise Shape('expected exactly one inner for loop')
    it = inner[0].iter
    ok = (isinstance(it, ast.Call) and isinstance(it.func, ast.Name) and it.func.id == 'range'
          and len(it.args) == 1 and is_self_attr(it.args[0], 'maxloops'))
    return 'bool', cbool(ok)


def cleanup_swap_under_lock():
    """_cleanup: `cleanup, self.cleanup = self.cleanup, None` inside `with self._lock`"""
    f = find_func(_sm(), '_cleanup')
    for w in with_lock_bodies(f, '_lock'):
        for a in walk_type(w, ast.Assign):
            if src(a).replace(' ', '') == 'cleanup,self.cleanup=(self.cleanup,None)'.replace(' ', '') \
                    or src(a).replace(' ', '') == 'cleanup,self.cleanup=self.cleanup,None':
                return 'bool', 'true'
    return 'bool', 'false'


def task_pickup_under_lock():
    """cycle: `action, self.next_task = self.next_task, None` inside `with self._lock`"""
    f = find_func(_sm(), 'cycle')
    for w in with_lock_bodies(f, '_lock'):
        for a in walk_type(w, ast.Assign):
            s = src(a).replace(' ', '').replace('(', '').replace(')', '')
            if s == 'action,self.next_task=self.next_task,None':
                return 'bool', 'true'
    return 'bool', 'false'


def _only_posts(fname, cls):
    f = find_func(_sm(), fname)
    assigns = [a for a in walk_type(f, ast.Assign) if any(is_self_attr(t, 'next_task') for t in a.targets)]
    if len(assigns) != 1:
        return False
    inlock = any(assigns[0] in walk_type(w, ast.Assign) for w in with_lock_bodies(f, '_lock'))
    v = assigns[0].value
    right = isinstance(v, ast.Call) and isinstance(v.func, ast.Name) and v.func.id == cls
    # no other attribute of self is assigned
    others = [t for a in walk_type(f, ast.Assign) for t in a.targets
              if isinstance(t, ast.Attribute) and not is_self_attr(t, 'next_task')]
    return inlock and right and not others


def start_only_posts():
    """start(): the only state change is self.next_task = Start(...) under the lock"""
    return 'bool', cbool(_only_posts('start', 'Start'))


def stop_only_posts():
    return 'bool', cbool(_only_posts('stop', 'Stop'))


FACTS = [maxloops, outer_rounds, inner_loop_is_range_maxloops, cleanup_swap_under_lock,
         task_pickup_under_lock, start_only_posts, stop_only_posts]

FINGERPRINTS = {
    'StateMachine.cycle': lambda: find_func(_sm(), 'cycle'),
    'StateMachine._cleanup': lambda: find_func(_sm(), '_cleanup'),
    'StateMachine._new_state': lambda: find_func(_sm(), '_new_state'),
    'StateMachine.start': lambda: find_func(_sm(), 'start'),
    'StateMachine.stop': lambda: find_func(_sm(), 'stop'),
}
