"""facts read off frappy/lib/statemachine.py for C14"""
import ast
from translator import parse, find_class, find_func, Shape, const, cnat, cbool, src, \
    walk_type, is_self_attr, with_lock_bodies

F = 'frappy/lib/statemachine.py'


def _sm():
    return find_class(parse(F), 'StateMachine')


def maxloops():
    """self.maxloops = <int> in __init__"""
    init = find_func(_sm(), '__init__')
    vals = [n.value for n in walk_type(init, ast.Assign)
            if any(is_self_attr(t, 'maxloops') for t in n.targets)]
    if len(vals) != 1:
        raise Shape('expected exactly one assignment self.maxloops = ...')
    return 'nat', cnat(const(vals[0]))


def _cycle_loops():
    cyc = find_func(_sm(), 'cycle')
    outer = [n for n in cyc.body if isinstance(n, ast.For)]
    if len(outer) != 1 or any(isinstance(n, (ast.While, ast.Try)) for n in cyc.body):
        raise Shape('cycle: expected exactly one top-level for loop')
    return cyc, outer[0]


def outer_rounds():
    """for _ in range(<int>) as the only top level loop of cycle"""
    _, outer = _cycle_loops()
    it = outer.iter
    if not (isinstance(it, ast.Call) and isinstance(it.func, ast.Name) and it.func.id == 'range'
            and len(it.args) == 1):
        raise Shape('cycle: outer loop is not range(n)')
    return 'nat', cnat(const(it.args[0]))


def inner_loop_is_range_maxloops():
    """the only nested loop is `for _ in range(self.maxloops)` and there is no while loop"""
    cyc, outer = _cycle_loops()
    if walk_type(cyc, ast.While):
        raise Shape('cycle contains a while loop')
    inner = [n for n in walk_type(outer, ast.For) if n is not outer]
    if len(inner) != 1:
        raise Shape('expected exactly one inner for loop')
    it = inner[0].iter
    ok = (isinstance(it, ast.Call) and isinstance(it.func, ast.Name) and it.func.id == 'range'
          and len(it.args) == 1 and is_self_attr(it.args[0], 'maxloops'))
    return 'bool', cbool(ok)


def cleanup_swap_under_lock():
    """_cleanup: `cleanup, self.cleanup = self.cleanup, None` inside `with self._lock`"""
    f = find_func(_sm(), '_cleanup')
    for w in with_lock_bodies(f, '_lock'):
        for a in walk_type(w, ast.Assign):
            if src(a).replace(' ', '') == 'cleanup,self.cleanup=(self.cleanup,None)'.replace(' ', '') \
                    or src(a).replace(' ', '') == 'cleanup,self.cleanup=self.cleanup,None':
                return 'bool', 'true'
    return 'bool', 'false'


def task_pickup_under_lock():
    """cycle: `action, self.next_task = self.next_task, None` inside `with self._lock`"""
    f = find_func(_sm(), 'cycle')
    for w in with_lock_bodies(f, '_lock'):
        for a in walk_type(w, ast.Assign):
            s = src(a).replace(' ', '').replace('(', '').replace(')', '')
            if s == 'action,self.next_task=self.next_task,None':
                return 'bool', 'true'
    return 'bool', 'false'


def _norm(node):
    return src(node).replace(' ', '').replace('(', '').replace(')', '')


def pickup_reads_under_lock():
    """cycle: every store to the local `action` and every store to self.next_task is the one statement
    `action, self.next_task = self.next_task, None`, and that statement is inside `with self._lock` - i.e. the read of
    next_task that decides what is picked up happens under the lock together with the clearing (the unlocked
    `if self.next_task:` only decides whether to look)"""
    f = find_func(_sm(), 'cycle')
    locked = set()
    for w in with_lock_bodies(f, '_lock'):
        for a in walk_type(w, ast.Assign):
            locked.add(id(a))
    stmts = {}
    for node in ast.walk(f):
        stored = False
        if isinstance(node, ast.Name) and node.id == 'action' and isinstance(node.ctx, (ast.Store, ast.Del)):
            stored = True
        if isinstance(node, ast.Attribute) and node.attr == 'next_task' and isinstance(node.ctx, (ast.Store, ast.Del)):
            stored = True
        if stored:
            stmts[id(node)] = node
    if not stmts:
        raise Shape('cycle: no store to `action` / self.next_task found')
    # every such store must sit in an Assign that is the pick-up statement under the lock
    assigns = [a for a in walk_type(f, ast.Assign)]
    covered = set()
    good = 0
    for a in assigns:
        inside = {id(n) for t in a.targets for n in ast.walk(t)}
        mine = inside & set(stmts)
        if not mine:
            continue
        if _norm(a) == 'action,self.next_task=self.next_task,None' and id(a) in locked:
            covered |= mine
            good += 1
    # reads of `action` before... any other binding form (walrus, for target, with-as, augmented) is not covered
    ok = covered == set(stmts) and good == 1
    # ... and what is entered afterwards is what was read there
    text = src(f).replace(' ', '')
    uses = all(x in text for x in ('ifisinstance(action,Start):', 'self._new_state(action.newstate)',
                                   'self._update_attributes(action.kwds)'))
    return 'bool', cbool(ok and uses)


def next_task_written_only_by_start_stop_cycle():
    """in frappy/lib/statemachine.py the attribute next_task is stored only in StateMachine.start, .stop and .cycle
    (the class-level default `next_task = None` is a Name store, not an attribute store)"""
    tree = parse(F)
    where = set()

    def visit(node, fn):
        for ch in ast.iter_child_nodes(node):
            name = ch.name if isinstance(ch, (ast.FunctionDef, ast.AsyncFunctionDef)) else fn
            if isinstance(ch, ast.Attribute) and ch.attr == 'next_task' and isinstance(ch.ctx, (ast.Store, ast.Del)):
                where.add(fn)
            if isinstance(ch, ast.Call) and isinstance(ch.func, ast.Name) and ch.func.id in ('setattr', 'delattr'):
                if len(ch.args) >= 2 and isinstance(ch.args[1], ast.Constant) and ch.args[1].value == 'next_task':
                    where.add(fn)
            visit(ch, name)
    visit(tree, None)
    if not where:
        raise Shape('no store to next_task found at all')
    return 'bool', cbool(where <= {'start', 'stop', 'cycle'})


def _only_posts(fname, cls):
    f = find_func(_sm(), fname)
    assigns = [a for a in walk_type(f, ast.Assign) if any(is_self_attr(t, 'next_task') for t in a.targets)]
    if len(assigns) != 1:
        return False
    inlock = any(assigns[0] in walk_type(w, ast.Assign) for w in with_lock_bodies(f, '_lock'))
    v = assigns[0].value
    right = isinstance(v, ast.Call) and isinstance(v.func, ast.Name) and v.func.id == cls
    # no other attribute of self is assigned
    others = [t for a in walk_type(f, ast.Assign) for t in a.targets
              if isinstance(t, ast.Attribute) and not is_self_attr(t, 'next_task')]
    return inlock and right and not others


def start_only_posts():
    """start(): the only state change is self.next_task = Start(...) under the lock"""
    return 'bool', cbool(_only_posts('start', 'Start'))


def stop_only_posts():
    return 'bool', cbool(_only_posts('stop', 'Stop'))


S = 'frappy/states.py'


def _status_const(name):
    c = find_class(parse('frappy/datatypes.py'), 'StatusType')
    for node in c.body:
        if isinstance(node, ast.Assign) and any(isinstance(t, ast.Name) and t.id == name for t in node.targets):
            v = const(node.value)
            if not isinstance(v, int):
                raise Shape('status code is not an int')
            return 'Z', f'({v})%Z'
    raise Shape(f'StatusType.{name} not found')


def status_idle():
    return _status_const('IDLE')


def status_busy():
    return _status_const('BUSY')


def status_error():
    return _status_const('ERROR')


def start_resets_idle_status():
    """HasStates.start_machine hands idle_status=... to sm.start, so that the final status of an earlier run
    (stopped / error / final_status) is not inherited by the new run"""
    f = find_func(find_class(parse(S), 'HasStates'), 'start_machine')
    text = src(f).replace(' ', '')
    pos_default = text.find("kwds.setdefault('idle_status',(IDLE,''))")
    pos_start = text.find('sm.start(statefunc,')
    if pos_start < 0 or '**kwds)' not in text[pos_start:]:
        raise Shape('sm.start(statefunc, ..., **kwds) call not found in start_machine')
    return 'bool', cbool(0 <= pos_default < pos_start)


def start_assigns_idle_status():
    """HasStates.start_machine stores to <something>.idle_status itself (it must not: the reset has to travel with the
    start request and be applied when the new run is picked up)"""
    f = find_func(find_class(parse(S), 'HasStates'), 'start_machine')
    for node in ast.walk(f):
        if isinstance(node, ast.Attribute) and node.attr == 'idle_status' and isinstance(node.ctx, (ast.Store, ast.Del)):
            return 'bool', 'true'
        if isinstance(node, ast.Call) and isinstance(node.func, ast.Name) and node.func.id == 'setattr' \
                and len(node.args) >= 2 and isinstance(node.args[1], ast.Constant) and node.args[1].value == 'idle_status':
            return 'bool', 'true'
    return 'bool', 'false'


def hasstates_shapes():
    """the statements of states.py the HasStates model transliterates"""
    c = find_class(parse(S), 'HasStates')
    st = src(find_func(c, 'state_transition')).replace(' ', '')
    sp = src(find_func(c, 'stop_machine')).replace(' ', '')
    sm_ = src(find_func(c, 'start_machine')).replace(' ', '')
    fs = src(find_func(c, 'final_status')).replace(' ', '')
    oe = src(find_func(c, 'on_error')).replace(' ', '')
    cm = src(find_func(c, 'cycle_machine')).replace(' ', '')
    ok = ('status=self.get_status(newstate)' in st and 'ifisinstance(sm.next_task,Stop):' in st
          and "status=(status[0],f'stopping({status[1]})')" in st
          and 'ifsm.status[1]==status[1]:' in st and "status=(sm.status[0],f'restarting({status[1]})')" in st
          and 'status=self.get_status(sm.next_task.newstate,BUSY)' in st and 'ifstatus:\nsm.status=status' in st.replace('\n', '\n').replace('\n\n', '\n')
          or False)
    ok2 = ('ifsm.is_active:' in sp and 'sm.idle_status=stopped_status' in sp and 'sm.stop()' in sp
           and "sm.status=(self.get_status(sm.statefunc,sm.status[0])[0],'stopping')" in sp)
    ok3 = ('sm.status=self.get_status(statefunc,BUSY)' in sm_ and "sm.status=(sm.status[0],'restarting')" in sm_)
    ok4 = 'sm.idle_status=(code,text)' in fs and 'returnFinish' in fs
    ok5 = 'self.final_status(ERROR,repr(sm.cleanup_reason))' in oe
    ok6 = 'sm.cycle()' in cm and cm.rstrip().endswith('self.read_status()')
    st2 = src(find_func(c, 'state_transition'))
    okst = all(x in st2.replace(' ', '') for x in ('status=self.get_status(newstate)', 'ifsm.next_task:', 'ifisinstance(sm.next_task,Stop):',
                                                    'elifnewstate:', 'ifsm.status[1]==status[1]:', 'status=sm.status',
                                                    'status=self.get_status(sm.next_task.newstate,BUSY)', 'ifstatus:', 'sm.status=status',
                                                    'ifself.all_status_changes:', 'self.read_status()'))
    return 'bool', cbool(okst and ok2 and ok3 and ok4 and ok5 and ok6)


FACTS = [status_idle, status_busy, status_error, start_resets_idle_status, start_assigns_idle_status,
         pickup_reads_under_lock, next_task_written_only_by_start_stop_cycle, hasstates_shapes, maxloops, outer_rounds, inner_loop_is_range_maxloops, cleanup_swap_under_lock,
         task_pickup_under_lock, start_only_posts, stop_only_posts]

FINGERPRINTS = {
    'StateMachine.cycle': lambda: find_func(_sm(), 'cycle'),
    'StateMachine._cleanup': lambda: find_func(_sm(), '_cleanup'),
    'StateMachine._new_state': lambda: find_func(_sm(), '_new_state'),
    'StateMachine.start': lambda: find_func(_sm(), 'start'),
    'StateMachine.stop': lambda: find_func(_sm(), 'stop'),
    'HasStates.state_transition': lambda: find_func(find_class(parse(S), 'HasStates'), 'state_transition'),
    'HasStates.get_status': lambda: find_func(find_class(parse(S), 'HasStates'), 'get_status'),
    'HasStates.start_machine': lambda: find_func(find_class(parse(S), 'HasStates'), 'start_machine'),
    'HasStates.stop_machine': lambda: find_func(find_class(parse(S), 'HasStates'), 'stop_machine'),
    'HasStates.final_status': lambda: find_func(find_class(parse(S), 'HasStates'), 'final_status'),
    'HasStates.on_cleanup': lambda: find_func(find_class(parse(S), 'HasStates'), 'on_cleanup'),
    'HasStates.on_error': lambda: find_func(find_class(parse(S), 'HasStates'), 'on_error'),
    'HasStates.cycle_machine': lambda: find_func(find_class(parse(S), 'HasStates'), 'cycle_machine'),
}
