"""facts read off frappy/modulebase.py, params.py, properties.py, datatypes.py, mixins.py for C09

Every fact is a boolean: `true` iff the statements the model transliterates are found in the expected shape
(compared on the normalised `ast.unparse` text, docstrings and comments do not matter).  A missing shape gives
`false` (or an omitted fact), which breaks C09_source_facts."""
import ast
from translator import parse, find_class, find_func, Shape, cbool, walk_type

MB, PA, PR, DT, MX = ('frappy/modulebase.py', 'frappy/params.py', 'frappy/properties.py',
                      'frappy/datatypes.py', 'frappy/mixins.py')


def _norm(node):
    return ' '.join(ast.unparse(node).split())


def _body(func):
    """statements of a function without the docstring"""
    body = list(func.body)
    if body and isinstance(body[0], ast.Expr) and isinstance(getattr(body[0], 'value', None), ast.Constant) \
            and isinstance(body[0].value.value, str):
        body = body[1:]
    return body


def _stmts(func):
    return [_norm(s) for s in _body(func)]


def _initsub():
    return find_func(find_class(parse(MB), 'HasAccessibles'), '__init_subclass__')


def walk_is_reversed_mro():
    """first loop: for base in reversed(cls.__mro__): for key, value in base.__dict__.items(): Accessible ->
    updateProperties into merged_properties[key], accessibles[key] = value, forget an earlier bare override;
    anything else with a known key -> override_values"""
    f = _initsub()
    loops = [n for n in f.body if isinstance(n, ast.For)]
    if not loops:
        raise Shape('no for loop in __init_subclass__')
    want = ('for base in reversed(cls.__mro__): for key, value in base.__dict__.items(): '
            'if isinstance(value, Accessible): value.updateProperties(merged_properties.setdefault(key, {})) '
            'if base == cls and key not in accessibles and (key not in PREDEFINED_ACCESSIBLES): new_names.append(key) '
            'accessibles[key] = value override_values.pop(key, None) '
            'elif key in accessibles: override_values[key] = value')
    return 'bool', cbool(_norm(loops[0]) == want)


def second_loop_merges_in_place():
    """second loop: None removes, a bare value -> create_from_value + setattr on the class, else aobj.merge(...)"""
    f = _initsub()
    loops = [n for n in f.body if isinstance(n, ast.For)]
    if len(loops) < 2:
        raise Shape('second loop missing')
    want = ('for aname, aobj in list(accessibles.items()): if aname in override_values: value = override_values[aname] '
            'if value is None: accessibles.pop(aname) continue '
            'aobj = aobj.create_from_value(merged_properties[aname], value) setattr(cls, aname, aobj) '
            'else: aobj.merge(merged_properties[aname]) accessibles[aname] = aobj')
    return 'bool', cbool(_norm(loops[1]) == want)


def wrapped_classes_skip():
    """the per instance wrapper class (`isWrapped`) does not run the merge again"""
    f = _initsub()
    st = _stmts(f)
    return 'bool', cbool(len(st) > 2 and st[0] == 'super().__init_subclass__()' and st[1] == 'if cls.isWrapped: return')


def _param():
    return find_class(parse(PA), 'Parameter')


def param_update_properties():
    want = ["datatype = self.ownProperties.get('datatype')",
            'if datatype is not None: for key in list(merged_properties): if key not in self.propertyDict: merged_properties.pop(key)',
            'merged_properties.update(self.ownProperties)']
    return 'bool', cbool(_stmts(find_func(_param(), 'updateProperties')) == want)


def param_merge():
    want = ["datatype = merged_properties.pop('datatype', None)",
            'if datatype is not None: self.datatype = datatype.copy()',
            'self.init(merged_properties)', 'self.finish()']
    return 'bool', cbool(_stmts(find_func(_param(), 'merge')) == want)


def param_clone():
    want = ['res = type(self)(**kwds)', 'res.name = self.name', 'res.init(properties)', 'res.init(res.ownProperties)',
            "if 'datatype' in self.propertyValues: res.datatype = res.datatype.copy()", 'res.finish()', 'return res']
    return 'bool', cbool(_stmts(find_func(_param(), 'clone')) == want)


def param_create_from_value():
    st = _stmts(find_func(_param(), 'create_from_value'))
    return 'bool', cbool(len(st) == 2 and st[0].startswith('try: value = self.datatype(value) except Exception as e: raise ProgrammingError(')
                         and st[1] == 'return self.clone(properties, value=value)')


def accessible_copy():
    f = find_func(find_class(parse(PA), 'Accessible'), 'copy')
    return 'bool', cbool(_stmts(f) == ['return self.clone(self.propertyValues)'])


def param_own_properties():
    """Parameter.__init__: datatype properties become own properties only when no datatype is given; inherit=True
    adds the given properties, inherit=False takes every property"""
    f = find_func(_param(), '__init__')
    txt = _norm(f)
    ok = ('if datatype is None: self.ownProperties = {k: kwds.pop(k) for k in list(kwds) if k not in self.propertyDict}' in txt
          and 'if inherit: self.ownProperties.update(self.propertyValues) else: self.ownProperties = {k: getattr(self, k) for k in self.propertyDict}' in txt
          and _stmts(f)[0] == 'super().__init__()')
    return 'bool', cbool(ok)


def param_finish_revalidates():
    f = find_func(_param(), 'finish')
    want = ("for propname in ('default', 'value'): if propname in self.propertyValues: value = self.propertyValues.pop(propname) "
            'try: self.propertyValues[propname] = self.datatype(value) except BadValueError: pass')
    return 'bool', cbool(any(_norm(s) == want for s in f.body))


def param_setproperty_routes():
    """Parameter.setProperty: own properties on the Parameter, everything else on its datatype object"""
    f = find_func(_param(), 'setProperty')
    txt = _norm(f)
    return 'bool', cbool('if key in self.propertyDict: super().setProperty(key, value) else: try: self.datatype.setProperty(key, value)' in txt)


def hasproperties_fresh_values():
    """HasProperties.__init__: a new propertyValues dict per object; setProperty stores into that dict"""
    c = find_class(parse(PR), 'HasProperties')
    ini = _stmts(find_func(c, '__init__'))
    sp = _stmts(find_func(c, 'setProperty'))
    return 'bool', cbool('self.propertyValues = {}' in ini[:2]
                         and sp == ['self.propertyValues[key] = self.propertyDict[key].datatype.validate(value)'])


def property_set_on_instance():
    c = find_class(parse(PR), 'Property')
    return 'bool', cbool(_stmts(find_func(c, '__set__')) == ['instance.propertyValues[self.name] = self.datatype.validate(value)'])


def module_init_copies():
    """Module.__init__: the class level accessibles are left alone, every accessible is copied, configuration goes to the copy"""
    f = find_func(find_class(parse(MB), 'Module'), '__init__')
    txt = _norm(f)
    want = ('accessibles = self.accessibles self.accessibles = {} for aname, aobj in accessibles.items(): '
            'if aobj.optional: continue aobj = aobj.copy() acfg = cfgdict.pop(aname, None) '
            'self._add_accessible(aname, aobj, cfg=acfg)')
    return 'bool', cbool(want in txt)


def add_accessible_configures_copy():
    f = find_func(find_class(parse(MB), 'Module'), '_add_accessible')
    txt = _norm(f)
    # shape after fix 8b6cdcd: every configured property is applied to the copy first, then value / default / constant are
    # checked against the datatype as configured (in the modelled domain - the datatype of an enum cannot be configured,
    # a FloatRange accepts every number here - the verdict is the same as with the check at the position of the entry)
    want = ("if cfg is not None: try: for propname, propvalue in cfg.items(): accessible.setProperty(propname, propvalue) "
            "for propname in ('value', 'default', 'constant'): if propname in cfg: accessible.datatype(cfg[propname])")
    return 'bool', cbool(want in txt and 'self.accessibles[name] = accessible' in txt)


def datatype_copy_rebuilds():
    """DataType.copy builds a new object from the exported description; EnumType / ArrayOf / TupleOf / StructOf copy members"""
    t = parse(DT)
    ok = _stmts(find_func(find_class(t, 'DataType'), 'copy')) == ['return get_datatype(self.export_datatype())']
    ok = ok and _stmts(find_func(find_class(t, 'EnumType'), 'copy')) == ['return EnumType(self._enum)']
    ok = ok and _stmts(find_func(find_class(t, 'ArrayOf'), 'copy')) == ['return ArrayOf(self.members.copy(), self.minlen, self.maxlen)']
    ok = ok and _stmts(find_func(find_class(t, 'TupleOf'), 'copy')) == ['return TupleOf(*(m.copy() for m in self.members))']
    ok = ok and _stmts(find_func(find_class(t, 'StructOf'), 'copy')) == \
        ['return StructOf(self.optional, **{k: v.copy() for k, v in self.members.items()})']
    ok = ok and _stmts(find_func(find_class(t, 'LimitsType'), 'copy')) == ['return LimitsType(TupleOf.copy(self).members[0])']
    ok = ok and _stmts(find_func(find_class(t, 'TextType'), 'copy')) == ['return TextType(self.maxchars)']
    return 'bool', cbool(ok)


def register_input_replaces_datatype():
    f = find_func(find_class(parse(MX), 'HasControlledBy'), 'register_input')
    st = _stmts(f)
    ok = ("prev_enum = self.parameters['controlled_by'].datatype.export_datatype()['members']" in st
          and "self.parameters['controlled_by'].datatype = EnumType(Enum(prev_enum, **{name: None}))" in st
          and 'if not self.inputCallbacks: self.inputCallbacks = {}' in st)
    return 'bool', cbool(ok)


# ---- commands (CmdModel.v)
def _command():
    return find_class(parse(PA), 'Command')


def command_clone_copies_argument_and_result():
    """Command.clone: a new object, properties set with init, then argument AND result are each replaced by a copy
    (through the property setters) before finish rebuilds the CommandType"""
    want = ['res = type(self)(**kwds)', 'res.name = self.name', 'self.fixExport()', 'res.func = self.func',
            'res.init(properties)', 'res.init(res.ownProperties)',
            'if res.argument: res.argument = res.argument.copy()', 'if res.result: res.result = res.result.copy()',
            'res.finish()', 'return res']
    return 'bool', cbool(_stmts(find_func(_command(), 'clone')) == want)


def command_merge_in_place():
    """Command.merge / updateProperties / finish: init(merged) on the object itself (argument and result are taken
    over, not copied), own properties handed on unchanged, the CommandType rebuilt from argument and result"""
    c = _command()
    ok = _stmts(find_func(c, 'merge')) == ['self.init(merged_properties)', 'self.finish()']
    ok = ok and _stmts(find_func(c, 'updateProperties')) == ['merged_properties.update(self.ownProperties)']
    ok = ok and _stmts(find_func(c, 'finish')) == ['self.datatype = CommandType(self.argument, self.result)']
    return 'bool', cbool(ok)


def command_create_from_value():
    st = _stmts(find_func(_command(), 'create_from_value'))
    return 'bool', cbool(len(st) == 2 and st[0].startswith('if not callable(value): raise ProgrammingError(')
                         and st[1] == 'return self.clone(properties)(value)')


def command_call_marks_optional():
    """Command.__call__: the optional list is assigned on the argument object the Command holds (only when it is a
    StructOf), the doc string becomes the description when there is no own description"""
    st = _stmts(find_func(_command(), '__call__'))
    ok = (len(st) == 4 and st[0].startswith('if isinstance(self.argument, StructOf): sig = inspect.signature(func)')
          and st[0].endswith('self.argument.optional = [p for p, v in sig.parameters.items() if v.default is not inspect.Parameter.empty]')
          and st[1] == "if 'description' not in self.ownProperties and func.__doc__ is not None: "
                       "self.description = inspect.cleandoc(func.__doc__) self.ownProperties['description'] = self.description"
          and st[2] == 'self.func = func' and st[3] == 'return self')
    return 'bool', cbool(ok)


def command_own_properties():
    """Command.__init__: argument and result are stored only when given, ownProperties is a copy of the dict"""
    f = find_func(_command(), '__init__')
    txt = _norm(f)
    ok = ('if argument is not False: if isinstance(argument, (tuple, list)): argument = TupleOf(*argument) '
          'self.argument = argument self.result = result' in txt
          and _stmts(f)[-1] == 'self.ownProperties = self.propertyValues.copy()')
    return 'bool', cbool(ok)


# ---- mixin state (frappy/mixins.py)
def _is_mutable_literal(v):
    if isinstance(v, (ast.Dict, ast.List, ast.Set, ast.ListComp, ast.DictComp, ast.SetComp)):
        return True
    return isinstance(v, ast.Call) and isinstance(v.func, ast.Name) and \
        v.func.id in ('dict', 'list', 'set', 'OrderedDict', 'defaultdict', 'bytearray')


def mixins_no_mutable_class_attribute():
    """no class body in frappy/mixins.py binds a name to a mutable container (a dict / list / set shared by all
    instances); HasControlledBy.inputCallbacks is the empty tuple"""
    t = parse(MX)
    ok = True
    for c in t.body:
        if isinstance(c, ast.ClassDef):
            for node in c.body:
                v = node.value if isinstance(node, (ast.Assign, ast.AnnAssign)) else None
                if v is not None and _is_mutable_literal(v):
                    ok = False
    hcb = find_class(t, 'HasControlledBy')
    v = None
    for node in hcb.body:
        if isinstance(node, ast.Assign) and any(isinstance(x, ast.Name) and x.id == 'inputCallbacks' for x in node.targets):
            v = node.value
    ok = ok and v is not None and isinstance(v, ast.Tuple) and not v.elts
    return 'bool', cbool(ok)


def register_input_creates_instance_dict_first():
    """register_input: the per instance dict is bound to the instance BEFORE the first write; nothing else writes
    into inputCallbacks anywhere in the module"""
    t = parse(MX)
    st = _stmts(find_func(find_class(t, 'HasControlledBy'), 'register_input'))
    ok = (len(st) >= 2 and st[0] == 'if not self.inputCallbacks: self.inputCallbacks = {}'
          and st[1] == 'self.inputCallbacks[name] = deactivate_control')
    writes = 0
    for n in ast.walk(t):
        if isinstance(n, (ast.Assign, ast.AugAssign, ast.Delete)):
            targets = n.targets if isinstance(n, (ast.Assign, ast.Delete)) else [n.target]
            for x in targets:
                if isinstance(x, ast.Subscript) and isinstance(x.value, ast.Attribute) and x.value.attr == 'inputCallbacks':
                    writes += 1
        if isinstance(n, ast.Call) and isinstance(n.func, ast.Attribute) and isinstance(n.func.value, ast.Attribute) \
                and n.func.value.attr == 'inputCallbacks' and n.func.attr in ('update', 'setdefault', 'pop', 'clear', 'popitem'):
            writes += 1
    return 'bool', cbool(ok and writes == 1)


# ---- module level properties (frappy/properties.py)
def _hp_initsub():
    return find_func(find_class(parse(PR), 'HasProperties'), '__init_subclass__')


def properties_collected_along_reversed_mro():
    """HasProperties.__init_subclass__, first loop: every Property found in a __dict__ along the reversed MRO is
    remembered under its name (a Parameter of that name hides it); the result becomes cls.propertyDict"""
    f = _hp_initsub()
    loops = [n for n in f.body if isinstance(n, ast.For)]
    if not loops:
        raise Shape('no for loop in HasProperties.__init_subclass__')
    want = ('for base in reversed(cls.__mro__): for key, value in base.__dict__.items(): '
            'if isinstance(value, Property): properties[key] = value '
            'elif isinstance(value, HasProperties): properties.pop(key, None)')
    st = _stmts(f)
    return 'bool', cbool(_norm(loops[0]) == want and 'properties = {}' in st and 'cls.propertyDict = properties' in st)


def bare_value_override_copies_property_unconditionally():
    """second loop: `po = po.copy()` is the FIRST statement under `if not isinstance(value, Property):` - no condition
    in front of it -, the value is written to the copy only, the copy goes to the class and to propertyDict; nothing
    else in properties.py assigns the attribute `value` of an object other than self; Property.copy builds a new object"""
    t = parse(PR)
    f = _hp_initsub()
    loops = [n for n in f.body if isinstance(n, ast.For)]
    if len(loops) < 2:
        raise Shape('second loop of HasProperties.__init_subclass__ missing')
    loop = loops[1]
    ok = _norm(loop.target) in ('pn, po', '(pn, po)') and _norm(loop.iter) == 'list(properties.items())'
    body = loop.body
    ok = ok and len(body) == 2 and _norm(body[0]) == 'value = getattr(cls, pn, po)' and isinstance(body[1], ast.If) \
        and _norm(body[1].test) == 'not isinstance(value, Property)' and not body[1].orelse
    if ok:
        inner = body[1].body
        ok = len(inner) == 3 and _norm(inner[0]) == 'po = po.copy()' and isinstance(inner[1], ast.Try) \
            and [_norm(x) for x in inner[1].body] == ['po.value = po.datatype.validate(value)', 'setattr(cls, pn, po)'] \
            and _norm(inner[2]) == 'cls.propertyDict[pn] = po'
    # no other write to `<something other than self>.value` in the module
    writes = 0
    for n in ast.walk(t):
        if isinstance(n, (ast.Assign, ast.AugAssign, ast.AnnAssign)):
            targets = n.targets if isinstance(n, ast.Assign) else [n.target]
            for x in targets:
                if isinstance(x, ast.Attribute) and x.attr == 'value' and not (isinstance(x.value, ast.Name) and x.value.id == 'self'):
                    writes += 1
    cp = _stmts(find_func(find_class(t, 'Property'), 'copy'))
    return 'bool', cbool(ok and writes == 1 and cp == ['return type(self)(**self.__dict__)'])


def hasproperties_init_presets_values():
    """HasProperties.__init__: the preset values of the class level Property objects are copied into the new dict"""
    st = _stmts(find_func(find_class(parse(PR), 'HasProperties'), '__init__'))
    want = 'for pn, po in self.propertyDict.items(): if po.value is not UNSET: self.setProperty(pn, po.value)'
    pg = _stmts(find_func(find_class(parse(PR), 'Property'), '__get__'))
    return 'bool', cbool(want in st and pg == ['if instance is None: return self',
                                               'return instance.propertyValues.get(self.name, self.default)'])


def module_init_configures_properties_on_instance():
    """Module.__init__ step 2: configured module properties go through self.setProperty (the dict of the instance)"""
    txt = _norm(find_func(find_class(parse(MB), 'Module'), '__init__'))
    want = ("for key in self.propertyDict: value = cfgdict.pop(key, None) if value is not None: try: "
            "if isinstance(value, dict): self.setProperty(key, value['value']) else: self.setProperty(key, value)")
    return 'bool', cbool(want in txt)


# ---- process wide state of the datatype classes / the configuration objects (fresh-interpreter families of the driver)
def arrayof_getproperties_builds_new_dict():
    """HasProperties.getProperties returns the LIVE class level dict (`return self.propertyDict`), so every override
    must build its own dict: ArrayOf.getProperties starts from `res = {}` and only `update`s it, Parameter.getProperties
    works on `.copy()`; no other class of datatypes.py / params.py overrides getProperties; nowhere in these two modules
    is the result of a getProperties() call written to (update / setdefault / pop / item assignment) or bound to a name
    without a copy"""
    ok = _stmts(find_func(find_class(parse(PR), 'HasProperties'), 'getProperties')) == ['return self.propertyDict']
    ok = ok and _stmts(find_func(find_class(parse(DT), 'ArrayOf'), 'getProperties')) == \
        ['res = {}', 'res.update(super().getProperties())', 'res.update(self.members.getProperties())', 'return res']
    ok = ok and _stmts(find_func(_param(), 'getProperties')) == \
        ['super_prop = super().getProperties().copy()',
         'if self.datatype: super_prop.update(self.datatype.getProperties())', 'return super_prop']
    for path, allowed in ((DT, {'ArrayOf'}), (PA, {'Parameter'})):
        t = parse(path)
        for c in ast.walk(t):
            if isinstance(c, ast.ClassDef):
                for f in c.body:
                    if isinstance(f, ast.FunctionDef) and f.name == 'getProperties' and c.name not in allowed:
                        ok = False
        for n in ast.walk(t):
            # <name> = <...>.getProperties()   (the live dict under a local name)
            if isinstance(n, ast.Assign) and isinstance(n.value, ast.Call) and isinstance(n.value.func, ast.Attribute) \
                    and n.value.func.attr == 'getProperties':
                ok = False
            # <...>.getProperties().update(...) and friends / <...>.getProperties()[k] = v
            if isinstance(n, ast.Call) and isinstance(n.func, ast.Attribute) and isinstance(n.func.value, ast.Call) \
                    and isinstance(n.func.value.func, ast.Attribute) and n.func.value.func.attr == 'getProperties' \
                    and n.func.attr in ('update', 'setdefault', 'pop', 'popitem', 'clear', '__setitem__', '__delitem__'):
                ok = False
            if isinstance(n, ast.Subscript) and isinstance(n.ctx, (ast.Store, ast.Del)) and isinstance(n.value, ast.Call) \
                    and isinstance(n.value.func, ast.Attribute) and n.value.func.attr == 'getProperties':
                ok = False
            if isinstance(n, ast.Return) and isinstance(n.value, ast.Call) and isinstance(n.value.func, ast.Attribute) \
                    and n.value.func.attr == 'getProperties':
                ok = False
    return 'bool', cbool(ok)


_DICT_WRITERS = ('pop', 'popitem', 'clear', 'update', 'setdefault', '__setitem__', '__delitem__', '__ior__')


def add_accessible_only_reads_cfg():
    """Module._add_accessible only READS the per accessible configuration dict `cfg` (it is the very object held by
    srv.module_cfg / the cfg file: SecNode.get_module_instance copies the top level only): `cfg` is used as
    `cfg is not None`, `cfg.items()`, `x in cfg`, `cfg[x]` (load) and nothing else - no pop / del / clear / update /
    item assignment, not handed to any other call, not aliased"""
    f = find_func(find_class(parse(MB), 'Module'), '_add_accessible')
    if 'cfg' not in [a.arg for a in f.args.args + f.args.kwonlyargs]:
        raise Shape('_add_accessible has no argument cfg')
    parent = {}
    for n in ast.walk(f):
        for ch in ast.iter_child_nodes(n):
            parent[ch] = n
    ok = True
    uses = 0
    for n in ast.walk(f):
        if not (isinstance(n, ast.Name) and n.id == 'cfg'):
            continue
        uses += 1
        if not isinstance(n.ctx, ast.Load):
            ok = False          # rebinding / del of the name
            continue
        p = parent.get(n)
        if isinstance(p, ast.Compare):
            # `cfg is not None` / `x in cfg`
            good = all(isinstance(o, (ast.Is, ast.IsNot, ast.In, ast.NotIn, ast.Eq, ast.NotEq)) for o in p.ops)
        elif isinstance(p, ast.Attribute) and p.value is n:
            call = parent.get(p)
            good = p.attr in ('items', 'keys', 'values', 'get') and isinstance(call, ast.Call) and call.func is p
        elif isinstance(p, ast.Subscript) and p.value is n:
            good = isinstance(p.ctx, ast.Load)
        else:
            good = False        # argument of a call, alias, iteration target, ...
        ok = ok and good
    return 'bool', cbool(ok and uses >= 3)


def get_module_instance_copies_options():
    """SecNode.get_module_instance: the options of a module are copied (`opts = dict(opts)`) before `cls` is popped and
    before Module.__init__ pops the entries it consumes: srv.module_cfg keeps every module's entries"""
    f = find_func(find_class(parse('frappy/secnode.py'), 'SecNode'), 'get_module_instance')
    st = _stmts(f)
    if 'opts = self.srv.module_cfg.get(modulename, None)' not in st or 'opts = dict(opts)' not in st:
        return 'bool', cbool(False)
    i, j = st.index('opts = self.srv.module_cfg.get(modulename, None)'), st.index('opts = dict(opts)')
    later = ' '.join(st[j + 1:])
    before = ' '.join(st[i + 1:j])
    return 'bool', cbool(i < j and "opts.pop('cls')" in later and 'opts.pop' not in before
                         and 'cls(modulename, self.log.parent.getChild(modulename), opts, self.srv)' in later)


FACTS = [walk_is_reversed_mro, second_loop_merges_in_place, wrapped_classes_skip, param_update_properties, param_merge,
         param_clone, param_create_from_value, accessible_copy, param_own_properties, param_finish_revalidates,
         param_setproperty_routes, hasproperties_fresh_values, property_set_on_instance, module_init_copies,
         add_accessible_configures_copy, datatype_copy_rebuilds, register_input_replaces_datatype,
         command_clone_copies_argument_and_result, command_merge_in_place, command_create_from_value,
         command_call_marks_optional, command_own_properties, mixins_no_mutable_class_attribute,
         register_input_creates_instance_dict_first, properties_collected_along_reversed_mro,
         bare_value_override_copies_property_unconditionally, hasproperties_init_presets_values,
         module_init_configures_properties_on_instance, arrayof_getproperties_builds_new_dict,
         add_accessible_only_reads_cfg, get_module_instance_copies_options]

FINGERPRINTS = {
    'HasAccessibles.__init_subclass__': _initsub,
    'Module.__init__': lambda: find_func(find_class(parse(MB), 'Module'), '__init__'),
    'Module._add_accessible': lambda: find_func(find_class(parse(MB), 'Module'), '_add_accessible'),
    'Module._handle_writes': lambda: find_func(find_class(parse(MB), 'Module'), '_handle_writes'),
    'Parameter.__init__': lambda: find_func(_param(), '__init__'),
    'Parameter.clone': lambda: find_func(_param(), 'clone'),
    'Parameter.merge': lambda: find_func(_param(), 'merge'),
    'Parameter.finish': lambda: find_func(_param(), 'finish'),
    'Parameter.updateProperties': lambda: find_func(_param(), 'updateProperties'),
    'Command.clone': lambda: find_func(find_class(parse(PA), 'Command'), 'clone'),
    'HasProperties.__init_subclass__': lambda: find_func(find_class(parse(PR), 'HasProperties'), '__init_subclass__'),
    'DataType.copy': lambda: find_func(find_class(parse(DT), 'DataType'), 'copy'),
    'HasControlledBy.register_input': lambda: find_func(find_class(parse(MX), 'HasControlledBy'), 'register_input'),
}
