(* C07 - which messages can be encoded: str.encode('utf-8') accepts scalar values only, a str can hold lone surrogates.
   Action and specifier of every message the request loop builds are made by bytes.decode (scalar values) or are
   constants; the data part is text of the json.dumps / str(err) oracles.  With a predicate Q on the characters of the
   oracle texts (Q := scalar, Q := printable ASCII) every message of the loop has a Q data part, and Q => scalar makes
   it encodable: the request loop is never left through a UnicodeEncodeError. *)
From Coq Require Import List Arith NArith Bool Lia.
Import ListNotations.
Require Import FV.Gen.C07 FV.C07.Model FV.C07.Lemmas FV.C07.Utf8 FV.C07.Repl FV.C07.Run.
Local Open Scope N_scope.

(* ------------------------------------------------------------------ a character predicate through strip / split *)
Section Pred.
Variable P : N -> bool.

Definition fao (o : option str) : bool := match o with Some s => forallb P s | None => true end.

Lemma fa_rev : forall a, forallb P (rev a) = forallb P a.
Proof.
  induction a as [|x a IH]; [reflexivity|]. simpl. rewrite forallb_app, IH. simpl. rewrite andb_true_r. apply andb_comm.
Qed.

Lemma fa_lstrip : forall f a, forallb P a = true -> forallb P (lstrip f a) = true.
Proof.
  intros f. induction a as [|x a IH]; intro H; [reflexivity|]. simpl.
  destruct (f x); [|exact H]. apply IH. simpl in H. apply andb_true_iff in H. apply H.
Qed.

Lemma fa_strip : forall f a, forallb P a = true -> forallb P (strip f a) = true.
Proof.
  intros f a H. unfold strip. rewrite fa_rev. apply fa_lstrip. rewrite fa_rev. apply fa_lstrip. exact H.
Qed.

Lemma fa_split1 : forall l h t, split1 l = (h, t) -> forallb P l = true -> forallb P h = true /\ fao t = true.
Proof.
  induction l as [|c r IH]; intros h t H G; simpl in H.
  - inversion H; subst. split; reflexivity.
  - simpl in G. apply andb_true_iff in G. destruct G as [G1 G2].
    destruct (c =? 32).
    + inversion H; subst. split; [reflexivity|exact G2].
    + destruct (split1 r) as [h' t'] eqn:S. inversion H; subst.
      destruct (IH _ _ eq_refl G2) as [A B]. split; [simpl; rewrite G1, A; reflexivity|exact B].
Qed.

Lemma fa_splitsp : forall n l, forallb P l = true -> forallb (forallb P) (splitsp n l) = true.
Proof.
  induction n as [|n IH]; intros l G; simpl; [rewrite G; reflexivity|].
  destruct (split1 l) as [h t] eqn:S. destruct (fa_split1 _ _ _ S G) as [A B].
  destruct t as [r|]; simpl; rewrite A; [|reflexivity]. simpl in B. rewrite IH by exact B. reflexivity.
Qed.

Lemma fa_nth : forall k l, forallb (forallb P) l = true -> forallb P (nth k l []) = true.
Proof.
  induction k as [|k IH]; intros [|x l] H; try reflexivity; simpl in *; apply andb_true_iff in H; destruct H as [H1 H2].
  - exact H1.
  - apply IH. exact H2.
Qed.

Lemma fa_nth_error : forall k l, forallb (forallb P) l = true -> fao (nth_error l k) = true.
Proof.
  induction k as [|k IH]; intros [|x l] H; try reflexivity; simpl in *; apply andb_true_iff in H; destruct H as [H1 H2].
  - exact H1.
  - apply IH. exact H2.
Qed.

Lemma fa_nonempty : forall s, forallb P s = true -> fao (nonempty s) = true.
Proof. intros [|c s] H; [reflexivity|exact H]. Qed.
End Pred.

Lemma forallb_mono : forall (P P' : N -> bool), (forall c, P c = true -> P' c = true) ->
  forall s, forallb P s = true -> forallb P' s = true.
Proof.
  intros P P' H. induction s as [|c s IH]; intro G; [reflexivity|]. simpl in *. apply andb_true_iff in G.
  destruct G as [G1 G2]. rewrite (H _ G1), (IH G2). reflexivity.
Qed.

Lemma printable_scalar : forall c, printable c = true -> scalar c = true.
Proof.
  intros c H. unfold printable in H. apply andb_true_iff in H. destruct H as [_ H]. apply N.leb_le in H.
  unfold scalar. rewrite (ltb_true c 55296) by lia. reflexivity.
Qed.

Lemma printable_no_eol : forall s, forallb printable s = true -> ~ In 10 s.
Proof.
  induction s as [|c s IH]; intros H Hin; [destruct Hin|]. simpl in H. apply andb_true_iff in H. destruct H as [H1 H2].
  destruct Hin as [Hc|Hin]; [|exact (IH H2 Hin)]. subst c. discriminate.
Qed.

(* ------------------------------------------------------------------ the messages of the request loop *)
Section Data.
Variable Q : N -> bool.
Hypothesis Q_scalar : forall c, Q c = true -> scalar c = true.
(* the punctuation of the error report  ["name", text, {}]  *)
Hypothesis Q_punct : forallb Q [91; 34; 44; 32; 123; 125; 93] = true.

(* the oracle texts of an environment: reply data, data of the messages handlers sent, error texts *)
Definition env_q (E : env) : Prop :=
  forall i, hres_q Q (lo_h (e_line E i)) = true /\ forallb Q (lo_err (e_line E i)) = true.
(* a message sent by another thread *)
Definition ev_q (ev : event) : Prop := match ev with Chunk _ => True | Async m => qmsg Q m = true end.

(* the constants of the generated tables (checked by computation in Properties.C07_source_facts) *)
Definition consts_q : bool :=
  sstr ERRORPREFIX && sstr HELPREPLY && sstr HELPREQUEST && forallb (qmsg Q) help_frames_msgs
  && forallb (fun h => sstr (h_reply h)) handler_table && forallb (fun p => forallb Q (snd p)) error_names
  && forallb Q generic_error_name && forallb Q decode_error_name.

Lemma q_sstr : forall s, forallb Q s = true -> sstr s = true.
Proof. intros s H. unfold sstr. exact (forallb_mono Q scalar Q_scalar s H). Qed.

Lemma Q_chars : forall c, In c [91; 34; 44; 32; 123; 125; 93] -> Q c = true.
Proof. intros c H. pose proof Q_punct as P. rewrite forallb_forall in P. apply P. exact H. Qed.

Lemma err_data_q : forall name text, forallb Q name = true -> forallb Q text = true ->
  forallb Q (err_data name text) = true.
Proof.
  intros name text Hn Ht. unfold err_data. rewrite !forallb_app, Hn, Ht. simpl.
  rewrite !Q_chars by (simpl; tauto). reflexivity.
Qed.

Lemma qmsg_encodable : forall m, qmsg Q m = true -> encodable m = true.
Proof.
  intros [[a s] d] H. unfold qmsg in H. apply andb_true_iff in H. destruct H as [H Hd].
  apply andb_true_iff in H. destruct H as [Ha Hs].
  unfold encodable, frame_text, ustrip. apply fa_strip.
  assert (Hd' : sostr d = true) by (destruct d as [d|]; [exact (q_sstr _ Hd)|reflexivity]).
  rewrite !forallb_app. unfold sstr in Ha. rewrite Ha. simpl.
  destruct s as [s|]; destruct d as [d|]; unfold sostr, sstr, or_empty in *; rewrite ?Hs, ?Hd'; reflexivity.
Qed.

Lemma qmsgs_encodable : forall ms, forallb (qmsg Q) ms = true -> forallb encodable ms = true.
Proof.
  induction ms as [|m ms IH]; intro H; [reflexivity|]. simpl in *. apply andb_true_iff in H. destruct H as [H1 H2].
  rewrite (qmsg_encodable _ H1), (IH H2). reflexivity.
Qed.

Section Env.
Variable E : env.
Hypothesis HE : env_q E.
Hypothesis HC : consts_q = true.

Lemma consts_q_parts :
  sstr ERRORPREFIX = true /\ sstr HELPREPLY = true /\ sstr HELPREQUEST = true /\
  forallb (qmsg Q) help_frames_msgs = true /\ forallb (fun h => sstr (h_reply h)) handler_table = true /\
  forallb (fun p => forallb Q (snd p)) error_names = true /\ forallb Q generic_error_name = true /\
  forallb Q decode_error_name = true.
Proof.
  pose proof HC as H0. unfold consts_q in H0. do 7 (apply andb_true_iff in H0; destruct H0 as [H0 ?]).
  repeat split; assumption.
Qed.

(* action and specifier of a decoded request are scalar values, whatever the bytes of the line are *)
Lemma decoded_s : forall line a s d, next_message E line = Some (a, s, d) -> sstr a = true /\ sostr s = true.
Proof.
  intros line a s d H. unfold next_message in H.
  destruct (is_nil (bstrip line)).
  - inversion H; subst. split; [apply consts_q_parts|reflexivity].
  - unfold decode_msg in H. destruct (utf8_dec (bstrip line)) as [u|] eqn:U; [|discriminate].
    pose proof (utf8_dec_scalar _ _ U) as GU.
    cbv zeta in H.
    assert (GF : forallb (forallb scalar) (splitsp decode_split_max u ++ [[]; []]) = true).
    { rewrite forallb_app. rewrite fa_splitsp by exact GU. reflexivity. }
    assert (R : sstr (nth 0%nat (splitsp decode_split_max u ++ [[]; []]) []) = true /\
                sostr (nonempty (nth 1%nat (splitsp decode_split_max u ++ [[]; []]) [])) = true).
    { split; [apply (fa_nth scalar); exact GF|apply (fa_nonempty scalar); apply (fa_nth scalar); exact GF]. }
    destruct (nth 2%nat (splitsp decode_split_max u ++ [[]; []]) []) as [|x0 l0].
    + inversion H; subst. exact R.
    + destruct (e_json E (x0 :: l0)); [|discriminate]. inversion H; subst. exact R.
Qed.

Lemma err_reply_q : forall i a s name, sstr a = true -> sostr s = true -> forallb Q name = true ->
  qmsg Q (err_reply E i a s name) = true.
Proof.
  intros i a s name Ha Hs Hn. unfold err_reply, qmsg. unfold sstr at 1. rewrite forallb_app.
  destruct consts_q_parts as [P _]. unfold sstr in P, Ha. rewrite P, Ha, Hs. simpl.
  destruct (HE i) as [_ Ht]. apply err_data_q; assumption.
Qed.

Lemma class_name_q : forall c, forallb Q (error_name_of_class c) = true.
Proof.
  intro c. unfold error_name_of_class. destruct consts_q_parts as [_ [_ [_ [_ [_ [P [G _]]]]]]].
  destruct (find (fun p => str_eqb (fst p) c) error_names) as [p|] eqn:F; [|exact G].
  apply find_some in F. destruct F as [Hin _]. rewrite forallb_forall in P. apply P. exact Hin.
Qed.

Lemma index_name_q : forall k, forallb Q (error_name_of_index k) = true.
Proof.
  intro k. unfold error_name_of_index. destruct consts_q_parts as [_ [_ [_ [_ [_ [P [G _]]]]]]].
  destruct (Nat.ltb k (length error_names)) eqn:L.
  - apply Nat.ltb_lt in L. rewrite forallb_forall in P. apply (P (nth k error_names ([], generic_error_name))).
    apply nth_In. exact L.
  - apply Nat.ltb_ge in L. rewrite nth_overflow by exact L. exact G.
Qed.

Definition outcome_q (o : outcome) : Prop :=
  match o with
  | OReply pre r => forallb (qmsg Q) pre = true /\ qmsg Q r = true
  | OCrash pre => forallb (qmsg Q) pre = true
  end.

Lemma dispatch_q : forall i a s d, sstr a = true -> sostr s = true -> outcome_q (fst (dispatch E i (a, s, d))).
Proof.
  intros i a s d Ha Hs. unfold dispatch.
  destruct consts_q_parts as [_ [_ [_ [_ [PH [_ [G _]]]]]]].
  destruct (negb (str_eqb a IDENTREQUEST) && is_internal a).
  { cbn [fst outcome_q]. split; [reflexivity|]. apply err_reply_q; [exact Ha|exact Hs|apply class_name_q]. }
  assert (Hs' : forall s', s' = (if str_eqb a IDENTREQUEST then None else s) -> sostr s' = true).
  { intros s' ->. destruct (str_eqb a IDENTREQUEST); [reflexivity|exact Hs]. }
  destruct (if str_eqb a IDENTREQUEST then (ident_alias, None, None) else (a, s, d)) as [[a' s'] d'] eqn:AL.
  assert (Gs' : sostr s' = true).
  { apply Hs'. destruct (str_eqb a IDENTREQUEST); inversion AL; reflexivity. }
  destruct (find_handler a') as [h|] eqn:F.
  - destruct (Nat.eqb (h_arity h) 3).
    + destruct (HE i) as [Hh _]. destruct (lo_h (e_line E i)) as [data sent|k|]; cbn [fst outcome_q].
      * simpl in Hh. apply andb_true_iff in Hh. destruct Hh as [Hd Hsent].
        destruct (Nat.eqb (h_rule h) 3); cbn [fst outcome_q]; [exact Hsent|].
        split; [exact Hsent|]. unfold qmsg.
        apply find_handler_some in F. destruct F as [Hin _]. rewrite forallb_forall in PH. rewrite (PH _ Hin), Hd.
        simpl. rewrite andb_true_r.
        destruct (h_rule h) as [|[|[|r]]]; simpl; try reflexivity; [exact Gs'|].
        destruct s' as [[|c r']|]; try reflexivity. exact Gs'.
      * split; [reflexivity|]. apply err_reply_q; [exact Ha|exact Hs|apply index_name_q].
      * split; [reflexivity|]. apply err_reply_q; [exact Ha|exact Hs|exact G].
    + cbn [fst outcome_q]. split; [reflexivity|]. apply err_reply_q; [exact Ha|exact Hs|exact G].
  - cbn [fst outcome_q]. split; [reflexivity|]. apply err_reply_q; [exact Ha|exact Hs|apply class_name_q].
Qed.

Lemma answer_q : forall i line, outcome_q (fst (answer E i line)).
Proof.
  intros i line. unfold answer.
  destruct (next_message E line) as [[[a s] d]|] eqn:NM.
  - destruct (decoded_s _ _ _ _ NM) as [Ha Hs].
    destruct (str_eqb a HELPREQUEST).
    + cbn [fst outcome_q]. destruct consts_q_parts as [_ [P2 [_ [P4 _]]]]. split; [exact P4|]. unfold qmsg. rewrite P2. reflexivity.
    + apply dispatch_q; assumption.
  - cbn [fst outcome_q]. split; [reflexivity|].
    pose proof (fa_splitsp scalar error_split_max _ (repl_scalar (bstrip line))) as GF.
    apply err_reply_q; [apply (fa_nth scalar); exact GF|apply (fa_nth_error scalar); exact GF|apply consts_q_parts].
Qed.

(* hence: every message sent for a request line can be encoded *)
Lemma answer_line_enc : forall i line, line_enc E i line.
Proof.
  intros i line pre r c H. pose proof (answer_q i line) as G. rewrite H in G. cbn [fst outcome_q] in G.
  destruct G as [G1 G2]. apply qmsgs_encodable. rewrite forallb_app, G1. simpl. rewrite G2. reflexivity.
Qed.

(* ---- every frame handed to sendall is the encoding of a message with a Q data part *)
Definition frame_q (f : bytes) : Prop := exists m, f = encode_frame m /\ qmsg Q m = true.

Lemma sent_q : forall ms, forallb (qmsg Q) ms = true -> Forall frame_q (rev (fst (send_seq ms))).
Proof.
  intros ms H. apply Forall_rev. apply Forall_forall. intros f Hin.
  destruct (send_seq_sent _ _ Hin) as [m [A [_ C]]]. exists m. split; [exact C|].
  rewrite forallb_forall in H. apply H. exact A.
Qed.

Lemma process_q : forall st line, Forall frame_q (out st) -> Forall frame_q (out (process E st line)).
Proof.
  intros st line HO. pose proof (answer_q (nline st) line) as HG.
  unfold process. destruct (answer E (nline st) line) as [o c]. cbn [fst] in HG.
  destruct o as [pre r|pre]; cbn [outcome_q] in HG.
  - destruct HG as [G1 G2].
    assert (G : forallb (qmsg Q) (pre ++ [r]) = true) by (rewrite forallb_app, G1; simpl; rewrite G2; reflexivity).
    pose proof (sent_q _ G) as S. destruct (send_seq (pre ++ [r])) as [fs ok]. simpl in *.
    apply Forall_app. split; assumption.
  - simpl. apply Forall_app. split; [apply sent_q; exact HG|exact HO].
Qed.

Lemma drain_q : forall n st, Forall frame_q (out st) -> Forall frame_q (out (drain n E st)).
Proof.
  induction n as [|n IH]; intros st H; simpl; [exact H|].
  destruct (alive st); [|exact H].
  destruct (get_msg (buf st)) as [[l rest]|]; [|exact H].
  apply IH. apply process_q. exact H.
Qed.

Lemma step_q : forall st ev, Forall frame_q (out st) -> ev_q ev -> Forall frame_q (out (step E st ev)).
Proof.
  intros st [b|m] HO Hev; simpl in *.
  - unfold feed. destruct (alive st); [|exact HO]. apply drain_q. exact HO.
  - unfold push. destruct (alive st && encodable m); [|exact HO]. simpl.
    constructor; [exists m; split; [reflexivity|exact Hev]|exact HO].
Qed.

Lemma run_q : forall evs st, Forall frame_q (out st) -> Forall ev_q evs -> Forall frame_q (out (run E st evs)).
Proof.
  unfold run. induction evs as [|ev evs IH]; intros st H Hev; simpl; [exact H|].
  inversion Hev; subst. apply IH; [apply step_q; assumption|assumption].
Qed.

Lemma serve_q : forall evs, Forall ev_q evs -> Forall frame_q (out (serve E evs)).
Proof. intros evs H. apply run_q; [constructor|exact H]. Qed.
End Env.
End Data.

(* ------------------------------------------------------------------ the two instances *)
(* oracle texts that str.encode accepts / oracle texts of json.dumps with ensure_ascii *)
Definition env_enc (E : env) : Prop := env_q scalar E.
Definition env_ascii (E : env) : Prop := env_q printable E.
Definition ev_ascii (ev : event) : Prop := ev_q printable ev.

Lemma scalar_punct : forallb scalar [91; 34; 44; 32; 123; 125; 93] = true. Proof. reflexivity. Qed.
Lemma printable_punct : forallb printable [91; 34; 44; 32; 123; 125; 93] = true. Proof. reflexivity. Qed.

Lemma qostr_mono : forall (P P' : N -> bool), (forall c, P c = true -> P' c = true) ->
  forall o, qostr P o = true -> qostr P' o = true.
Proof. intros P P' H [s|] G; [exact (forallb_mono P P' H s G)|reflexivity]. Qed.

Lemma qmsg_mono : forall (P P' : N -> bool), (forall c, P c = true -> P' c = true) ->
  forall m, qmsg P m = true -> qmsg P' m = true.
Proof.
  intros P P' H [[a s] d] G. unfold qmsg in *. apply andb_true_iff in G. destruct G as [G Gd].
  rewrite G, (qostr_mono P P' H d Gd). reflexivity.
Qed.

Lemma env_ascii_enc : forall E, env_ascii E -> env_enc E.
Proof.
  intros E H i. destruct (H i) as [H1 H2]. split; [|exact (forallb_mono _ _ printable_scalar _ H2)].
  destruct (lo_h (e_line E i)) as [d sent|k|]; try reflexivity. simpl in *.
  apply andb_true_iff in H1. destruct H1 as [A B]. rewrite (qostr_mono _ _ printable_scalar d A). simpl.
  clear A. induction sent as [|m sent IH]; [reflexivity|]. simpl in *. apply andb_true_iff in B. destruct B as [B1 B2].
  rewrite (qmsg_mono _ _ printable_scalar m B1), (IH B2). reflexivity.
Qed.

(* with encodable oracle texts no request line produces a message that can not be encoded *)
Lemma enc_lines : forall E, consts_q scalar = true -> env_enc E -> forall i line, line_enc E i line.
Proof. intros E HC HE. exact (answer_line_enc scalar (fun c H => H) scalar_punct E HE HC). Qed.

(* ASCII in, ASCII out: with a json.dumps that returns printable ASCII every frame sent is the encoding of a message
   whose data part is printable ASCII, and such a message can always be encoded *)
Lemma ascii_frames : forall E evs, consts_q printable = true -> env_ascii E -> Forall ev_ascii evs ->
  Forall (fun f => exists m, f = encode_frame m /\ qostr printable (snd m) = true /\ encodable m = true) (out (serve E evs)).
Proof.
  intros E evs HC HE Hev.
  pose proof (serve_q printable printable_punct E HE HC evs Hev) as H.
  eapply Forall_impl; [|exact H]. intros f [m [A B]]. exists m. split; [exact A|].
  split; [|exact (qmsg_encodable printable printable_scalar m B)].
  destruct m as [[a s] d]. unfold qmsg in B. apply andb_true_iff in B. apply B.
Qed.

(* the law check_case evaluates on every recorded case is the premise env_ascii for the environment of that case *)
Lemma case_env_ascii : forall json lines, ascii_lines lines = true -> env_ascii (mk_env json lines).
Proof.
  intros json lines H i. unfold mk_env. cbn [e_line lo_h lo_err].
  destruct (nth_in_or_default i lines (HExc, [])) as [Hin|Hd].
  - unfold ascii_lines in H. rewrite forallb_forall in H. specialize (H _ Hin). apply andb_true_iff in H. exact H.
  - rewrite Hd. split; reflexivity.
Qed.

Lemma case_events_ascii : forall evs, forallb ascii_event evs = true -> Forall ev_ascii evs.
Proof.
  intros evs H. apply Forall_forall. intros ev Hin. rewrite forallb_forall in H. specialize (H _ Hin).
  destruct ev as [b|m]; [exact I|exact H].
Qed.
