(* C07 - every frame handed to sendall is one line of valid UTF-8 *)
From Coq Require Import List Arith NArith Bool Lia.
Import ListNotations.
Require Import FV.Gen.C07 FV.C07.Model FV.C07.Lemmas FV.C07.Utf8 FV.C07.Repl.
Local Open Scope N_scope.

(* a character that can be encoded and is not the line terminator *)
Definition good (c : N) : bool := scalar c && negb (c =? 10).
Definition gstr (s : str) : bool := forallb good s.
Definition gostr (o : option str) : bool := match o with Some s => gstr s | None => true end.
Definition gmsg (m : msg) : bool := let '(a, s, d) := m in gstr a && gostr s && gostr d.

(* one line: UTF-8 text without the terminator, followed by the terminator *)
Definition frame_ok (f : bytes) : Prop :=
  exists s, f = utf8_enc s ++ [EOL] /\ utf8_dec (utf8_enc s) = Some s /\ ~ In EOL (utf8_enc s).

(* the oracle data is text: what json.dumps and str() produce are strings without line terminator *)
Definition hres_ok (h : hres) : bool :=
  match h with HOk d sent => gostr d && forallb gmsg sent | _ => true end.
Definition env_ok (E : env) : Prop :=
  forall i, hres_ok (lo_h (e_line E i)) = true /\ gstr (lo_err (e_line E i)) = true.
Definition ev_ok (ev : event) : Prop :=
  match ev with Chunk b => Forall (fun x => x < 256) b | Async m => gmsg m = true end.

(* the constants of the generated tables are such text (checked by computation) *)
Definition consts_good : bool :=
  gstr ERRORPREFIX && gstr HELPREPLY && gstr HELPREQUEST && forallb gmsg help_frames_msgs
  && forallb (fun h => gstr (h_reply h)) handler_table && forallb (fun p => gstr (snd p)) error_names
  && gstr generic_error_name && gstr decode_error_name.

Lemma gstr_app : forall a b, gstr (a ++ b) = gstr a && gstr b.
Proof. intros. unfold gstr. apply forallb_app. Qed.

Lemma gstr_rev : forall a, gstr (rev a) = gstr a.
Proof.
  induction a as [|x a IH]; [reflexivity|]. simpl. rewrite gstr_app, IH. simpl. rewrite andb_true_r. apply andb_comm.
Qed.

Lemma gstr_lstrip : forall f a, gstr a = true -> gstr (lstrip f a) = true.
Proof.
  intros f. induction a as [|x a IH]; intro H; [reflexivity|]. simpl.
  destruct (f x); [|exact H]. apply IH. simpl in H. apply andb_true_iff in H. apply H.
Qed.

Lemma gstr_strip : forall f a, gstr a = true -> gstr (strip f a) = true.
Proof.
  intros f a H. unfold strip. rewrite gstr_rev. apply gstr_lstrip. rewrite gstr_rev. apply gstr_lstrip. exact H.
Qed.

Lemma gstr_scalar : forall s, gstr s = true -> forallb scalar s = true.
Proof.
  induction s as [|c s IH]; intro H; [reflexivity|]. simpl in *. apply andb_true_iff in H. destruct H as [H1 H2].
  unfold good in H1. apply andb_true_iff in H1. destruct H1 as [H1 _]. rewrite H1, IH by exact H2. reflexivity.
Qed.

Lemma gstr_no_eol : forall s, gstr s = true -> ~ In 10 s.
Proof.
  induction s as [|c s IH]; intros H Hin; [destruct Hin|]. simpl in H. apply andb_true_iff in H. destruct H as [H1 H2].
  destruct Hin as [Hc|Hin]; [|exact (IH H2 Hin)]. subst c. unfold good in H1. rewrite andb_false_r in H1. discriminate.
Qed.

Lemma gstr_intro : forall s, forallb scalar s = true -> ~ In 10 s -> gstr s = true.
Proof.
  induction s as [|c s IH]; intros H Hn; [reflexivity|]. simpl in *. apply andb_true_iff in H. destruct H as [H1 H2].
  rewrite IH; [|exact H2|intro; apply Hn; right; assumption]. rewrite andb_true_r.
  unfold good. rewrite H1. simpl. apply negb_true_iff. apply N.eqb_neq. intro. apply Hn. left. assumption.
Qed.

Lemma encode_frame_ok : forall m, gmsg m = true -> frame_ok (encode_frame m).
Proof.
  intros [[a s] d] H. unfold gmsg in H. apply andb_true_iff in H. destruct H as [H Hd].
  apply andb_true_iff in H. destruct H as [Ha Hs].
  unfold encode_frame.
  set (X := a ++ [32] ++ or_empty s ++ [32] ++ or_empty d).
  assert (HX : gstr X = true).
  { unfold X. rewrite !gstr_app. rewrite Ha. simpl.
    destruct s as [s|]; destruct d as [d|]; simpl in *; rewrite ?Hs, ?Hd; reflexivity. }
  exists (ustrip X). split; [reflexivity|].
  assert (HS : gstr (ustrip X) = true) by (apply gstr_strip; exact HX).
  split; [apply utf8_roundtrip; apply gstr_scalar; exact HS|].
  change EOL with 10. apply utf8_enc_no_eol. apply gstr_no_eol. exact HS.
Qed.

(* ---- pieces of good text are good *)
Lemma split1_good : forall l h t, split1 l = (h, t) -> gstr l = true -> gstr h = true /\ gostr t = true.
Proof.
  induction l as [|c r IH]; intros h t H G; simpl in H.
  - inversion H; subst. split; reflexivity.
  - simpl in G. apply andb_true_iff in G. destruct G as [G1 G2].
    destruct (c =? 32).
    + inversion H; subst. split; [reflexivity|exact G2].
    + destruct (split1 r) as [h' t'] eqn:S. inversion H; subst.
      destruct (IH _ _ eq_refl G2) as [A B]. split; [simpl; rewrite G1, A; reflexivity|exact B].
Qed.

Lemma splitsp_good : forall n l, gstr l = true -> forallb gstr (splitsp n l) = true.
Proof.
  induction n as [|n IH]; intros l G; simpl; [rewrite G; reflexivity|].
  destruct (split1 l) as [h t] eqn:S. destruct (split1_good _ _ _ S G) as [A B].
  destruct t as [r|]; simpl; rewrite A; [|reflexivity]. simpl in B. rewrite IH by exact B. reflexivity.
Qed.

Lemma nth_good : forall k l, forallb gstr l = true -> gstr (nth k l []) = true.
Proof.
  induction k as [|k IH]; intros [|x l] H; try reflexivity; simpl in *; apply andb_true_iff in H; destruct H as [H1 H2].
  - exact H1.
  - apply IH. exact H2.
Qed.

Lemma nth_error_good : forall k l, forallb gstr l = true -> gostr (nth_error l k) = true.
Proof.
  induction k as [|k IH]; intros [|x l] H; try reflexivity; simpl in *; apply andb_true_iff in H; destruct H as [H1 H2].
  - exact H1.
  - apply IH. exact H2.
Qed.

Lemma nonempty_good : forall s, gstr s = true -> gostr (nonempty s) = true.
Proof. intros [|c s] H; [reflexivity|exact H]. Qed.

Definition byte_line (l : bytes) : Prop := Forall (fun b => b < 256) l /\ ~ In 10 l.

Lemma byte_line_good : forall l, byte_line l -> gstr l = true.
Proof.
  intros l [H1 H2]. apply gstr_intro; [|exact H2].
  clear H2. induction H1 as [|b l Hb _ IH]; [reflexivity|]. simpl. rewrite IH, andb_true_r.
  unfold scalar. rewrite (ltb_true b 55296) by lia. reflexivity.
Qed.

Lemma lstrip_incl : forall f l x, In x (lstrip f l) -> In x l.
Proof.
  intros f. induction l as [|y l IH]; intros x H; [exact H|]. simpl in H.
  destruct (f y); [right; apply IH; exact H|exact H].
Qed.

Lemma strip_incl : forall f l x, In x (strip f l) -> In x l.
Proof.
  intros f l x H. unfold strip in H. apply in_rev in H. apply lstrip_incl in H. apply in_rev in H.
  apply lstrip_incl in H. exact H.
Qed.

Section Good.
Variable E : env.
Hypothesis HE : env_ok E.
Hypothesis HC : consts_good = true.

Lemma consts_parts :
  gstr ERRORPREFIX = true /\ gstr HELPREPLY = true /\ gstr HELPREQUEST = true /\
  forallb gmsg help_frames_msgs = true /\ forallb (fun h => gstr (h_reply h)) handler_table = true /\
  forallb (fun p => gstr (snd p)) error_names = true /\ gstr generic_error_name = true /\
  gstr decode_error_name = true.
Proof.
  unfold consts_good in HC. repeat (apply andb_true_iff in HC; destruct HC as [HC ?]). repeat split; assumption.
Qed.

Lemma decoded_good : forall line a s d, byte_line line -> next_message E line = Some (a, s, d) ->
  gstr a = true /\ gostr s = true.
Proof.
  intros line a s d [HB HN] H. unfold next_message in H.
  destruct (is_nil (bstrip line)).
  - inversion H; subst. split; [apply consts_parts|reflexivity].
  - unfold decode_msg in H. destruct (utf8_dec (bstrip line)) as [u|] eqn:U; [|discriminate].
    assert (GU : gstr u = true).
    { apply gstr_intro; [eapply utf8_dec_scalar; exact U|].
      eapply utf8_dec_no_eol; [exact U|]. intro Hin. apply HN. eapply strip_incl. exact Hin. }
    cbv zeta in H.
    assert (GF : forallb gstr (splitsp decode_split_max u ++ [[]; []]) = true).
    { rewrite forallb_app. rewrite splitsp_good by exact GU. reflexivity. }
    destruct (nth 2%nat (splitsp decode_split_max u ++ [[]; []]) []) as [|x0 l0].
    + inversion H; subst. split; [apply nth_good; exact GF|apply nonempty_good; apply nth_good; exact GF].
    + destruct (e_json E (x0 :: l0)); [|discriminate]. inversion H; subst.
      split; [apply nth_good; exact GF|apply nonempty_good; apply nth_good; exact GF].
Qed.

Lemma err_reply_good : forall i a s name, gstr a = true -> gostr s = true -> gstr name = true ->
  gmsg (err_reply E i a s name) = true.
Proof.
  intros i a s name Ha Hs Hn. unfold err_reply, gmsg. rewrite gstr_app, Ha, Hs.
  destruct consts_parts as [P _]. rewrite P. simpl.
  destruct (HE i) as [_ Ht].
  rewrite gstr_app, Hn. simpl. change (gstr (lo_err (e_line E i) ++ [44; 32; 123; 125; 93]) = true).
  rewrite gstr_app, Ht. reflexivity.
Qed.

Lemma class_name_good : forall c, gstr (error_name_of_class c) = true.
Proof.
  intro c. unfold error_name_of_class. destruct consts_parts as [_ [_ [_ [_ [_ [P [G _]]]]]]].
  destruct (find (fun p => str_eqb (fst p) c) error_names) as [p|] eqn:F; [|exact G].
  apply find_some in F. destruct F as [Hin _]. rewrite forallb_forall in P. apply P. exact Hin.
Qed.

Lemma index_name_good : forall k, gstr (error_name_of_index k) = true.
Proof.
  intro k. unfold error_name_of_index. destruct consts_parts as [_ [_ [_ [_ [_ [P [G _]]]]]]].
  destruct (Nat.ltb k (length error_names)) eqn:L.
  - apply Nat.ltb_lt in L. rewrite forallb_forall in P. apply (P (nth k error_names ([], generic_error_name))).
    apply nth_In. exact L.
  - apply Nat.ltb_ge in L. rewrite nth_overflow by exact L. exact G.
Qed.

Definition outcome_good (o : outcome) : Prop :=
  match o with
  | OReply pre r => forallb gmsg pre = true /\ gmsg r = true
  | OCrash pre => forallb gmsg pre = true
  end.

Lemma dispatch_good : forall i a s d, gstr a = true -> gostr s = true ->
  outcome_good (fst (dispatch E i (a, s, d))).
Proof.
  intros i a s d Ha Hs. unfold dispatch.
  destruct consts_parts as [_ [_ [_ [_ [PH [_ [G _]]]]]]].
  destruct (negb (str_eqb a IDENTREQUEST) && is_internal a).
  { cbn [fst outcome_good]. split; [reflexivity|]. apply err_reply_good; [exact Ha|exact Hs|apply class_name_good]. }
  assert (Hs' : forall s', s' = (if str_eqb a IDENTREQUEST then None else s) -> gostr s' = true).
  { intros s' ->. destruct (str_eqb a IDENTREQUEST); [reflexivity|exact Hs]. }
  destruct (if str_eqb a IDENTREQUEST then (ident_alias, None, None) else (a, s, d)) as [[a' s'] d'] eqn:AL.
  assert (Gs' : gostr s' = true).
  { apply Hs'. destruct (str_eqb a IDENTREQUEST); inversion AL; reflexivity. }
  destruct (find_handler a') as [h|] eqn:F.
  - destruct (Nat.eqb (h_arity h) 3).
    + destruct (HE i) as [Hh _]. destruct (lo_h (e_line E i)) as [data sent|k|]; cbn [fst outcome_good].
      * simpl in Hh. apply andb_true_iff in Hh. destruct Hh as [Hd Hsent].
        destruct (Nat.eqb (h_rule h) 3); cbn [fst outcome_good]; [exact Hsent|].
        split; [exact Hsent|]. unfold gmsg.
        apply find_handler_some in F. destruct F as [Hin _]. rewrite forallb_forall in PH. rewrite (PH _ Hin), Hd.
        simpl. rewrite andb_true_r.
        destruct (h_rule h) as [|[|[|r]]]; simpl; try reflexivity; [exact Gs'|].
        destruct s' as [[|c r']|]; try reflexivity. exact Gs'.
      * split; [reflexivity|]. apply err_reply_good; [exact Ha|exact Hs|apply index_name_good].
      * split; [reflexivity|]. apply err_reply_good; [exact Ha|exact Hs|exact G].
    + cbn [fst outcome_good]. split; [reflexivity|]. apply err_reply_good; [exact Ha|exact Hs|exact G].
  - cbn [fst outcome_good]. split; [reflexivity|]. apply err_reply_good; [exact Ha|exact Hs|apply class_name_good].
Qed.

Lemma answer_good : forall i line, byte_line line -> outcome_good (fst (answer E i line)).
Proof.
  intros i line HB. unfold answer.
  destruct (next_message E line) as [[[a s] d]|] eqn:NM.
  - destruct (decoded_good _ _ _ _ HB NM) as [Ha Hs].
    destruct (str_eqb a HELPREQUEST).
    + cbn [fst outcome_good]. destruct consts_parts as [_ [P2 [_ [P4 _]]]]. split; [exact P4|]. unfold gmsg. rewrite P2. reflexivity.
    + apply dispatch_good; assumption.
  - cbn [fst outcome_good]. split; [reflexivity|].
    assert (GR : gstr (utf8_dec_repl (bstrip line)) = true).
    { apply gstr_intro; [apply repl_scalar|]. apply repl_no_eol. intro Hin. apply strip_incl in Hin.
      destruct HB as [_ HB]. apply HB. exact Hin. }
    pose proof (splitsp_good error_split_max (utf8_dec_repl (bstrip line)) GR) as GF.
    apply err_reply_good; [apply nth_good; exact GF|apply nth_error_good; exact GF|apply consts_parts].
Qed.

(* ---- invariant of the connection *)
Definition st_ok (st : conn) : Prop := Forall (fun b => b < 256) (buf st) /\ Forall frame_ok (out st).

Lemma sent_ok : forall ms, forallb gmsg ms = true -> Forall frame_ok (rev (fst (send_seq ms))).
Proof.
  intros ms H. apply Forall_rev. apply Forall_forall. intros f Hin.
  destruct (send_seq_sent _ _ Hin) as [m [A [_ C]]]. subst f. apply encode_frame_ok.
  rewrite forallb_forall in H. apply H. exact A.
Qed.

Lemma process_ok : forall st line, st_ok st -> byte_line line -> st_ok (process E st line).
Proof.
  intros st line [HB HO] HL. pose proof (answer_good (nline st) line HL) as HG.
  unfold process. destruct (answer E (nline st) line) as [o c]. simpl in HG.
  destruct o as [pre r|pre].
  - destruct HG as [G1 G2].
    assert (G : forallb gmsg (pre ++ [r]) = true) by (rewrite forallb_app, G1; simpl; rewrite G2; reflexivity).
    pose proof (sent_ok _ G) as S. destruct (send_seq (pre ++ [r])) as [fs ok]. split; simpl in *; [exact HB|].
    apply Forall_app. split; assumption.
  - split; simpl; [exact HB|]. apply Forall_app. split; [apply sent_ok; exact HG|exact HO].
Qed.

Lemma drain_ok : forall n st, st_ok st -> st_ok (drain n E st).
Proof.
  induction n as [|n IH]; intros st H; simpl; [exact H|].
  destruct (alive st); [|exact H].
  destruct (get_msg (buf st)) as [[l rest]|] eqn:G; [|exact H].
  apply IH. destruct H as [HB HO].
  pose proof (get_msg_rejoin _ _ _ G) as RJ. rewrite RJ in HB. apply Forall_app in HB. destruct HB as [HL HR].
  inversion HR; subst.
  apply process_ok.
  - split; simpl; assumption.
  - split; [exact HL|]. change 10 with EOL. eapply get_msg_line_no_eol. exact G.
Qed.

Lemma step_ok : forall st ev, st_ok st -> ev_ok ev -> st_ok (step E st ev).
Proof.
  intros st [b|m] [HB HO] Hev; simpl in *.
  - unfold feed. destruct (alive st); [|split; assumption]. apply drain_ok. split; simpl; [|exact HO].
    apply Forall_app. split; assumption.
  - unfold push. destruct (alive st && encodable m); [|split; assumption]. split; simpl; [exact HB|].
    constructor; [apply encode_frame_ok; exact Hev|exact HO].
Qed.

Lemma run_ok : forall evs st, st_ok st -> Forall ev_ok evs -> st_ok (run E st evs).
Proof.
  unfold run. induction evs as [|ev evs IH]; intros st H Hev; simpl; [exact H|].
  inversion Hev; subst. apply IH; [apply step_ok; assumption|assumption].
Qed.

Lemma serve_wellformed : forall evs, Forall ev_ok evs -> Forall frame_ok (out (serve E evs)).
Proof. intros evs H. apply run_ok; [split; constructor|exact H]. Qed.
End Good.
