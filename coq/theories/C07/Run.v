(* C07 - correspondence driver: a case carries the inputs, the oracle data recorded on the implementation
   and what the implementation did; check_case re-runs the model and compares. *)
From Coq Require Import List Arith NArith Bool.
Import ListNotations.
Require Import FV.Base.Util FV.Gen.C07 FV.C07.Model FV.C07.Conc.

(* compact literals: a byte string is written as one hexadecimal number, a leading 1 marks the start;
   B reads 8 bits per element, U 24 bits per element (code points) *)
Fixpoint unpk (top : N) (p : positive) (w : N) (cur : N) (acc : list N) : list N :=
  match p with
  | xH => acc
  | xO q => if N.eqb w top then unpk top q 1%N 0%N (cur :: acc) else unpk top q (N.double w) cur acc
  | xI q => if N.eqb w top then unpk top q 1%N 0%N ((cur + w)%N :: acc) else unpk top q (N.double w) (cur + w)%N acc
  end.
Definition B (n : N) : bytes := match n with N0 => [] | Npos p => unpk 128%N p 1%N 0%N [] end.
Definition U (n : N) : str := match n with N0 => [] | Npos p => unpk 8388608%N p 1%N 0%N [] end.

Definition ostr_eqb := opt_eqb str_eqb.
Definition msg_eqb (a b : msg) : bool :=
  let '(a1, s1, d1) := a in let '(a2, s2, d2) := b in str_eqb a1 a2 && ostr_eqb s1 s2 && ostr_eqb d1 d2.
Definition call_eqb (a b : call) : bool :=
  let '(i1, n1, s1, d1) := a in let '(i2, n2, s2, d2) := b in
  Nat.eqb i1 i2 && str_eqb n1 n2 && ostr_eqb s1 s2 && ostr_eqb d1 d2.

Fixpoint assoc_str {A} (k : str) (l : list (str * A)) : option A :=
  match l with [] => None | (k', v) :: r => if str_eqb k k' then Some v else assoc_str k r end.

Definition mk_env (json : list (str * option str)) (lines : list (hres * str)) : env :=
  {| e_json := fun s => match assoc_str s json with Some r => r | None => None end;
     e_line := fun i => let p := nth i lines (HExc, []) in {| lo_h := fst p; lo_err := snd p |} |}.

Inductive case :=
| CStream (chunks : list event) (json : list (str * option str)) (lines : list (hres * str))
          (o_out : list bytes) (o_calls : list call) (o_rest : bytes) (o_alive : bool)
| CEncode (m : msg) (o : option bytes)   (* None: encode_msg_frame raised UnicodeEncodeError *)
| CDecode (line : bytes) (json : list (str * option str)) (o : option msg)
(* concurrent send path: per thread the (connection, message) pairs it handed to send_reply, the schedule as executed
   (one event per atomic step: encode / acquire / partial write of k bytes / failing write), number of connections;
   observed: bytes each socket accepted, self.running of each connection at the end *)
| CConc (progs : list (list job)) (sched : list cevent) (nconn : nat) (o_socks : list bytes) (o_running : list bool).

(* law of the json.dumps oracle (ensure_ascii left at its default): every data text handed to the model - reply data,
   error texts, data of the messages handlers and other threads sent - is printable ASCII.  It is the premise of
   C07_reply_ascii_data / C07_never_terminates, so it is checked on every case *)
Definition ascii_lines (lines : list (hres * str)) : bool :=
  forallb (fun p => hres_q printable (fst p) && forallb printable (snd p)) lines.
Definition ascii_event (ev : event) : bool := match ev with Chunk _ => true | Async m => qmsg printable m end.

Definition check_case (c : case) : bool :=
  match c with
  | CStream chunks json lines o_out o_calls o_rest o_alive =>
      let st := serve (mk_env json lines) chunks in
      list_eqb str_eqb (output st) o_out && list_eqb call_eqb (rev (calls st)) o_calls
      && str_eqb (buf st) o_rest && Bool.eqb (alive st) o_alive && Nat.eqb (nline st) (length lines)
      && ascii_lines lines && forallb ascii_event chunks
  | CEncode m o => opt_eqb str_eqb (encode_msg m) o && qostr printable (snd m)
  | CDecode line json o => opt_eqb msg_eqb (decode_msg (mk_env json []) line) o
  | CConc progs sched nconn o_socks o_running =>
      let st := crun true (cinit (progs_of progs)) sched in
      let cs := seq 0 nconn in
      list_eqb str_eqb (map (fun c => sock (con st c)) cs) o_socks
      && list_eqb Bool.eqb (map (fun c => running (con st c)) cs) o_running
      && forallb (fun c => negb (is_some (lock (con st c)))) cs
      && forallb (fun t => is_nil (todo (thr st t))) (seq 0 (length progs))
  end.

(* what the model does, for diagnosis in replay files *)
Definition model_result (c : case) : list bytes * list call * bytes * option msg :=
  match c with
  | CStream chunks json lines _ _ _ _ =>
      let st := serve (mk_env json lines) chunks in (output st, rev (calls st), buf st, None)
  | CEncode m _ => (match encode_msg m with Some f => [f] | None => [] end, [], [], None)
  | CDecode line json _ => ([], [], [], decode_msg (mk_env json []) line)
  | CConc progs sched nconn _ _ =>
      let st := crun true (cinit (progs_of progs)) sched in
      (map (fun c => sock (con st c)) (seq 0 nconn), [], [], None)
  end.
