(* C07 - concurrent layer: the send path of the connections of one server under arbitrary interleaving.
     frappy/protocol/interface/tcp.py   TCPRequestHandler.send_reply
     frappy/protocol/interface/handler.py  RequestHandler.setup (send_lock, running)
   Threads: the handler thread of every connection (replies, help lines, updates of activate) and any number of
   other threads (Dispatcher.broadcast_event of a parameter update, Dispatcher.send_log_msg) call send_reply of
   connection objects.  One call is
       outdata = encode_msg_frame( *data)        (outside the lock; raises on text that can not be encoded)
       with self.send_lock:
           if self.running:
               try: self.request.sendall(outdata)      (the socket takes the frame in one or more partial writes)
               except ...: self.running = False        (BrokenPipeError, IOError, any Exception)
   A thread program is the list of (connection, message) it hands to send_reply, in order.  The schedule says which
   thread makes its next atomic step, how many bytes the socket accepts in a partial write (at least one) and when the
   socket of a connection fails.  Steps: encode / acquire the lock and test `running` / one partial write (the last
   one also leaves sendall and the with block) / a failing write (running := False, the with block is left).
   No proofs in this file.  use_lock = false is the same code without `with self.send_lock` (for the witness). *)
From Coq Require Import List Arith NArith Bool.
Import ListNotations.
Require Import FV.Gen.C07 FV.C07.Model.

Definition job := (nat * msg)%type.     (* connection number, message handed to send_reply *)

Inductive phase :=
| PIdle                          (* between two send_reply calls *)
| PEnc (f : bytes)               (* outdata = f is computed, the thread is about to enter the with block *)
| PWrite (f rest : bytes).       (* inside sendall, holding send_lock: rest is not yet written *)

Record thread := { ph : phase; todo : list job; donej : list job }.

Record cconn := {
  lock : option nat;             (* send_lock: the thread holding it *)
  running : bool;                (* self.running *)
  sock : bytes;                  (* everything the socket accepted so far *)
  log : list (nat * bytes)       (* (thread, frame) of every sendall begun, in the order the lock was acquired *)
}.

Record cstate := { thr : nat -> thread; con : nat -> cconn }.

Inductive act := Write (k : nat) | Fail (c : nat).
Definition cevent := (nat * act)%type.   (* thread that makes a step; what the socket does if the step is a write *)

Definition set_thr (st : cstate) (t : nat) (T : thread) : cstate :=
  {| thr := fun x => if Nat.eqb x t then T else thr st x; con := con st |}.
Definition set_con (st : cstate) (c : nat) (C : cconn) : cstate :=
  {| thr := thr st; con := fun x => if Nat.eqb x c then C else con st x |}.

(* the send_reply call returns (or raises): next job *)
Definition pop (T : thread) : thread :=
  match todo T with
  | [] => T
  | j :: tl => {| ph := PIdle; todo := tl; donej := donej T ++ [j] |}
  end.
Definition set_ph (T : thread) (p : phase) : thread := {| ph := p; todo := todo T; donej := donej T |}.

Definition is_some {A} (o : option A) : bool := match o with Some _ => true | None => false end.

(* one partial write of n bytes by thread t on connection c *)
Definition do_write (st : cstate) (t c : nat) (T : thread) (C : cconn) (f rest : bytes) (n : nat) : cstate :=
  let w := firstn n rest in
  match skipn n rest with
  | [] => set_con (set_thr st t (pop T)) c
            {| lock := None; running := running C; sock := sock C ++ w; log := log C |}
  | r => set_con (set_thr st t (set_ph T (PWrite f r))) c
            {| lock := lock C; running := running C; sock := sock C ++ w; log := log C |}
  end.

Definition cstep (use_lock : bool) (st : cstate) (e : cevent) : cstate :=
  let t := fst e in
  let T := thr st t in
  match todo T with
  | [] => st
  | (c, m) :: _ =>
      let C := con st c in
      match ph T with
      | PIdle =>
          match encode_msg m with
          | Some f => set_thr st t (set_ph T (PEnc f))
          | None => set_thr st t (pop T)               (* UnicodeEncodeError raised in the calling thread *)
          end
      | PEnc f =>
          if use_lock && is_some (lock C) then st      (* blocked in acquire *)
          else if running C then
            set_con (set_thr st t (set_ph T (PWrite f f))) c
              {| lock := Some t; running := running C; sock := sock C; log := log C ++ [(t, f)] |}
          else set_thr st t (pop T)                    (* if self.running: false - nothing is written *)
      | PWrite f rest =>
          match snd e with
          | Fail c' =>
              if Nat.eqb c' c then
                set_con (set_thr st t (pop T)) c
                  {| lock := None; running := false; sock := sock C; log := log C |}
              else do_write st t c T C f rest 1
          | Write k => do_write st t c T C f rest (Nat.max 1 k)
          end
      end
  end.

Definition crun (use_lock : bool) (st : cstate) (sched : list cevent) : cstate := fold_left (cstep use_lock) sched st.

Definition cinit (progs : nat -> list job) : cstate :=
  {| thr := fun t => {| ph := PIdle; todo := progs t; donej := [] |};
     con := fun _ => {| lock := None; running := true; sock := []; log := [] |} |}.

(* frames thread t got on its way on connection c, and those a list of jobs produces *)
Definition projf (t : nat) (l : list (nat * bytes)) : list bytes :=
  map snd (filter (fun p => Nat.eqb (fst p) t) l).
Definition enc_job (c : nat) (j : job) : list bytes :=
  if Nat.eqb (fst j) c then match encode_msg (snd j) with Some f => [f] | None => [] end else [].
Definition encs (c : nat) (js : list job) : list bytes := flat_map (enc_job c) js.
(* the frame of the sendall in progress of thread t, if it is on connection c *)
Definition curf (T : thread) (c : nat) : list bytes :=
  match todo T, ph T with
  | (c', _) :: _, PWrite f _ => if Nat.eqb c' c then [f] else []
  | _, _ => []
  end.

Definition progs_of (l : list (list job)) : nat -> list job := fun t => nth t l [].
