(* C07 - decoding an encoded message triple gives the triple back *)
From Coq Require Import List Arith NArith Bool Lia.
Import ListNotations.
Require Import FV.Gen.C07 FV.C07.Model FV.C07.Lemmas FV.C07.Utf8.
Local Open Scope N_scope.

(* first and last element are not white space *)
Definition ends_clean (f : N -> bool) (l : list N) : Prop :=
  (exists c r, l = c :: r /\ f c = false) /\ (exists r c, l = r ++ [c] /\ f c = false).

Lemma lstrip_all : forall f ws l, forallb f ws = true -> lstrip f (ws ++ l) = lstrip f l.
Proof.
  intros f. induction ws as [|w ws IH]; intros l H; [reflexivity|]. simpl in *.
  apply andb_true_iff in H. destruct H as [H1 H2]. rewrite H1. apply IH. exact H2.
Qed.

Lemma forallb_rev : forall (f : N -> bool) l, forallb f (rev l) = forallb f l.
Proof.
  intros f. induction l as [|x l IH]; [reflexivity|]. simpl. rewrite forallb_app, IH. simpl.
  rewrite andb_true_r. apply andb_comm.
Qed.

Lemma strip_core : forall f Y ws, ends_clean f Y -> forallb f ws = true -> strip f (Y ++ ws) = Y.
Proof.
  intros f Y ws [[c [r [Hh Hc]]] [r' [c' [Hl Hc']]]] Hws. unfold strip.
  assert (L1 : lstrip f (Y ++ ws) = Y ++ ws). { rewrite Hh. simpl. rewrite Hc. reflexivity. }
  rewrite L1. rewrite rev_app_distr. rewrite lstrip_all by (rewrite forallb_rev; exact Hws).
  rewrite Hl at 1. rewrite rev_app_distr. simpl. rewrite Hc'.
  change (c' :: rev r') with (rev [c'] ++ rev r'). rewrite <- rev_app_distr, <- Hl. apply rev_involutive.
Qed.

Lemma ends_clean_app : forall f a b, ends_clean f a -> ends_clean f b -> forall m, ends_clean f (a ++ m ++ b).
Proof.
  intros f a b [[c [r [Hh Hc]]] _] [_ [r' [c' [Hl Hc']]]] m. split.
  - exists c, (r ++ m ++ b). rewrite Hh. split; [reflexivity|exact Hc].
  - exists (a ++ m ++ r'), c'. rewrite Hl. rewrite <- !app_assoc. split; [reflexivity|exact Hc'].
Qed.

(* a token: not empty, only encodable characters, no white space of any kind *)
Definition tokb (s : str) : bool := negb (is_nil s) && forallb (fun c => scalar c && negb (is_uspace c)) s.

Lemma tok_ends : forall s, tokb s = true -> ends_clean is_uspace s.
Proof.
  intros s H. unfold tokb in H. apply andb_true_iff in H. destruct H as [Hn Hf].
  rewrite forallb_forall in Hf.
  assert (P : forall c, In c s -> is_uspace c = false).
  { intros c Hin. specialize (Hf c Hin). apply andb_true_iff in Hf. destruct Hf as [_ Hf]. apply negb_true_iff. exact Hf. }
  split.
  - destruct s as [|c r]; [discriminate|]. exists c, r. split; [reflexivity|apply P; left; reflexivity].
  - destruct s as [|c r]; [discriminate|]. destruct (exists_last (l := c :: r)) as [r' [c' Hl]]; [discriminate|].
    exists r', c'. split; [exact Hl|]. apply P. rewrite Hl. apply in_or_app. right. left. reflexivity.
Qed.

Lemma tok_scalar : forall s, tokb s = true -> forallb scalar s = true.
Proof.
  intros s H. unfold tokb in H. apply andb_true_iff in H. destruct H as [_ Hf].
  rewrite forallb_forall in *. intros c Hin. specialize (Hf c Hin). apply andb_true_iff in Hf. apply Hf.
Qed.

Lemma tok_no_blank : forall s, tokb s = true -> ~ In 32 s.
Proof.
  intros s H Hin. unfold tokb in H. apply andb_true_iff in H. destruct H as [_ Hf].
  rewrite forallb_forall in Hf. specialize (Hf 32 Hin). vm_compute in Hf. discriminate.
Qed.

Lemma split1_no_blank : forall a, ~ In 32 a -> split1 a = (a, None).
Proof.
  induction a as [|c a IH]; intro H; [reflexivity|]. simpl.
  destruct (c =? 32) eqn:Ec. { apply N.eqb_eq in Ec. exfalso. apply H. left. exact Ec. }
  rewrite IH; [reflexivity|]. intro. apply H. right. assumption.
Qed.

Lemma split1_at_blank : forall a r, ~ In 32 a -> split1 (a ++ 32 :: r) = (a, Some r).
Proof.
  induction a as [|c a IH]; intros r H; [reflexivity|]. simpl.
  destruct (c =? 32) eqn:Ec. { apply N.eqb_eq in Ec. exfalso. apply H. left. exact Ec. }
  rewrite IH; [reflexivity|]. intro. apply H. right. assumption.
Qed.

(* bytes: the encoding of text with clean ends has clean ends *)
Lemma bspace_high : forall b, 128 <= b -> is_bspace b = false.
Proof.
  intros b H. unfold is_bspace. rewrite (eqb_false b 32) by lia. rewrite (leb_false b 13) by lia.
  rewrite andb_false_r. reflexivity.
Qed.

Lemma bspace_uspace : forall c, is_uspace c = false -> is_bspace c = false.
Proof.
  intros c H. unfold is_bspace, is_uspace in *.
  repeat (apply orb_false_iff in H; destruct H as [H ?]).
  destruct (c =? 32) eqn:E32.
  - apply N.eqb_eq in E32. subst c. vm_compute in H0. discriminate.
  - simpl. exact H.
Qed.

Lemma enc1_ends : forall c, is_uspace c = false -> ends_clean is_bspace (enc1 c).
Proof.
  intros c H. unfold enc1.
  destruct (c <? 128).
  - split; [exists c, []|exists [], c]; (split; [reflexivity|apply bspace_uspace; exact H]).
  - destruct (c <? 2048); [|destruct (c <? 65536)].
    + split; [exists (192 + c / 64), [128 + c mod 64]|exists [192 + c / 64], (128 + c mod 64)];
        (split; [reflexivity|apply bspace_high; apply le128_add; lia]).
    + split; [exists (224 + c / 4096), [128 + (c / 64) mod 64; 128 + c mod 64]
             |exists [224 + c / 4096; 128 + (c / 64) mod 64], (128 + c mod 64)];
        (split; [reflexivity|apply bspace_high; apply le128_add; lia]).
    + split; [exists (240 + c / 262144), [128 + (c / 4096) mod 64; 128 + (c / 64) mod 64; 128 + c mod 64]
             |exists [240 + c / 262144; 128 + (c / 4096) mod 64; 128 + (c / 64) mod 64], (128 + c mod 64)];
        (split; [reflexivity|apply bspace_high; apply le128_add; lia]).
Qed.

Lemma utf8_enc_app : forall a b, utf8_enc (a ++ b) = utf8_enc a ++ utf8_enc b.
Proof. intros. unfold utf8_enc. apply flat_map_app. Qed.

Lemma utf8_enc_ends : forall s, ends_clean is_uspace s -> ends_clean is_bspace (utf8_enc s).
Proof.
  intros s [[c [r [Hh Hc]]] [r' [c' [Hl Hc']]]]. split.
  - destruct (enc1_ends c Hc) as [[b [t [Hb Hf]]] _]. exists b, (t ++ utf8_enc r). rewrite Hh.
    change (utf8_enc (c :: r)) with (enc1 c ++ utf8_enc r). rewrite Hb. split; [reflexivity|exact Hf].
  - destruct (enc1_ends c' Hc') as [_ [t [b [Hb Hf]]]]. exists (utf8_enc r' ++ t), b. rewrite Hl.
    rewrite utf8_enc_app. change (utf8_enc [c']) with (enc1 c' ++ []). rewrite app_nil_r, Hb.
    rewrite app_assoc. split; [reflexivity|exact Hf].
Qed.

(* the body of a frame: encode_msg_frame without the line terminator *)
Definition encode_body (m : msg) : bytes :=
  let '(a, s, d) := m in utf8_enc (ustrip (a ++ [32] ++ or_empty s ++ [32] ++ or_empty d)).

Lemma encode_frame_body : forall m, encode_frame m = encode_body m ++ [EOL].
Proof. intros [[a s] d]. reflexivity. Qed.

(* the text part of a well-formed triple: tokens; the JSON text is encodable and has clean ends (json.dumps output) *)
Definition wf_spec (s : option str) : Prop := match s with Some x => tokb x = true | None => True end.
Definition wf_data (d : option str) : Prop :=
  match d with Some t => forallb scalar t = true /\ ends_clean is_uspace t | None => True end.

Lemma decode_of_body : forall (E : env) Y, forallb scalar Y = true -> ends_clean is_uspace Y ->
  utf8_dec (bstrip (utf8_enc Y)) = Some Y.
Proof.
  intros E Y HS HE. unfold bstrip.
  rewrite <- (app_nil_r (utf8_enc Y)). rewrite strip_core; [|apply utf8_enc_ends; exact HE|reflexivity].
  apply utf8_roundtrip. exact HS.
Qed.

Lemma codec_inverse : forall E a s d, tokb a = true -> wf_spec s -> wf_data d ->
  decode_msg E (encode_body (a, s, d)) =
  match d with
  | None => Some (a, s, None)
  | Some t => match e_json E t with
              | Some c => Some (a, s, if str_eqb c json_null then None else Some c)
              | None => None
              end
  end.
Proof.
  intros E a s d Ha Hs Hd. unfold encode_body, ustrip.
  pose proof (tok_ends _ Ha) as EA. pose proof (tok_scalar _ Ha) as SA. pose proof (tok_no_blank _ Ha) as NA.
  assert (D2 : decode_split_max = 2%nat) by reflexivity.
  destruct d as [t|]; [destruct Hd as [ST ET]|]; destruct s as [x|]; simpl or_empty.
  - (* action, specifier, data *)
    pose proof (tok_ends _ Hs) as EX. pose proof (tok_scalar _ Hs) as SX. pose proof (tok_no_blank _ Hs) as NX.
    set (Y := a ++ [32] ++ x ++ [32] ++ t).
    assert (EY : ends_clean is_uspace Y).
    { unfold Y. replace (a ++ [32] ++ x ++ [32] ++ t) with (a ++ ([32] ++ x ++ [32]) ++ t)
        by (simpl; rewrite <- app_assoc; reflexivity).
      apply (ends_clean_app _ a t EA ET). }
    rewrite <- (app_nil_r Y). rewrite strip_core by (try exact EY; reflexivity).
    unfold decode_msg. rewrite (decode_of_body E Y); [|unfold Y; rewrite !forallb_app, SA, SX, ST; reflexivity|exact EY].
    rewrite D2. unfold Y. cbn [splitsp app]. rewrite (split1_at_blank a _ NA). rewrite (split1_at_blank x _ NX).
    cbn [app nth]. destruct ET as [[c [r [Ht _]]] _]. rewrite Ht.
    destruct x as [|x0 xr]; [discriminate|]. cbn [nonempty]. reflexivity.
  - (* action, no specifier, data *)
    set (Y := a ++ [32] ++ [] ++ [32] ++ t).
    assert (EY : ends_clean is_uspace Y) by (apply (ends_clean_app _ a t EA ET [32; 32])).
    rewrite <- (app_nil_r Y). rewrite strip_core by (try exact EY; reflexivity).
    unfold decode_msg. rewrite (decode_of_body E Y); [|unfold Y; rewrite !forallb_app, SA, ST; reflexivity|exact EY].
    rewrite D2. unfold Y. cbn [splitsp app]. rewrite (split1_at_blank a _ NA).
    change (split1 (32 :: t)) with ([] : str, Some t).
    cbn [app nth nonempty]. destruct ET as [[c [r [Ht _]]] _]. rewrite Ht. reflexivity.
  - (* action, specifier *)
    pose proof (tok_ends _ Hs) as EX. pose proof (tok_scalar _ Hs) as SX. pose proof (tok_no_blank _ Hs) as NX.
    set (Y := a ++ [32] ++ x).
    assert (EY : ends_clean is_uspace Y).
    { pose proof (ends_clean_app _ a x EA EX [32]) as H. exact H. }
    replace (a ++ [32] ++ x ++ [32] ++ []) with (Y ++ [32]) by (unfold Y; rewrite <- !app_assoc; reflexivity).
    rewrite strip_core by (try exact EY; reflexivity).
    unfold decode_msg. rewrite (decode_of_body E Y); [|unfold Y; rewrite !forallb_app, SA, SX; reflexivity|exact EY].
    rewrite D2. unfold Y. cbn [splitsp app]. rewrite (split1_at_blank a _ NA). rewrite (split1_no_blank x NX).
    cbn [app nth]. destruct x as [|x0 xr]; [discriminate|]. reflexivity.
  - (* action only *)
    replace (a ++ [32] ++ [] ++ [32] ++ []) with (a ++ [32; 32]) by reflexivity.
    rewrite strip_core by (try exact EA; reflexivity).
    unfold decode_msg. rewrite (decode_of_body E a SA EA).
    rewrite D2. cbn [splitsp]. rewrite (split1_no_blank a NA). cbn [app nth nonempty]. reflexivity.
Qed.
