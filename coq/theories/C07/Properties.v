(* C07 - property theorems only; each is closed by a lemma of Lemmas.v.
   E ranges over every behaviour of the oracles (json.loads verdicts, what the Dispatcher.handle_<x> bodies return,
   send or raise, error texts), evs over every history of received segments and messages sent by other threads,
   cs over every segmentation. *)
From Coq Require Import List Arith NArith Bool Lia.
Import ListNotations.
Require Import FV.Gen.C07 FV.C07.Model FV.C07.Run FV.C07.Lemmas FV.C07.Utf8 FV.C07.Enc FV.C07.Wellformed FV.C07.Codec FV.C07.Repl FV.C07.Echo FV.C07.Conc FV.C07.ConcLemmas FV.C07.ConcOrder.
Local Open Scope N_scope.

(* obligations on the facts regenerated from /repo (Gen/C07.v) *)
Theorem C07_source_facts :
  (* shapes of the modelled functions *)
  get_msg_splits_first_eol = true /\ decode_tail_ok = true /\ encode_shape_ok = true /\ ingest_appends = true /\
  next_message_shape_ok = true /\ dispatch_by_getattr = true /\ error_echo_fields = true /\
  secop_error_uses_name = true /\ help_before_dispatch = true /\ details_cleared_unless_detailed = true /\
  one_send_per_result = true /\ decode_split_max = 2%nat /\ error_split_max = 3%nat /\ EOL = 10 /\
  (* locks: one frame per sendall inside send_lock; one request at a time in the dispatcher *)
  sendall_in_send_lock = true /\ handle_request_under_lock = true /\
  (* the send path as modelled in Conc.v: the frame is computed before the with block and nothing runs after it; a
     failing sendall is caught inside the with block (running := False, nothing raised); nothing but send_reply writes
     to the socket; one plain Lock per connection object, running only changed in setup and inside the with block *)
  encode_outside_lock = true /\ send_failure_caught = true /\ socket_written_only_by_send_reply = true /\
  send_lock_per_connection = true /\
  (* tables: the only handler without a reply tuple is the one of the help request, which never reaches the
     dispatcher; every handler's reply action is the one REQUEST2REPLY gives for its name; the error names used by the
     request loop are SECoP error classes *)
  crash_free_table = true /\ alias_not_help = true /\ handlers_match_table = true /\ names_closed = true /\
  (* the name the identification request is mapped to is itself one of the guarded internal names *)
  alias_is_internal = true /\
  (* all constants that end up in frames are encodable text without line terminator *)
  consts_good = true /\
  (* the data text of a frame is json.dumps(data) with ensure_ascii left at its default (printable ASCII), encoded by a
     plain .encode('utf-8'); the constant parts of the data texts (error names, help text) are printable ASCII, action
     constants are scalar values *)
  dumps_ascii_only = true /\ consts_q scalar = true /\ consts_q printable = true.
Proof. repeat split; reflexivity. Qed.

Local Definition HT : crash_free_table = true := eq_refl.
Local Definition HA : alias_not_help = true := eq_refl.
Local Definition HM : handlers_match_table = true := eq_refl.
Local Definition HN : names_closed = true := eq_refl.
Local Definition HI : alias_is_internal = true := eq_refl.
Local Definition HCs : consts_q scalar = true := eq_refl.
Local Definition HCa : consts_q printable = true := eq_refl.

(* Premise env_enc E of the theorems about the request loop as a whole: the texts the oracles supply (json.dumps output,
   error texts, data of messages handlers sent) consist of scalar values, i.e. str.encode accepts them.  A str can hold
   lone surrogates (json.loads makes one from the ASCII escape \ud800); encode_msg_frame raises on them, outside of any
   try block of the request loop (Model.send_seq, C07_unencodable_reply_terminates).  json.dumps with ensure_ascii
   (fact dumps_ascii_only) returns printable ASCII whatever the value holds: env_ascii E, which implies env_enc E
   (C07_reply_ascii_data); check_case evaluates that law on every recorded case (C07_case_law). *)

(* any chunking: the state of the connection (buffer, replies sent, handler calls made) after receiving a byte
   stream does not depend on where the stream was cut into segments - at any point of any history *)
Theorem C07_chunking : forall E evs0 cs cs', env_enc E -> concat cs = concat cs' ->
  run E (serve E evs0) (map Chunk cs) = run E (serve E evs0) (map Chunk cs').
Proof. intros E evs0 cs cs' HE H; apply (chunking HT HA E (enc_lines E HCs HE)); assumption. Qed.

(* the request loop works line by line: whatever the segmentation, exactly the complete (newline terminated) lines
   of the stream are processed, in order, each once, and the unterminated rest stays in the buffer;
   lines_of is characterised by C07_lines_of_spec *)
Theorem C07_line_by_line : forall E evs0 cs, env_enc E ->
  let st := serve E evs0 in
  run E st (map Chunk cs) =
  let '(ls, r) := lines_of (buf st ++ concat cs) in set_buf (fold_left (process E) ls st) r.
Proof. intros E evs0 cs HE; apply (serve_lines HT HA E (enc_lines E HCs HE)). Qed.

Theorem C07_lines_of_spec : forall bs,
  let '(ls, r) := lines_of bs in
  bs = flat_map (fun l => l ++ [EOL]) ls ++ r /\ Forall (fun l => ~ In EOL l) ls /\ ~ In EOL r.
Proof. intros; apply split_lines_spec; apply Nat.lt_succ_diag_r. Qed.

(* exactly one reply per request line: processing a line appends the messages the handler sent itself
   (events, help text lines) and then exactly ONE reply frame r, consumes one line number, and the reply is
   - (helping) for an empty line or a help request,
   - for a line that decodes to (a, s, d): either error_<a> with specifier s and a report whose class is a SECoP
     error name, or the reply action REQUEST2REPLY gives for a - the identification reply for the identification
     request *IDN? and for no other action (since the repair bfc762a) - with the specifier the handler's rule prescribes,
   - for an undecodable line: error_<f0> with specifier f1 and class InternalError, f0 f1 being the first fields of
     the STRIPPED raw line read as UTF-8 with replacement (since the repairs b6f37c1, a2736c5; C07_decode_error_echo
     states that these are action and specifier of the request) *)
Theorem C07_one_reply_per_line : forall E st line, env_enc E ->
  exists pre r c, answer E (nline st) line = (OReply pre r, c) /\
    output (process E st line) = output st ++ frames pre ++ [encode_frame r] /\
    nline (process E st line) = S (nline st) /\
    alive (process E st line) = alive st /\
    reply_ok E (nline st) line r.
Proof.
  intros E st line HE. destruct (answer_no_crash HT HA E (nline st) line) as [pre [r [c H]]].
  exists pre, r, c. split; [exact H|]. split; [eapply process_output; [exact H|exact (enc_lines E HCs HE _ _ _ _ _ H)]|].
  split; [apply process_nline|]. split; [apply (process_alive HT HA E (enc_lines E HCs HE))|].
  eapply (answer_classified HM HN HI); exact H.
Qed.

(* without the premise, for EVERY oracle: a request line is answered by exactly one reply message r with reply_ok (the
   request loop builds it); what can go wrong afterwards is only its encoding - if r holds a code point str.encode
   rejects, the messages before it are sent, r is not, and the exception leaves the request loop (alive = false):
   this line and all later lines stay unanswered.  That is what a json.dumps(ensure_ascii=False) in encode_msg_frame
   does with a request like  change m:_utxt "\ud800" *)
Theorem C07_unencodable_reply_terminates : forall E st line,
  exists pre r c, answer E (nline st) line = (OReply pre r, c) /\ reply_ok E (nline st) line r /\
    (forallb encodable pre = true -> encodable r = false ->
     output (process E st line) = output st ++ frames pre /\ alive (process E st line) = false).
Proof.
  intros E st line. destruct (answer_no_crash HT HA E (nline st) line) as [pre [r [c H]]].
  exists pre, r, c. split; [exact H|]. split; [eapply (answer_classified HM HN HI); exact H|].
  intros Hp Hr. eapply process_unencodable; eassumption.
Qed.

(* internal handler names are no requests (repair bfc762a; was the finding ident-alias): an action that starts with '_'
   or is 'request' - other than the identification request itself - is answered error_<action> with the specifier echoed and
   the class of ProtocolError, and NO handler is called (so '_ident' can no longer reset a connection's subscriptions) *)
Theorem C07_internal_actions_rejected : forall E i a s d,
  str_eqb a IDENTREQUEST = false -> is_internal a = true ->
  dispatch E i (a, s, d) = (OReply [] (err_reply E i a s (error_name_of_class internal_error_class)), None) /\
  is_internal ident_alias = true /\ is_internal [114; 101; 113; 117; 101; 115; 116] = true.
Proof. intros; split; [apply internal_rejected; assumption|split; reflexivity]. Qed.

(* a line that decodes carries exactly the action and specifier its error reply echoes *)
Theorem C07_decoded_request_fields : forall E line a s d,
  decode_msg E line = Some (a, s, d) -> request_fields line = Some (a, s).
Proof. intros; eapply decode_msg_fields; eassumption. Qed.

(* the error reply to an undecodable line names the action and echoes the specifier of the request, whatever white
   space surrounds the line and whatever bytes the data part holds (repairs b6f37c1, a2736c5; the former findings
   leading-blank-decode-error and latin1-echo).  byte_fields line = bytes.split(b' ', 2) of the stripped line (padded);
   full statement: for EVERY line that cannot be decoded and whose action and specifier fields are well-formed UTF-8 *)
Theorem C07_decode_error_echo : forall E i line a s,
  next_message E line = None ->
  utf8_dec (nth 0%nat (byte_fields line) []) = Some a ->
  utf8_dec (nth 1%nat (byte_fields line) []) = Some s ->
  exists s' d, answer E i line = (OReply [] (ERRORPREFIX ++ a, s', d), None) /\ or_empty s' = s.
Proof. intros; apply decode_error_echo; assumption. Qed.

(* the same for a line that is text as a whole (the decode error is a JSON error), in terms of the fields decode_msg reads *)
Theorem C07_decode_error_echo_text : forall E i line a s,
  next_message E line = None -> request_fields line = Some (a, s) ->
  exists s' d, answer E i line = (OReply [] (ERRORPREFIX ++ a, s', d), None) /\ or_empty s' = or_empty s.
Proof. intros; apply decode_error_echo_text; assumption. Qed.

(* and for fields that are NOT well-formed UTF-8: each ill-formed sequence is named by one U+FFFD (CPython's
   errors='replace', Model.dec_one), the well-formed parts are unchanged *)
Theorem C07_decode_error_echo_replaced : forall E i line,
  next_message E line = None ->
  exists s' d, answer E i line =
      (OReply [] (ERRORPREFIX ++ utf8_dec_repl (nth 0%nat (byte_fields line) []), s', d), None) /\
    or_empty s' = utf8_dec_repl (nth 1%nat (byte_fields line) []).
Proof. intros; apply decode_error_echo_fields; assumption. Qed.

(* reading with replacement: identity on well-formed UTF-8, always encodable text, commutes with cutting at blanks *)
Theorem C07_replace_decoder : forall l,
  (forall s, utf8_dec l = Some s -> utf8_dec_repl l = s) /\
  forallb scalar (utf8_dec_repl l) = true /\
  (forall n, splitsp n (utf8_dec_repl l) = map utf8_dec_repl (splitsp n l)).
Proof. intro l. split; [intros s H; apply repl_strict; exact H|]. split; [apply repl_scalar|intro n; apply splitsp_repl]. Qed.

(* non-vacuity: "r\xc3\xa9ad m\xc3\xb6 {bad" (was the witness of the finding latin1-echo) is answered error_réad mö;
   " r\xe9ad x\xff {" (ill-formed) is answered error_r<U+FFFD>ad x<U+FFFD> *)
Definition E0 : env := {| e_json := fun _ => None; e_line := fun _ => {| lo_h := HExc; lo_err := [34; 34] |} |}.
Example C07_echo_demo :
  fst (answer E0 0 [114; 195; 169; 97; 100; 32; 109; 195; 182; 32; 123; 98; 97; 100]) =
    OReply [] (ERRORPREFIX ++ [114; 233; 97; 100], Some [109; 246], Some (err_data decode_error_name [34; 34])) /\
  fst (answer E0 0 [32; 114; 233; 97; 100; 32; 120; 255; 32; 123]) =
    OReply [] (ERRORPREFIX ++ [114; 65533; 97; 100], Some [120; 65533], Some (err_data decode_error_name [34; 34])).
Proof. vm_compute. split; reflexivity. Qed.

(* no input terminates the connection handler: after any history the loop is still running and the buffer
   holds no complete line *)
Theorem C07_never_terminates : forall E evs, env_enc E ->
  alive (serve E evs) = true /\ get_msg (buf (serve E evs)) = None.
Proof. intros E evs HE; apply (serve_inv HT HA E (enc_lines E HCs HE)). Qed.

(* ASCII in, ASCII out: when json.dumps returns printable ASCII (its behaviour with ensure_ascii, the default; fact
   dumps_ascii_only) - whatever characters the dumped VALUES hold, lone surrogates included - then, after any history of
   received segments (arbitrary bytes, arbitrary cuts) and messages of other threads, the handler loop is alive and every
   frame handed to sendall is the encoding of a message whose data part is printable ASCII and which str.encode accepts;
   in particular env_ascii implies the premise env_enc of the theorems above *)
Theorem C07_reply_ascii_data : forall E evs, env_ascii E -> Forall ev_ascii evs ->
  env_enc E /\ alive (serve E evs) = true /\
  Forall (fun f => exists m, f = encode_frame m /\ qostr printable (snd m) = true /\ encodable m = true)
         (out (serve E evs)).
Proof.
  intros E evs HE Hev. split; [exact (env_ascii_enc E HE)|].
  split; [apply (serve_alive HT HA E (enc_lines E HCs (env_ascii_enc E HE)))|exact (ascii_frames E evs HCa HE Hev)].
Qed.

(* the law is evaluated by check_case on every recorded case: a case that passes has an environment and a history that
   satisfy the premises of C07_reply_ascii_data *)
Theorem C07_case_law : forall chunks json lines o_out o_calls o_rest o_alive,
  check_case (CStream chunks json lines o_out o_calls o_rest o_alive) = true ->
  env_ascii (mk_env json lines) /\ Forall ev_ascii chunks.
Proof.
  intros chunks json lines o_out o_calls o_rest o_alive H. cbn [check_case] in H.
  apply andb_true_iff in H. destruct H as [H H2]. apply andb_true_iff in H. destruct H as [_ H1].
  split; [apply case_env_ascii; exact H1|apply case_events_ascii; exact H2].
Qed.

(* non-vacuity of the crash: the handler of line 0 returns data whose json text holds the lone surrogate U+D800 (what
   json.dumps(.., ensure_ascii=False) returns for it): nothing is sent, the loop is dead, the second line is never read *)
Definition crashE : env :=
  {| e_json := fun _ => None;
     e_line := fun i => {| lo_h := HOk (Some [34; 55296; 34]) []; lo_err := [34; 34] |} |}.
Example C07_crash_demo :
  let st := serve crashE [Chunk [112; 105; 110; 103; 32; 120; 10; 112; 105; 110; 103; 32; 121; 10]] in
  output st = [] /\ alive st = false /\ nline st = 1%nat /\ buf st = [112; 105; 110; 103; 32; 121; 10].
Proof. vm_compute. repeat split; reflexivity. Qed.

(* every frame handed to sendall - replies, error replies to arbitrary bytes, events sent by other threads - is exactly
   one line: UTF-8 text that decodes back to itself, without a line terminator inside, followed by the terminator.
   Premises: the received data are bytes; what the oracles supply (json.dumps output, str(err), messages sent by
   handlers and other threads) is text without line terminator (env_ok, ev_ok; checked on every case by the harness's
   direct oracle).  The data part is the oracle's json.dumps text or the error report built around the error text. *)
Theorem C07_lines_wellformed : forall E evs, env_ok E -> Forall ev_ok evs ->
  Forall frame_ok (out (serve E evs)).
Proof. intros E evs HE Hev; apply (serve_wellformed E HE); exact Hev. Qed.

(* encoding and decoding of message triples are mutually inverse: for a triple whose action and specifier are tokens
   (non-empty, encodable, no white space) and whose data text is encodable with clean ends (what json.dumps produces),
   decode_msg of the encoded frame body gives the triple back - the data part up to the json oracle (json.loads of the
   dumped text; JSON null reads as no data).  encode_frame m = encode_body m ++ [EOL]. *)
Theorem C07_codec_inverse : forall E a s d, tokb a = true -> wf_spec s -> wf_data d ->
  (encode_frame (a, s, d) = encode_body (a, s, d) ++ [EOL]) /\
  (decode_msg E (encode_body (a, s, d)) =
   match d with
   | None => Some (a, s, None)
   | Some t => match e_json E t with
               | Some c => Some (a, s, if str_eqb c json_null then None else Some c)
               | None => None
               end
   end).
Proof. intros; split; [apply encode_frame_body|apply codec_inverse; assumption]. Qed.

(* nothing leaks into another connection: in a server with several connections the state of connection k
   (buffer, frames sent) is the one it reaches from its own events alone *)
Theorem C07_isolation : forall Es evs S k d, (k < length S)%nat ->
  nth k (sys_run Es S evs) d = run (Es k) (nth k S d) (map snd (filter (fun e => Nat.eqb (fst e) k) evs)).
Proof. intros; apply sys_projection; assumption. Qed.

(* non-vacuity: two requests, the first cut in the middle, an update from another thread in between *)
Definition demoE : env :=
  {| e_json := fun _ => None;
     e_line := fun i => {| lo_h := HOk (Some [49]) []; lo_err := [34; 34] |} |}.
Example C07_demo :
  output (serve demoE [Chunk [112; 105]; Async ([117], Some [120], None); Chunk [110; 103; 32; 120; 10; 255; 10; 97]]) =
  [ [117; 32; 120; 10];
    [112; 111; 110; 103; 32; 120; 32; 49; 10];
    ERRORPREFIX ++ [239; 191; 189; 32; 32] ++ err_data decode_error_name [34; 34] ++ [10] ]
  /\ buf (serve demoE [Chunk [112; 105]; Async ([117], Some [120], None); Chunk [110; 103; 32; 120; 10; 255; 10; 97]]) = [97].
Proof. vm_compute. split; reflexivity. Qed.

(* ------------------------------------------------------------------ concurrent send path (Conc.v)
   progs: for every thread (the handler threads of the connections, threads broadcasting parameter updates, threads
   emitting log messages - any number) the (connection, message) pairs it hands to send_reply, in order; sched: ANY
   schedule - which thread makes its next atomic step (encode outside the lock / acquire send_lock and test running /
   one partial write of the socket / a failing write), with ANY sizes of the partial writes and socket failures
   anywhere; c: any connection. *)

(* asynchronous messages never split another line: the bytes a socket accepted are whole frames in the order in which
   send_lock was acquired - only the last frame begun may be incomplete (in flight, or cut by a socket failure); every
   frame is encode_msg_frame of a message handed to send_reply of that connection; while the connection runs each
   thread's frames appear in the order of its calls, none missing; when all calls have returned the stream consists
   of whole frames only and holds, per thread, exactly the frames of its messages in order *)
Theorem C07_frames_never_interleaved : forall progs sched c,
  let st := crun true (cinit progs) sched in
  let lg := log (con st c) in
  (sock (con st c) = concat (map snd lg) \/
   exists done t f w r, lg = done ++ [(t, f)] /\ f = w ++ r /\ sock (con st c) = concat (map snd done) ++ w) /\
  (forall t f, In (t, f) lg -> exists m, In (c, m) (progs t) /\ encodable m = true /\ f = encode_frame m) /\
  (running (con st c) = true -> forall t, projf t lg = encs c (donej (thr st t)) ++ curf (thr st t) c) /\
  ((forall t, todo (thr st t) = []) -> running (con st c) = true ->
     sock (con st c) = concat (map snd lg) /\ forall t, projf t lg = encs c (progs t)).
Proof.
  intros progs sched c st lg.
  assert (I1 : Inv st) by (apply crun_inv, cinit_inv).
  assert (I2 : Inv2 progs st) by (apply crun_inv2, cinit_inv2).
  split; [exact (inv_wfs st c I1)|]. split; [|split].
  - intros t f Hin. destruct I2 as [_ [_ [C _]]]. destruct (C c t f Hin) as [m [Hm He]].
    exists m. split; [exact Hm|]. unfold encode_msg in He. destruct (encodable m); [|discriminate].
    inversion He. auto.
  - intros Hr t. destruct I2 as [_ [_ [_ D]]]. apply D. exact Hr.
  - intros Q Hr. exact (quiet_whole progs st c I1 I2 Q Hr).
Qed.

(* every line the peer reads is one message: a stream made of frames that are lines (C07_lines_wellformed: every frame is
   body ++ [EOL] with no EOL in the body) followed by an EOL-free rest splits at the newlines into exactly these bodies *)
Theorem C07_peer_reads_frames : forall bodies w,
  Forall (fun l => ~ In EOL l) bodies -> ~ In EOL w ->
  lines_of (flat_map (fun l => l ++ [EOL]) bodies ++ w) = (bodies, w).
Proof. intros; apply lines_of_frames; assumption. Qed.

(* a failing sendall (BrokenPipeError, OSError, time-out, anything) never leaves send_lock held and never stops another
   connection: the lock is only ever held by a thread inside sendall of a running connection, and each step of that
   thread writes at least one byte or leaves the with block; a stopped connection has its lock free; when all calls
   have returned all locks are free; the failing step itself frees the lock, stops this connection only, and the
   calling thread (e.g. the broadcast loop over all subscribers) goes on with its next call; connection c is only ever
   stopped by a failure of its own socket *)
Theorem C07_send_failure_releases_lock : forall progs sched c,
  let st := crun true (cinit progs) sched in
  (forall t, lock (con st c) = Some t -> running (con st c) = true /\
     exists m tl f rest, todo (thr st t) = (c, m) :: tl /\ ph (thr st t) = PWrite f rest) /\
  (running (con st c) = false -> lock (con st c) = None) /\
  ((forall t, todo (thr st t) = []) -> lock (con st c) = None) /\
  (forall t m tl f rest a, todo (thr st t) = (c, m) :: tl -> ph (thr st t) = PWrite f rest ->
     let st' := cstep true st (t, a) in
     (lock (con st' c) = None /\ todo (thr st' t) = tl /\ ph (thr st' t) = PIdle) \/
     (exists r', todo (thr st' t) = (c, m) :: tl /\ ph (thr st' t) = PWrite f r' /\ (length r' < length rest)%nat)) /\
  (forall t m tl f rest, todo (thr st t) = (c, m) :: tl -> ph (thr st t) = PWrite f rest ->
     let st' := cstep true st (t, Fail c) in
     lock (con st' c) = None /\ running (con st' c) = false /\ sock (con st' c) = sock (con st c) /\
     todo (thr st' t) = tl /\ ph (thr st' t) = PIdle /\
     (forall c', c' <> c -> con st' c' = con st c') /\ (forall t', t' <> t -> thr st' t' = thr st t')) /\
  ((forall t, ~ In (t, Fail c) sched) -> running (con st c) = true).
Proof.
  intros progs sched c st.
  assert (I1 : Inv st) by (apply crun_inv, cinit_inv).
  split; [|split; [|split; [|split; [|split]]]].
  - intros t Hl. destruct (I1 c) as [H1 _]. unfold inv_c in H1. rewrite Hl in H1.
    destruct H1 as [f [rest [done [w [[m [tl [Ht Hp]]] [Hr _]]]]]]. split; [exact Hr|]. exists m, tl, f, rest. auto.
  - apply failed_unlocked. exact I1.
  - intros Q. apply quiet_unlocked; assumption.
  - intros t m tl f rest a Ht Hp. apply holder_progress; assumption.
  - intros t m tl f rest Ht Hp. eapply fail_step; eassumption.
  - intros H. unfold st. rewrite (crun_running true sched (cinit progs) c H). reflexivity.
Qed.

(* the lock is what keeps the frames whole: the same send_reply without `with self.send_lock` - two threads, one frame
   each ("ab" and "cd"), the socket takes the first byte of the first frame, then the second thread writes: both calls
   return, all bytes are written, but the peer reads the lines "acd" and "b"; with the lock the same schedule leaves
   the second thread waiting and the stream is the whole first frame *)
Definition wl_progs : nat -> list job :=
  progs_of [[(0%nat, ([97; 98], None, None))]; [(0%nat, ([99; 100], None, None))]].
Definition wl_sched : list cevent :=
  [(0, Write 0); (0, Write 0); (0, Write 1); (1, Write 0); (1, Write 0); (1, Write 9); (0, Write 9)]%nat.
Theorem C07_without_lock_frames_interleave :
  (let st := crun false (cinit wl_progs) wl_sched in
   map snd (log (con st 0%nat)) = [[97; 98; 10]; [99; 100; 10]] /\
   todo (thr st 0%nat) = [] /\ todo (thr st 1%nat) = [] /\ running (con st 0%nat) = true /\
   sock (con st 0%nat) = [97; 99; 100; 10; 98; 10] /\
   lines_of (sock (con st 0%nat)) = ([[97; 99; 100]; [98]], [])) /\
  (let st := crun true (cinit wl_progs) wl_sched in
   sock (con st 0%nat) = [97; 98; 10] /\ lock (con st 0%nat) = None /\ ph (thr st 1%nat) = PEnc [99; 100; 10]).
Proof. vm_compute. repeat split; reflexivity. Qed.

(* non-vacuity of the failure theorem: a broadcast thread sends to connections 0 and 1; the socket of connection 0
   breaks after the first byte: connection 0 is stopped with a cut frame, its lock is free, connection 1 gets its frame *)
Example C07_failure_demo :
  let st := crun true (cinit (progs_of [[(0%nat, ([97; 98], None, None)); (1%nat, ([97; 98], None, None))]]))
              [(0, Write 0); (0, Write 0); (0, Write 1); (0, Fail 0); (0, Write 0); (0, Write 0); (0, Write 5)]%nat in
  sock (con st 0%nat) = [97] /\ running (con st 0%nat) = false /\ lock (con st 0%nat) = None /\
  sock (con st 1%nat) = [97; 98; 10] /\ running (con st 1%nat) = true /\ lock (con st 1%nat) = None.
Proof. vm_compute. repeat split; reflexivity. Qed.

Print Assumptions C07_source_facts.
Print Assumptions C07_chunking.
Print Assumptions C07_line_by_line.
Print Assumptions C07_lines_of_spec.
Print Assumptions C07_one_reply_per_line.
Print Assumptions C07_internal_actions_rejected.
Print Assumptions C07_decoded_request_fields.
Print Assumptions C07_decode_error_echo.
Print Assumptions C07_decode_error_echo_text.
Print Assumptions C07_decode_error_echo_replaced.
Print Assumptions C07_replace_decoder.
Print Assumptions C07_never_terminates.
Print Assumptions C07_unencodable_reply_terminates.
Print Assumptions C07_reply_ascii_data.
Print Assumptions C07_case_law.
Print Assumptions C07_isolation.
Print Assumptions C07_codec_inverse.
Print Assumptions C07_lines_wellformed.
Print Assumptions C07_frames_never_interleaved.
Print Assumptions C07_peer_reads_frames.
Print Assumptions C07_send_failure_releases_lock.
Print Assumptions C07_without_lock_frames_interleave.
