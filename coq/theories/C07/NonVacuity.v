(* C07 - non-vacuity audit: every theorem of Properties.v is applied to a concrete, non-degenerate instance, with
   environments built the way the correspondence driver builds them (Run.mk_env from finite tables, Conc.progs_of from
   finite thread lists).  nv_case and nvc_case are cases RECORDED ON THE IMPLEMENTATION (copied from a shard of the
   correspondence run); E1 / evs1 are hand-made in the same shape.  Only computation and applications of the theorems;
   nothing here is used by the property theorems. *)
From Coq Require Import String Ascii.
From Coq Require Import List Arith NArith Bool Lia.
Import ListNotations.
Require Import FV.Base.Util FV.Gen.C07 FV.C07.Model FV.C07.Run FV.C07.Lemmas FV.C07.Utf8 FV.C07.Enc FV.C07.Wellformed FV.C07.Codec FV.C07.Repl FV.C07.Echo FV.C07.Conc FV.C07.ConcLemmas FV.C07.ConcOrder FV.C07.Properties.
Local Open Scope N_scope.

(* ASCII text as a list of code points / bytes; ln adds the line terminator *)
Definition s (x : string) : list N := List.map N_of_ascii (list_ascii_of_string x).
Definition ln (x : string) : list N := s x ++ [10].

(* ------------------------------------------------------------------ boolean forms of the Prop premises *)
Lemma nv_mk_env_ok : forall json lines,
  forallb (fun p => hres_ok (fst p) && gstr (snd p)) lines = true -> env_ok (mk_env json lines).
Proof.
  intros json lines H i. unfold mk_env. cbn [e_line lo_h lo_err].
  destruct (nth_in_or_default i lines (HExc, [])) as [Hin|Hd].
  - rewrite forallb_forall in H. specialize (H _ Hin). apply andb_true_iff in H. exact H.
  - rewrite Hd. split; reflexivity.
Qed.

Definition ev_okb (ev : event) : bool :=
  match ev with Chunk b => forallb (fun x => x <? 256) b | Async m => gmsg m end.
Lemma nv_evs_ok : forall evs, forallb ev_okb evs = true -> Forall ev_ok evs.
Proof.
  intros evs H. apply Forall_forall. intros ev Hin. rewrite forallb_forall in H. specialize (H _ Hin).
  destruct ev as [b|m]; simpl in *; [|exact H].
  apply Forall_forall. intros x Hx. rewrite forallb_forall in H. apply N.ltb_lt. apply H. exact Hx.
Qed.

Lemma nv_no_eol : forall l, forallb (fun b => negb (b =? EOL)) l = true -> ~ In EOL l.
Proof.
  intros l H Hin. rewrite forallb_forall in H. specialize (H _ Hin). rewrite N.eqb_refl in H. discriminate.
Qed.

(* ------------------------------------------------------------------ a recorded stream case *)
Definition nv_case : case :=
(CStream [(Chunk (B 0x170696e6720610a61637469766174650a646f206d3a5f747769636520225c7530303030f48fbfbf220a6368616e6765206d3a5f7374207b2261223a20312c202262223a2022222c20226b5c7530303030223a20327d0a72656164206d3a5f757478740a));(Async ((B 0x1757064617465), (Some (B 0x16d323a76616c7565)), (Some (B 0x15b372e302c207b2274223a20313739303735303135352e303138353539377d5d))));(Async ((B 0x1757064617465), (Some (B 0x16d323a746172676574)), (Some (B 0x15b372e302c207b2274223a20313739303735303135352e303138353836367d5d))))] [((B 0x136), (Some (B 0x136)));((U 0x100002200005c00007500003000003000003000003010ffff000022), (Some (B 0x1225c75303030305c75646266665c756466666622)));((B 0x17b2261223a20312c202262223a2022222c20226b5c7530303030223a20327d), (Some (B 0x17b2261223a20312c202262223a2022222c20226b5c7530303030223a20327d)));((B 0x137), (Some (B 0x137)))] [((HOk (Some (B 0x15b6e756c6c2c207b2274223a20313739303735303135352e303137303031327d5d)) []), []);((HOk None [((B 0x1757064617465), (Some (B 0x16d3a76616c7565)), (Some (B 0x15b312e352c207b7d5d)));((B 0x1757064617465), (Some (B 0x16d3a737461747573)), (Some (B 0x15b5b3130302c2022225d2c207b7d5d)));((B 0x1757064617465), (Some (B 0x16d3a746172676574)), (Some (B 0x15b322e302c207b7d5d)));((B 0x1757064617465), (Some (B 0x16d3a706f6c6c696e74657276616c)), (Some (B 0x15b352e302c207b7d5d)));((B 0x1757064617465), (Some (B 0x16d3a5f747874)), (Some (B 0x15b22222c207b7d5d)));((B 0x1757064617465), (Some (B 0x16d3a5f75747874)), (Some (B 0x15b22222c207b7d5d)));((B 0x1757064617465), (Some (B 0x16d3a5f7374)), (Some (B 0x15b7b2261223a20302c202262223a2022227d2c207b7d5d)));((B 0x1757064617465), (Some (B 0x16d323a76616c7565)), (Some (B 0x15b362e302c207b2274223a20313739303735303135352e303136393031357d5d)));((B 0x1757064617465), (Some (B 0x16d323a737461747573)), (Some (B 0x15b5b3130302c2022225d2c207b7d5d)));((B 0x1757064617465), (Some (B 0x16d323a746172676574)), (Some (B 0x15b362e302c207b2274223a20313739303735303135352e303136393236387d5d)));((B 0x1757064617465), (Some (B 0x16d323a706f6c6c696e74657276616c)), (Some (B 0x15b352e302c207b7d5d)));((B 0x1757064617465), (Some (B 0x16d323a5f747874)), (Some (B 0x15b22222c207b7d5d)));((B 0x1757064617465), (Some (B 0x16d323a5f75747874)), (Some (B 0x15b22222c207b7d5d)));((B 0x1757064617465), (Some (B 0x16d323a5f7374)), (Some (B 0x15b7b2261223a20302c202262223a2022227d2c207b7d5d)))]), []);((HSecop 13%nat), (B 0x12263616e206e6f7420636f6e7665727420275c5c7830305c5c5530303130666666662720746f20616e20696e7422));((HSecop 13%nat), (B 0x12273747275637420636f6e7461696e73207375706572666c756f7573206d656d626572733a206b5c753030303022));((HOk (Some (B 0x15b22222c207b7d5d)) []), [])] [(B 0x1706f6e672061205b6e756c6c2c207b2274223a20313739303735303135352e303137303031327d5d0a);(B 0x1757064617465206d3a76616c7565205b312e352c207b7d5d0a);(B 0x1757064617465206d3a737461747573205b5b3130302c2022225d2c207b7d5d0a);(B 0x1757064617465206d3a746172676574205b322e302c207b7d5d0a);(B 0x1757064617465206d3a706f6c6c696e74657276616c205b352e302c207b7d5d0a);(B 0x1757064617465206d3a5f747874205b22222c207b7d5d0a);(B 0x1757064617465206d3a5f75747874205b22222c207b7d5d0a);(B 0x1757064617465206d3a5f7374205b7b2261223a20302c202262223a2022227d2c207b7d5d0a);(B 0x1757064617465206d323a76616c7565205b362e302c207b2274223a20313739303735303135352e303136393031357d5d0a);(B 0x1757064617465206d323a737461747573205b5b3130302c2022225d2c207b7d5d0a);(B 0x1757064617465206d323a746172676574205b362e302c207b2274223a20313739303735303135352e303136393236387d5d0a);(B 0x1757064617465206d323a706f6c6c696e74657276616c205b352e302c207b7d5d0a);(B 0x1757064617465206d323a5f747874205b22222c207b7d5d0a);(B 0x1757064617465206d323a5f75747874205b22222c207b7d5d0a);(B 0x1757064617465206d323a5f7374205b7b2261223a20302c202262223a2022227d2c207b7d5d0a);(B 0x16163746976650a);(B 0x16572726f725f646f206d3a5f7477696365205b2257726f6e6754797065222c202263616e206e6f7420636f6e7665727420275c5c7830305c5c5530303130666666662720746f20616e20696e74222c207b7d5d0a);(B 0x16572726f725f6368616e6765206d3a5f7374205b2257726f6e6754797065222c202273747275637420636f6e7461696e73207375706572666c756f7573206d656d626572733a206b5c7530303030222c207b7d5d0a);(B 0x17265706c79206d3a5f75747874205b22222c207b7d5d0a);(B 0x1757064617465206d323a76616c7565205b372e302c207b2274223a20313739303735303135352e303138353539377d5d0a);(B 0x1757064617465206d323a746172676574205b372e302c207b2274223a20313739303735303135352e303138353836367d5d0a)] [(0%nat, (B 0x170696e67), (Some (B 0x161)), None);(1%nat, (B 0x16163746976617465), None, None);(2%nat, (B 0x1646f), (Some (B 0x16d3a5f7477696365)), (Some (B 0x1225c75303030305c75646266665c756466666622)));(3%nat, (B 0x16368616e6765), (Some (B 0x16d3a5f7374)), (Some (B 0x17b2261223a20312c202262223a2022222c20226b5c7530303030223a20327d)));(4%nat, (B 0x172656164), (Some (B 0x16d3a5f75747874)), None)] [] true)
.
Definition nv_chunks : list event :=
  Eval cbv beta iota delta [nv_case] in match nv_case with CStream c _ _ _ _ _ _ => c | _ => [] end.
Definition nv_json : list (str * option str) :=
  Eval cbv beta iota delta [nv_case] in match nv_case with CStream _ j _ _ _ _ _ => j | _ => [] end.
Definition nv_lines : list (hres * str) :=
  Eval cbv beta iota delta [nv_case] in match nv_case with CStream _ _ l _ _ _ _ => l | _ => [] end.
Definition nv_E : env := mk_env nv_json nv_lines.

(* the instance is not degenerate: three events (one segment with five request lines, two messages of another
   thread), five oracle lines of three kinds, 21 frames sent *)
Example nv_case_shape :
  List.length nv_chunks = 3%nat /\ List.length nv_lines = 5%nat /\ List.length nv_json = 4%nat /\
  List.length (out (serve nv_E nv_chunks)) = 21%nat /\ nline (serve nv_E nv_chunks) = 5%nat /\
  existsb (fun p => match fst p with HSecop _ => true | _ => false end) nv_lines = true /\
  existsb (fun p => match fst p with HOk _ (_ :: _) => true | _ => false end) nv_lines = true /\
  existsb (fun e => match e with Async _ => true | _ => false end) nv_chunks = true.
Proof. vm_compute. repeat split; reflexivity. Qed.

(* premise of C07_case_law *)
Example C07_nonvacuous_case_law : check_case nv_case = true.
Proof. vm_compute. reflexivity. Qed.

Example C07_case_law_applies : env_ascii nv_E /\ Forall ev_ascii nv_chunks.
Proof. exact (C07_case_law _ _ _ _ _ _ _ C07_nonvacuous_case_law). Qed.

Example nv_env_ascii : env_ascii nv_E. Proof. exact (proj1 C07_case_law_applies). Qed.
Example nv_env_enc : env_enc nv_E. Proof. exact (env_ascii_enc _ nv_env_ascii). Qed.
Example nv_env_ok : env_ok nv_E. Proof. apply nv_mk_env_ok. vm_compute. reflexivity. Qed.
Example nv_evs_ok_real : Forall ev_ok nv_chunks. Proof. apply nv_evs_ok. vm_compute. reflexivity. Qed.

(* C07_reply_ascii_data and C07_lines_wellformed at the recorded case: the Forall ranges over 21 frames *)
Example C07_reply_ascii_data_applies :
  env_enc nv_E /\ alive (serve nv_E nv_chunks) = true /\
  Forall (fun f => exists m, f = encode_frame m /\ qostr printable (snd m) = true /\ encodable m = true)
         (out (serve nv_E nv_chunks)).
Proof. apply C07_reply_ascii_data; [exact nv_env_ascii|exact (proj2 C07_case_law_applies)]. Qed.

Example C07_lines_wellformed_applies : Forall frame_ok (out (serve nv_E nv_chunks)).
Proof. apply C07_lines_wellformed; [exact nv_env_ok|exact nv_evs_ok_real]. Qed.

Example C07_never_terminates_applies_real :
  alive (serve nv_E nv_chunks) = true /\ get_msg (buf (serve nv_E nv_chunks)) = None.
Proof. apply C07_never_terminates. exact nv_env_enc. Qed.

(* ------------------------------------------------------------------ a hand-made environment of the same shape *)
Definition upd1 : msg := (s "update", Some (s "m:value"), Some (s "[1.5, {}]")).
Definition j1 : list (str * option str) :=
  [(s "3", Some (s "3")); (s "null", Some (s "null")); (s "{bad", None)].
Definition l1 : list (hres * str) :=
  [ (HOk (Some (s "[null, {}]")) [], []);            (* ping x *)
    (HOk (Some (s "[3, {}]")) [upd1], []);            (* change m:target 3, the handler sends an update first *)
    (HSecop 3%nat, s """no such module""");           (* read q:v *)
    (HExc, s """boom""");                             (* frob *)
    (HOk None [upd1; upd1], []) ].                    (* activate *)
Definition E1 : env := mk_env j1 l1.

Example E1_ascii : env_ascii E1. Proof. apply case_env_ascii. vm_compute. reflexivity. Qed.
Example E1_enc : env_enc E1. Proof. exact (env_ascii_enc _ E1_ascii). Qed.
Example E1_ok : env_ok E1. Proof. apply nv_mk_env_ok. vm_compute. reflexivity. Qed.

(* the history before: a request cut in the middle, a message of another thread in between, then the rest of the
   request and the beginning of the next one - the buffer is NOT empty when the segments under test arrive *)
Definition evs1 : list event := [Chunk (s "pi"); Async upd1; Chunk (ln "ng x" ++ s "chan")].
Definition total1 : bytes :=
  ln "ge m:target 3" ++ ln "read q:v" ++ ln "frob" ++ ln "activate" ++ s "he".
Definition cs1 : list bytes := [firstn 3 total1; firstn 20 (skipn 3 total1); skipn 23 total1].
Definition cs1' : list bytes := [firstn 14 total1; []; firstn 1 (skipn 14 total1); skipn 15 total1].

Example evs1_shape :
  buf (serve E1 evs1) = s "chan" /\ nline (serve E1 evs1) = 1%nat /\ List.length (out (serve E1 evs1)) = 2%nat /\
  list_eqb str_eqb cs1 cs1' = false /\
  nline (run E1 (serve E1 evs1) (List.map Chunk cs1)) = 5%nat /\
  List.length (out (run E1 (serve E1 evs1) (List.map Chunk cs1))) = 9%nat /\
  List.length (calls (run E1 (serve E1 evs1) (List.map Chunk cs1))) = 4%nat /\
  buf (run E1 (serve E1 evs1) (List.map Chunk cs1)) = s "he".
Proof. vm_compute. repeat split; reflexivity. Qed.

Example C07_chunking_applies :
  run E1 (serve E1 evs1) (List.map Chunk cs1) = run E1 (serve E1 evs1) (List.map Chunk cs1').
Proof. apply C07_chunking; [exact E1_enc|vm_compute; reflexivity]. Qed.

Example C07_line_by_line_applies :
  run E1 (serve E1 evs1) (List.map Chunk cs1) =
  let '(ls, r) := lines_of (buf (serve E1 evs1) ++ concat cs1) in set_buf (fold_left (process E1) ls (serve E1 evs1)) r.
Proof. exact (C07_line_by_line E1 evs1 cs1 E1_enc). Qed.

Example lines_of_demo :
  lines_of (buf (serve E1 evs1) ++ concat cs1) =
  ([s "change m:target 3"; s "read q:v"; s "frob"; s "activate"], s "he").
Proof. vm_compute. reflexivity. Qed.

Example C07_lines_of_spec_applies :
  let '(ls, r) := lines_of (s "chan" ++ total1) in
  s "chan" ++ total1 = flat_map (fun l => l ++ [EOL]) ls ++ r /\ Forall (fun l => ~ In EOL l) ls /\ ~ In EOL r.
Proof. exact (C07_lines_of_spec (s "chan" ++ total1)). Qed.

Example C07_never_terminates_applies :
  alive (serve E1 (evs1 ++ List.map Chunk cs1)) = true /\ get_msg (buf (serve E1 (evs1 ++ List.map Chunk cs1))) = None.
Proof. apply C07_never_terminates. exact E1_enc. Qed.

(* one reply per line, at a state in the middle of a history; the four kinds of reply all occur with E1:
   success (change -> changed, with a message sent before), SECoP error, unhandled action, undecodable line *)
Definition st1 : conn := serve E1 evs1.
Example C07_one_reply_per_line_applies : forall line,
  exists pre r c, answer E1 (nline st1) line = (OReply pre r, c) /\
    output (process E1 st1 line) = output st1 ++ frames pre ++ [encode_frame r] /\
    nline (process E1 st1 line) = S (nline st1) /\
    alive (process E1 st1 line) = alive st1 /\
    reply_ok E1 (nline st1) line r.
Proof. intro line. apply C07_one_reply_per_line. exact E1_enc. Qed.

Example one_reply_kinds :
  fst (answer E1 1 (s "change m:target 3")) = OReply [upd1] (s "changed", Some (s "m:target"), Some (s "[3, {}]")) /\
  fst (answer E1 2 (s "read q:v")) =
    OReply [] (s "error_read", Some (s "q:v"), Some (err_data (error_name_of_index 3) (s """no such module"""))) /\
  fst (answer E1 3 (s "frob")) =
    OReply [] (s "error_frob", None, Some (err_data (error_name_of_class unhandled_error_class) (s """boom"""))) /\
  fst (answer E1 3 (s "change m:target {bad")) =
    OReply [] (s "error_change", Some (s "m:target"), Some (err_data decode_error_name (s """boom"""))) /\
  fst (answer E1 4 (s "activate")) = OReply [upd1; upd1] (s "active", None, None) /\
  fst (answer E1 4 (s "*IDN?")) = OReply [upd1; upd1] (IDENTREPLY, None, None) /\
  fst (answer E1 4 []) = OReply help_frames_msgs (HELPREPLY, None, None).
Proof. vm_compute. repeat split; reflexivity. Qed.

(* C07_unencodable_reply_terminates: the inner premises (all messages before the reply encodable, the reply not) hold
   for an environment whose json.dumps text holds a lone surrogate; such an environment can be written with mk_env,
   but check_case rejects it (ascii_lines) - the theorem is about what WOULD happen with ensure_ascii=False *)
Definition l_sur : list (hres * str) := [(HOk (Some [34; 55296; 34]) [upd1], s """x""")].
Definition E_sur : env := mk_env [] l_sur.
Example C07_nonvacuous_unencodable_reply_terminates :
  match fst (answer E_sur 0 (s "ping x")) with
  | OReply pre r => forallb encodable pre && negb (encodable r) && negb (is_nil pre)
  | OCrash _ => false
  end = true /\ ascii_lines l_sur = false.
Proof. vm_compute. split; reflexivity. Qed.

Example C07_unencodable_reply_terminates_applies :
  output (process E_sur conn0 (s "ping x")) = [encode_frame upd1] /\ alive (process E_sur conn0 (s "ping x")) = false.
Proof.
  destruct (C07_unencodable_reply_terminates E_sur conn0 (s "ping x")) as [pre [r [c [H [_ G]]]]].
  assert (A : answer E_sur 0 (s "ping x") =
              (OReply [upd1] (s "pong", Some (s "x"), Some [34; 55296; 34]), Some (0%nat, s "ping", Some (s "x"), None)))
    by (vm_compute; reflexivity).
  change (nline conn0) with 0%nat in H. rewrite A in H. inversion H; subst pre r c.
  assert (P1 : forallb encodable [upd1] = true) by (vm_compute; reflexivity).
  assert (P2 : encodable (s "pong", Some (s "x"), Some [34; 55296; 34]) = false) by (vm_compute; reflexivity).
  destruct (G P1 P2) as [G1 G2].
  split; [rewrite G1; vm_compute; reflexivity|exact G2].
Qed.

(* internal actions *)
Example C07_internal_actions_rejected_applies :
  dispatch E1 2 (s "_ident", Some (s "x"), None) =
    (OReply [] (err_reply E1 2 (s "_ident") (Some (s "x")) (error_name_of_class internal_error_class)), None) /\
  dispatch E1 3 (s "request", None, Some (s "3")) =
    (OReply [] (err_reply E1 3 (s "request") None (error_name_of_class internal_error_class)), None) /\
  dispatch E1 0 (s "_frob", None, None) =
    (OReply [] (err_reply E1 0 (s "_frob") None (error_name_of_class internal_error_class)), None).
Proof.
  split; [|split].
  - refine (proj1 (C07_internal_actions_rejected E1 2%nat (s "_ident") (Some (s "x")) None _ _)); vm_compute; reflexivity.
  - refine (proj1 (C07_internal_actions_rejected E1 3%nat (s "request") None (Some (s "3")) _ _)); vm_compute; reflexivity.
  - refine (proj1 (C07_internal_actions_rejected E1 0%nat (s "_frob") None None _ _)); vm_compute; reflexivity.
Qed.

(* decoded request fields: a line with surrounding white space, non-ASCII specifier, data *)
Definition line_dec : bytes := [32; 9] ++ s "change m" ++ [195; 182] ++ s ":t 3" ++ [13].
Example C07_decoded_request_fields_applies :
  request_fields line_dec = Some (s "change", Some (s "m" ++ [246] ++ s ":t")).
Proof.
  apply (C07_decoded_request_fields E1 line_dec (s "change") (Some (s "m" ++ [246] ++ s ":t")) (Some (s "3"))).
  vm_compute. reflexivity.
Qed.

(* decode errors: well-formed action and specifier, the data part is ill-formed UTF-8 (byte 255) *)
Definition line_bad : bytes := [32] ++ s "r" ++ [195; 169] ++ s "ad m" ++ [195; 182] ++ s " {" ++ [255] ++ [32].
Example C07_decode_error_echo_applies :
  exists s' d, answer E1 7 line_bad = (OReply [] (ERRORPREFIX ++ (s "r" ++ [233] ++ s "ad"), s', d), None) /\
               or_empty s' = s "m" ++ [246].
Proof. apply C07_decode_error_echo; vm_compute; reflexivity. Qed.

(* the whole line is text, the data part is rejected by json.loads (table entry None, and no table entry) *)
Example C07_decode_error_echo_text_applies :
  (exists s' d, answer E1 7 (s "change m:t {bad") = (OReply [] (ERRORPREFIX ++ s "change", s', d), None) /\
                or_empty s' = or_empty (Some (s "m:t"))) /\
  (exists s' d, answer E1 7 (s "do  [1,") = (OReply [] (ERRORPREFIX ++ s "do", s', d), None) /\
                or_empty s' = or_empty None).
Proof. split; apply C07_decode_error_echo_text; vm_compute; reflexivity. Qed.

(* ill-formed action and specifier *)
Definition line_ill : bytes := [32; 114; 233; 97; 100; 32; 120; 255; 32; 123].
Example C07_decode_error_echo_replaced_applies :
  exists s' d, answer E1 7 line_ill =
      (OReply [] (ERRORPREFIX ++ utf8_dec_repl (nth 0%nat (byte_fields line_ill) []), s', d), None) /\
    or_empty s' = utf8_dec_repl (nth 1%nat (byte_fields line_ill) []).
Proof. apply C07_decode_error_echo_replaced. vm_compute. reflexivity. Qed.
Example replaced_fields :
  utf8_dec_repl (nth 0%nat (byte_fields line_ill) []) = [114; 65533; 97; 100] /\
  utf8_dec_repl (nth 1%nat (byte_fields line_ill) []) = [120; 65533].
Proof. vm_compute. split; reflexivity. Qed.

Example C07_replace_decoder_applies :
  utf8_dec_repl [114; 195; 169; 240; 159; 152; 128] = [114; 233; 128512] /\
  forallb scalar (utf8_dec_repl [114; 237; 160; 128; 255]) = true /\
  splitsp 2 (utf8_dec_repl line_ill) = List.map utf8_dec_repl (splitsp 2 line_ill).
Proof.
  destruct (C07_replace_decoder [114; 195; 169; 240; 159; 152; 128]) as [A _].
  destruct (C07_replace_decoder [114; 237; 160; 128; 255]) as [_ [B _]].
  destruct (C07_replace_decoder line_ill) as [_ [_ C]].
  split; [apply A; vm_compute; reflexivity|split; [exact B|apply C]].
Qed.

(* codec: action, non-ASCII specifier, data / no data *)
Example C07_codec_inverse_applies :
  decode_msg E1 (encode_body (s "change", Some (s "m" ++ [246; 8364] ++ s ":t"), Some (s "3"))) =
    Some (s "change", Some (s "m" ++ [246; 8364] ++ s ":t"), Some (s "3")) /\
  decode_msg E1 (encode_body (s "change", None, Some (s "null"))) = Some (s "change", None, None) /\
  decode_msg E1 (encode_body (s "ping", Some (s "x"), Some (s "[1, 2]"))) = None /\
  decode_msg E1 (encode_body (s "describe", None, None)) = Some (s "describe", None, None).
Proof.
  assert (T1 : tokb (s "change") = true) by (vm_compute; reflexivity).
  assert (T2 : tokb (s "ping") = true) by (vm_compute; reflexivity).
  assert (T3 : tokb (s "describe") = true) by (vm_compute; reflexivity).
  assert (S1 : wf_spec (Some (s "m" ++ [246; 8364] ++ s ":t"))) by (vm_compute; reflexivity).
  assert (S2 : wf_spec (Some (s "x"))) by (vm_compute; reflexivity).
  assert (D1 : wf_data (Some (s "3"))).
  { split; [vm_compute; reflexivity|]. split; [exists 51, []|exists [], 51]; split; vm_compute; reflexivity. }
  assert (D2 : wf_data (Some (s "null"))).
  { split; [vm_compute; reflexivity|].
    split; [exists 110, [117; 108; 108]|exists [110; 117; 108], 108]; split; vm_compute; reflexivity. }
  assert (D3 : wf_data (Some (s "[1, 2]"))).
  { split; [vm_compute; reflexivity|].
    split; [exists 91, [49; 44; 32; 50; 93]|exists [91; 49; 44; 32; 50], 93]; split; vm_compute; reflexivity. }
  split; [|split; [|split]].
  - refine (eq_trans (proj2 (C07_codec_inverse E1 _ _ _ T1 S1 D1)) _). vm_compute. reflexivity.
  - refine (eq_trans (proj2 (C07_codec_inverse E1 _ None _ T1 I D2)) _). vm_compute. reflexivity.
  - refine (eq_trans (proj2 (C07_codec_inverse E1 _ _ _ T2 S2 D3)) _). vm_compute. reflexivity.
  - refine (eq_trans (proj2 (C07_codec_inverse E1 _ None None T3 I I)) _). reflexivity.
Qed.

(* isolation: three connections (one of them in the middle of a history), events addressed to all of them and to a
   connection that does not exist *)
Definition S3 : list conn := [conn0; serve E1 evs1; conn0].
Definition Es3 (k : nat) : env := match k with 1%nat => E1 | 2%nat => nv_E | _ => E_sur end.
Definition sys_evs : list (nat * event) :=
  [(0%nat, Chunk (ln "ping x")); (1%nat, Chunk (firstn 30 total1)); (2%nat, Chunk (s "ping a")); (7%nat, Chunk (ln "x"));
   (1%nat, Async upd1); (2%nat, Chunk (ln "")); (0%nat, Chunk (ln "ping y")); (1%nat, Chunk (skipn 30 total1))].
Example C07_isolation_applies :
  nth 1%nat (sys_run Es3 S3 sys_evs) conn0 =
    run E1 (serve E1 evs1) [Chunk (firstn 30 total1); Async upd1; Chunk (skipn 30 total1)] /\
  nth 0%nat (sys_run Es3 S3 sys_evs) conn0 = run E_sur conn0 [Chunk (ln "ping x"); Chunk (ln "ping y")] /\
  nth 2%nat (sys_run Es3 S3 sys_evs) conn0 = run nv_E conn0 [Chunk (s "ping a"); Chunk (ln "")].
Proof.
  split; [|split].
  - rewrite (C07_isolation Es3 sys_evs S3 1%nat conn0) by (vm_compute; lia). vm_compute. reflexivity.
  - rewrite (C07_isolation Es3 sys_evs S3 0%nat conn0) by (vm_compute; lia). vm_compute. reflexivity.
  - rewrite (C07_isolation Es3 sys_evs S3 2%nat conn0) by (vm_compute; lia). vm_compute. reflexivity.
Qed.
Example isolation_shape :
  List.length (out (nth 1%nat (sys_run Es3 S3 sys_evs) conn0)) = 10%nat /\
  alive (nth 0%nat (sys_run Es3 S3 sys_evs) conn0) = false /\
  List.length (out (nth 2%nat (sys_run Es3 S3 sys_evs) conn0)) = 1%nat.
Proof. vm_compute. repeat split; reflexivity. Qed.

(* the peer's view *)
Example C07_peer_reads_frames_applies :
  lines_of (flat_map (fun l => l ++ [EOL]) [s "pong x [null, {}]"; []; s "update m:value [1.5, {}]"] ++ s "act") =
  ([s "pong x [null, {}]"; []; s "update m:value [1.5, {}]"], s "act").
Proof.
  apply C07_peer_reads_frames.
  - apply Forall_cons; [apply nv_no_eol; vm_compute; reflexivity|].
    apply Forall_cons; [apply nv_no_eol; vm_compute; reflexivity|].
    apply Forall_cons; [apply nv_no_eol; vm_compute; reflexivity|]. apply Forall_nil.
  - apply nv_no_eol; vm_compute; reflexivity.
Qed.

(* ------------------------------------------------------------------ concurrent send path: a recorded case
   three threads, two connections; the socket of connection 1 fails in the middle of a frame *)
Definition nvc_case : case :=
(CConc [[(0%nat, ((B 0x1706f6e67), (Some (B 0x178)), (Some (B 0x15b6e756c6c2c207b2274223a20313739303735303135342e343234303530367d5d))))];[(1%nat, ((B 0x16368616e676564), (Some (B 0x16d3a746172676574)), (Some (B 0x15b332e302c207b2274223a20313739303735303135342e343233383939327d5d))))];[(0%nat, ((B 0x16c6f67), (Some (B 0x16d3a696e666f)), (Some (B 0x122746578742031205c7530306539205c22715c2222))))]] [(2%nat, Write 0%nat);(1%nat, Write 0%nat);(2%nat, Write 0%nat);(1%nat, Write 0%nat);(1%nat, Write 20%nat);(0%nat, Write 0%nat);(1%nat, Write 2%nat);(2%nat, Write 1%nat);(2%nat, Write 32%nat);(1%nat, Write 20%nat);(1%nat, Fail 1%nat);(0%nat, Write 0%nat);(0%nat, Write 1%nat);(0%nat, Write 40%nat)] 2%nat [(B 0x16c6f67206d3a696e666f2022746578742031205c7530306539205c22715c22220a706f6e672078205b6e756c6c2c207b2274223a20313739303735303135342e343234303530367d5d0a);(B 0x16368616e676564206d3a746172676574205b332e302c207b2274223a20313739303735303135342e3432)] [true;false])
.
Definition nvc_progl : list (list job) :=
  Eval cbv beta iota delta [nvc_case] in match nvc_case with CConc p _ _ _ _ => p | _ => [] end.
Definition nvc_sched : list cevent :=
  Eval cbv beta iota delta [nvc_case] in match nvc_case with CConc _ sc _ _ _ => sc | _ => [] end.
Definition nvc_progs : nat -> list job := progs_of nvc_progl.
Notation nvc_final := (crun true (cinit nvc_progs) nvc_sched) (only parsing).
(* after 8 of the 14 steps: threads 2 and 1 are inside sendall on connections 0 and 1, thread 0 waits to enter *)
Notation nvc_mid := (crun true (cinit nvc_progs) (firstn 8 nvc_sched)) (only parsing).

Example nvc_check : check_case nvc_case = true. Proof. vm_compute. reflexivity. Qed.

Example nvc_shape :
  List.length nvc_progl = 3%nat /\ List.length nvc_sched = 14%nat /\
  List.map fst nvc_sched = [2; 1; 2; 1; 1; 0; 1; 2; 2; 1; 1; 0; 0; 0]%nat /\
  lock (con nvc_mid 0%nat) = Some 2%nat /\ lock (con nvc_mid 1%nat) = Some 1%nat /\
  List.map fst (log (con nvc_final 0%nat)) = [2; 0]%nat /\ List.map fst (log (con nvc_final 1%nat)) = [1%nat] /\
  running (con nvc_final 0%nat) = true /\ running (con nvc_final 1%nat) = false /\
  (List.length (sock (con nvc_final 1%nat)) < List.length (concat (List.map snd (log (con nvc_final 1%nat)))))%nat.
Proof. vm_compute. repeat split; try reflexivity. lia. Qed.

Lemma nvc_all_done : forall t, todo (thr nvc_final t) = [].
Proof. intro t. destruct t as [|[|[|t]]]; vm_compute; try reflexivity. destruct t; reflexivity. Qed.

Lemma nvc_no_fail0 : forall t, ~ In (t, Fail 0%nat) nvc_sched.
Proof.
  intros t H. vm_compute in H.
  repeat (destruct H as [H|H]; [discriminate H|]). exact H.
Qed.

(* C07_frames_never_interleaved: all four parts at the final state, part 1-3 at the state in the middle *)
Example C07_frames_never_interleaved_applies_final :
  (sock (con nvc_final 0%nat) = concat (List.map snd (log (con nvc_final 0%nat))) /\
   forall t, projf t (log (con nvc_final 0%nat)) = encs 0%nat (nvc_progs t)) /\
  (forall t f, In (t, f) (log (con nvc_final 1%nat)) ->
     exists m, In (1%nat, m) (nvc_progs t) /\ encodable m = true /\ f = encode_frame m).
Proof.
  pose proof (C07_frames_never_interleaved nvc_progs nvc_sched 0%nat) as H0. cbv zeta in H0.
  pose proof (C07_frames_never_interleaved nvc_progs nvc_sched 1%nat) as H1. cbv zeta in H1.
  destruct H0 as [_ [_ [_ Q]]]. destruct H1 as [_ [F _]].
  split; [apply Q; [exact nvc_all_done|vm_compute; reflexivity]|exact F].
Qed.

Example C07_frames_never_interleaved_applies_mid :
  sock (con nvc_mid 0%nat) <> concat (List.map snd (log (con nvc_mid 0%nat))) /\
  (exists done t f w r, log (con nvc_mid 0%nat) = done ++ [(t, f)] /\ f = w ++ r /\
     sock (con nvc_mid 0%nat) = concat (List.map snd done) ++ w) /\
  (forall t, projf t (log (con nvc_mid 1%nat)) = encs 1%nat (donej (thr nvc_mid t)) ++ curf (thr nvc_mid t) 1%nat) /\
  projf 1%nat (log (con nvc_mid 1%nat)) <> [].
Proof.
  pose proof (C07_frames_never_interleaved nvc_progs (firstn 8 nvc_sched) 0%nat) as H0. cbv zeta in H0.
  pose proof (C07_frames_never_interleaved nvc_progs (firstn 8 nvc_sched) 1%nat) as H1. cbv zeta in H1.
  destruct H0 as [W _]. destruct H1 as [_ [_ [P _]]].
  assert (N : sock (con nvc_mid 0%nat) <> concat (List.map snd (log (con nvc_mid 0%nat)))) by (vm_compute; discriminate).
  split; [exact N|]. split; [|split].
  - (* the theorem leaves two alternatives; here the first is false (a frame is in flight), so the second holds *)
    destruct W as [W|W]; [exfalso; exact (N W)|exact W].
  - apply P. vm_compute. reflexivity.
  - vm_compute. discriminate.
Qed.

(* C07_send_failure_releases_lock: premises of every part *)
Example C07_send_failure_releases_lock_applies :
  (* 1: a lock is held in the middle state *)
  (running (con nvc_mid 1%nat) = true /\
   exists m tl f rest, todo (thr nvc_mid 1%nat) = (1%nat, m) :: tl /\ ph (thr nvc_mid 1%nat) = PWrite f rest) /\
  (* 2: connection 1 is stopped at the end *)
  lock (con nvc_final 1%nat) = None /\
  (* 3: all calls have returned *)
  lock (con nvc_final 0%nat) = None /\
  (* 6: no failure of connection 0 in the schedule (there is one of connection 1) *)
  running (con nvc_final 0%nat) = true.
Proof.
  pose proof (C07_send_failure_releases_lock nvc_progs (firstn 8 nvc_sched) 1%nat) as M. cbv zeta in M.
  pose proof (C07_send_failure_releases_lock nvc_progs nvc_sched 1%nat) as F1. cbv zeta in F1.
  pose proof (C07_send_failure_releases_lock nvc_progs nvc_sched 0%nat) as F0. cbv zeta in F0.
  destruct M as [M1 _]. destruct F1 as [_ [F12 _]]. destruct F0 as [_ [_ [F03 [_ [_ F06]]]]].
  split; [apply (M1 1%nat); vm_compute; reflexivity|].
  split; [apply F12; vm_compute; reflexivity|].
  split; [apply F03; exact nvc_all_done|].
  apply F06. exact nvc_no_fail0.
Qed.

(* 4 and 5: the holder of the lock of connection 1 (thread 1, in the middle state) makes a step: a partial write of
   3 bytes leaves it inside sendall with less to write; a write of everything and a failing write leave the with block *)
Definition nvc_m1 : msg := snd (hd (0%nat, ([], None, None)) (nvc_progs 1%nat)).
Definition nvc_f1 : bytes := encode_frame nvc_m1.
Example nvc_mid_holder :
  todo (thr nvc_mid 1%nat) = [(1%nat, nvc_m1)] /\ ph (thr nvc_mid 1%nat) = PWrite nvc_f1 (skipn 22 nvc_f1) /\
  List.length (skipn 22 nvc_f1) = 28%nat.
Proof. vm_compute. repeat split; reflexivity. Qed.

Example C07_send_failure_releases_lock_step_applies :
  (let st' := cstep true nvc_mid (1%nat, Write 3%nat) in
   exists r', todo (thr st' 1%nat) = [(1%nat, nvc_m1)] /\ ph (thr st' 1%nat) = PWrite nvc_f1 r' /\
              (List.length r' < 28)%nat) /\
  (let st' := cstep true nvc_mid (1%nat, Write 99%nat) in
   lock (con st' 1%nat) = None /\ todo (thr st' 1%nat) = [] /\ ph (thr st' 1%nat) = PIdle) /\
  (let st' := cstep true nvc_mid (1%nat, Fail 1%nat) in
   lock (con st' 1%nat) = None /\ running (con st' 1%nat) = false /\ sock (con st' 1%nat) = sock (con nvc_mid 1%nat) /\
   todo (thr st' 1%nat) = [] /\ ph (thr st' 1%nat) = PIdle /\
   (forall c', c' <> 1%nat -> con st' c' = con nvc_mid c') /\ (forall t', t' <> 1%nat -> thr st' t' = thr nvc_mid t')).
Proof.
  pose proof (C07_send_failure_releases_lock nvc_progs (firstn 8 nvc_sched) 1%nat) as M. cbv zeta in M.
  destruct M as [_ [_ [_ [M4 [M5 _]]]]].
  destruct nvc_mid_holder as [HT [HP HL]].
  cbv zeta. split; [|split].
  - destruct (M4 1%nat nvc_m1 [] nvc_f1 (skipn 22 nvc_f1) (Write 3%nat) HT HP) as [[A _]|[r' [A [B C]]]].
    + exfalso. revert A. vm_compute. discriminate.
    + exists r'. rewrite HL in C. split; [exact A|split; [exact B|exact C]].
  - destruct (M4 1%nat nvc_m1 [] nvc_f1 (skipn 22 nvc_f1) (Write 99%nat) HT HP) as [A|[r' [A _]]].
    + exact A.
    + exfalso. revert A. vm_compute. discriminate.
  - exact (M5 1%nat nvc_m1 [] nvc_f1 (skipn 22 nvc_f1) HT HP).
Qed.

(* the conclusion of C07_frames_never_interleaved is not trivially true: it is FALSE for the run without the lock of
   C07_without_lock_frames_interleave (both alternatives of part 1 fail) *)
Example frames_conclusion_refutable :
  let st := crun false (cinit wl_progs) wl_sched in
  let lg := log (con st 0%nat) in
  ~ (sock (con st 0%nat) = concat (List.map snd lg) \/
     exists done t f w r, lg = done ++ [(t, f)] /\ f = w ++ r /\ sock (con st 0%nat) = concat (List.map snd done) ++ w).
Proof.
  cbv zeta.
  assert (L : log (con (crun false (cinit wl_progs) wl_sched) 0%nat) = [(0%nat, [97; 98; 10])] ++ [(1%nat, [99; 100; 10])])
    by (vm_compute; reflexivity).
  assert (K : sock (con (crun false (cinit wl_progs) wl_sched) 0%nat) = [97; 99; 100; 10; 98; 10])
    by (vm_compute; reflexivity).
  rewrite L, K. intros [H|[done [t [f [w [r [A [B C]]]]]]]].
  - revert H. vm_compute. discriminate.
  - apply app_inj_tail in A. destruct A as [A1 A2]. subst done. simpl in C. discriminate C.
Qed.
