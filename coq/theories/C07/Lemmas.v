(* C07 - lemmas: framing is a function of the byte stream, the request loop answers line by line,
   no request line makes the handler leave its loop, classification of the reply *)
From Coq Require Import List Arith NArith Bool Lia.
Import ListNotations.
Require Import FV.Gen.C07 FV.C07.Model.
Local Open Scope N_scope.

(* ------------------------------------------------------------------ equality test on strings *)
Lemma str_eqb_eq : forall a b, str_eqb a b = true <-> a = b.
Proof.
  induction a as [|x a IH]; destruct b as [|y b]; simpl; split; intro H; try reflexivity; try discriminate.
  - apply andb_true_iff in H. destruct H as [H1 H2]. apply N.eqb_eq in H1. apply IH in H2. subst. reflexivity.
  - inversion H; subst. apply andb_true_iff. split. apply N.eqb_refl. apply IH. reflexivity.
Qed.

Lemma str_eqb_refl : forall a, str_eqb a a = true.
Proof. intro a. apply str_eqb_eq. reflexivity. Qed.

Lemma str_eqb_neq : forall a b, str_eqb a b = false <-> a <> b.
Proof.
  intros a b. split; intro H.
  - intro Heq. apply str_eqb_eq in Heq. congruence.
  - destruct (str_eqb a b) eqn:E; [apply str_eqb_eq in E; contradiction|reflexivity].
Qed.

(* ------------------------------------------------------------------ frame lemmas *)
Lemma process_buf : forall E st line, buf (process E st line) = buf st.
Proof.
  intros. unfold process. destruct (answer E (nline st) line) as [o c].
  destruct o as [pre r|pre]; [destruct (send_seq (pre ++ [r])) as [fs ok]|]; reflexivity.
Qed.

Lemma process_set_buf : forall E st b line, process E (set_buf st b) line = set_buf (process E st line) b.
Proof.
  intros. unfold process, set_buf. simpl. destruct (answer E (nline st) line) as [o c].
  destruct o as [pre r|pre]; [destruct (send_seq (pre ++ [r])) as [fs ok]|]; reflexivity.
Qed.

Lemma set_buf_set_buf : forall st a b, set_buf (set_buf st a) b = set_buf st b.
Proof. reflexivity. Qed.

Lemma set_buf_same : forall st, set_buf st (buf st) = st.
Proof. destruct st; reflexivity. Qed.

Lemma process_nline : forall E st line, nline (process E st line) = S (nline st).
Proof.
  intros. unfold process. destruct (answer E (nline st) line) as [o c].
  destruct o as [pre r|pre]; [destruct (send_seq (pre ++ [r])) as [fs ok]|]; reflexivity.
Qed.

(* ------------------------------------------------------------------ sending a sequence of messages *)
Lemma send_seq_all : forall ms, forallb encodable ms = true -> send_seq ms = (frames ms, true).
Proof.
  induction ms as [|m ms IH]; intro H; [reflexivity|]. simpl in *. apply andb_true_iff in H. destruct H as [H1 H2].
  rewrite H1, (IH H2). reflexivity.
Qed.

Lemma send_seq_sent : forall ms f, In f (fst (send_seq ms)) ->
  exists m, In m ms /\ encodable m = true /\ f = encode_frame m.
Proof.
  induction ms as [|m ms IH]; intros f H; [destruct H|]. simpl in H.
  destruct (encodable m) eqn:Em; [|destruct H].
  destruct (send_seq ms) as [fs ok]. simpl in *. destruct H as [H|H].
  - exists m. split; [left; reflexivity|]. split; [exact Em|]. symmetry. exact H.
  - destruct (IH f H) as [m' [A [B C]]]. exists m'. split; [right; exact A|]. split; assumption.
Qed.

(* the first message that can not be encoded ends the sequence: it and everything behind it is not sent *)
Lemma send_seq_stop : forall ms m ms', forallb encodable ms = true -> encodable m = false ->
  send_seq (ms ++ m :: ms') = (frames ms, false).
Proof.
  induction ms as [|x ms IH]; intros m ms' H Hm; simpl.
  - rewrite Hm. reflexivity.
  - simpl in H. apply andb_true_iff in H. destruct H as [H1 H2]. rewrite H1, (IH m ms' H2 Hm). reflexivity.
Qed.

(* every message the request loop sends for line i can be encoded *)
Definition line_enc (E : env) (i : nat) (line : bytes) : Prop :=
  forall pre r c, answer E i line = (OReply pre r, c) -> forallb encodable (pre ++ [r]) = true.

(* ------------------------------------------------------------------ get_msg *)
Lemma get_msg_shorter : forall bs l rest, get_msg bs = Some (l, rest) -> (length rest < length bs)%nat.
Proof.
  induction bs as [|b r IH]; simpl; intros l rest H; [discriminate|].
  destruct (b =? EOL).
  - inversion H; subst. lia.
  - destruct (get_msg r) as [[l' rest']|] eqn:G; [|discriminate]. inversion H; subst.
    specialize (IH _ _ eq_refl). lia.
Qed.

Lemma get_msg_app_some : forall bs l rest extra,
  get_msg bs = Some (l, rest) -> get_msg (bs ++ extra) = Some (l, rest ++ extra).
Proof.
  induction bs as [|b r IH]; simpl; intros l rest extra H; [discriminate|].
  destruct (b =? EOL).
  - inversion H; subst. reflexivity.
  - destruct (get_msg r) as [[l' rest']|] eqn:G; [|discriminate]. inversion H; subst.
    rewrite (IH _ _ extra eq_refl). reflexivity.
Qed.

Lemma get_msg_line_no_eol : forall bs l rest, get_msg bs = Some (l, rest) -> ~ In EOL l.
Proof.
  induction bs as [|b r IH]; simpl; intros l rest H; [discriminate|].
  destruct (b =? EOL) eqn:Eb.
  - inversion H; subst. intros [].
  - destruct (get_msg r) as [[l' rest']|] eqn:G; [|discriminate]. inversion H; subst.
    intros [Hb|Hin]. { subst. rewrite N.eqb_refl in Eb. discriminate. } exact (IH _ _ eq_refl Hin).
Qed.

Lemma get_msg_rejoin : forall bs l rest, get_msg bs = Some (l, rest) -> bs = l ++ EOL :: rest.
Proof.
  induction bs as [|b r IH]; simpl; intros l rest H; [discriminate|].
  destruct (b =? EOL) eqn:Eb.
  - inversion H; subst. apply N.eqb_eq in Eb. subst. reflexivity.
  - destruct (get_msg r) as [[l' rest']|] eqn:G; [|discriminate]. inversion H; subst.
    simpl. f_equal. apply IH. reflexivity.
Qed.

(* ------------------------------------------------------------------ drain: fuel, appending input *)
Lemma drain_fuel : forall E n m st, (length (buf st) < n)%nat -> (length (buf st) < m)%nat ->
  drain n E st = drain m E st.
Proof.
  intros E n. induction n as [|n IH]; intros m st Hn Hm; [lia|].
  destruct m as [|m]; [lia|]. simpl.
  destruct (alive st); [|reflexivity].
  destruct (get_msg (buf st)) as [[l rest]|] eqn:G; [|reflexivity].
  pose proof (get_msg_shorter _ _ _ G) as Hs.
  apply IH; rewrite process_buf; simpl; lia.
Qed.

Definition drain_all (E : env) (st : conn) : conn := drain (S (length (buf st))) E st.

Lemma drain_all_step : forall E st,
  drain_all E st =
  if alive st then
    match get_msg (buf st) with
    | None => st
    | Some (line, rest) => drain_all E (process E (set_buf st rest) line)
    end
  else st.
Proof.
  intros. unfold drain_all at 1. simpl.
  destruct (alive st); [|reflexivity].
  destruct (get_msg (buf st)) as [[l rest]|] eqn:G; [|reflexivity].
  pose proof (get_msg_shorter _ _ _ G) as Hs.
  unfold drain_all. apply drain_fuel; rewrite process_buf; simpl; lia.
Qed.

Lemma drain_alive_false : forall E n st, alive st = false -> drain n E st = st.
Proof. intros E n st H. destruct n; simpl; [reflexivity|]. rewrite H. reflexivity. Qed.

Lemma process_alive_false_app : forall E st line b,
  set_buf (process E st line) (buf (process E st line) ++ b) = process E (set_buf st (buf st ++ b)) line.
Proof. intros. rewrite process_set_buf, process_buf. reflexivity. Qed.

(* input that arrives later can as well be appended before draining, as long as the loop is alive afterwards *)
Lemma drain_all_app : forall E n st b, (length (buf st) < n)%nat ->
  alive (drain_all E st) = true ->
  drain_all E (set_buf (drain_all E st) (buf (drain_all E st) ++ b)) = drain_all E (set_buf st (buf st ++ b)).
Proof.
  intros E n. induction n as [|n IH]; intros st b Hn Hal; [lia|].
  rewrite (drain_all_step E st) in *.
  destruct (alive st) eqn:Al.
  - destruct (get_msg (buf st)) as [[l rest]|] eqn:G.
    + pose proof (get_msg_shorter _ _ _ G) as Hs.
      rewrite (drain_all_step E (set_buf st (buf st ++ b))). simpl. rewrite Al.
      rewrite (get_msg_app_some _ _ _ b G).
      rewrite IH; [|rewrite process_buf; simpl; lia|exact Hal].
      rewrite process_buf. simpl. rewrite !process_set_buf. reflexivity.
    + reflexivity.
  - rewrite Al in Hal. discriminate.
Qed.

Lemma feed_unfold : forall E st b, feed E st b = if alive st then drain_all E (set_buf st (buf st ++ b)) else st.
Proof. reflexivity. Qed.

Lemma drain_all_alive_mono : forall E n st, (length (buf st) < n)%nat -> alive (drain_all E st) = true -> alive st = true.
Proof.
  intros E n st _ H. rewrite drain_all_step in H. destruct (alive st) eqn:A; [reflexivity|]. congruence.
Qed.

Lemma drain_all_idem : forall E n st, (length (buf st) < n)%nat -> drain_all E (drain_all E st) = drain_all E st.
Proof.
  intros E n. induction n as [|n IH]; intros st Hn; [lia|].
  rewrite (drain_all_step E st).
  destruct (alive st) eqn:Al.
  - destruct (get_msg (buf st)) as [[l rest]|] eqn:G.
    + pose proof (get_msg_shorter _ _ _ G) as Hs. apply IH. rewrite process_buf. simpl. lia.
    + rewrite drain_all_step, Al, G. reflexivity.
  - rewrite drain_all_step, Al. reflexivity.
Qed.

(* feeding two segments one after the other = feeding their concatenation *)
Lemma feed_feed : forall E st a b, alive (feed E st a) = true ->
  feed E (feed E st a) b = feed E st (a ++ b).
Proof.
  intros E st a b Hal. rewrite !feed_unfold in *.
  destruct (alive st) eqn:Al; [|rewrite Al in Hal; discriminate].
  rewrite Hal.
  set (s1 := set_buf st (buf st ++ a)) in *.
  rewrite (drain_all_app E (S (length (buf s1))) s1 b); [|lia|exact Hal].
  unfold s1. simpl. rewrite app_assoc. reflexivity.
Qed.

(* ------------------------------------------------------------------ no request line ends the loop *)
(* facts about the generated handler table, checked by computation in Properties.C07_source_facts *)
Definition crash_free_table : bool :=
  forallb (fun h => negb (Nat.eqb (h_arity h) 3 && Nat.eqb (h_rule h) 3) || str_eqb (h_name h) HELPREQUEST) handler_table.
Definition alias_not_help : bool := negb (str_eqb ident_alias HELPREQUEST).

Lemma find_handler_some : forall name h, find_handler name = Some h -> In h handler_table /\ h_name h = name.
Proof.
  intros name h H. unfold find_handler in H. apply find_some in H. destruct H as [H1 H2].
  split; [exact H1|]. apply str_eqb_eq. exact H2.
Qed.

Lemma dispatch_no_crash : crash_free_table = true -> alias_not_help = true ->
  forall E i a s d, str_eqb a HELPREQUEST = false ->
  exists pre r c, dispatch E i (a, s, d) = (OReply pre r, c).
Proof.
  intros HT HA E i a s d Hh. unfold dispatch.
  destruct (negb (str_eqb a IDENTREQUEST) && is_internal a); [eauto|].
  destruct (str_eqb a IDENTREQUEST) eqn:Ei.
  - destruct (find_handler ident_alias) as [h|] eqn:F; [|eauto].
    destruct (Nat.eqb (h_arity h) 3) eqn:Ar; [|eauto].
    destruct (lo_h (e_line E i)); eauto.
    destruct (Nat.eqb (h_rule h) 3) eqn:Ru; [|eauto].
    exfalso. apply find_handler_some in F. destruct F as [Hin Hn].
    unfold crash_free_table in HT. rewrite forallb_forall in HT. specialize (HT _ Hin).
    rewrite Ar, Ru in HT. simpl in HT. rewrite Hn in HT.
    unfold alias_not_help in HA. rewrite HT in HA. discriminate.
  - destruct (find_handler a) as [h|] eqn:F; [|eauto].
    destruct (Nat.eqb (h_arity h) 3) eqn:Ar; [|eauto].
    destruct (lo_h (e_line E i)); eauto.
    destruct (Nat.eqb (h_rule h) 3) eqn:Ru; [|eauto].
    exfalso. apply find_handler_some in F. destruct F as [Hin Hn].
    unfold crash_free_table in HT. rewrite forallb_forall in HT. specialize (HT _ Hin).
    rewrite Ar, Ru in HT. simpl in HT. rewrite Hn in HT. congruence.
Qed.

Lemma answer_no_crash : crash_free_table = true -> alias_not_help = true ->
  forall E i line, exists pre r c, answer E i line = (OReply pre r, c).
Proof.
  intros HT HA E i line. unfold answer.
  destruct (next_message E line) as [[[a s] d]|]; [|eauto].
  destruct (str_eqb a HELPREQUEST) eqn:Hh; [eauto|].
  apply dispatch_no_crash; assumption.
Qed.

Section Alive.
Hypothesis HT : crash_free_table = true.
Hypothesis HA : alias_not_help = true.
Variable E : env.
Hypothesis HEnc : forall i line, line_enc E i line.

Lemma process_alive : forall st line, alive (process E st line) = alive st.
Proof.
  intros. unfold process. destruct (answer_no_crash HT HA E (nline st) line) as [pre [r [c H]]].
  rewrite H. rewrite (send_seq_all _ (HEnc _ _ _ _ _ H)). simpl. apply andb_true_r.
Qed.

Lemma drain_alive : forall n st, alive (drain n E st) = alive st.
Proof.
  intros n. induction n as [|n IH]; intro st; simpl; [reflexivity|].
  destruct (alive st) eqn:Al; [|exact Al].
  destruct (get_msg (buf st)) as [[l rest]|]; [|exact Al].
  rewrite IH, process_alive. simpl. exact Al.
Qed.

Lemma feed_alive : forall st b, alive (feed E st b) = alive st.
Proof.
  intros. unfold feed. destruct (alive st) eqn:Al; [|exact Al]. rewrite drain_alive. simpl. exact Al.
Qed.

Lemma push_alive : forall st m, alive (push st m) = alive st.
Proof. intros. unfold push. destruct (alive st) eqn:Al; destruct (encodable m); simpl; congruence. Qed.

Lemma step_alive : forall st ev, alive (step E st ev) = alive st.
Proof. intros. destruct ev; simpl; [apply feed_alive|apply push_alive]. Qed.

Lemma run_alive : forall evs st, alive (run E st evs) = alive st.
Proof.
  intros evs. unfold run. induction evs as [|ev evs IH]; intro st; simpl; [reflexivity|].
  rewrite IH. apply step_alive.
Qed.

Lemma serve_alive : forall evs, alive (serve E evs) = true.
Proof. intros. unfold serve. rewrite run_alive. reflexivity. Qed.

(* ---- the buffer never holds a complete line between two events *)
Lemma drain_all_drained : forall n st, (length (buf st) < n)%nat -> alive st = true ->
  get_msg (buf (drain_all E st)) = None.
Proof.
  intros n. induction n as [|n IH]; intros st Hn Al; [lia|].
  rewrite drain_all_step, Al.
  destruct (get_msg (buf st)) as [[l rest]|] eqn:G; [|exact G].
  pose proof (get_msg_shorter _ _ _ G) as Hs.
  apply IH; [rewrite process_buf; simpl; lia|rewrite process_alive; exact Al].
Qed.

Definition inv (st : conn) : Prop := alive st = true /\ get_msg (buf st) = None.

Lemma feed_inv : forall st b, inv st -> inv (feed E st b).
Proof.
  intros st b [Al G]. split; [rewrite feed_alive; exact Al|].
  rewrite feed_unfold, Al. eapply drain_all_drained; [apply Nat.lt_succ_diag_r|exact Al].
Qed.

Lemma push_inv : forall st m, inv st -> inv (push st m).
Proof. intros st m [Al G]. unfold push. rewrite Al. destruct (encodable m); split; simpl; assumption. Qed.

Lemma step_inv : forall st ev, inv st -> inv (step E st ev).
Proof. intros. destruct ev; simpl; [apply feed_inv|apply push_inv]; assumption. Qed.

Lemma run_inv : forall evs st, inv st -> inv (run E st evs).
Proof.
  intros evs. unfold run. induction evs as [|ev evs IH]; intros st H; simpl; [exact H|].
  apply IH. apply step_inv. exact H.
Qed.

Lemma serve_inv : forall evs, inv (serve E evs).
Proof. intros. apply run_inv. split; reflexivity. Qed.

(* ---- chunking *)
Lemma feed_nil : forall st, inv st -> feed E st [] = st.
Proof.
  intros st [Al G]. rewrite feed_unfold, Al, app_nil_r, set_buf_same, drain_all_step, Al, G. reflexivity.
Qed.

Lemma feed_feed' : forall st a b, feed E (feed E st a) b = feed E st (a ++ b).
Proof.
  intros. destruct (alive st) eqn:Al.
  - apply feed_feed. rewrite feed_alive. exact Al.
  - unfold feed. rewrite Al. rewrite Al. reflexivity.
Qed.

Lemma run_chunks : forall cs st, inv st -> run E st (map Chunk cs) = feed E st (concat cs).
Proof.
  intros cs. unfold run. induction cs as [|c cs IH]; intros st H; simpl.
  - symmetry. apply feed_nil. exact H.
  - rewrite IH; [|apply feed_inv; exact H]. apply feed_feed'.
Qed.

Lemma chunking : forall evs0 cs cs', concat cs = concat cs' ->
  run E (serve E evs0) (map Chunk cs) = run E (serve E evs0) (map Chunk cs').
Proof.
  intros evs0 cs cs' H. rewrite !run_chunks by apply serve_inv. rewrite H. reflexivity.
Qed.
End Alive.

(* ------------------------------------------------------------------ line by line *)
Fixpoint split_lines (fuel : nat) (bs : bytes) : list bytes * bytes :=
  match fuel with
  | O => ([], bs)
  | S f => match get_msg bs with
           | None => ([], bs)
           | Some (l, rest) => let '(ls, r) := split_lines f rest in (l :: ls, r)
           end
  end.
(* the complete lines of a byte stream and the unterminated rest *)
Definition lines_of (bs : bytes) : list bytes * bytes := split_lines (S (length bs)) bs.

Lemma get_msg_none_no_eol : forall bs, get_msg bs = None -> ~ In EOL bs.
Proof.
  induction bs as [|b r IH]; simpl; intros H; [intros []|].
  destruct (b =? EOL) eqn:Eb; [discriminate|].
  destruct (get_msg r) as [[l rest]|] eqn:G; [discriminate|].
  intros [Hb|Hin]. { subst. rewrite N.eqb_refl in Eb. discriminate. } exact (IH eq_refl Hin).
Qed.

Lemma split_lines_spec : forall n bs, (length bs < n)%nat ->
  let '(ls, r) := split_lines n bs in
  bs = flat_map (fun l => l ++ [EOL]) ls ++ r /\ Forall (fun l => ~ In EOL l) ls /\ ~ In EOL r.
Proof.
  induction n as [|n IH]; intros bs Hn; [lia|]. simpl.
  destruct (get_msg bs) as [[l rest]|] eqn:G.
  - pose proof (get_msg_shorter _ _ _ G) as Hs.
    specialize (IH rest). destruct (split_lines n rest) as [ls r].
    destruct IH as [H1 [H2 H3]]; [lia|].
    split; [|split].
    + simpl. rewrite <- app_assoc. rewrite <- H1. rewrite <- app_assoc. simpl. apply get_msg_rejoin. exact G.
    + constructor; [eapply get_msg_line_no_eol; exact G|exact H2].
    + exact H3.
  - split; [reflexivity|split; [constructor|apply get_msg_none_no_eol; exact G]].
Qed.

Lemma fold_process_set_buf : forall E ls st b,
  fold_left (process E) ls (set_buf st b) = set_buf (fold_left (process E) ls st) b.
Proof.
  intros E ls. induction ls as [|l ls IH]; intros st b; simpl; [reflexivity|].
  rewrite process_set_buf. apply IH.
Qed.

Section Lines.
Hypothesis HT : crash_free_table = true.
Hypothesis HA : alias_not_help = true.
Variable E : env.
Hypothesis HEnc : forall i line, line_enc E i line.

Lemma drain_lines : forall n st, alive st = true ->
  drain n E st = let '(ls, r) := split_lines n (buf st) in set_buf (fold_left (process E) ls st) r.
Proof.
  intros n. induction n as [|n IH]; intros st Al; simpl.
  - symmetry. apply set_buf_same.
  - rewrite Al. destruct (get_msg (buf st)) as [[l rest]|] eqn:G.
    + rewrite IH; [|rewrite (process_alive HT HA E HEnc); exact Al].
      rewrite process_buf. simpl.
      destruct (split_lines n rest) as [ls r]. simpl.
      rewrite process_set_buf, fold_process_set_buf. reflexivity.
    + simpl. symmetry. apply set_buf_same.
Qed.

Lemma feed_lines : forall st b, alive st = true ->
  feed E st b = let '(ls, r) := lines_of (buf st ++ b) in set_buf (fold_left (process E) ls st) r.
Proof.
  intros st b Al. unfold feed. rewrite Al. rewrite drain_lines by exact Al. simpl buf.
  unfold lines_of. destruct (split_lines (S (length (buf st ++ b))) (buf st ++ b)) as [ls r].
  rewrite fold_process_set_buf. reflexivity.
Qed.

(* however the stream is cut into segments, the connection processes the complete lines of the stream,
   one after the other, and keeps the unterminated rest *)
Lemma serve_lines : forall evs0 cs,
  let st := serve E evs0 in
  run E st (map Chunk cs) =
  let '(ls, r) := lines_of (buf st ++ concat cs) in set_buf (fold_left (process E) ls st) r.
Proof.
  intros evs0 cs st. rewrite (run_chunks HT HA E HEnc) by apply (serve_inv HT HA E HEnc).
  apply feed_lines. apply (serve_alive HT HA E HEnc).
Qed.
End Lines.

(* ------------------------------------------------------------------ what is emitted for one line *)
Lemma process_output : forall E st line pre r c,
  answer E (nline st) line = (OReply pre r, c) -> forallb encodable (pre ++ [r]) = true ->
  output (process E st line) = output st ++ frames pre ++ [encode_frame r].
Proof.
  intros E st line pre r c H He. unfold process, output. rewrite H, (send_seq_all _ He). simpl.
  rewrite rev_app_distr, rev_involutive. unfold frames. rewrite map_app. reflexivity.
Qed.

(* a reply that can not be encoded: the messages before it are sent, the reply is not, and the exception leaves
   the request loop (what happens when json.dumps hands a lone surrogate through to str.encode) *)
Lemma process_unencodable : forall E st line pre r c,
  answer E (nline st) line = (OReply pre r, c) -> forallb encodable pre = true -> encodable r = false ->
  output (process E st line) = output st ++ frames pre /\ alive (process E st line) = false.
Proof.
  intros E st line pre r c H Hp Hr. unfold process, output. rewrite H, (send_seq_stop pre r [] Hp Hr). simpl.
  rewrite rev_app_distr, rev_involutive. split; [reflexivity|apply andb_false_r].
Qed.

(* ------------------------------------------------------------------ classification of the reply *)
Definition alias (a : str) : str := if str_eqb a IDENTREQUEST then ident_alias else a.
Definition assoc_s (k : str) (l : list (str * str)) : option str :=
  option_map snd (find (fun p => str_eqb (fst p) k) l).

Definition error_reply_of (E : env) (i : nat) (a : str) (s : option str) (r : msg) : Prop :=
  exists name, In name (map snd error_names) /\
               r = (ERRORPREFIX ++ a, s, Some (err_data name (lo_err (e_line E i)))).

Definition success_reply_of (a : str) (s : option str) (r : msg) : Prop :=
  exists h, find_handler (alias a) = Some h /\
            fst (fst r) = h_reply h /\
            snd (fst r) = spec_rule (h_rule h) (if str_eqb a IDENTREQUEST then None else s) /\
            (if str_eqb a IDENTREQUEST then h_reply h = IDENTREPLY
             else assoc_s a request2reply = Some (h_reply h)).

Definition reply_ok (E : env) (i : nat) (line : bytes) (r : msg) : Prop :=
  match next_message E line with
  | None =>
      let f := splitsp error_split_max (utf8_dec_repl (bstrip line)) in error_reply_of E i (nth 0%nat f []) (nth_error f 1%nat) r
  | Some (a, s, d) =>
      if str_eqb a HELPREQUEST then r = (HELPREPLY, None, None)
      else error_reply_of E i a s r \/ success_reply_of a s r
  end.

(* facts about the generated tables, checked by computation in Properties.C07_source_facts *)
Definition handlers_match_table : bool :=
  forallb (fun h => negb (Nat.eqb (h_arity h) 3) || Nat.eqb (h_rule h) 3 ||
                    if str_eqb (h_name h) ident_alias then str_eqb (h_reply h) IDENTREPLY
                    else match assoc_s (h_name h) request2reply with
                         | Some r => str_eqb r (h_reply h)
                         | None => false
                         end) handler_table.
Definition is_error_name (n : str) : bool := existsb (str_eqb n) (map snd error_names).
Definition names_closed : bool :=
  is_error_name decode_error_name && is_error_name generic_error_name
  && is_error_name (error_name_of_class unhandled_error_class)
  && is_error_name (error_name_of_class internal_error_class).
(* the internal name the identification request is mapped to is itself guarded: no request action can be equal to it *)
Definition alias_is_internal : bool := is_internal ident_alias.

Lemma is_error_name_in : forall n, is_error_name n = true -> In n (map snd error_names).
Proof.
  intros n H. unfold is_error_name in H. apply existsb_exists in H. destruct H as [x [Hin Hx]].
  apply str_eqb_eq in Hx. subst. exact Hin.
Qed.

Section Classify.
Hypothesis HM : handlers_match_table = true.
Hypothesis HN : names_closed = true.
Hypothesis HI : alias_is_internal = true.

Lemma names_closed_parts :
  In decode_error_name (map snd error_names) /\ In generic_error_name (map snd error_names) /\
  In (error_name_of_class unhandled_error_class) (map snd error_names) /\
  In (error_name_of_class internal_error_class) (map snd error_names).
Proof.
  unfold names_closed in HN. apply andb_true_iff in HN. destruct HN as [H123 H4].
  apply andb_true_iff in H123. destruct H123 as [H12 H3].
  apply andb_true_iff in H12. destruct H12 as [H1 H2].
  repeat split; apply is_error_name_in; assumption.
Qed.

Lemma index_name_in : forall k, In (error_name_of_index k) (map snd error_names).
Proof.
  intro k. unfold error_name_of_index.
  destruct (Nat.ltb k (length error_names)) eqn:L.
  - apply Nat.ltb_lt in L. apply in_map. apply nth_In. exact L.
  - apply Nat.ltb_ge in L. rewrite nth_overflow by exact L. simpl. apply names_closed_parts.
Qed.

Lemma err_reply_is_error : forall E i a s name, In name (map snd error_names) ->
  error_reply_of E i a s (err_reply E i a s name).
Proof. intros. exists name. split; [assumption|reflexivity]. Qed.

Lemma dispatch_classified : forall E i a s d pre r c,
  dispatch E i (a, s, d) = (OReply pre r, c) ->
  error_reply_of E i a s r \/ success_reply_of a s r.
Proof.
  intros E i a s d pre r c H. unfold dispatch in H.
  destruct names_closed_parts as [_ [Hg [Hu Hint]]].
  destruct (negb (str_eqb a IDENTREQUEST) && is_internal a) eqn:GI.
  { inversion H; subst. left. apply err_reply_is_error. exact Hint. }
  assert (Hal : (let '(a', s', d') := if str_eqb a IDENTREQUEST then (ident_alias, None, None) else (a, s, d) in
                 a' = alias a /\ s' = (if str_eqb a IDENTREQUEST then None else s))).
  { unfold alias. destruct (str_eqb a IDENTREQUEST); split; reflexivity. }
  destruct (if str_eqb a IDENTREQUEST then (ident_alias, None, None) else (a, s, d)) as [[a' s'] d'].
  destruct Hal as [Ha' Hs']. subst a' s'.
  destruct (find_handler (alias a)) as [h|] eqn:F.
  - destruct (Nat.eqb (h_arity h) 3) eqn:Ar.
    + destruct (lo_h (e_line E i)) as [data sent|k|].
      * destruct (Nat.eqb (h_rule h) 3) eqn:Ru; [discriminate|].
        inversion H; subst. right. exists h. simpl. repeat split; try assumption.
        pose proof (find_handler_some _ _ F) as [Hin Hn].
        unfold handlers_match_table in HM. rewrite forallb_forall in HM. specialize (HM _ Hin).
        rewrite Ar, Ru in HM. simpl in HM. rewrite Hn in HM.
        unfold alias in *. destruct (str_eqb a IDENTREQUEST) eqn:Ei.
        -- rewrite str_eqb_refl in HM. apply str_eqb_eq. exact HM.
        -- simpl in GI. destruct (str_eqb a ident_alias) eqn:Eal.
           ++ apply str_eqb_eq in Eal. subst a. unfold alias_is_internal in HI. rewrite HI in GI. discriminate.
           ++ destruct (assoc_s a request2reply) as [x|]; [|discriminate].
              apply str_eqb_eq in HM. subst. reflexivity.
      * inversion H; subst. left. apply err_reply_is_error. apply index_name_in.
      * inversion H; subst. left. apply err_reply_is_error. exact Hg.
    + inversion H; subst. left. apply err_reply_is_error. exact Hg.
  - inversion H; subst. left. apply err_reply_is_error. exact Hu.
Qed.

Lemma answer_classified : forall E i line pre r c,
  answer E i line = (OReply pre r, c) -> reply_ok E i line r.
Proof.
  intros E i line pre r c H. unfold answer in H. unfold reply_ok.
  destruct (next_message E line) as [[[a s] d]|].
  - destruct (str_eqb a HELPREQUEST).
    + inversion H; subst. reflexivity.
    + eapply dispatch_classified. exact H.
  - inversion H; subst. apply err_reply_is_error. apply names_closed_parts.
Qed.
End Classify.

(* ------------------------------------------------------------------ connections do not touch each other *)
Lemma nth_upd_same : forall {A} (f : A -> A) n l d, (n < length l)%nat -> nth n (upd n f l) d = f (nth n l d).
Proof.
  intros A f n. induction n as [|n IH]; intros l d H; destruct l as [|x r]; simpl in *; try lia; try reflexivity.
  apply IH. lia.
Qed.

Lemma nth_upd_other : forall {A} (f : A -> A) n k l d, n <> k -> nth k (upd n f l) d = nth k l d.
Proof.
  intros A f n. induction n as [|n IH]; intros k l d H; destruct l as [|x r]; simpl; try reflexivity.
  - destruct k; [congruence|reflexivity].
  - destruct k; [reflexivity|]. apply IH. congruence.
Qed.

Lemma upd_length : forall {A} (f : A -> A) n l, length (upd n f l) = length l.
Proof.
  intros A f n. induction n as [|n IH]; intros l; destruct l as [|x r]; simpl; try reflexivity.
  rewrite IH. reflexivity.
Qed.

Lemma sys_projection : forall Es evs S k d, (k < length S)%nat ->
  nth k (sys_run Es S evs) d =
  run (Es k) (nth k S d) (map snd (filter (fun e => Nat.eqb (fst e) k) evs)).
Proof.
  intros Es evs. unfold sys_run, run. induction evs as [|[j ev] evs IH]; intros S k d Hk; simpl; [reflexivity|].
  rewrite IH by (unfold sys_step; rewrite upd_length; exact Hk).
  unfold sys_step. simpl.
  destruct (Nat.eqb j k) eqn:Ejk.
  - apply Nat.eqb_eq in Ejk. subst j. simpl. rewrite nth_upd_same by exact Hk. reflexivity.
  - apply Nat.eqb_neq in Ejk. rewrite nth_upd_other by exact Ejk. reflexivity.
Qed.

(* ------------------------------------------------------------------ the request a line carries *)
(* action and specifier of a request line as decode_msg reads them (surrounding white space ignored, UTF-8),
   whatever the data part looks like *)
Definition request_fields (line : bytes) : option (str * option str) :=
  match utf8_dec (bstrip line) with
  | Some s => let f := splitsp decode_split_max s ++ [[]; []] in Some (nth 0%nat f [], nonempty (nth 1%nat f []))
  | None => None
  end.

Lemma decode_msg_fields : forall E line a s d,
  decode_msg E line = Some (a, s, d) -> request_fields line = Some (a, s).
Proof.
  intros E line a s d H. unfold decode_msg in H. unfold request_fields.
  destruct (utf8_dec (bstrip line)) as [u|]; [|discriminate].
  cbv zeta in *.
  destruct (nth 2%nat (splitsp decode_split_max u ++ [[]; []]) []) as [|x0 l0].
  - inversion H; subst. reflexivity.
  - destruct (e_json E (x0 :: l0)); [|discriminate]. inversion H; subst. reflexivity.
Qed.

(* ------------------------------------------------------------------ internal handler names are no requests *)
Lemma internal_rejected : forall E i a s d,
  str_eqb a IDENTREQUEST = false -> is_internal a = true ->
  dispatch E i (a, s, d) = (OReply [] (err_reply E i a s (error_name_of_class internal_error_class)), None).
Proof. intros E i a s d H1 H2. unfold dispatch. rewrite H1, H2. reflexivity. Qed.
