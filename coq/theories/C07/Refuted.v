(* C07 - witnesses of genuine defects of the pinned tree, reproduced by the model *)
From Coq Require Import List Arith NArith Bool.
Import ListNotations.
Require Import FV.Gen.C07 FV.C07.Model FV.C07.Lemmas.
Local Open Scope N_scope.

(* an oracle environment in which json.loads rejects everything and no handler is ever needed *)
Definition E0 : env := {| e_json := fun _ => None; e_line := fun _ => {| lo_h := HExc; lo_err := [34; 34] |} |}.

(* full-strength statement that fails: the error reply to ANY undecodable line names the action of the request
   and echoes its specifier (proved in Echo.v / Properties.C07_decode_error_echo_partial for lines that are ASCII
   after stripping; the leading-blank defect of the pinned tree was repaired in b6f37c1), i.e.
     forall E i line a s, next_message E line = None -> request_fields line = Some (a, s) ->
       exists pre d c, answer E i line = (OReply pre (ERRORPREFIX ++ a, s', d), c) /\ or_empty s' = or_empty s *)

(* "r\xc3\xa9ad m {bad" (action with a valid non-ASCII character, broken JSON): the error branch reads the raw line as
   latin-1, the reply names the action "rÃ©ad" *)
Definition line_latin1 : bytes := [114; 195; 169; 97; 100; 32; 109; 32; 123; 98; 97; 100].
Theorem C07_refuted_latin1_echo : exists E line a s r,
  next_message E line = None /\ request_fields line = Some (a, s) /\
  fst (answer E 0 line) = OReply [] r /\
  fst (fst r) <> ERRORPREFIX ++ a.
Proof.
  exists E0, line_latin1, [114; 233; 97; 100], (Some [109]),
    (ERRORPREFIX ++ [114; 195; 169; 97; 100], Some [109], Some (err_data decode_error_name [34; 34])).
  vm_compute. repeat split; try reflexivity; intro H; discriminate H.
Qed.
