(* C07 - executable model of the SECoP line protocol of frappy:
     frappy/protocol/interface/__init__.py   encode_msg_frame, get_msg, decode_msg
     frappy/protocol/interface/tcp.py        TCPRequestHandler.ingest / next_message / send_reply
     frappy/protocol/interface/handler.py    RequestHandler.handle (request loop), handle_help
     frappy/protocol/dispatcher.py           Dispatcher.handle_request (dispatch by handler name)
   No proofs in this file.  Constants and tables come from the generated FV.Gen.C07.
   CPython (json.loads, json.dumps, str(err)) and the bodies of the Dispatcher.handle_<x> methods are
   oracles: data supplied with each case (Run.v) or universally quantified (Lemmas.v / Properties.v). *)
From Coq Require Import List Arith NArith Bool.
Import ListNotations.
Require Import FV.Gen.C07.
Local Open Scope N_scope.

Definition bytes := list N.   (* values below 256 *)
Definition str := list N.     (* unicode code points *)

Fixpoint str_eqb (a b : list N) : bool :=
  match a, b with
  | [], [] => true
  | x :: a', y :: b' => (x =? y) && str_eqb a' b'
  | _, _ => false
  end.

Definition is_nil {A} (l : list A) : bool := match l with [] => true | _ => false end.

(* ---------------------------------------------------------------- whitespace, strip *)
(* bytes.strip(): ASCII whitespace *)
Definition is_bspace (b : N) : bool := (b =? 32) || ((9 <=? b) && (b <=? 13)).
(* str.strip(): str.isspace() characters *)
Definition is_uspace (c : N) : bool :=
  ((9 <=? c) && (c <=? 13)) || ((28 <=? c) && (c <=? 32)) || (c =? 133) || (c =? 160) || (c =? 5760)
  || ((8192 <=? c) && (c <=? 8202)) || (c =? 8232) || (c =? 8233) || (c =? 8239) || (c =? 8287) || (c =? 12288).

Fixpoint lstrip (f : N -> bool) (l : list N) : list N :=
  match l with
  | [] => []
  | x :: r => if f x then lstrip f r else l
  end.
Definition strip (f : N -> bool) (l : list N) : list N := rev (lstrip f (rev (lstrip f l))).
Definition bstrip := strip is_bspace.
Definition ustrip := strip is_uspace.

(* ---------------------------------------------------------------- UTF-8 (strict, as CPython) *)
Definition cont (b : N) : bool := (128 <=? b) && (b <=? 191).
Definition in_rng (lo hi b : N) : bool := (lo <=? b) && (b <=? hi).

(* second byte ranges of 3 and 4 byte sequences (no overlong forms, no surrogates, at most U+10FFFF) *)
Definition ok3 (b0 b1 : N) : bool :=
  if b0 =? 224 then in_rng 160 191 b1 else if b0 =? 237 then in_rng 128 159 b1 else cont b1.
Definition ok4 (b0 b1 : N) : bool :=
  if b0 =? 240 then in_rng 144 191 b1 else if b0 =? 244 then in_rng 128 143 b1 else cont b1.

Fixpoint utf8_dec (l : bytes) : option str :=
  match l with
  | [] => Some []
  | b0 :: r0 =>
    if b0 <? 128 then option_map (cons b0) (utf8_dec r0)
    else if in_rng 194 223 b0 then
      match r0 with
      | b1 :: r1 => if cont b1 then option_map (cons ((b0 - 192) * 64 + (b1 - 128))) (utf8_dec r1) else None
      | _ => None
      end
    else if in_rng 224 239 b0 then
      match r0 with
      | b1 :: b2 :: r2 =>
          if ok3 b0 b1 && cont b2
          then option_map (cons ((b0 - 224) * 4096 + (b1 - 128) * 64 + (b2 - 128))) (utf8_dec r2) else None
      | _ => None
      end
    else if in_rng 240 244 b0 then
      match r0 with
      | b1 :: b2 :: b3 :: r3 =>
          if ok4 b0 b1 && cont b2 && cont b3
          then option_map (cons ((b0 - 240) * 262144 + (b1 - 128) * 4096 + (b2 - 128) * 64 + (b3 - 128))) (utf8_dec r3)
          else None
      | _ => None
      end
    else None
  end.

(* bytes.decode('utf-8', errors='replace') as CPython does it: an ill-formed sequence is replaced by ONE U+FFFD
   per maximal prefix of a well-formed sequence (a lead byte together with the continuation bytes that are admissible
   after it), decoding resumes at the first byte that did not fit *)
Definition REPL : N := 65533.
Definition dec_one (b0 : N) (r0 : bytes) : N * bytes :=
  if b0 <? 128 then (b0, r0)
  else if in_rng 194 223 b0 then
    match r0 with
    | b1 :: r1 => if cont b1 then ((b0 - 192) * 64 + (b1 - 128), r1) else (REPL, r0)
    | [] => (REPL, r0)
    end
  else if in_rng 224 239 b0 then
    match r0 with
    | b1 :: r1 =>
        if ok3 b0 b1 then
          match r1 with
          | b2 :: r2 => if cont b2 then ((b0 - 224) * 4096 + (b1 - 128) * 64 + (b2 - 128), r2) else (REPL, r1)
          | [] => (REPL, r1)
          end
        else (REPL, r0)
    | [] => (REPL, r0)
    end
  else if in_rng 240 244 b0 then
    match r0 with
    | b1 :: r1 =>
        if ok4 b0 b1 then
          match r1 with
          | b2 :: r2 =>
              if cont b2 then
                match r2 with
                | b3 :: r3 =>
                    if cont b3
                    then ((b0 - 240) * 262144 + (b1 - 128) * 4096 + (b2 - 128) * 64 + (b3 - 128), r3)
                    else (REPL, r2)
                | [] => (REPL, r2)
                end
              else (REPL, r1)
          | [] => (REPL, r1)
          end
        else (REPL, r0)
    | [] => (REPL, r0)
    end
  else (REPL, r0).
(* every step consumes at least one byte: the length of the input is enough fuel *)
Fixpoint dec_repl_fuel (n : nat) (l : bytes) : str :=
  match n, l with
  | S n', b0 :: r0 => let '(c, rest) := dec_one b0 r0 in c :: dec_repl_fuel n' rest
  | _, _ => []
  end.
Definition utf8_dec_repl (l : bytes) : str := dec_repl_fuel (length l) l.

Definition enc1 (c : N) : bytes :=
  if c <? 128 then [c]
  else if c <? 2048 then [192 + c / 64; 128 + c mod 64]
  else if c <? 65536 then [224 + c / 4096; 128 + (c / 64) mod 64; 128 + c mod 64]
  else [240 + c / 262144; 128 + (c / 4096) mod 64; 128 + (c / 64) mod 64; 128 + c mod 64].
Definition utf8_enc (s : str) : bytes := flat_map enc1 s.

(* a code point str.encode('utf-8') accepts *)
Definition scalar (c : N) : bool := (c <? 55296) || ((57344 <=? c) && (c <? 1114112)).

(* ---------------------------------------------------------------- str.split(' ', n) *)
Fixpoint split1 (l : str) : str * option str :=
  match l with
  | [] => ([], None)
  | c :: r => if c =? 32 then ([], Some r) else let '(h, t) := split1 r in (c :: h, t)
  end.
Fixpoint splitsp (n : nat) (l : str) : list str :=
  match n with
  | O => [l]
  | S n' => match split1 l with
            | (h, None) => [h]
            | (h, Some r) => h :: splitsp n' r
            end
  end.

(* ---------------------------------------------------------------- messages *)
Definition msg := (str * option str * option str)%type.   (* action, specifier, data (JSON text) *)

Definition or_empty (o : option str) : str := match o with Some s => s | None => [] end.
Definition nonempty (s : str) : option str := match s with [] => None | _ => Some s end.

(* encode_msg_frame; the data part arrives as the text json.dumps produced.
   ' '.join(msg).strip() is frame_text; .encode('utf-8') raises UnicodeEncodeError unless every code point is a
   scalar value (a str can hold lone surrogates: json.loads makes them from the escape \ud800) - encodable;
   the bytes are encode_frame *)
Definition frame_text (m : msg) : str :=
  let '(a, s, d) := m in ustrip (a ++ [32] ++ or_empty s ++ [32] ++ or_empty d).
Definition encodable (m : msg) : bool := forallb scalar (frame_text m).
Definition encode_frame (m : msg) : bytes := utf8_enc (frame_text m) ++ [EOL].
(* None = encode_msg_frame raises *)
Definition encode_msg (m : msg) : option bytes := if encodable m then Some (encode_frame m) else None.

(* ---------------------------------------------------------------- laws of the text oracles *)
(* json.dumps with ensure_ascii=True (the default, used by encode_msg_frame) returns printable ASCII only:
   everything outside ' '..'~' is written as an escape sequence *)
Definition printable (c : N) : bool := (32 <=? c) && (c <=? 126).
(* Q: what is demanded of the characters of a data text; action and specifier are str objects made by
   bytes.decode or constants: scalar values *)
Definition sstr (s : str) : bool := forallb scalar s.
Definition sostr (o : option str) : bool := match o with Some s => sstr s | None => true end.
Definition qostr (Q : N -> bool) (o : option str) : bool := match o with Some s => forallb Q s | None => true end.
Definition qmsg (Q : N -> bool) (m : msg) : bool := let '(a, s, d) := m in sstr a && sostr s && qostr Q d.

(* get_msg: split at the first EOL *)
Fixpoint get_msg (bs : bytes) : option (bytes * bytes) :=
  match bs with
  | [] => None
  | b :: r => if b =? EOL then Some ([], r)
              else match get_msg r with Some (l, rest) => Some (b :: l, rest) | None => None end
  end.

(* ---------------------------------------------------------------- oracles *)
(* what a Dispatcher.handle_<x> method did when it was called *)
Inductive hres :=
| HOk (data : option str) (sent : list msg)  (* returned its reply tuple; data part as json.dumps text; messages it sent itself before *)
| HSecop (cls : nat)                         (* raised the SECoPError subclass number cls of Gen.error_names *)
| HExc.                                      (* raised another Exception *)

Record lorc := { lo_h : hres; lo_err : str }. (* per request line: handler behaviour, JSON text of the error message *)

Definition hres_q (Q : N -> bool) (h : hres) : bool :=
  match h with HOk d sent => qostr Q d && forallb (qmsg Q) sent | _ => true end.

Record env := {
  e_json : str -> option str;   (* json.loads: None = raised; Some c = a value, named by its canonical dump *)
  e_line : nat -> lorc;         (* oracle for the i-th request line of the connection *)
}.

(* canonical dump of the JSON value null: json.loads gives None, the same as an absent data part *)
Definition json_null : str := [110; 117; 108; 108].

(* decode_msg *)
Definition decode_msg (E : env) (line : bytes) : option msg :=
  match utf8_dec (bstrip line) with
  | None => None
  | Some s =>
      let f := splitsp decode_split_max s ++ [[]; []] in
      let a := nth 0%nat f [] in
      let sp := nth 1%nat f [] in
      let d := nth 2%nat f [] in
      match d with
      | [] => Some (a, nonempty sp, None)
      | _ => match e_json E d with
             | Some c => Some (a, nonempty sp, if str_eqb c json_null then None else Some c)
             | None => None
             end
      end
  end.

(* TCPRequestHandler.next_message on a complete line: None = DecodeError *)
Definition next_message (E : env) (line : bytes) : option msg :=
  if is_nil (bstrip line) then Some (HELPREQUEST, None, None) else decode_msg E line.

(* ---------------------------------------------------------------- dispatch *)
Definition handler := (str * nat * str * nat)%type.
Definition h_name (h : handler) : str := fst (fst (fst h)).
Definition h_arity (h : handler) : nat := snd (fst (fst h)).
Definition h_reply (h : handler) : str := snd (fst h).
Definition h_rule (h : handler) : nat := snd h.

Definition find_handler (name : str) : option handler :=
  find (fun h => str_eqb (h_name h) name) handler_table.

Definition spec_rule (rule : nat) (s : option str) : option str :=
  match rule with
  | 1%nat => s
  | 2%nat => match s with Some (c :: r) => Some (c :: r) | _ => Some [46] end
  | _ => None
  end.

Definition error_name_of_class (cls : str) : str :=
  match find (fun p => str_eqb (fst p) cls) error_names with Some p => snd p | None => generic_error_name end.
Definition error_name_of_index (i : nat) : str := snd (nth i error_names ([], generic_error_name)).

(* json.dumps([name, text, {}]) *)
Definition err_data (name text : str) : str := [91; 34] ++ name ++ [34; 44; 32] ++ text ++ [44; 32; 123; 125; 93].

Definition help_frames_msgs : list msg :=
  map (fun t => (fst (fst t), Some (snd (fst t)), Some (snd t))) help_msgs.

Definition call := (nat * str * option str * option str)%type.  (* request line number, handler name, specifier, data *)

Inductive outcome :=
| OReply (pre : list msg) (reply : msg)   (* messages sent before the reply, the reply *)
| OCrash (pre : list msg).                (* an exception leaves RequestHandler.handle *)

Definition err_reply (E : env) (i : nat) (a : str) (s : option str) (name : str) : msg :=
  (ERRORPREFIX ++ a, s, Some (err_data name (lo_err (e_line E i)))).

(* Dispatcher.handle_request + the try/except around it in RequestHandler.handle *)
Fixpoint prefixb (p l : str) : bool :=
  match p, l with
  | [], _ => true
  | x :: p', y :: l' => (x =? y) && prefixb p' l'
  | _, _ => false
  end.
(* actions that must not reach an internal handler (since bfc762a): action.startswith('_') or action == 'request' *)
Definition is_internal (a : str) : bool := prefixb internal_prefix a || existsb (str_eqb a) internal_names.

Definition dispatch (E : env) (i : nat) (m : msg) : outcome * option call :=
  let '(a, s, d) := m in
  if negb (str_eqb a IDENTREQUEST) && is_internal a
  then (OReply [] (err_reply E i a s (error_name_of_class internal_error_class)), None)
  else
  let '(a', s', d') := if str_eqb a IDENTREQUEST then (ident_alias, None, None) else (a, s, d) in
  match find_handler a' with
  | None => (OReply [] (err_reply E i a s (error_name_of_class unhandled_error_class)), None)
  | Some h =>
      if Nat.eqb (h_arity h) 3%nat then
        let c := Some (i, h_name h, s', d') in
        match lo_h (e_line E i) with
        | HOk data sent =>
            if Nat.eqb (h_rule h) 3%nat then (OCrash sent, c)     (* handler without return: result is None *)
            else (OReply sent (h_reply h, spec_rule (h_rule h) s', data), c)
        | HSecop k => (OReply [] (err_reply E i a s (error_name_of_index k)), c)
        | HExc => (OReply [] (err_reply E i a s generic_error_name), c)
        end
      else (OReply [] (err_reply E i a s generic_error_name), None)   (* TypeError: wrong number of arguments *)
  end.

(* one turn of the inner loop of RequestHandler.handle for a complete line *)
Definition answer (E : env) (i : nat) (line : bytes) : outcome * option call :=
  match next_message E line with
  | None =>
      (* raw_msg.strip().decode('utf-8', errors='replace').split(' ', 3) *)
      let f := splitsp error_split_max (utf8_dec_repl (bstrip line)) in
      (OReply [] (err_reply E i (nth 0%nat f []) (nth_error f 1%nat) decode_error_name), None)
  | Some (a, s, d) =>
      if str_eqb a HELPREQUEST then (OReply help_frames_msgs (HELPREPLY, None, None), None)
      else dispatch E i (a, s, d)
  end.

(* ---------------------------------------------------------------- connection state, request loop *)
Record conn := {
  buf : bytes;           (* self.data *)
  nline : nat;           (* request lines consumed so far *)
  out : list bytes;      (* frames handed to sendall, newest first *)
  calls : list call;     (* handler invocations, newest first *)
  alive : bool;          (* handle() has not been left by an exception *)
}.

Definition conn0 : conn := {| buf := []; nline := 0%nat; out := []; calls := []; alive := true |}.

Definition set_buf (st : conn) (b : bytes) : conn :=
  {| buf := b; nline := nline st; out := out st; calls := calls st; alive := alive st |}.

Definition add_call (c : option call) (l : list call) : list call :=
  match c with Some x => x :: l | None => l end.

Definition frames (ms : list msg) : list bytes := map encode_frame ms.

(* send_reply for a sequence of messages: one frame per message handed to sendall, until a message can not be
   encoded - the UnicodeEncodeError raised by encode_msg_frame in send_reply is not caught by RequestHandler.handle;
   result: the frames sent, and whether all messages were sent *)
Fixpoint send_seq (ms : list msg) : list bytes * bool :=
  match ms with
  | [] => ([], true)
  | m :: r => if encodable m then let '(fs, ok) := send_seq r in (encode_frame m :: fs, ok) else ([], false)
  end.

Definition process (E : env) (st : conn) (line : bytes) : conn :=
  let '(o, c) := answer E (nline st) line in
  match o with
  | OReply pre r =>
      let '(fs, ok) := send_seq (pre ++ [r]) in
      {| buf := buf st; nline := S (nline st); out := rev fs ++ out st;
         calls := add_call c (calls st); alive := alive st && ok |}
  | OCrash pre =>
      {| buf := buf st; nline := S (nline st); out := rev (fst (send_seq pre)) ++ out st;
         calls := add_call c (calls st); alive := false |}
  end.

(* the inner `while self.running` loop: next_message until the buffer holds no complete line *)
Fixpoint drain (fuel : nat) (E : env) (st : conn) : conn :=
  match fuel with
  | O => st
  | S f =>
      if alive st then
        match get_msg (buf st) with
        | None => st
        | Some (line, rest) => drain f E (process E (set_buf st rest) line)
        end
      else st
  end.

(* one turn of the outer loop: receive a segment, ingest, drain *)
Definition feed (E : env) (st : conn) (chunk : bytes) : conn :=
  if alive st then
    let st1 := set_buf st (buf st ++ chunk) in
    drain (S (length (buf st1))) E st1
  else st.

(* what happens to a connection: its thread receives a segment, or another thread (a parameter update
   triggered elsewhere, a log message) sends a message through send_reply, serialised by send_lock *)
Inductive event := Chunk (b : bytes) | Async (m : msg).

(* a message of another thread that can not be encoded raises in that thread: nothing is sent here *)
Definition push (st : conn) (m : msg) : conn :=
  if alive st && encodable m then
    {| buf := buf st; nline := nline st; out := encode_frame m :: out st; calls := calls st; alive := alive st |}
  else st.

Definition step (E : env) (st : conn) (ev : event) : conn :=
  match ev with
  | Chunk b => feed E st b
  | Async m => push st m
  end.

Definition run (E : env) (st : conn) (evs : list event) : conn := fold_left (step E) evs st.
Definition serve (E : env) (evs : list event) : conn := run E conn0 evs.

Definition output (st : conn) : list bytes := rev (out st).

(* ---------------------------------------------------------------- several connections of one server *)
(* every connection has its own handler object (buffer, send lock, socket); an event is addressed to one of them;
   Es k stands for what the shared dispatcher answered to the requests of connection k *)
Fixpoint upd {A} (n : nat) (f : A -> A) (l : list A) : list A :=
  match l, n with
  | [], _ => []
  | x :: r, O => f x :: r
  | x :: r, S n' => x :: upd n' f r
  end.

Definition sys_step (Es : nat -> env) (S : list conn) (e : nat * event) : list conn :=
  upd (fst e) (fun st => step (Es (fst e)) st (snd e)) S.
Definition sys_run (Es : nat -> env) (S : list conn) (evs : list (nat * event)) : list conn :=
  fold_left (sys_step Es) evs S.
