(* C07 - UTF-8 lemmas: encoding then decoding is the identity on scalar values, decoded text consists of scalar
   values, the newline byte appears in an encoding only for the newline character *)
From Coq Require Import List Arith NArith Bool Lia.
Import ListNotations.
Require Import FV.Gen.C07 FV.C07.Model.
Local Open Scope N_scope.

Ltac bool_to_prop :=
  repeat match goal with
  | H : _ && _ = true |- _ => apply andb_true_iff in H; destruct H
  | H : _ || _ = true |- _ => apply orb_true_iff in H
  | H : (_ <? _) = true |- _ => apply N.ltb_lt in H
  | H : (_ <? _) = false |- _ => apply N.ltb_ge in H
  | H : (_ <=? _) = true |- _ => apply N.leb_le in H
  | H : (_ <=? _) = false |- _ => apply N.leb_gt in H
  | H : (_ =? _) = true |- _ => apply N.eqb_eq in H
  | H : (_ =? _) = false |- _ => apply N.eqb_neq in H
  end.

Lemma ltb_true : forall a b, a < b -> (a <? b) = true. Proof. intros; apply N.ltb_lt; assumption. Qed.
Lemma ltb_false : forall a b, b <= a -> (a <? b) = false. Proof. intros; apply N.ltb_ge; assumption. Qed.
Lemma leb_true : forall a b, a <= b -> (a <=? b) = true. Proof. intros; apply N.leb_le; assumption. Qed.
Lemma leb_false : forall a b, b < a -> (a <=? b) = false. Proof. intros; apply N.leb_gt; assumption. Qed.
Lemma eqb_true : forall a b, a = b -> (a =? b) = true. Proof. intros; apply N.eqb_eq; assumption. Qed.
Lemma eqb_false : forall a b, a <> b -> (a =? b) = false. Proof. intros; apply N.eqb_neq; assumption. Qed.

Lemma dec1 : forall b0 r, b0 < 128 -> utf8_dec (b0 :: r) = option_map (cons b0) (utf8_dec r).
Proof. intros. cbn [utf8_dec]. rewrite ltb_true by assumption. reflexivity. Qed.

Lemma dec2 : forall b0 b1 r, 194 <= b0 -> b0 <= 223 -> 128 <= b1 -> b1 <= 191 ->
  utf8_dec (b0 :: b1 :: r) = option_map (cons ((b0 - 192) * 64 + (b1 - 128))) (utf8_dec r).
Proof.
  intros. cbn [utf8_dec]. unfold in_rng, cont.
  rewrite (ltb_false b0 128) by lia.
  rewrite (leb_true 194 b0), (leb_true b0 223), (leb_true 128 b1), (leb_true b1 191) by lia. reflexivity.
Qed.

Lemma dec3 : forall b0 b1 b2 r, 224 <= b0 -> b0 <= 239 -> ok3 b0 b1 = true -> 128 <= b2 -> b2 <= 191 ->
  utf8_dec (b0 :: b1 :: b2 :: r) =
  option_map (cons ((b0 - 224) * 4096 + (b1 - 128) * 64 + (b2 - 128))) (utf8_dec r).
Proof.
  intros b0 b1 b2 r H1 H2 H3 H4 H5. cbn [utf8_dec]. unfold in_rng, cont. rewrite H3.
  rewrite (ltb_false b0 128) by lia.
  rewrite (leb_false b0 223) by lia. rewrite andb_false_r.
  rewrite (leb_true 224 b0), (leb_true b0 239), (leb_true 128 b2), (leb_true b2 191) by lia. reflexivity.
Qed.

Lemma dec4 : forall b0 b1 b2 b3 r, 240 <= b0 -> b0 <= 244 -> ok4 b0 b1 = true ->
  128 <= b2 -> b2 <= 191 -> 128 <= b3 -> b3 <= 191 ->
  utf8_dec (b0 :: b1 :: b2 :: b3 :: r) =
  option_map (cons ((b0 - 240) * 262144 + (b1 - 128) * 4096 + (b2 - 128) * 64 + (b3 - 128))) (utf8_dec r).
Proof.
  intros b0 b1 b2 b3 r H1 H2 H3 H4 H5 H6 H7. cbn [utf8_dec]. unfold in_rng, cont. rewrite H3.
  rewrite (ltb_false b0 128) by lia.
  rewrite (leb_false b0 223) by lia. rewrite andb_false_r.
  rewrite (leb_false b0 239) by lia. rewrite andb_false_r.
  rewrite (leb_true 240 b0), (leb_true b0 244), (leb_true 128 b2), (leb_true b2 191),
          (leb_true 128 b3), (leb_true b3 191) by lia. reflexivity.
Qed.

Lemma dec_enc1 : forall c r, scalar c = true -> utf8_dec (enc1 c ++ r) = option_map (cons c) (utf8_dec r).
Proof.
  intros c r Hs. unfold scalar in Hs. unfold enc1.
  destruct (c <? 128) eqn:C1.
  - bool_to_prop. cbn [app]. apply dec1. assumption.
  - destruct (c <? 2048) eqn:C2.
    + bool_to_prop. cbn [app].
      assert (D : c = 64 * (c / 64) + c mod 64) by (apply N.div_mod; lia).
      assert (M : c mod 64 < 64) by (apply N.mod_lt; lia).
      assert (Q : c / 64 < 32) by (apply N.div_lt_upper_bound; lia).
      assert (Q2 : 2 <= c / 64) by (apply N.div_le_lower_bound; lia).
      set (q := c / 64) in *. set (m0 := c mod 64) in *. clearbody q m0.
      rewrite dec2 by lia.
      replace ((192 + q - 192) * 64 + (128 + m0 - 128)) with c by lia. reflexivity.
    + destruct (c <? 65536) eqn:C3.
      * bool_to_prop. cbn [app].
        assert (D : c = 64 * (c / 64) + c mod 64) by (apply N.div_mod; lia).
        assert (M : c mod 64 < 64) by (apply N.mod_lt; lia).
        assert (D2 : c / 64 = 64 * (c / 64 / 64) + (c / 64) mod 64) by (apply N.div_mod; lia).
        assert (M2 : (c / 64) mod 64 < 64) by (apply N.mod_lt; lia).
        assert (E4096 : c / 4096 = c / 64 / 64) by (rewrite N.div_div by lia; reflexivity).
        assert (Q : c / 4096 < 16) by (apply N.div_lt_upper_bound; lia).
        set (q := c / 4096) in *. set (m1 := (c / 64) mod 64) in *. set (m0 := c mod 64) in *.
        set (q1 := c / 64) in *. set (q2 := q1 / 64) in *. clearbody q m1 m0 q1 q2.
        assert (Hc : c = 4096 * q + 64 * m1 + m0) by lia.
        assert (OK : ok3 (224 + q) (128 + m1) = true).
        { unfold ok3, in_rng, cont. destruct (224 + q =? 224) eqn:Q0; bool_to_prop.
          - rewrite (leb_true 160 (128 + m1)), (leb_true (128 + m1) 191) by lia. reflexivity.
          - destruct (224 + q =? 237) eqn:Q13; bool_to_prop.
            + destruct Hs as [Hs|Hs]; bool_to_prop.
              * rewrite (leb_true 128 (128 + m1)), (leb_true (128 + m1) 159) by lia. reflexivity.
              * lia.
            + rewrite (leb_true 128 (128 + m1)), (leb_true (128 + m1) 191) by lia. reflexivity. }
        rewrite dec3 by (try exact OK; lia).
        replace ((224 + q - 224) * 4096 + (128 + m1 - 128) * 64 + (128 + m0 - 128)) with c by lia. reflexivity.
      * bool_to_prop. destruct Hs as [Hs|Hs]; bool_to_prop; [lia|].
        cbn [app].
        assert (D : c = 64 * (c / 64) + c mod 64) by (apply N.div_mod; lia).
        assert (M : c mod 64 < 64) by (apply N.mod_lt; lia).
        assert (D2 : c / 64 = 64 * (c / 64 / 64) + (c / 64) mod 64) by (apply N.div_mod; lia).
        assert (M2 : (c / 64) mod 64 < 64) by (apply N.mod_lt; lia).
        assert (E4096 : c / 4096 = c / 64 / 64) by (rewrite N.div_div by lia; reflexivity).
        assert (D3 : c / 4096 = 64 * (c / 4096 / 64) + (c / 4096) mod 64) by (apply N.div_mod; lia).
        assert (M3 : (c / 4096) mod 64 < 64) by (apply N.mod_lt; lia).
        assert (E262144 : c / 262144 = c / 4096 / 64) by (rewrite N.div_div by lia; reflexivity).
        assert (Q : c / 262144 < 5) by (apply N.div_lt_upper_bound; lia).
        set (q := c / 262144) in *. set (m2 := (c / 4096) mod 64) in *.
        set (m1 := (c / 64) mod 64) in *. set (m0 := c mod 64) in *.
        set (q1 := c / 64) in *. set (q2 := q1 / 64) in *. set (q3 := c / 4096) in *. set (q4 := q3 / 64) in *.
        clearbody q m2 m1 m0 q1 q2 q3 q4.
        assert (Hc : c = 262144 * q + 4096 * m2 + 64 * m1 + m0) by lia.
        assert (OK : ok4 (240 + q) (128 + m2) = true).
        { unfold ok4, in_rng, cont. destruct (240 + q =? 240) eqn:Q0; bool_to_prop.
          - rewrite (leb_true 144 (128 + m2)), (leb_true (128 + m2) 191) by lia. reflexivity.
          - destruct (240 + q =? 244) eqn:Q4; bool_to_prop.
            + rewrite (leb_true 128 (128 + m2)), (leb_true (128 + m2) 143) by lia. reflexivity.
            + rewrite (leb_true 128 (128 + m2)), (leb_true (128 + m2) 191) by lia. reflexivity. }
        rewrite dec4 by (try exact OK; lia).
        replace ((240 + q - 240) * 262144 + (128 + m2 - 128) * 4096 + (128 + m1 - 128) * 64 + (128 + m0 - 128))
          with c by lia. reflexivity.
Qed.

Lemma utf8_roundtrip : forall s, forallb scalar s = true -> utf8_dec (utf8_enc s) = Some s.
Proof.
  induction s as [|c s IH]; intro H; [reflexivity|].
  simpl in H. apply andb_true_iff in H. destruct H as [Hc Hs].
  unfold utf8_enc. cbn [flat_map]. rewrite dec_enc1 by exact Hc.
  fold (utf8_enc s). rewrite IH by exact Hs. reflexivity.
Qed.

Lemma le128_add : forall k x, 128 <= k -> 128 <= k + x.
Proof. intros k x H. apply N.le_trans with k; [exact H|apply N.le_add_r]. Qed.

Lemma enc1_high : forall c b, In b (enc1 c) -> b = c /\ c < 128 \/ 128 <= b.
Proof.
  intros c b H. unfold enc1 in H.
  destruct (c <? 128) eqn:C1.
  - bool_to_prop. destruct H as [H|[]]. left. subst. split; [reflexivity|assumption].
  - right. destruct (c <? 2048); [|destruct (c <? 65536)]; cbn [In] in H;
    repeat (destruct H as [H|H]; [rewrite <- H; apply le128_add; lia|]); destruct H.
Qed.

Lemma utf8_enc_no_eol : forall s, ~ In 10 s -> ~ In 10 (utf8_enc s).
Proof.
  intros s H Hin. unfold utf8_enc in Hin. apply in_flat_map in Hin. destruct Hin as [c [Hc Hb]].
  apply enc1_high in Hb. destruct Hb as [[Hb _]|Hb]; [subst; contradiction|lia].
Qed.

Lemma option_map_cons_some : forall (x : N) o s, option_map (cons x) o = Some s -> exists s', o = Some s' /\ s = x :: s'.
Proof. intros x o s H. destruct o as [s'|]; [|discriminate]. inversion H. eauto. Qed.

(* decoded text: only scalar values; a newline character only from a newline byte *)
Lemma utf8_dec_inv : forall n l s, (length l <= n)%nat -> utf8_dec l = Some s ->
  forallb scalar s = true /\ (~ In 10 l -> ~ In 10 s).
Proof.
  induction n as [|n IH]; intros l s Hn H.
  - destruct l; [|simpl in Hn; lia]. inversion H. split; [reflexivity|auto].
  - destruct l as [|b0 r0]; [inversion H; split; [reflexivity|auto]|].
    cbn [utf8_dec] in H. unfold in_rng, cont in H.
    destruct (b0 <? 128) eqn:C1.
    { apply option_map_cons_some in H. destruct H as [s' [H1 H2]]. subst s.
      destruct (IH r0 s') as [A B]; [simpl in Hn; lia|exact H1|].
      bool_to_prop. split.
      - simpl. rewrite A. unfold scalar. rewrite (ltb_true b0 55296) by lia. reflexivity.
      - intros Hni [Hx|Hx]; [apply Hni; left; exact Hx|]. apply B; [|exact Hx]. intro. apply Hni. right. assumption. }
    destruct ((194 <=? b0) && (b0 <=? 223)) eqn:C2.
    { destruct r0 as [|b1 r1]; [discriminate|].
      destruct ((128 <=? b1) && (b1 <=? 191)) eqn:K1; [|discriminate].
      apply option_map_cons_some in H. destruct H as [s' [H1 H2]]. subst s.
      destruct (IH r1 s') as [A B]; [simpl in Hn; lia|exact H1|].
      bool_to_prop. split.
      - simpl. rewrite A. unfold scalar. rewrite ltb_true by lia. reflexivity.
      - intros Hni [Hx|Hx]; [lia|]. apply B; [|exact Hx]. intro. apply Hni. right. right. assumption. }
    destruct ((224 <=? b0) && (b0 <=? 239)) eqn:C3.
    { destruct r0 as [|b1 [|b2 r2]]; try discriminate.
      destruct (ok3 b0 b1 && ((128 <=? b2) && (b2 <=? 191))) eqn:K1; [|discriminate].
      apply option_map_cons_some in H. destruct H as [s' [H1 H2]]. subst s.
      destruct (IH r2 s') as [A B]; [simpl in Hn; lia|exact H1|].
      apply andb_true_iff in K1. destruct K1 as [K1 K2]. unfold ok3, in_rng, cont in K1.
      bool_to_prop.
      assert (Hcp : (b0 - 224) * 4096 + (b1 - 128) * 64 + (b2 - 128) < 55296 \/
                    57344 <= (b0 - 224) * 4096 + (b1 - 128) * 64 + (b2 - 128) < 65536 /\ 128 <= b1).
      { destruct (b0 =? 224) eqn:Q0; bool_to_prop; [lia|].
        destruct (b0 =? 237) eqn:Q1; bool_to_prop; lia. }
      assert (Hlo : 128 <= (b0 - 224) * 4096 + (b1 - 128) * 64 + (b2 - 128)).
      { destruct (b0 =? 224) eqn:Q0; bool_to_prop; [lia|].
        destruct (b0 =? 237) eqn:Q1; bool_to_prop; lia. }
      split.
      - simpl. rewrite A. unfold scalar.
        destruct Hcp as [Hcp|[[Hcp1 Hcp2] _]].
        + rewrite ltb_true by exact Hcp. reflexivity.
        + rewrite (leb_true 57344) by exact Hcp1. rewrite (ltb_true _ 1114112) by lia. rewrite orb_true_r. reflexivity.
      - intros Hni [Hx|Hx]; [lia|]. apply B; [|exact Hx]. intro. apply Hni. right. right. right. assumption. }
    destruct ((240 <=? b0) && (b0 <=? 244)) eqn:C4; [|discriminate].
    destruct r0 as [|b1 [|b2 [|b3 r3]]]; try discriminate.
    destruct (ok4 b0 b1 && ((128 <=? b2) && (b2 <=? 191)) && ((128 <=? b3) && (b3 <=? 191))) eqn:K1; [|discriminate].
    apply option_map_cons_some in H. destruct H as [s' [H1 H2]]. subst s.
    destruct (IH r3 s') as [A B]; [simpl in Hn; lia|exact H1|].
    apply andb_true_iff in K1. destruct K1 as [K1 K3]. apply andb_true_iff in K1. destruct K1 as [K1 K2].
    unfold ok4, in_rng, cont in K1. bool_to_prop.
    assert (Hcp : 65536 <= (b0 - 240) * 262144 + (b1 - 128) * 4096 + (b2 - 128) * 64 + (b3 - 128) < 1114112).
    { destruct (b0 =? 240) eqn:Q0; bool_to_prop; [lia|].
      destruct (b0 =? 244) eqn:Q1; bool_to_prop; lia. }
    split.
    + simpl. rewrite A. unfold scalar. destruct Hcp as [Hcp1 Hcp2].
      rewrite (leb_true 57344) by lia. rewrite (ltb_true _ 1114112) by exact Hcp2. rewrite orb_true_r. reflexivity.
    + intros Hni [Hx|Hx]; [lia|]. apply B; [|exact Hx]. intro. apply Hni. right. right. right. right. assumption.
Qed.

Lemma utf8_dec_scalar : forall l s, utf8_dec l = Some s -> forallb scalar s = true.
Proof. intros l s H. eapply (utf8_dec_inv (length l)); [apply Nat.le_refl|exact H]. Qed.

Lemma utf8_dec_no_eol : forall l s, utf8_dec l = Some s -> ~ In 10 l -> ~ In 10 s.
Proof. intros l s H. eapply (utf8_dec_inv (length l)); [apply Nat.le_refl|exact H]. Qed.
