(* C07 - lemmas about bytes.decode('utf-8', errors='replace') (Model.dec_one / utf8_dec_repl):
   - on well-formed UTF-8 it is the strict decoder,
   - what it produces is encodable text (scalar values), a newline only from a newline byte,
   - it commutes with cutting the bytes at a blank (0x20), so the fields of the replaced text are the replaced
     fields of the bytes. *)
From Coq Require Import List Arith NArith Bool Lia.
Import ListNotations.
Require Import FV.Gen.C07 FV.C07.Model FV.C07.Utf8.
Local Open Scope N_scope.

(* ------------------------------------------------------------------ one step *)
(* the rest is a proper suffix of the input *)
Lemma dec_one_suffix : forall b0 r0 c rest, dec_one b0 r0 = (c, rest) -> exists p, r0 = p ++ rest.
Proof.
  intros b0 r0 c rest H. unfold dec_one in H.
  destruct (b0 <? 128); [inversion H; exists []; reflexivity|].
  destruct (in_rng 194 223 b0).
  { destruct r0 as [|b1 r1]; [inversion H; exists []; reflexivity|].
    destruct (cont b1); inversion H; [exists [b1]|exists []]; reflexivity. }
  destruct (in_rng 224 239 b0).
  { destruct r0 as [|b1 r1]; [inversion H; exists []; reflexivity|].
    destruct (ok3 b0 b1); [|inversion H; exists []; reflexivity].
    destruct r1 as [|b2 r2]; [inversion H; exists [b1]; reflexivity|].
    destruct (cont b2); inversion H; [exists [b1; b2]|exists [b1]]; reflexivity. }
  destruct (in_rng 240 244 b0).
  { destruct r0 as [|b1 r1]; [inversion H; exists []; reflexivity|].
    destruct (ok4 b0 b1); [|inversion H; exists []; reflexivity].
    destruct r1 as [|b2 r2]; [inversion H; exists [b1]; reflexivity|].
    destruct (cont b2); [|inversion H; exists [b1]; reflexivity].
    destruct r2 as [|b3 r3]; [inversion H; exists [b1; b2]; reflexivity|].
    destruct (cont b3); inversion H; [exists [b1; b2; b3]|exists [b1; b2]]; reflexivity. }
  inversion H; exists []; reflexivity.
Qed.

Lemma dec_one_length : forall b0 r0 c rest, dec_one b0 r0 = (c, rest) -> (length rest <= length r0)%nat.
Proof.
  intros b0 r0 c rest H. destruct (dec_one_suffix _ _ _ _ H) as [p ->]. rewrite app_length. lia.
Qed.

Lemma scalar_repl : scalar REPL = true. Proof. reflexivity. Qed.

(* the code point is a scalar value; it is the newline character only if the first byte is the newline byte *)
Lemma dec_one_scalar : forall b0 r0 c rest, dec_one b0 r0 = (c, rest) ->
  scalar c = true /\ (c = 10 -> b0 = 10).
Proof.
  intros b0 r0 c rest H. unfold dec_one in H. unfold in_rng, cont in H.
  assert (R : scalar REPL = true /\ (REPL = 10 -> b0 = 10)) by (split; [reflexivity|discriminate]).
  destruct (b0 <? 128) eqn:C1.
  { inversion H; subst. bool_to_prop. split; [|auto]. unfold scalar. rewrite (ltb_true c 55296) by lia. reflexivity. }
  destruct ((194 <=? b0) && (b0 <=? 223)) eqn:C2.
  { destruct r0 as [|b1 r1]; [inversion H; subst; exact R|].
    destruct ((128 <=? b1) && (b1 <=? 191)) eqn:K1; [|inversion H; subst; exact R].
    inversion H; subst. bool_to_prop. split; [|lia]. unfold scalar. rewrite ltb_true by lia. reflexivity. }
  destruct ((224 <=? b0) && (b0 <=? 239)) eqn:C3.
  { destruct r0 as [|b1 r1]; [inversion H; subst; exact R|].
    destruct (ok3 b0 b1) eqn:K1; [|inversion H; subst; exact R].
    destruct r1 as [|b2 r2]; [inversion H; subst; exact R|].
    destruct ((128 <=? b2) && (b2 <=? 191)) eqn:K2; [|inversion H; subst; exact R].
    inversion H; subst. unfold ok3, in_rng, cont in K1. bool_to_prop.
    assert (Hcp : (b0 - 224) * 4096 + (b1 - 128) * 64 + (b2 - 128) < 55296 \/
                  57344 <= (b0 - 224) * 4096 + (b1 - 128) * 64 + (b2 - 128) < 65536).
    { destruct (b0 =? 224) eqn:Q0; bool_to_prop; [lia|].
      destruct (b0 =? 237) eqn:Q1; bool_to_prop; lia. }
    assert (Hlo : 128 <= (b0 - 224) * 4096 + (b1 - 128) * 64 + (b2 - 128)).
    { destruct (b0 =? 224) eqn:Q0; bool_to_prop; [lia|].
      destruct (b0 =? 237) eqn:Q1; bool_to_prop; lia. }
    split; [|lia]. unfold scalar. destruct Hcp as [Hcp|[Hcp1 Hcp2]].
    - rewrite ltb_true by exact Hcp. reflexivity.
    - rewrite (leb_true 57344) by exact Hcp1. rewrite (ltb_true _ 1114112) by lia. rewrite orb_true_r. reflexivity. }
  destruct ((240 <=? b0) && (b0 <=? 244)) eqn:C4; [|inversion H; subst; exact R].
  destruct r0 as [|b1 r1]; [inversion H; subst; exact R|].
  destruct (ok4 b0 b1) eqn:K1; [|inversion H; subst; exact R].
  destruct r1 as [|b2 r2]; [inversion H; subst; exact R|].
  destruct ((128 <=? b2) && (b2 <=? 191)) eqn:K2; [|inversion H; subst; exact R].
  destruct r2 as [|b3 r3]; [inversion H; subst; exact R|].
  destruct ((128 <=? b3) && (b3 <=? 191)) eqn:K3; [|inversion H; subst; exact R].
  inversion H; subst. unfold ok4, in_rng, cont in K1. bool_to_prop.
  assert (Hcp : 65536 <= (b0 - 240) * 262144 + (b1 - 128) * 4096 + (b2 - 128) * 64 + (b3 - 128) < 1114112).
  { destruct (b0 =? 240) eqn:Q0; bool_to_prop; [lia|].
    destruct (b0 =? 244) eqn:Q1; bool_to_prop; lia. }
  split; [|lia]. unfold scalar. destruct Hcp as [Hcp1 Hcp2].
  rewrite (leb_true 57344) by lia. rewrite (ltb_true _ 1114112) by exact Hcp2. rewrite orb_true_r. reflexivity.
Qed.

(* on a well-formed sequence the step is the step of the strict decoder *)
Lemma dec_one_strict : forall b0 r0 s, utf8_dec (b0 :: r0) = Some s ->
  exists s', s = fst (dec_one b0 r0) :: s' /\ utf8_dec (snd (dec_one b0 r0)) = Some s'.
Proof.
  intros b0 r0 s H. cbn [utf8_dec] in H. unfold dec_one.
  destruct (b0 <? 128).
  { apply option_map_cons_some in H. destruct H as [s' [H1 H2]]. exists s'. split; assumption. }
  destruct (in_rng 194 223 b0).
  { destruct r0 as [|b1 r1]; [discriminate|]. destruct (cont b1); [|discriminate].
    apply option_map_cons_some in H. destruct H as [s' [H1 H2]]. exists s'. split; assumption. }
  destruct (in_rng 224 239 b0).
  { destruct r0 as [|b1 [|b2 r2]]; try discriminate.
    destruct (ok3 b0 b1); [|discriminate]. destruct (cont b2); [|discriminate]. cbn [andb] in H.
    apply option_map_cons_some in H. destruct H as [s' [H1 H2]]. exists s'. split; assumption. }
  destruct (in_rng 240 244 b0); [|discriminate].
  destruct r0 as [|b1 [|b2 [|b3 r3]]]; try discriminate.
  destruct (ok4 b0 b1); [|discriminate]. destruct (cont b2); [|discriminate]. destruct (cont b3); [|discriminate].
  cbn [andb] in H.
  apply option_map_cons_some in H. destruct H as [s' [H1 H2]]. exists s'. split; assumption.
Qed.

(* a blank is never part of a multi-byte sequence: the step does not look beyond it *)
Lemma cont_blank : cont 32 = false. Proof. reflexivity. Qed.
Lemma ok3_blank : forall b0, ok3 b0 32 = false.
Proof. intro b0. unfold ok3. destruct (b0 =? 224); [reflexivity|]. destruct (b0 =? 237); reflexivity. Qed.
Lemma ok4_blank : forall b0, ok4 b0 32 = false.
Proof. intro b0. unfold ok4. destruct (b0 =? 240); [reflexivity|]. destruct (b0 =? 244); reflexivity. Qed.

Lemma dec_one_blank : forall b0 a r,
  dec_one b0 (a ++ 32 :: r) = (fst (dec_one b0 a), snd (dec_one b0 a) ++ 32 :: r).
Proof.
  intros b0 a r. unfold dec_one.
  destruct (b0 <? 128); [reflexivity|].
  destruct (in_rng 194 223 b0).
  { destruct a as [|b1 a1]; cbn [app]; [rewrite cont_blank; reflexivity|]. destruct (cont b1); reflexivity. }
  destruct (in_rng 224 239 b0).
  { destruct a as [|b1 a1]; cbn [app]; [rewrite ok3_blank; reflexivity|].
    destruct (ok3 b0 b1); [|reflexivity].
    destruct a1 as [|b2 a2]; cbn [app]; [rewrite cont_blank; reflexivity|]. destruct (cont b2); reflexivity. }
  destruct (in_rng 240 244 b0); [|reflexivity].
  destruct a as [|b1 a1]; cbn [app]; [rewrite ok4_blank; reflexivity|].
  destruct (ok4 b0 b1); [|reflexivity].
  destruct a1 as [|b2 a2]; cbn [app]; [rewrite cont_blank; reflexivity|].
  destruct (cont b2); [|reflexivity].
  destruct a2 as [|b3 a3]; cbn [app]; [rewrite cont_blank; reflexivity|]. destruct (cont b3); reflexivity.
Qed.

(* ------------------------------------------------------------------ the loop *)
(* more fuel than bytes changes nothing *)
Lemma fuel_enough : forall n m l, (length l <= n)%nat -> (length l <= m)%nat -> dec_repl_fuel n l = dec_repl_fuel m l.
Proof.
  induction n as [|n IH]; intros m l Hn Hm.
  - destruct l; [|simpl in Hn; lia]. destruct m; reflexivity.
  - destruct l as [|b0 r0]; [destruct m; reflexivity|].
    destruct m as [|m]; [simpl in Hm; lia|]. cbn [dec_repl_fuel].
    destruct (dec_one b0 r0) as [c rest] eqn:D. f_equal.
    pose proof (dec_one_length _ _ _ _ D). simpl in Hn, Hm. apply IH; lia.
Qed.

Lemma repl_nil : utf8_dec_repl [] = []. Proof. reflexivity. Qed.

Lemma repl_cons : forall b0 r0, utf8_dec_repl (b0 :: r0) = fst (dec_one b0 r0) :: utf8_dec_repl (snd (dec_one b0 r0)).
Proof.
  intros b0 r0. unfold utf8_dec_repl. cbn [length dec_repl_fuel].
  destruct (dec_one b0 r0) as [c rest] eqn:D. cbn [fst snd]. f_equal.
  apply fuel_enough; [apply (dec_one_length _ _ _ _ D)|apply Nat.le_refl].
Qed.

(* induction over the steps of the decoder *)
Lemma repl_ind : forall P : bytes -> Prop, P [] ->
  (forall b0 r0, P (snd (dec_one b0 r0)) -> P (b0 :: r0)) -> forall l, P l.
Proof.
  intros P H0 HS l. remember (length l) as n eqn:Hn. assert (Hle : (length l <= n)%nat) by lia. clear Hn.
  revert l Hle. induction n as [|n IH]; intros l Hle.
  - destruct l; [exact H0|simpl in Hle; lia].
  - destruct l as [|b0 r0]; [exact H0|]. apply HS. apply IH.
    destruct (dec_one b0 r0) as [c rest] eqn:D. cbn [snd]. pose proof (dec_one_length _ _ _ _ D). simpl in Hle. lia.
Qed.

(* well-formed UTF-8 is decoded as by the strict decoder *)
Lemma repl_strict : forall l s, utf8_dec l = Some s -> utf8_dec_repl l = s.
Proof.
  intro l. pattern l. apply repl_ind; clear l.
  - intros s H. inversion H. reflexivity.
  - intros b0 r0 IH s H. destruct (dec_one_strict _ _ _ H) as [s' [-> H2]]. rewrite repl_cons. f_equal.
    apply IH. exact H2.
Qed.

(* the replaced text is encodable; a newline character only from a newline byte *)
Lemma repl_scalar : forall l, forallb scalar (utf8_dec_repl l) = true.
Proof.
  intro l. pattern l. apply repl_ind; clear l; [reflexivity|].
  intros b0 r0 IH. rewrite repl_cons. cbn [forallb]. rewrite IH.
  destruct (dec_one b0 r0) as [c rest] eqn:D. cbn [fst]. destruct (dec_one_scalar _ _ _ _ D) as [-> _]. reflexivity.
Qed.

Lemma repl_no_eol : forall l, ~ In 10 l -> ~ In 10 (utf8_dec_repl l).
Proof.
  intro l. pattern l. apply repl_ind; clear l; [intros _ H; exact H|].
  intros b0 r0 IH Hni. rewrite repl_cons. destruct (dec_one b0 r0) as [c rest] eqn:D. cbn [fst snd] in *.
  intros [Hx|Hx].
  - destruct (dec_one_scalar _ _ _ _ D) as [_ Hc]. apply Hni. left. apply Hc. exact Hx.
  - apply IH; [|exact Hx]. destruct (dec_one_suffix _ _ _ _ D) as [p ->]. intro Hin. apply Hni. right.
    apply in_or_app. right. exact Hin.
Qed.

(* decoding commutes with cutting at a blank *)
Lemma repl_blank : forall a r, utf8_dec_repl (a ++ 32 :: r) = utf8_dec_repl a ++ 32 :: utf8_dec_repl r.
Proof.
  intro a. pattern a. apply repl_ind; clear a.
  - intro r. cbn [app]. rewrite repl_cons. reflexivity.
  - intros b0 a0 IH r. cbn [app]. rewrite !repl_cons. rewrite dec_one_blank. cbn [fst snd]. rewrite IH. reflexivity.
Qed.

(* ------------------------------------------------------------------ str.split(' ', n) and bytes.split(b' ', n) *)
Lemma split1_app_blank : forall h r, ~ In 32 h -> split1 (h ++ 32 :: r) = (h, Some r).
Proof.
  induction h as [|c h IH]; intros r Hni; cbn [app split1].
  - reflexivity.
  - destruct (c =? 32) eqn:Q; [apply N.eqb_eq in Q; exfalso; apply Hni; left; exact Q|].
    rewrite IH; [reflexivity|]. intro Hin. apply Hni. right. exact Hin.
Qed.

Lemma split1_no_blank : forall h, ~ In 32 h -> split1 h = (h, None).
Proof.
  induction h as [|c h IH]; intro Hni; cbn [split1]; [reflexivity|].
  destruct (c =? 32) eqn:Q; [apply N.eqb_eq in Q; exfalso; apply Hni; left; exact Q|].
  rewrite IH; [reflexivity|]. intro Hin. apply Hni. right. exact Hin.
Qed.

Lemma split1_spec : forall l h t, split1 l = (h, t) ->
  ~ In 32 h /\ match t with Some r => l = h ++ 32 :: r | None => l = h end.
Proof.
  induction l as [|c l IH]; intros h t H; cbn [split1] in H.
  - inversion H. split; [intros []|reflexivity].
  - destruct (c =? 32) eqn:Q.
    + inversion H. apply N.eqb_eq in Q. subst c. split; [intros []|reflexivity].
    + destruct (split1 l) as [h' t'] eqn:S. inversion H; subst h t. destruct (IH h' t' eq_refl) as [A B].
      apply N.eqb_neq in Q. split.
      * intros [Hx|Hx]; [apply Q; exact Hx|apply A; exact Hx].
      * destruct t' as [r|]; cbn [app]; rewrite B; reflexivity.
Qed.

(* a blank in the replaced text comes from a blank byte *)
Lemma repl_no_blank : forall l, ~ In 32 l -> ~ In 32 (utf8_dec_repl l).
Proof.
  intro l. pattern l. apply repl_ind; clear l; [intros _ H; exact H|].
  intros b0 r0 IH Hni. rewrite repl_cons. destruct (dec_one b0 r0) as [c rest] eqn:D. cbn [fst snd] in *.
  intros [Hx|Hx].
  - (* c = 32: only an ASCII byte gives a code point below 128 *)
    assert (Hb : b0 = 32).
    { unfold dec_one in D. unfold in_rng, cont in D.
      destruct (b0 <? 128) eqn:C1; [inversion D; congruence|].
      assert (R : REPL <> 32) by discriminate.
      destruct ((194 <=? b0) && (b0 <=? 223)) eqn:C2.
      { destruct r0 as [|b1 r1]; [inversion D; congruence|].
        destruct ((128 <=? b1) && (b1 <=? 191)) eqn:K1; [|inversion D; congruence].
        inversion D; subst. bool_to_prop. lia. }
      destruct ((224 <=? b0) && (b0 <=? 239)) eqn:C3.
      { destruct r0 as [|b1 r1]; [inversion D; congruence|].
        destruct (ok3 b0 b1) eqn:K1; [|inversion D; congruence].
        destruct r1 as [|b2 r2]; [inversion D; congruence|].
        destruct ((128 <=? b2) && (b2 <=? 191)) eqn:K2; [|inversion D; congruence].
        inversion D; subst. unfold ok3, in_rng, cont in K1. bool_to_prop.
        destruct (b0 =? 224) eqn:Q0; bool_to_prop; [lia|].
        destruct (b0 =? 237) eqn:Q1; bool_to_prop; lia. }
      destruct ((240 <=? b0) && (b0 <=? 244)) eqn:C4; [|inversion D; congruence].
      destruct r0 as [|b1 r1]; [inversion D; congruence|].
      destruct (ok4 b0 b1) eqn:K1; [|inversion D; congruence].
      destruct r1 as [|b2 r2]; [inversion D; congruence|].
      destruct ((128 <=? b2) && (b2 <=? 191)) eqn:K2; [|inversion D; congruence].
      destruct r2 as [|b3 r3]; [inversion D; congruence|].
      destruct ((128 <=? b3) && (b3 <=? 191)) eqn:K3; [|inversion D; congruence].
      inversion D; subst. unfold ok4, in_rng, cont in K1. bool_to_prop.
      destruct (b0 =? 240) eqn:Q0; bool_to_prop; [lia|].
      destruct (b0 =? 244) eqn:Q1; bool_to_prop; lia. }
    apply Hni. left. exact Hb.
  - apply IH; [|exact Hx]. destruct (dec_one_suffix _ _ _ _ D) as [p ->]. intro Hin. apply Hni. right.
    apply in_or_app. right. exact Hin.
Qed.

(* the fields of the replaced text are the replaced fields of the bytes (for every limit of split) *)
Lemma splitsp_repl : forall n l, splitsp n (utf8_dec_repl l) = map utf8_dec_repl (splitsp n l).
Proof.
  induction n as [|n IH]; intro l; cbn [splitsp map]; [reflexivity|].
  destruct (split1 l) as [h t] eqn:S. destruct (split1_spec _ _ _ S) as [Hh Ht].
  destruct t as [r|]; subst l.
  - rewrite repl_blank. rewrite split1_app_blank by (apply repl_no_blank; exact Hh).
    cbn [map]. rewrite IH. reflexivity.
  - rewrite split1_no_blank by (apply repl_no_blank; exact Hh). reflexivity.
Qed.
