(* C07 - the error reply to an undecodable line echoes action and specifier of the request
   (after the repair b6f37c1: the DecodeError branch strips the raw line like decode_msg does) *)
From Coq Require Import List Arith NArith Bool Lia.
Import ListNotations.
Require Import FV.Gen.C07 FV.C07.Model FV.C07.Lemmas FV.C07.Utf8.
Local Open Scope N_scope.

Definition ascii (l : list N) : bool := forallb (fun c => c <? 128) l.

Lemma dec_ascii : forall l, ascii l = true -> utf8_dec l = Some l.
Proof.
  induction l as [|b r IH]; intro H; [reflexivity|]. simpl in H. apply andb_true_iff in H. destruct H as [Hb Hr].
  rewrite dec1 by (apply N.ltb_lt; exact Hb). rewrite IH by exact Hr. reflexivity.
Qed.

Lemma or_empty_nonempty : forall x, or_empty (nonempty x) = x.
Proof. intros [|c x]; reflexivity. Qed.

(* the first two fields of split(' ', 2) (padded) and of split(' ', 3) are the same *)
Lemma fields_agree : forall l,
  nth 0%nat (splitsp 2 l ++ [[]; []]) [] = nth 0%nat (splitsp 3 l) [] /\
  nth 1%nat (splitsp 2 l ++ [[]; []]) [] = or_empty (nth_error (splitsp 3 l) 1%nat).
Proof.
  intro l. cbn [splitsp]. destruct (split1 l) as [h [r|]]; [|split; reflexivity].
  destruct (split1 r) as [h2 [r2|]]; split; reflexivity.
Qed.

Lemma decode_error_echo : forall E i line,
  next_message E line = None -> ascii (bstrip line) = true ->
  exists a s s' d, request_fields line = Some (a, s) /\
    answer E i line = (OReply [] (ERRORPREFIX ++ a, s', d), None) /\ or_empty s' = or_empty s.
Proof.
  intros E i line NM HA. unfold answer. rewrite NM. unfold request_fields. rewrite (dec_ascii _ HA).
  change decode_split_max with 2%nat. change error_split_max with 3%nat. cbv zeta.
  destruct (fields_agree (bstrip line)) as [F0 F1].
  eexists. eexists. eexists. eexists. split; [reflexivity|]. split.
  - unfold err_reply. rewrite F0. reflexivity.
  - rewrite or_empty_nonempty. symmetry. exact F1.
Qed.
