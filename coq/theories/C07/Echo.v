(* C07 - the error reply to an undecodable line echoes action and specifier of the request
   (after the repairs b6f37c1: the DecodeError branch strips the raw line like decode_msg does, and a2736c5: it reads
   the line as UTF-8, replacing what cannot be decoded, instead of latin-1) *)
From Coq Require Import List Arith NArith Bool Lia.
Import ListNotations.
Require Import FV.Gen.C07 FV.C07.Model FV.C07.Lemmas FV.C07.Utf8 FV.C07.Repl.
Local Open Scope N_scope.

Lemma or_empty_nonempty : forall x, or_empty (nonempty x) = x.
Proof. intros [|c x]; reflexivity. Qed.

(* the first two fields of split(' ', 2) (padded) and of split(' ', 3) are the same *)
Lemma fields_agree : forall l,
  nth 0%nat (splitsp 2 l ++ [[]; []]) [] = nth 0%nat (splitsp 3 l) [] /\
  nth 1%nat (splitsp 2 l ++ [[]; []]) [] = or_empty (nth_error (splitsp 3 l) 1%nat).
Proof.
  intro l. cbn [splitsp]. destruct (split1 l) as [h [r|]]; [|split; reflexivity].
  destruct (split1 r) as [h2 [r2|]]; split; reflexivity.
Qed.

(* the byte fields of a request line: bytes.split(b' ', 2) of the stripped line, padded like decode_msg does *)
Definition byte_fields (line : bytes) : list bytes := splitsp decode_split_max (bstrip line) ++ [[]; []].

Lemma map_pad : forall l : list bytes, map utf8_dec_repl (l ++ [[]; []]) = map utf8_dec_repl l ++ [[]; []].
Proof. intro l. rewrite map_app. reflexivity. Qed.

Lemma nth_map_repl : forall k (l : list bytes), nth k (map utf8_dec_repl l) [] = utf8_dec_repl (nth k l []).
Proof. intros k l. exact (map_nth utf8_dec_repl l [] k). Qed.

(* what the error reply to an undecodable line names: the first two byte fields of the stripped line, each read as
   UTF-8 with replacement *)
Lemma decode_error_echo_fields : forall E i line,
  next_message E line = None ->
  exists s' d, answer E i line =
      (OReply [] (ERRORPREFIX ++ utf8_dec_repl (nth 0%nat (byte_fields line) []), s', d), None) /\
    or_empty s' = utf8_dec_repl (nth 1%nat (byte_fields line) []).
Proof.
  intros E i line NM. unfold answer. rewrite NM. unfold byte_fields.
  change decode_split_max with 2%nat. change error_split_max with 3%nat. cbv zeta.
  destruct (fields_agree (utf8_dec_repl (bstrip line))) as [F0 F1].
  rewrite (splitsp_repl 2) in F0, F1. rewrite <- map_pad in F0, F1.
  rewrite nth_map_repl in F0, F1.
  eexists. eexists. split.
  - unfold err_reply. rewrite <- F0. reflexivity.
  - rewrite <- F1. reflexivity.
Qed.

(* full statement: for every undecodable line whose action and specifier are well-formed UTF-8 - whatever the bytes of
   the data part are - the error reply is error_<action> and echoes the specifier *)
Lemma decode_error_echo : forall E i line a s,
  next_message E line = None ->
  utf8_dec (nth 0%nat (byte_fields line) []) = Some a ->
  utf8_dec (nth 1%nat (byte_fields line) []) = Some s ->
  exists s' d, answer E i line = (OReply [] (ERRORPREFIX ++ a, s', d), None) /\ or_empty s' = s.
Proof.
  intros E i line a s NM Ha Hs. destruct (decode_error_echo_fields E i line NM) as [s' [d [H1 H2]]].
  rewrite (repl_strict _ _ Ha) in H1. rewrite (repl_strict _ _ Hs) in H2. exists s', d. split; assumption.
Qed.

Lemma request_fields_some : forall line a s, request_fields line = Some (a, s) ->
  exists u, utf8_dec (bstrip line) = Some u /\ a = nth 0%nat (splitsp 2 u ++ [[]; []]) [] /\
            s = nonempty (nth 1%nat (splitsp 2 u ++ [[]; []]) []).
Proof.
  intros line a s RF. unfold request_fields in RF. destruct (utf8_dec (bstrip line)) as [u|]; [|discriminate].
  exists u. injection RF as Ha Hs. split; [reflexivity|]. split; symmetry; assumption.
Qed.

(* the same in terms of the fields decode_msg reads when the whole line is text (the decode error is a JSON error) *)
Lemma decode_error_echo_text : forall E i line a s,
  next_message E line = None -> request_fields line = Some (a, s) ->
  exists s' d, answer E i line = (OReply [] (ERRORPREFIX ++ a, s', d), None) /\ or_empty s' = or_empty s.
Proof.
  intros E i line a s NM RF. destruct (request_fields_some _ _ _ RF) as [u [D [-> ->]]].
  unfold answer. rewrite NM. rewrite (repl_strict _ _ D). change error_split_max with 3%nat. cbv zeta.
  destruct (fields_agree u) as [F0 F1].
  eexists. eexists. split.
  - unfold err_reply. rewrite F0. reflexivity.
  - rewrite or_empty_nonempty. symmetry. exact F1.
Qed.
