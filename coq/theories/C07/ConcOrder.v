(* C07 - concurrent send path, second part: where the frames of a connection's stream come from (per-thread order,
   nothing lost), what a socket failure does (lock released, other connections untouched), progress of the lock
   holder, and the peer's view (the stream split at newlines gives the frames back). *)
From Coq Require Import List Arith NArith Bool Lia.
Import ListNotations.
Require Import FV.Gen.C07 FV.C07.Model FV.C07.Lemmas FV.C07.Conc FV.C07.ConcLemmas.
Local Open Scope N_scope.

Definition enc_ok (T : thread) : Prop :=
  forall c m tl f, todo T = (c, m) :: tl -> (ph T = PEnc f \/ exists r, ph T = PWrite f r) -> encode_msg m = Some f.

Definition Inv2 (progs : nat -> list job) (st : cstate) : Prop :=
  (forall t, progs t = donej (thr st t) ++ todo (thr st t)) /\
  (forall t, enc_ok (thr st t)) /\
  (forall c t f, In (t, f) (log (con st c)) -> exists m, In (c, m) (progs t) /\ encode_msg m = Some f) /\
  (forall c t, running (con st c) = true ->
     projf t (log (con st c)) = encs c (donej (thr st t)) ++ curf (thr st t) c).

Lemma projf_app : forall t a b, projf t (a ++ b) = projf t a ++ projf t b.
Proof. intros; unfold projf; rewrite filter_app, map_app; reflexivity. Qed.
Lemma projf_one_same : forall t f, projf t [(t, f)] = [f].
Proof. intros; unfold projf; simpl. rewrite Nat.eqb_refl. reflexivity. Qed.
Lemma projf_one_other : forall t t' f, t' <> t -> projf t' [(t, f)] = [].
Proof. intros; unfold projf; simpl. destruct (Nat.eqb_spec t t'); [congruence|reflexivity]. Qed.
Lemma encs_app : forall c a b, encs c (a ++ b) = encs c a ++ encs c b.
Proof. intros; unfold encs; apply flat_map_app. Qed.
Lemma curf_nowrite : forall T c, (forall f r, ph T <> PWrite f r) -> curf T c = [].
Proof.
  intros T c H. unfold curf. destruct (todo T) as [|[c' m] tl]; [reflexivity|].
  destruct (ph T) eqn:E; try reflexivity. destruct (H _ _ eq_refl).
Qed.

Lemma Inv2_set_thr : forall progs st t T',
  Inv2 progs st -> progs t = donej T' ++ todo T' -> enc_ok T' ->
  (forall c, running (con st c) = true ->
     encs c (donej T') ++ curf T' c = encs c (donej (thr st t)) ++ curf (thr st t) c) ->
  Inv2 progs (set_thr st t T').
Proof.
  intros progs st t T' [A [B [C D]]] HA HB HD. repeat split.
  - intros t'. simpl. destruct (Nat.eqb_spec t' t); [subst; exact HA|apply A].
  - intros t'. simpl. destruct (Nat.eqb_spec t' t); [exact HB|apply B].
  - exact C.
  - intros c t' Hr. simpl. simpl in Hr. destruct (Nat.eqb_spec t' t); [subst|apply D; exact Hr].
    rewrite (HD c Hr). apply D. exact Hr.
Qed.

Lemma Inv2_set_both : forall progs st t T' c0 C',
  Inv2 progs st -> progs t = donej T' ++ todo T' -> enc_ok T' ->
  (forall t' f, In (t', f) (log C') ->
     In (t', f) (log (con st c0)) \/ exists m, In (c0, m) (progs t') /\ encode_msg m = Some f) ->
  (forall c, c <> c0 -> running (con st c) = true ->
     encs c (donej T') ++ curf T' c = encs c (donej (thr st t)) ++ curf (thr st t) c) ->
  (running C' = true -> running (con st c0) = true /\ projf t (log C') = encs c0 (donej T') ++ curf T' c0 /\
                        forall t', t' <> t -> projf t' (log C') = projf t' (log (con st c0))) ->
  Inv2 progs (set_con (set_thr st t T') c0 C').
Proof.
  intros progs st t T' c0 C' [A [B [C D]]] HA HB HC HD HD0. repeat split.
  - intros t'. simpl. destruct (Nat.eqb_spec t' t); [subst; exact HA|apply A].
  - intros t'. simpl. destruct (Nat.eqb_spec t' t); [exact HB|apply B].
  - intros c t' f. simpl. destruct (Nat.eqb_spec c c0); [subst|apply C].
    intros Hin. destruct (HC _ _ Hin) as [Ho|Hn]; [apply C; exact Ho|exact Hn].
  - intros c t'. simpl. destruct (Nat.eqb_spec c c0) as [->|Hc].
    + intros Hr. destruct (HD0 Hr) as [Hr0 [H1 H2]].
      destruct (Nat.eqb_spec t' t) as [->|Ht]; [exact H1|]. rewrite (H2 _ Ht). apply D. exact Hr0.
    + intros Hr. destruct (Nat.eqb_spec t' t) as [->|Ht]; [|apply D; exact Hr].
      rewrite (HD c Hc Hr). apply D. exact Hr.
Qed.

Lemma enc_job_other : forall c c0 m, c <> c0 -> enc_job c (c0, m) = [].
Proof. intros. unfold enc_job. simpl. destruct (Nat.eqb_spec c0 c); [congruence|reflexivity]. Qed.
Lemma enc_job_same : forall c m, enc_job c (c, m) = match encode_msg m with Some f => [f] | None => [] end.
Proof. intros. unfold enc_job. simpl. rewrite Nat.eqb_refl. reflexivity. Qed.
Lemma encs_snoc : forall c js j, encs c (js ++ [j]) = encs c js ++ enc_job c j.
Proof. intros. rewrite encs_app. unfold encs at 2. simpl. rewrite app_nil_r. reflexivity. Qed.

Lemma curf_write_same : forall T c m tl f r, todo T = (c, m) :: tl -> ph T = PWrite f r -> curf T c = [f].
Proof. intros T c m tl f r H1 H2. unfold curf. rewrite H1, H2, Nat.eqb_refl. reflexivity. Qed.
Lemma curf_other : forall T c c0 m tl, todo T = (c0, m) :: tl -> c <> c0 -> curf T c = [].
Proof.
  intros T c c0 m tl H1 Hne. unfold curf. rewrite H1. destruct (ph T); try reflexivity.
  destruct (Nat.eqb_spec c0 c); [congruence|reflexivity].
Qed.

Lemma enc_ok_pop : forall T j tl, enc_ok {| ph := PIdle; todo := tl; donej := donej T ++ [j] |}.
Proof. intros T j tl c m tl' f _ [H|[r H]]; simpl in H; discriminate. Qed.

Lemma do_write_inv2 : forall progs st t c0 m tl f rest n,
  Inv2 progs st -> todo (thr st t) = (c0, m) :: tl -> ph (thr st t) = PWrite f rest ->
  Inv2 progs (do_write st t c0 (thr st t) (con st c0) f rest n).
Proof.
  intros progs st t c0 m tl f rest n H Htodo Hph. pose proof H as [A [B [C D]]].
  assert (He : encode_msg m = Some f) by (eapply (B t); [exact Htodo|right; eauto]).
  unfold do_write. destruct (skipn n rest) as [|b r] eqn:Hsk.
  - rewrite (pop_cons _ _ _ Htodo). apply Inv2_set_both; try exact H.
    + simpl. rewrite <- app_assoc. simpl. rewrite (A t), Htodo. reflexivity.
    + apply enc_ok_pop.
    + simpl. auto.
    + intros c Hc Hr. simpl. rewrite encs_snoc, (enc_job_other _ _ _ Hc), app_nil_r.
      rewrite (curf_other _ _ _ _ _ Htodo Hc), app_nil_r.
      rewrite curf_nowrite by (simpl; discriminate). rewrite app_nil_r. reflexivity.
    + simpl. intros Hr. split; [exact Hr|]. split; [|reflexivity].
      rewrite (D c0 t Hr), encs_snoc, enc_job_same, He, (curf_write_same _ _ _ _ _ _ Htodo Hph).
      rewrite curf_nowrite by (simpl; discriminate). rewrite app_nil_r. reflexivity.
  - apply Inv2_set_both; try exact H.
    + simpl. apply A.
    + intros c m' tl' f' Ht [Hp|[r' Hp]]; simpl in Ht, Hp; [discriminate|].
      inversion Hp; subst. eapply (B t); [exact Ht|right; eauto].
    + simpl. auto.
    + intros c Hc Hr. simpl. f_equal. unfold curf. simpl. rewrite Htodo, Hph. reflexivity.
    + simpl. intros Hr. split; [exact Hr|]. split; [|reflexivity].
      rewrite (D c0 t Hr). f_equal. unfold curf. simpl. rewrite Htodo, Hph. reflexivity.
Qed.

Lemma pop_inv2 : forall progs st t c0 m tl,
  Inv2 progs st -> todo (thr st t) = (c0, m) :: tl ->
  (forall f r, ph (thr st t) <> PWrite f r) ->
  (running (con st c0) = true -> encode_msg m = None) ->
  Inv2 progs (set_thr st t {| ph := PIdle; todo := tl; donej := donej (thr st t) ++ [(c0, m)] |}).
Proof.
  intros progs st t c0 m tl H Htodo Hph He. pose proof H as [A [B [C D]]].
  apply Inv2_set_thr; try exact H.
  - simpl. rewrite <- app_assoc. simpl. rewrite (A t), Htodo. reflexivity.
  - apply enc_ok_pop.
  - intros c Hr. simpl. rewrite encs_snoc. rewrite curf_nowrite by (simpl; discriminate).
    rewrite (curf_nowrite (thr st t)) by exact Hph. rewrite !app_nil_r.
    destruct (Nat.eq_dec c c0) as [->|Hc].
    + rewrite enc_job_same, (He Hr), app_nil_r. reflexivity.
    + rewrite (enc_job_other _ _ _ Hc), app_nil_r. reflexivity.
Qed.

Lemma cstep_inv2 : forall ul progs st e, Inv2 progs st -> Inv2 progs (cstep ul st e).
Proof.
  intros ul progs st [t a] H. pose proof H as [A [B [C D]]]. unfold cstep. simpl fst; simpl snd.
  destruct (todo (thr st t)) as [|[c0 m] tl] eqn:Htodo; [exact H|].
  destruct (ph (thr st t)) as [|f|f rest] eqn:Hph.
  - destruct (encode_msg m) as [f|] eqn:He.
    + apply Inv2_set_thr; try exact H.
      * simpl. apply A.
      * intros c m' tl' f' Ht [Hp|[r' Hp]]; simpl in Ht, Hp; [|discriminate].
        inversion Hp; subst. rewrite Htodo in Ht. inversion Ht; subst. exact He.
      * intros c Hr. simpl. f_equal. rewrite !curf_nowrite; [reflexivity|rewrite Hph; discriminate|simpl; discriminate].
    + rewrite (pop_cons _ _ _ Htodo). apply pop_inv2; auto. rewrite Hph; discriminate.
  - assert (He : encode_msg m = Some f) by (eapply (B t); [exact Htodo|left; exact Hph]).
    destruct (ul && is_some (lock (con st c0))); [exact H|].
    destruct (running (con st c0)) eqn:Hr.
    + apply Inv2_set_both; try exact H.
      * simpl. apply A.
      * intros c m' tl' f' Ht [Hp|[r' Hp]]; simpl in Ht, Hp; [discriminate|].
        inversion Hp; subst. rewrite Htodo in Ht. inversion Ht; subst. exact He.
      * simpl. intros t' f' Hin. apply in_app_or in Hin. destruct Hin as [Hin|[Hin|[]]]; [left; exact Hin|].
        inversion Hin; subst. right. exists m. split; [|exact He].
        rewrite (A t'), Htodo. apply in_or_app. right. left. reflexivity.
      * intros c Hc _. simpl. f_equal. rewrite (curf_nowrite (thr st t)) by (rewrite Hph; discriminate).
        eapply curf_other; [|exact Hc]. simpl. exact Htodo.
      * simpl. intros _. split; [exact Hr|]. split.
        -- rewrite projf_app, projf_one_same, (D c0 t Hr).
           rewrite (curf_nowrite (thr st t)) by (rewrite Hph; discriminate). rewrite app_nil_r.
           f_equal. symmetry. eapply curf_write_same; simpl; [exact Htodo|reflexivity].
        -- intros t' Ht. rewrite projf_app, (projf_one_other _ _ _ Ht), app_nil_r. reflexivity.
    + rewrite (pop_cons _ _ _ Htodo). apply pop_inv2; [exact H|exact Htodo|rewrite Hph; discriminate|intros X; rewrite Hr in X; discriminate X].
  - assert (He : encode_msg m = Some f) by (eapply (B t); [exact Htodo|right; eauto]).
    destruct a as [k|c']; [eapply do_write_inv2; eauto|].
    destruct (Nat.eqb c' c0); [|eapply do_write_inv2; eauto].
    rewrite (pop_cons _ _ _ Htodo). apply Inv2_set_both; try exact H.
    + simpl. rewrite <- app_assoc. simpl. rewrite (A t), Htodo. reflexivity.
    + apply enc_ok_pop.
    + simpl. auto.
    + intros c Hc Hr. simpl. rewrite encs_snoc, (enc_job_other _ _ _ Hc), app_nil_r.
      rewrite (curf_other _ _ _ _ _ Htodo Hc), app_nil_r.
      rewrite curf_nowrite by (simpl; discriminate). rewrite app_nil_r. reflexivity.
    + simpl. discriminate.
Qed.

Lemma cinit_inv2 : forall progs, Inv2 progs (cinit progs).
Proof.
  intros progs. split; [|split; [|split]].
  - intros t. reflexivity.
  - intros t c m tl f _ [H|[r H]]; simpl in H; discriminate.
  - intros c t f Hin. simpl in Hin. destruct Hin.
  - intros c t _. simpl. rewrite curf_nowrite by (simpl; discriminate). reflexivity.
Qed.

Lemma crun_inv2 : forall ul progs sched st, Inv2 progs st -> Inv2 progs (crun ul st sched).
Proof.
  unfold crun. intros ul progs. induction sched as [|e sched IH]; intros st H; simpl; [exact H|].
  apply IH. apply cstep_inv2. exact H.
Qed.

(* ------------------------------------------------------------------ quiescence *)
Definition quiet (st : cstate) : Prop := forall t, todo (thr st t) = [].

Lemma quiet_unlocked : forall st c, Inv st -> quiet st -> lock (con st c) = None.
Proof.
  intros st c H Q. destruct (H c) as [H1 _]. unfold inv_c in H1. destruct (lock (con st c)) as [t|]; [|reflexivity].
  destruct H1 as [f [rest [done [w [[m [tl [Ht _]]] _]]]]]. rewrite (Q t) in Ht. discriminate.
Qed.

Lemma quiet_whole : forall progs st c, Inv st -> Inv2 progs st -> quiet st -> running (con st c) = true ->
  sock (con st c) = cat (log (con st c)) /\ forall t, projf t (log (con st c)) = encs c (progs t).
Proof.
  intros progs st c H [A [_ [_ D]]] Q Hr. split.
  - destruct (H c) as [H1 _]. unfold inv_c in H1. rewrite (quiet_unlocked st c H Q) in H1. apply H1. exact Hr.
  - intros t. rewrite (D c t Hr), (A t), (Q t), app_nil_r. unfold curf. rewrite (Q t). apply app_nil_r.
Qed.

(* ------------------------------------------------------------------ socket failures *)
Lemma failed_unlocked : forall st c, Inv st -> running (con st c) = false -> lock (con st c) = None.
Proof.
  intros st c H Hr. destruct (H c) as [H1 _]. unfold inv_c in H1. destruct (lock (con st c)) as [t|]; [|reflexivity].
  destruct H1 as [f [rest [done [w [_ [Hr' _]]]]]]. congruence.
Qed.

Lemma do_write_running : forall st t c0 T C f rest n c,
  running C = running (con st c0) -> running (con (do_write st t c0 T C f rest n) c) = running (con st c).
Proof.
  intros. unfold do_write. destruct (skipn n rest); simpl; destruct (Nat.eqb_spec c c0); subst; auto.
Qed.

(* only a failure of the socket of connection c ends connection c *)
Lemma cstep_running : forall ul st t a c, a <> Fail c -> running (con (cstep ul st (t, a)) c) = running (con st c).
Proof.
  intros ul st t a c Ha. unfold cstep. simpl fst; simpl snd.
  destruct (todo (thr st t)) as [|[c0 m] tl]; [reflexivity|].
  destruct (ph (thr st t)) as [|f|f rest].
  - destruct (encode_msg m); reflexivity.
  - destruct (ul && is_some (lock (con st c0))); [reflexivity|].
    destruct (running (con st c0)) eqn:Hr; [|reflexivity].
    simpl. destruct (Nat.eqb_spec c c0); subst; simpl; auto.
  - destruct a as [k|c']; [apply do_write_running; reflexivity|].
    destruct (Nat.eqb_spec c' c0); [|apply do_write_running; reflexivity].
    subst. simpl. destruct (Nat.eqb_spec c c0); [subst; congruence|reflexivity].
Qed.

Lemma crun_running : forall ul sched st c, (forall t, ~ In (t, Fail c) sched) ->
  running (con (crun ul st sched) c) = running (con st c).
Proof.
  unfold crun. intros ul. induction sched as [|[t a] sched IH]; intros st c H; simpl; [reflexivity|].
  rewrite IH; [|intros t' Hin; apply (H t'); right; exact Hin].
  apply cstep_running. intros ->. apply (H t). left. reflexivity.
Qed.

(* what a failing write does: the lock is free at once, the connection is stopped, the calling thread goes on
   with its next call, every other connection and thread is as before *)
Lemma fail_step : forall ul st t c f rest m tl,
  todo (thr st t) = (c, m) :: tl -> ph (thr st t) = PWrite f rest ->
  let st' := cstep ul st (t, Fail c) in
  lock (con st' c) = None /\ running (con st' c) = false /\ sock (con st' c) = sock (con st c) /\
  todo (thr st' t) = tl /\ ph (thr st' t) = PIdle /\
  (forall c', c' <> c -> con st' c' = con st c') /\ (forall t', t' <> t -> thr st' t' = thr st t').
Proof.
  intros ul st t c f rest m tl Htodo Hph. unfold cstep. simpl fst; simpl snd. rewrite Htodo, Hph, Nat.eqb_refl.
  rewrite (pop_cons _ _ _ Htodo). simpl. rewrite !Nat.eqb_refl. simpl. repeat split.
  - intros c' Hc. destruct (Nat.eqb_spec c' c); [contradiction|reflexivity].
  - intros t' Ht. destruct (Nat.eqb_spec t' t); [contradiction|reflexivity].
Qed.

(* the lock holder is never stuck: each of its steps writes at least one byte or leaves the with block *)
Lemma holder_progress : forall ul st t c f rest m tl a,
  todo (thr st t) = (c, m) :: tl -> ph (thr st t) = PWrite f rest ->
  let st' := cstep ul st (t, a) in
  (lock (con st' c) = None /\ todo (thr st' t) = tl /\ ph (thr st' t) = PIdle) \/
  (exists r', todo (thr st' t) = (c, m) :: tl /\ ph (thr st' t) = PWrite f r' /\ (length r' < length rest)%nat).
Proof.
  intros ul st t c f rest m tl a Htodo Hph.
  assert (W : forall n, (1 <= n)%nat ->
    let st' := do_write st t c (thr st t) (con st c) f rest n in
    (lock (con st' c) = None /\ todo (thr st' t) = tl /\ ph (thr st' t) = PIdle) \/
    (exists r', todo (thr st' t) = (c, m) :: tl /\ ph (thr st' t) = PWrite f r' /\ (length r' < length rest)%nat)).
  { intros n Hn. unfold do_write. destruct (skipn n rest) as [|b r] eqn:Hsk.
    - left. rewrite (pop_cons _ _ _ Htodo). simpl. rewrite !Nat.eqb_refl. simpl. auto.
    - right.
      assert (L : (length (b :: r) < length rest)%nat).
      { rewrite <- Hsk, skipn_length. assert (length rest <> 0)%nat; [|lia].
        intros E. destruct rest; [rewrite skipn_nil in Hsk; discriminate|discriminate]. }
      exists (b :: r). simpl. rewrite !Nat.eqb_refl. simpl. repeat split; [exact Htodo|exact L]. }
  unfold cstep. simpl fst; simpl snd. rewrite Htodo, Hph.
  destruct a as [k|c'].
  - apply W. lia.
  - destruct (Nat.eqb c' c); [|apply W; lia].
    left. rewrite (pop_cons _ _ _ Htodo). simpl. rewrite !Nat.eqb_refl. simpl. auto.
Qed.

(* ------------------------------------------------------------------ the peer's view *)
Lemma get_msg_line : forall l rest, ~ In EOL l -> get_msg (l ++ EOL :: rest) = Some (l, rest).
Proof.
  induction l as [|b l IH]; intros rest H; simpl.
  - try rewrite N.eqb_refl. reflexivity.
  - destruct (b =? EOL) eqn:E. { apply N.eqb_eq in E. destruct H. left. exact E. }
    rewrite IH; [reflexivity|]. intros Hin. apply H. right. exact Hin.
Qed.

Lemma get_msg_no_eol : forall r, ~ In EOL r -> get_msg r = None.
Proof.
  induction r as [|b r IH]; intros H; simpl; [reflexivity|].
  destruct (b =? EOL) eqn:E. { apply N.eqb_eq in E. destruct H. left. exact E. }
  rewrite IH; [reflexivity|]. intros Hin. apply H. right. exact Hin.
Qed.

Lemma split_lines_frames : forall ls r n, Forall (fun l => ~ In EOL l) ls -> ~ In EOL r ->
  (length ls < n)%nat -> split_lines n (flat_map (fun l => l ++ [EOL]) ls ++ r) = (ls, r).
Proof.
  induction ls as [|l ls IH]; intros r n Hls Hr Hn; destruct n as [|n]; try lia; simpl.
  - rewrite (get_msg_no_eol _ Hr). reflexivity.
  - inversion Hls; subst. rewrite <- !app_assoc. simpl. rewrite (get_msg_line _ _ H1).
    rewrite IH; auto. simpl in Hn. lia.
Qed.

Lemma lines_of_frames : forall ls r, Forall (fun l => ~ In EOL l) ls -> ~ In EOL r ->
  lines_of (flat_map (fun l => l ++ [EOL]) ls ++ r) = (ls, r).
Proof.
  intros ls r Hls Hr. unfold lines_of. apply split_lines_frames; auto.
  rewrite app_length. assert (length ls <= length (flat_map (fun l => l ++ [EOL]) ls))%nat; [|lia].
  clear. induction ls as [|l ls IH]; simpl; [lia|]. rewrite !app_length. simpl. lia.
Qed.

Lemma cat_lines : forall lg bodies, map snd lg = map (fun l => l ++ [EOL]) bodies ->
  cat lg = flat_map (fun l => l ++ [EOL]) bodies.
Proof. intros lg bodies H. unfold cat. rewrite flat_map_concat_map. f_equal. exact H. Qed.
