(* C07 - invariants of the concurrent send path (Conc.v): with the send lock the byte stream of every connection is
   a concatenation of whole frames in lock acquisition order (plus the written part of the one frame in flight or
   aborted by a socket failure), whatever the schedule and the sizes of the partial writes. *)
From Coq Require Import List Arith NArith Bool Lia.
Import ListNotations.
Require Import FV.Gen.C07 FV.C07.Model FV.C07.Conc.

Definition holds (st : cstate) (t c : nat) (f rest : bytes) : Prop :=
  exists m tl, todo (thr st t) = (c, m) :: tl /\ ph (thr st t) = PWrite f rest.

Definition cat (l : list (nat * bytes)) : bytes := concat (map snd l).

(* whole frames, or whole frames and a written prefix w of the last frame begun *)
Definition wfs (s : bytes) (l : list (nat * bytes)) : Prop :=
  s = cat l \/ exists done t f w r, l = done ++ [(t, f)] /\ f = w ++ r /\ s = cat done ++ w.

Definition inv_c (st : cstate) (c : nat) : Prop :=
  match lock (con st c) with
  | Some t => exists f rest done w, holds st t c f rest /\ running (con st c) = true /\
                log (con st c) = done ++ [(t, f)] /\ f = w ++ rest /\ sock (con st c) = cat done ++ w
  | None => wfs (sock (con st c)) (log (con st c)) /\
            (running (con st c) = true -> sock (con st c) = cat (log (con st c)))
  end.

Definition P (st : cstate) (c : nat) : Prop :=
  inv_c st c /\ forall t f rest, holds st t c f rest -> lock (con st c) = Some t.

Definition Inv (st : cstate) : Prop := forall c, P st c.

Lemma cat_app : forall a b, cat (a ++ b) = cat a ++ cat b.
Proof. intros; unfold cat; rewrite map_app, concat_app; reflexivity. Qed.
Lemma cat_one : forall t f, cat [(t, f)] = f.
Proof. intros; unfold cat; simpl; apply app_nil_r. Qed.

Lemma skipn_nil_firstn : forall {A} n (l : list A), skipn n l = [] -> firstn n l = l.
Proof. intros A n l H. rewrite <- (firstn_skipn n l) at 2. rewrite H, app_nil_r. reflexivity. Qed.

Lemma holds_fun : forall st t c f r c' f' r', holds st t c f r -> holds st t c' f' r' -> c = c' /\ f = f' /\ r = r'.
Proof.
  intros st t c f r c' f' r' [m [tl [H1 H2]]] [m' [tl' [H3 H4]]].
  rewrite H1 in H3; rewrite H2 in H4. inversion H3; inversion H4; subst; auto.
Qed.

(* a step of thread t that leaves connection c alone and in which t holds nothing on c before and after *)
Lemma P_frame : forall st st' t c,
  con st' c = con st c -> (forall t', t' <> t -> thr st' t' = thr st t') ->
  (forall f r, ~ holds st t c f r) -> (forall f r, ~ holds st' t c f r) -> P st c -> P st' c.
Proof.
  intros st st' t c Hc Ht Hn Hn' [H1 H2].
  assert (Hh : forall t' f r, holds st' t' c f r <-> holds st t' c f r).
  { intros t' f r. destruct (Nat.eq_dec t' t) as [->|Hne].
    - split; intros Hx; [destruct (Hn' _ _ Hx)|destruct (Hn _ _ Hx)].
    - unfold holds. rewrite (Ht _ Hne). tauto. }
  split.
  - unfold inv_c in *. rewrite Hc. destruct (lock (con st c)) as [t0|]; [|exact H1].
    destruct H1 as [f [rest [done [w [Hh1 Hr]]]]]. exists f, rest, done, w. split; [apply Hh; exact Hh1|exact Hr].
  - intros t' f r Hx. rewrite Hc. apply (H2 t' f r). apply Hh. exact Hx.
Qed.

Lemma not_holds_ph : forall st t c f r, (forall f' r', ph (thr st t) <> PWrite f' r') -> ~ holds st t c f r.
Proof. intros st t c f r H [m [tl [_ Hp]]]. exact (H _ _ Hp). Qed.

Lemma not_holds_other : forall st t c c0 m tl f r, todo (thr st t) = (c0, m) :: tl -> c <> c0 -> ~ holds st t c f r.
Proof. intros st t c c0 m tl f r H Hne [m' [tl' [H1 _]]]. rewrite H in H1. inversion H1. congruence. Qed.

Lemma thr_same : forall st t T, thr (set_thr st t T) t = T.
Proof. intros; simpl. rewrite Nat.eqb_refl. reflexivity. Qed.
Lemma thr_other : forall st t T t', t' <> t -> thr (set_thr st t T) t' = thr st t'.
Proof. intros; simpl. destruct (Nat.eqb_spec t' t); [contradiction|reflexivity]. Qed.
Lemma con_same : forall st c C, con (set_con st c C) c = C.
Proof. intros; simpl. rewrite Nat.eqb_refl. reflexivity. Qed.
Lemma con_other : forall st c C c', c' <> c -> con (set_con st c C) c' = con st c'.
Proof. intros; simpl. destruct (Nat.eqb_spec c' c); [contradiction|reflexivity]. Qed.

Lemma pop_cons : forall T j tl, todo T = j :: tl -> pop T = {| ph := PIdle; todo := tl; donej := donej T ++ [j] |}.
Proof. intros T j tl H. unfold pop. rewrite H. reflexivity. Qed.

(* thread t changes only its own record: no connection changes, t writes nowhere before and after *)
Lemma Inv_set_thr : forall st t T', Inv st ->
  (forall f r, ph (thr st t) <> PWrite f r) -> (forall f r, ph T' <> PWrite f r) -> Inv (set_thr st t T').
Proof.
  intros st t T' H Hb Ha c. apply (P_frame st _ t c); [reflexivity| |intros; apply not_holds_ph; exact Hb| |apply H].
  - intros t' Hne. apply thr_other. exact Hne.
  - intros f r. apply not_holds_ph. rewrite thr_same. exact Ha.
Qed.

(* the state after a step of t on connection c0 that changes thread t and connection c0 only *)
Lemma Inv_step_on : forall st t T' c0 C' m tl,
  Inv st -> todo (thr st t) = (c0, m) :: tl ->
  (todo T' = (c0, m) :: tl \/ forall f r, ph T' <> PWrite f r) ->
  P (set_con (set_thr st t T') c0 C') c0 -> Inv (set_con (set_thr st t T') c0 C').
Proof.
  intros st t T' c0 C' m tl H Htodo HT' Hc0 c.
  destruct (Nat.eq_dec c c0) as [->|Hne]; [exact Hc0|].
  apply (P_frame st _ t c); [rewrite con_other by exact Hne; reflexivity| | | |apply H].
  - intros t' Hn. simpl. destruct (Nat.eqb_spec t' t); [contradiction|reflexivity].
  - intros f r. eapply not_holds_other; eauto.
  - intros f r. destruct HT' as [HT'|HT'].
    + eapply not_holds_other; [|exact Hne]. simpl. rewrite Nat.eqb_refl. exact HT'.
    + apply not_holds_ph. simpl. rewrite Nat.eqb_refl. exact HT'.
Qed.

Lemma holds_set_other : forall st t T' c0 C' t' c f r, t' <> t ->
  holds (set_con (set_thr st t T') c0 C') t' c f r -> holds st t' c f r.
Proof.
  intros st t T' c0 C' t' c f r Hne [m [tl [H1 H2]]]. simpl in H1, H2.
  destruct (Nat.eqb_spec t' t); [contradiction|]. exists m, tl. auto.
Qed.

Lemma do_write_inv : forall st t c0 m tl f rest n,
  Inv st -> todo (thr st t) = (c0, m) :: tl -> ph (thr st t) = PWrite f rest ->
  Inv (do_write st t c0 (thr st t) (con st c0) f rest n).
Proof.
  intros st t c0 m tl f rest n H Htodo Hph.
  assert (Hh : holds st t c0 f rest) by (exists m, tl; auto).
  destruct (H c0) as [H1 H2]. pose proof (H2 _ _ _ Hh) as Hl.
  unfold inv_c in H1. rewrite Hl in H1. destruct H1 as [f' [rest' [done [w [Hh' [Hr [Hlog [Hf Hs]]]]]]]].
  destruct (holds_fun _ _ _ _ _ _ _ _ Hh Hh') as [_ [<- <-]].
  unfold do_write. destruct (skipn n rest) as [|b r] eqn:Hsk.
  - rewrite (pop_cons _ _ _ Htodo).
    eapply Inv_step_on; [exact H|exact Htodo|right; simpl; discriminate|].
    split.
    + unfold inv_c. rewrite con_same. simpl. split.
      * left. rewrite Hs, Hlog, cat_app, cat_one, Hf, (skipn_nil_firstn _ _ Hsk), app_assoc. reflexivity.
      * intros _. rewrite Hs, Hlog, cat_app, cat_one, Hf, (skipn_nil_firstn _ _ Hsk), app_assoc. reflexivity.
    + intros t' f' r' Hx. destruct (Nat.eq_dec t' t) as [->|Hne].
      * destruct Hx as [m' [tl' [_ Hp]]]. simpl in Hp. rewrite Nat.eqb_refl in Hp. discriminate.
      * apply holds_set_other in Hx; [|exact Hne]. apply H2 in Hx. rewrite Hl in Hx. congruence.
  - eapply Inv_step_on; [exact H|exact Htodo|left; exact Htodo|].
    split.
    + unfold inv_c. rewrite con_same. simpl. rewrite Hl.
      exists f, (b :: r), done, (w ++ firstn n rest). repeat split.
      * exists m, tl. simpl. rewrite Nat.eqb_refl. simpl. auto.
      * exact Hr.
      * exact Hlog.
      * rewrite <- Hsk, <- app_assoc, firstn_skipn. exact Hf.
      * rewrite Hs, app_assoc. reflexivity.
    + intros t' f' r' Hx. rewrite con_same. simpl. rewrite Hl. destruct (Nat.eq_dec t' t) as [->|Hne]; [reflexivity|].
      apply holds_set_other in Hx; [|exact Hne]. apply H2 in Hx. rewrite Hl in Hx. exact Hx.
Qed.

Lemma cstep_inv : forall st e, Inv st -> Inv (cstep true st e).
Proof.
  intros st [t a] H. unfold cstep. simpl fst; simpl snd.
  destruct (todo (thr st t)) as [|[c0 m] tl] eqn:Htodo; [exact H|].
  destruct (ph (thr st t)) as [|f|f rest] eqn:Hph.
  - (* encode *)
    destruct (encode_msg m) as [f|].
    + apply Inv_set_thr; [exact H|rewrite Hph; discriminate|simpl; discriminate].
    + rewrite (pop_cons _ _ _ Htodo). apply Inv_set_thr; [exact H|rewrite Hph; discriminate|simpl; discriminate].
  - (* acquire *)
    destruct (lock (con st c0)) as [t0|] eqn:Hl; simpl; [exact H|].
    destruct (running (con st c0)) eqn:Hr.
    + eapply Inv_step_on; [exact H|exact Htodo|left; exact Htodo|].
      destruct (H c0) as [H1 H2]. unfold inv_c in H1. rewrite Hl in H1. destruct H1 as [_ H1]. specialize (H1 Hr).
      split.
      * unfold inv_c. rewrite con_same. simpl.
        exists f, f, (log (con st c0)), []. repeat split.
        -- exists m, tl. simpl. rewrite Nat.eqb_refl. simpl. auto.
        -- rewrite app_nil_r. exact H1.
      * intros t' f' r' Hx. rewrite con_same. simpl. destruct (Nat.eq_dec t' t) as [->|Hne]; [reflexivity|].
        apply holds_set_other in Hx; [|exact Hne]. apply H2 in Hx. rewrite Hl in Hx. discriminate.
    + rewrite (pop_cons _ _ _ Htodo). apply Inv_set_thr; [exact H|rewrite Hph; discriminate|simpl; discriminate].
  - (* inside sendall *)
    destruct a as [k|c'].
    + eapply do_write_inv; eauto.
    + destruct (Nat.eqb c' c0); [|eapply do_write_inv; eauto].
      assert (Hh : holds st t c0 f rest) by (exists m, tl; auto).
      destruct (H c0) as [H1 H2]. pose proof (H2 _ _ _ Hh) as Hl.
      unfold inv_c in H1. rewrite Hl in H1. destruct H1 as [f' [rest' [done [w [Hh' [Hr [Hlog [Hf Hs]]]]]]]].
      rewrite (pop_cons _ _ _ Htodo).
      eapply Inv_step_on; [exact H|exact Htodo|right; simpl; discriminate|].
      split.
      * unfold inv_c. rewrite con_same. simpl. split; [|discriminate].
        right. exists done, t, f', w, rest'. auto.
      * intros t' f'' r' Hx. destruct (Nat.eq_dec t' t) as [->|Hne].
        -- destruct Hx as [m' [tl' [_ Hp]]]. simpl in Hp. rewrite Nat.eqb_refl in Hp. discriminate.
        -- apply holds_set_other in Hx; [|exact Hne]. apply H2 in Hx. rewrite Hl in Hx. congruence.
Qed.

Lemma cinit_inv : forall progs, Inv (cinit progs).
Proof.
  intros progs c. split.
  - unfold inv_c. simpl. split; [left; reflexivity|reflexivity].
  - intros t f r [m [tl [_ Hp]]]. simpl in Hp. discriminate.
Qed.

Lemma crun_inv : forall sched st, Inv st -> Inv (crun true st sched).
Proof.
  unfold crun. induction sched as [|e sched IH]; intros st H; simpl; [exact H|]. apply IH. apply cstep_inv. exact H.
Qed.

Lemma inv_wfs : forall st c, Inv st -> wfs (sock (con st c)) (log (con st c)).
Proof.
  intros st c H. destruct (H c) as [H1 _]. unfold inv_c in H1. destruct (lock (con st c)) as [t|].
  - destruct H1 as [f [rest [done [w [_ [_ [Hlog [Hf Hs]]]]]]]]. right. exists done, t, f, w, rest. auto.
  - apply H1.
Qed.
