(* C19 -- lemmas about the start-up of the interfaces in Server.run and the interface list handed to the responder:
   whatever the interface threads did before the server went on (opened, failed, still inside the constructor at the
   time-out; in any order), the responder only ever announces tcp ports of interfaces that were opened. *)
From Coq Require Import List Arith ZArith NArith Bool Lia.
Import ListNotations.
Require Import FV.Gen.C19 FV.C19.Model FV.C19.LemmasUtf8 FV.C19.LemmasJson FV.C19.Lemmas.
Open Scope N_scope.

Lemma iface_eqb_eq a b : iface_eqb a b = true <-> a = b.
Proof.
  destruct a as [s n], b as [t m]. unfold iface_eqb. cbn [fst snd].
  rewrite andb_true_iff, str_eqb_eq, N.eqb_eq. split; [intros [-> ->]; reflexivity | intro E; injection E; auto].
Qed.

(* ------------------------------------------------------------------ primitive updates *)
Lemma dict_add_in k d x : In x (dict_add k d) <-> x = k \/ In x d.
Proof.
  induction d as [|y d IH]; cbn [dict_add].
  - cbn. intuition.
  - destruct (iface_eqb k y) eqn:E.
    + apply iface_eqb_eq in E. subst y. cbn. intuition.
    + cbn [In]. rewrite IH. intuition.
Qed.

Lemma dict_add_nodup k d : NoDup d -> NoDup (dict_add k d).
Proof.
  induction 1 as [|y d Hy Hd IH]; cbn [dict_add].
  - constructor; [intros []| constructor].
  - destruct (iface_eqb k y) eqn:E; [constructor; assumption|].
    constructor; [|exact IH]. rewrite dict_add_in. intros [->|H]; [|contradiction].
    assert (iface_eqb k k = true) by (apply iface_eqb_eq; reflexivity). congruence.
Qed.

Lemma remove_first_incl k l x : In x (remove_first k l) -> In x l.
Proof.
  induction l as [|y l IH]; cbn [remove_first]; [auto|].
  destruct (iface_eqb k y); cbn [In]; intuition.
Qed.

(* ------------------------------------------------------------------ one event *)
Lemma ev_step_opened conf s e u :
  In u (s_opened (ev_step conf s e)) <->
  In u (s_opened s) \/ (snd e = true /\ nth_error conf (fst e) = Some u).
Proof.
  unfold ev_step. destruct (nth_error conf (fst e)) as [v|] eqn:N.
  - destruct (snd e); cbn [s_opened].
    + rewrite dict_add_in. split.
      * intros [->|H]; auto.
      * intros [H|(_ & E)]; [auto | injection E as ->; auto].
    + split; [auto | intros [H|(E & _)]; [exact H | discriminate]].
  - split; [auto | intros [H|(_ & E)]; [exact H | discriminate]].
Qed.

Lemma ev_step_nodup conf s e : NoDup (s_opened s) -> NoDup (s_opened (ev_step conf s e)).
Proof.
  intro H. unfold ev_step. destruct (nth_error conf (fst e)); [|exact H].
  destruct (snd e); cbn [s_opened]; [apply dict_add_nodup; exact H | exact H].
Qed.

(* the local list only ever shrinks: it stays a part of the configured list *)
Lemma ev_step_list conf s e x : In x (s_list (ev_step conf s e)) -> In x (s_list s).
Proof.
  unfold ev_step. destruct (nth_error conf (fst e)); [|auto].
  destruct (snd e); cbn [s_list]; [auto | apply remove_first_incl].
Qed.

(* ------------------------------------------------------------------ all events *)
(* u was opened: some thread i, started for the configured interface u, constructed its interface object and
   registered it before the server went on *)
Definition opened_by (conf : list (str * N)) (evs : list (nat * bool)) (u : str * N) : Prop :=
  exists i, In (i, true) evs /\ nth_error conf i = Some u.

Lemma fold_opened conf evs : forall s u,
  In u (s_opened (fold_left (ev_step conf) evs s)) <-> In u (s_opened s) \/ opened_by conf evs u.
Proof.
  induction evs as [|e evs IH]; intros s u; cbn [fold_left].
  - split; [auto | intros [H|(i & [] & _)]; exact H].
  - rewrite IH, ev_step_opened. unfold opened_by. split.
    + intros [[H|(E1 & E2)]|(i & H1 & H2)]; [auto| |].
      * right. exists (fst e). split; [left; destruct e; cbn in *; subst; reflexivity | exact E2].
      * right. exists i. split; [right; exact H1 | exact H2].
    + intros [H|(i & [H1|H1] & H2)]; [auto| |].
      * left. right. subst e. cbn. auto.
      * right. exists i. auto.
Qed.

Lemma fold_nodup conf evs : forall s, NoDup (s_opened s) -> NoDup (s_opened (fold_left (ev_step conf) evs s)).
Proof.
  induction evs as [|e evs IH]; intros s H; cbn [fold_left]; [exact H|]. apply IH, ev_step_nodup, H.
Qed.

Theorem startup_opened conf evs u : In u (s_opened (startup conf evs)) <-> opened_by conf evs u.
Proof. unfold startup. rewrite fold_opened. cbn. intuition. Qed.

Theorem startup_nodup conf evs : NoDup (s_opened (startup conf evs)).
Proof. unfold startup. apply fold_nodup. constructor. Qed.

(* ------------------------------------------------------------------ what the responder gets *)
Theorem handed_spec conf evs ifs : handed conf evs = Some ifs ->
  ifs <> [] /\ NoDup ifs /\ forall u, In u ifs <-> opened_by (map normalise conf) evs u.
Proof.
  unfold handed. intro H.
  assert (ifs = s_opened (startup (map normalise conf) evs)) as ->
    by (destruct (s_opened (startup (map normalise conf) evs)); [discriminate | injection H as <-; reflexivity]).
  split; [destruct (s_opened (startup (map normalise conf) evs)); [discriminate | discriminate]|].
  split; [apply startup_nodup|]. intro u. apply startup_opened.
Qed.

(* no responder is created exactly when no interface was opened *)
Theorem handed_none conf evs : handed conf evs = None <-> forall u, ~ opened_by (map normalise conf) evs u.
Proof.
  unfold handed. split.
  - intros H u O. apply startup_opened in O.
    destruct (s_opened (startup (map normalise conf) evs)); [exact O | discriminate].
  - intro H. destruct (s_opened (startup (map normalise conf) evs)) as [|u l] eqn:E; [reflexivity|].
    exfalso. apply (H u). apply startup_opened. rewrite E. left. reflexivity.
Qed.

(* the responder Server.run creates: equipment id, version and description are whatever the node has; no
   startup_broadcast argument is passed (default True) *)
Definition node_cfg (eid ver : str) (desc : option str) (ifs : list (str * N)) : cfg :=
  {| c_eid := eid; c_version := ver; c_desc := desc; c_ifaces := ifs; c_bcast := true |}.

(* every datagram the responder of a node ever sends -- start-up announcement or answer, after any history of
   the socket -- announces the tcp port of an interface that was opened *)
Theorem ports_are_open conf evs ifs eid ver desc ins o :
  handed conf evs = Some ifs ->
  In o (outs (run (init (node_cfg eid ver desc ifs)) ins)) ->
  exists i scheme p,
    In (i, true) evs /\ nth_error (map normalise conf) i = Some (scheme, p) /\
    starts_with K_tcp (uri (scheme, p)) = true /\
    snd o = message (init (node_cfg eid ver desc ifs)) p.
Proof.
  intros H Ho. set (c := node_cfg eid ver desc ifs) in *.
  pose proof (run_sent_ok (init c) ins) as S. rewrite Forall_forall in S.
  destruct (S o Ho) as (p & Hp & E).
  destruct (init_frame c) as (_ & _ & EP & _). rewrite EP in Hp.
  apply ports_of_in in Hp. destruct Hp as (scheme & H1 & H2). cbn [c node_cfg c_ifaces] in H1.
  destruct (handed_spec conf evs ifs H) as (_ & _ & Hs). apply Hs in H1. destruct H1 as (i & I1 & I2).
  exists i, scheme, p. auto.
Qed.

(* and the other way round: the tcp port of every opened interface is among the announced ones *)
Theorem open_ports_announced conf evs ifs eid ver desc i scheme p :
  handed conf evs = Some ifs ->
  In (i, true) evs -> nth_error (map normalise conf) i = Some (scheme, p) ->
  starts_with K_tcp (uri (scheme, p)) = true ->
  In p (l_ports (init (node_cfg eid ver desc ifs))).
Proof.
  intros H H1 H2 H3. destruct (init_frame (node_cfg eid ver desc ifs)) as (_ & _ & -> & _).
  apply ports_of_in. exists scheme. split; [|exact H3]. cbn [node_cfg c_ifaces].
  destruct (handed_spec conf evs ifs H) as (_ & _ & Hs). apply Hs. exists i. auto.
Qed.
