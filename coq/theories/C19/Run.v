(* C19 -- correspondence driver: a case carries the constructor arguments, the scripted socket and what the
   implementation did; check_case re-runs the model and compares everything observable.
   Long texts travel run-length coded (a list of (block, repetitions)) to keep the generated files small. *)
From Coq Require Import List Arith ZArith NArith Bool.
From Coq Require Import Init.Byte.
Import ListNotations.
Require Import FV.Base.Util FV.Gen.C19 FV.C19.Model.

Definition rl (A : Type) := list (list A * nat).
Definition expand {A} (b : rl A) : list A := flat_map (fun p => concat (repeat (fst p) (snd p))) b.
Definition xs (b : rl N) : str := expand b.
Definition xb (b : rl byte) : bytes := map Byte.to_N (expand b).

Inductive dgram :=
| DG (data : rl byte) (p : parse) (a : nat)
| DErr.

Definition status_eqb (a b : status) : bool :=
  match a, b with
  | Listening, Listening | Returned, Returned | NotListening, NotListening | Killed, Killed => true
  | _, _ => false
  end.

Definition dest_eqb (a b : dest) : bool :=
  match a, b with
  | DBroadcast p, DBroadcast q => N.eqb p q
  | DAddr x, DAddr y => Nat.eqb x y
  | _, _ => false
  end.

Record case := {
  k_eid : rl N;
  k_version : rl N;
  k_desc : option (rl N);
  k_ifaces : list (str * N);          (* the interface list given to UDPListener when it is constructed directly *)
  k_startup : option (list cfg_iface * list (nat * bool));
                                      (* Some (configured interfaces, start-up events): the responder is created by
                                         Server.run, k_ifaces and k_bcast are not used *)
  k_bcast : bool;
  k_dgrams : list dgram;
  (* observed on the implementation *)
  o_handed : option (list (str * N)); (* Server.run: the list handed to UDPListener, None = no responder created *)
  o_enabled : bool;
  o_desc : rl N;                      (* self.description after __init__ *)
  o_fw : rl N;                        (* self.firmware *)
  o_ports : list N;                   (* self.ports *)
  o_payloads : list (rl byte);        (* distinct datagrams sent *)
  o_sends : list (dest * nat);        (* destination, index into o_payloads *)
  o_status : status;                  (* how run() ended: Returned, NotListening, or Killed by an exception *)
  o_consumed : nat;                   (* number of recvfrom calls *)
}.

(* interface list and broadcast flag the constructor gets: directly from the case, or from the model of Server.run
   (which passes no startup_broadcast: the default True) *)
Definition listener_args (k : case) : option (list (str * N) * bool) :=
  match k_startup k with
  | None => Some (k_ifaces k, k_bcast k)
  | Some (conf, evs) => option_map (fun l => (l, true)) (handed conf evs)
  end.

Definition mk_cfg (k : case) : cfg :=
  let a := match listener_args k with Some a => a | None => ([], false) end in
  {| c_eid := xs (k_eid k); c_version := xs (k_version k); c_desc := option_map xs (k_desc k);
     c_ifaces := fst a; c_bcast := snd a |}.

Definition mk_input (d : dgram) : input :=
  match d with DG data p a => IRecv (xb data) p a | DErr => IError end.

Definition model_init (k : case) : listener := init (mk_cfg k).
Definition model_run (k : case) : lstate := run (model_init k) (map mk_input (k_dgrams k)).

(* a run that is still blocked in recvfrom when the script ends cannot be observed: the driver always ends the
   script with a socket error, and so does the encoder *)
Fixpoint all2 {A B} (f : A -> B -> bool) (a : list A) (b : list B) : bool :=
  match a, b with
  | [], [] => true
  | x :: a', y :: b' => f x y && all2 f a' b'
  | _, _ => false
  end.

Definition sends_ok (k : case) (outs : list (dest * bytes)) : bool :=
  let pl := map xb (o_payloads k) in
  all2 (fun (m : dest * bytes) (o : dest * nat) =>
              dest_eqb (fst m) (fst o) && list_eqb N.eqb (snd m) (nth (snd o) pl [256%N]))
           outs (o_sends k).

(* the law assumed of json.loads (Model.v) holds for what the harness saw CPython do with every datagram *)
Definition law_ok (k : case) : bool :=
  forallb (fun d => match d with
                    | DG data p _ => loads_law_b (N.to_nat json_depth_limit) (received (xb data)) p
                    | DErr => true
                    end) (k_dgrams k).

Definition check_listener (k : case) : bool :=
  let l := model_init k in
  let r := model_run k in
  Bool.eqb (l_enabled l) (o_enabled k)
  && list_eqb N.eqb (l_desc l) (xs (o_desc k))
  && list_eqb N.eqb (l_fw l) (xs (o_fw k))
  && list_eqb N.eqb (l_ports l) (o_ports k)
  && sends_ok k (outs r)
  && status_eqb (st r) (o_status k)
  && Nat.eqb (consumed r) (o_consumed k).

Definition check_case (k : case) : bool :=
  law_ok k &&
  match k_startup k with
  | None => check_listener k
  | Some _ =>
    match listener_args k, o_handed k with
    | None, None => match o_sends k with [] => true | _ => false end
    | Some (ifs, _), Some ifs' => list_eqb iface_eqb ifs ifs' && check_listener k
    | _, _ => false
    end
  end.

(* for diagnosis in replay files *)
Definition model_result (k : case) :=
  let l := model_init k in
  let r := model_run k in
  (listener_args k, l_enabled l, length (l_desc l), l_ports l, st r, consumed r,
   map (fun m => (fst m, length (snd m))) (outs r)).
