(* C19 -- executable model of frappy/protocol/discovery.py (UDPListener.__init__ / _getMessage / run).
   No proofs in this file.  Constants come from the generated FV.Gen.C19.

   Python strings are lists of code points, bytes are lists of numbers below 256.
   Modelled concretely (the property is about their byte lengths and shape): UTF-8 encoding, strict UTF-8
   decoding, decoding with errors='ignore' of a cut-off encoding, the JSON string escaper of
   json.dumps(ensure_ascii=False), str(int) for the port, the dict literal of _getMessage with compact separators.
   Supplied as data with every received datagram (CPython, not frappy): the result of json.loads, summarised
   as far as the filter expression of run() can see it. *)
From Coq Require Import List Arith ZArith NArith Bool String Ascii.
Import ListNotations.
Require Import FV.Gen.C19.
Open Scope N_scope.

Definition str := list N.      (* code points *)
Definition bytes := list N.    (* 0..255 *)

Definition s2l (s : string) : str := map N_of_ascii (list_ascii_of_string s).

(* ------------------------------------------------------------------ UTF-8 *)
Definition is_scalar (c : N) : bool := (c <? 0xD800) || ((0xDFFF <? c) && (c <=? 0x10FFFF)).

Definition enc1 (c : N) : bytes :=
  if c <? 0x80 then [c]
  else if c <? 0x800 then [0xC0 + c / 64; 0x80 + c mod 64]
  else if c <? 0x10000 then [0xE0 + c / 4096; 0x80 + (c / 64) mod 64; 0x80 + c mod 64]
  else [0xF0 + c / 262144; 0x80 + (c / 4096) mod 64; 0x80 + (c / 64) mod 64; 0x80 + c mod 64].

(* str.encode('utf-8') on strings of scalar values (lone surrogates are outside the modelled domain) *)
Definition utf8_encode (s : str) : bytes := flat_map enc1 s.

Definition is_cont (b : N) : bool := (0x80 <=? b) && (b <? 0xC0).

(* one character from the front of a byte string: shortest form only, no surrogates, at most U+10FFFF *)
Definition dec1 (bs : bytes) : option (N * bytes) :=
  match bs with
  | [] => None
  | b0 :: r0 =>
    if b0 <? 0x80 then Some (b0, r0)
    else if b0 <? 0xC2 then None
    else if b0 <? 0xE0 then
      match r0 with
      | b1 :: r1 => if is_cont b1 then Some ((b0 - 0xC0) * 64 + (b1 - 0x80), r1) else None
      | _ => None
      end
    else if b0 <? 0xF0 then
      match r0 with
      | b1 :: b2 :: r2 =>
        if is_cont b1 && is_cont b2 then
          let c := (b0 - 0xE0) * 4096 + (b1 - 0x80) * 64 + (b2 - 0x80) in
          if (0x800 <=? c) && is_scalar c then Some (c, r2) else None
        else None
      | _ => None
      end
    else if b0 <? 0xF5 then
      match r0 with
      | b1 :: b2 :: b3 :: r3 =>
        if is_cont b1 && is_cont b2 && is_cont b3 then
          let c := (b0 - 0xF0) * 262144 + (b1 - 0x80) * 4096 + (b2 - 0x80) * 64 + (b3 - 0x80) in
          if (0x10000 <=? c) && (c <=? 0x10FFFF) then Some (c, r3) else None
        else None
      | _ => None
      end
    else None
  end.

(* strict = true: bytes.decode('utf-8'), None stands for UnicodeDecodeError.
   strict = false: decoding stops at the first undecodable position and drops the rest; on a cut-off valid
   encoding (the only use in the code) that is exactly decode('utf-8', errors='ignore'). *)
Fixpoint dec_loop (fuel : nat) (strict : bool) (bs : bytes) : option str :=
  match dec1 bs with
  | Some (c, r) => match fuel with
                   | O => None
                   | S f => option_map (cons c) (dec_loop f strict r)
                   end
  | None => match bs with
            | [] => Some []
            | _ => if strict then None else Some []
            end
  end.

Definition utf8_decode (bs : bytes) : option str := dec_loop (List.length bs) true bs.
Definition utf8_decode_ignore (bs : bytes) : str :=
  match dec_loop (List.length bs) false bs with Some s => s | None => [] end.

(* ------------------------------------------------------------------ json.dumps pieces *)
Definition hexdigit (n : N) : N := if n <? 10 then 48 + n else 87 + n.

(* json.encoder.ESCAPE: the controls below 0x20, the backslash and the double quote; ensure_ascii=False *)
Definition esc1 (c : N) : str :=
  if c =? 34 then [92; 34]
  else if c =? 92 then [92; 92]
  else if c =? 10 then [92; 110]
  else if c =? 13 then [92; 114]
  else if c =? 9 then [92; 116]
  else if c =? 8 then [92; 98]
  else if c =? 12 then [92; 102]
  else if c <? 32 then [92; 117; 48; 48; hexdigit (c / 16); hexdigit (c mod 16)]
  else [c].

Definition escape (s : str) : str := flat_map esc1 s.
Definition json_string (s : str) : str := 34 :: escape s ++ [34].

(* str(n) for a non-negative int *)
Fixpoint digits_aux (fuel : nat) (n : N) (acc : str) : str :=
  match fuel with
  | O => acc
  | S f => let acc' := (48 + n mod 10) :: acc in
           if n / 10 =? 0 then acc' else digits_aux f (n / 10) acc'
  end.
Definition digits (n : N) : str := digits_aux 40 n [].

(* the dict literal of _getMessage in insertion order, separators (',', ':') *)
Definition msg_head (port : N) (eid fw : str) : str :=
  s2l "{""SECoP"":""node"",""port"":" ++ digits port
  ++ s2l ",""equipment_id"":" ++ json_string eid
  ++ s2l ",""firmware"":" ++ json_string fw
  ++ s2l ",""description"":".
Definition msg_text (port : N) (eid fw desc : str) : str :=
  msg_head port eid fw ++ json_string desc ++ s2l "}".

(* ------------------------------------------------------------------ UDPListener *)
Record listener := {
  l_eid : str;
  l_fw : str;
  l_desc : str;
  l_ports : list N;
  l_enabled : bool;
  l_bcast : bool;
}.

Definition set_enabled (l : listener) (v : bool) : listener :=
  {| l_eid := l_eid l; l_fw := l_fw l; l_desc := l_desc l; l_ports := l_ports l; l_enabled := v; l_bcast := l_bcast l |}.
Definition set_desc (l : listener) (v : str) : listener :=
  {| l_eid := l_eid l; l_fw := l_fw l; l_desc := v; l_ports := l_ports l; l_enabled := l_enabled l; l_bcast := l_bcast l |}.

(* _getMessage(port) *)
Definition message (l : listener) (port : N) : bytes :=
  utf8_encode (msg_text port (l_eid l) (l_fw l) (l_desc l)).

(* constructor arguments.  An interface uri is <scheme>://<decimal number>, given as (scheme, number);
   c_desc = None is python None *)
Record cfg := {
  c_eid : str;
  c_version : str;
  c_desc : option str;
  c_ifaces : list (str * N);
  c_bcast : bool;
}.

Fixpoint starts_with (p s : str) : bool :=
  match p with
  | [] => true
  | a :: p' => match s with b :: s' => (a =? b) && starts_with p' s' | [] => false end
  end.

Definition uri (i : str * N) : str := fst i ++ s2l "://" ++ digits (snd i).

(* [int(iface.split('://')[1]) for iface in ifaces if iface.startswith('tcp')] *)
Definition ports_of (ifaces : list (str * N)) : list N :=
  map snd (filter (fun i => starts_with (s2l "tcp") (uri i)) ifaces).

Definition blen (b : bytes) : Z := Z.of_nat (List.length b).

(* l[:k] *)
Definition py_slice_to {A} (l : list A) (k : Z) : list A :=
  if (k <? 0)%Z then firstn (Z.to_nat (Z.max 0 (Z.of_nat (List.length l) + k))) l else firstn (Z.to_nat k) l.

(* __init__ (socket set-up is not modelled) *)
Definition init (c : cfg) : listener :=
  let desc0 := match c_desc c with Some d => d | None => [] end in
  let l0 := {| l_eid := c_eid c; l_fw := firmware_prefix ++ c_version c; l_desc := desc0;
               l_ports := ports_of (c_ifaces c); l_enabled := true; l_bcast := c_bcast c |} in
  let available := (MAX_MESSAGE_LEN - blen (message l0 budget_port))%Z in
  if (available <? 0)%Z then
    let raw := utf8_encode desc0 in
    if (available + blen raw <? 0)%Z then set_enabled l0 false
    else set_desc l0 (utf8_decode_ignore (py_slice_to raw available))
  else l0.

(* ------------------------------------------------------------------ receive loop *)
(* what json.loads returned, as far as `not isinstance(request, dict) or request.get('SECoP') != 'discover'`
   can see it.  elem: Some s = a python str, None = any other value *)
Definition elem := option str.
Inductive parse :=
| PBad                                   (* json.JSONDecodeError or another ValueError (e.g. the int digit limit) *)
| PRaise                                 (* json.loads raised something that is not a ValueError: RecursionError for
                                            text nested deeper than the interpreter allows *)
| PScalar                                (* None, bool, int, float *)
| PStr (s : str)
| PArr (es : list elem)
| PObj (ms : list (str * elem)).         (* items of the resulting dict *)

Definition K_SECoP : str := s2l "SECoP".
Definition K_discover : str := s2l "discover".

Fixpoint str_eqb (a b : str) : bool :=
  match a, b with
  | [], [] => true
  | x :: a', y :: b' => (x =? y) && str_eqb a' b'
  | _, _ => false
  end.

Definition elem_is (k : str) (e : elem) : bool :=
  match e with Some s => str_eqb k s | None => false end.

(* dict.get *)
Fixpoint lookup (k : str) (ms : list (str * elem)) : option elem :=
  match ms with
  | [] => None
  | (k', v) :: r => if str_eqb k k' then Some v else lookup k r
  end.

Inductive verdict := VIgnore | VAnswer | VKill.

(* the datagram as run() sees it: recvfrom(n) hands over at most n bytes, the kernel drops the rest *)
Definition recv_size : nat := N.to_nat recv_bufsize.
Definition received (data : bytes) : bytes := firstn recv_size data.

(* body of the while loop after recvfrom returned data.  UnicodeDecodeError and JSONDecodeError are ValueErrors and
   caught, isinstance and dict.get are total; an exception of json.loads that is not a ValueError (PRaise) is caught
   by nothing and leaves run() *)
Definition handle (data : bytes) (p : parse) : verdict :=
  match utf8_decode (received data) with
  | None => VIgnore                                   (* except ValueError: continue *)
  | Some _ =>
    match p with
    | PBad => VIgnore                                 (* except ValueError: continue *)
    | PRaise => VKill                                 (* not caught *)
    | PScalar | PStr _ | PArr _ => VIgnore            (* not isinstance(request, dict) *)
    | PObj ms => match lookup K_SECoP ms with
                 | None => VIgnore                    (* None != 'discover' *)
                 | Some v => if elem_is K_discover v then VAnswer else VIgnore
                 end
    end
  end.

(* Killed: an exception left run(), the thread is gone *)
Inductive status := Listening | Returned | NotListening | Killed.
Inductive dest := DBroadcast (port : N) | DAddr (a : nat).

Record lstate := {
  st : status;
  outs : list (dest * bytes);     (* datagrams sent so far, oldest first *)
  consumed : nat;                 (* calls of recvfrom *)
}.

(* what recvfrom does: a datagram (with what json.loads makes of its text) from sender a, or socket.error *)
Inductive input := IRecv (data : bytes) (p : parse) (a : nat) | IError.

Definition answers (l : listener) (d : dest) : list (dest * bytes) :=
  map (fun p => (d, message l p)) (l_ports l).

Definition lstep (l : listener) (s : lstate) (i : input) : lstate :=
  match st s with
  | Listening =>
    match i with
    | IError => {| st := Returned; outs := outs s; consumed := S (consumed s) |}
    | IRecv data p a =>
      match handle data p with
      | VIgnore => {| st := Listening; outs := outs s; consumed := S (consumed s) |}
      | VAnswer => {| st := Listening; outs := outs s ++ answers l (DAddr a); consumed := S (consumed s) |}
      | VKill => {| st := Killed; outs := outs s; consumed := S (consumed s) |}
      end
    end
  | _ => s
  end.

(* run() up to the first recvfrom: the start-up broadcast only `if self.startup_broadcast and self.is_enabled` *)
Definition start (l : listener) : lstate :=
  {| st := if l_enabled l then Listening else NotListening;
     outs := if l_bcast l && l_enabled l then answers l (DBroadcast UDP_PORT) else [];
     consumed := 0 |}.

Definition run (l : listener) (ins : list input) : lstate := fold_left (lstep l) ins (start l).

(* ------------------------------------------------------------------ what CPython's json.loads may do *)
(* The only exception of json.loads(str) that is not a ValueError is RecursionError, and the scanner raises it only
   when it stands inside at least json_depth_limit unclosed arrays/objects.  Every level needs its own opening
   bracket, so the number of bracket characters of the text bounds the depth.  The limit is measured on the
   interpreter that runs frappy (Gen constant json_depth_limit); every datagram of every generated case is checked
   against this law (Run.v), the theorems assume it. *)
Definition is_opener (b : N) : bool := (b =? 91) || (b =? 123).      (* the characters [ and { *)
Definition openers (bs : bytes) : nat := List.length (filter is_opener bs).

Definition loads_law_b (limit : nat) (text : bytes) (p : parse) : bool :=
  match p with PRaise => (limit <=? openers text)%nat | _ => true end.

(* ------------------------------------------------------------------ Server.run: start-up of the interfaces *)
(* a configured interface: Some scheme = <scheme>://<number>, None = a bare number *)
Definition cfg_iface : Type := option str * N.

(* [iface if '://' in iface else f'tcp://{iface}' for iface in interfaces] *)
Definition normalise (i : cfg_iface) : str * N :=
  (match fst i with Some s => s | None => s2l "tcp" end, snd i).

Definition iface_eqb (a b : str * N) : bool := str_eqb (fst a) (fst b) && (snd a =? snd b).

(* d[k] = v on the key list of a dict (insertion order; an existing key keeps its place) *)
Fixpoint dict_add (k : str * N) (d : list (str * N)) : list (str * N) :=
  match d with
  | [] => [k]
  | x :: r => if iface_eqb k x then d else x :: dict_add k r
  end.

(* list.remove: the first occurrence *)
Fixpoint remove_first (k : str * N) (l : list (str * N)) : list (str * N) :=
  match l with
  | [] => []
  | x :: r => if iface_eqb k x then r else x :: remove_first k r
  end.

Record sstate := {
  s_opened : list (str * N);     (* keys of self.interfaces *)
  s_failed : list (str * N);     (* keys of the dict failed *)
  s_list : list (str * N);       (* the local list interfaces *)
}.

(* what an interface thread does before the server goes on: (i, true) = thread i constructed its interface and
   registered it (self.interfaces[iface] = interface, then the trigger); (i, false) = the constructor raised
   (failed[iface] = e, interfaces.remove(iface), then the trigger).  A thread without an event is still inside its
   constructor when the start-up time-out expires. *)
Definition ev_step (conf : list (str * N)) (s : sstate) (e : nat * bool) : sstate :=
  match nth_error conf (fst e) with
  | None => s
  | Some u =>
    if snd e then {| s_opened := dict_add u (s_opened s); s_failed := s_failed s; s_list := s_list s |}
    else {| s_opened := s_opened s; s_failed := dict_add u (s_failed s); s_list := remove_first u (s_list s) |}
  end.

Definition startup (conf : list (str * N)) (evs : list (nat * bool)) : sstate :=
  fold_left (ev_step conf) evs {| s_opened := []; s_failed := []; s_list := conf |}.

(* the interface list handed to UDPListener: list(self.interfaces); None = `if not self.interfaces: return`,
   no responder is created *)
Definition handed (conf : list cfg_iface) (evs : list (nat * bool)) : option (list (str * N)) :=
  match s_opened (startup (map normalise conf) evs) with
  | [] => None
  | l => Some l
  end.
