(* C19 -- Discovery responder: bounded well-formed answers, unkillable by datagrams.
   Property theorems only; each is closed by a lemma of Lemmas*.v.  c ranges over all constructor arguments
   (equipment id, version, description of Unicode scalar values, any interface list, broadcast flag), ins over
   all histories of the socket (datagrams with what json.loads makes of them, socket errors).
   The code still violates the property in one way (Refuted.v: a description full of JSON-escaped characters
   disables the responder although the identity fits); theorem 4 carries the exact guard.  The two other defects
   found earlier were repaired in /repo (8298523, d6d9c1c): theorems 5 and 7 now hold without guard. *)
From Coq Require Import List Arith ZArith NArith Bool Lia String.
Import ListNotations.
Require Import FV.Gen.C19 FV.C19.Model FV.C19.LemmasUtf8 FV.C19.LemmasJson FV.C19.Lemmas FV.C19.Refuted.
Open Scope N_scope.

(* obligations on the facts regenerated from /repo (Gen/C19.v): the source still has the modelled shape *)
Theorem C19_source_facts :
  run_shape = true /\ budget_shape = true /\ init_assignments = true /\
  dumps_compact_no_ascii_escape = true /\
  msg_keys = [s2l "SECoP"; s2l "port"; s2l "equipment_id"; s2l "firmware"; s2l "description"] /\
  msg_values = [s2l "'node'"; s2l "port"; s2l "self.equipment_id"; s2l "self.firmware"; s2l "self.description"] /\
  getmsg_args = [s2l "self"; s2l "port"] /\
  firmware_prefix = s2l "FRAPPY " /\
  loads_catches = [s2l "ValueError"] /\
  filter_expr = s2l "not isinstance(request, dict) or request.get('SECoP') != 'discover'" /\
  broadcast_guarded_by_enabled = true /\
  server_passes_opened_interfaces = true /\ interfaces_registered_after_open = true /\
  tcp_port_parse_agrees = true /\
  budget_port = 65535 /\ (0 < MAX_MESSAGE_LEN)%Z /\ (0 < recv_bufsize)%nat /\ 0 < UDP_PORT.
Proof. repeat split; try reflexivity; apply Nat.ltb_lt; reflexivity. Qed.

(* 1. at most MAX_MESSAGE_LEN (508) bytes for every port a TCP server can listen on, whenever the responder is
      enabled *)
Theorem C19_bounded : forall c port,
  wf_cfg c -> l_enabled (init c) = true -> port <= 65535 ->
  (blen (message (init c) port) <= MAX_MESSAGE_LEN)%Z.
Proof. exact bounded. Qed.

(* 2. every message is valid UTF-8 and a JSON object that reads back as exactly the port, the equipment id, the
      firmware string and the description the listener holds, which is a prefix of the configured one *)
Theorem C19_wellformed : forall c port,
  wf_cfg c -> port <= 65535 ->
  let l := init c in
  utf8_decode (message l port) = Some (msg_text port (l_eid l) (l_fw l) (l_desc l)) /\
  read_msg (msg_text port (l_eid l) (l_fw l) (l_desc l))
    = Some (port, c_eid c, firmware_prefix ++ c_version c, l_desc l) /\
  prefix_of (l_desc l) (desc0 c).
Proof. exact wellformed. Qed.

(* 3. truncation on a character boundary: the description kept is a prefix (in whole code points) of the
      configured one; it is the whole one if the message fits; and if a character was dropped, it would not have
      fitted into the bytes that raw-length budgeting grants *)
Theorem C19_char_boundary : forall c,
  valid (desc0 c) ->
  prefix_of (l_desc (init c)) (desc0 c) /\ valid (l_desc (init c)) /\
  ((blen (message (base c) budget_port) <= MAX_MESSAGE_LEN)%Z -> init c = base c) /\
  (forall ch rest, l_enabled (init c) = true -> desc0 c = l_desc (init c) ++ ch :: rest ->
     (rawlen (desc0 c) + avail c < rawlen (l_desc (init c) ++ [ch]))%Z).
Proof.
  intros c Hv. split; [apply init_desc_prefix; exact Hv|]. split; [apply init_desc_valid; exact Hv|].
  split; [apply init_desc_whole; exact Hv|]. intros ch rest. apply init_desc_maximal. exact Hv.
Qed.

(* 4. when is the responder disabled?  Exactly when the identity alone (5 digit port, empty description) plus the
      bytes that JSON escaping adds to the description exceed the limit ... *)
Theorem C19_disabled_iff : forall c, valid (desc0 c) ->
  (l_enabled (init c) = false <->
   (MAX_MESSAGE_LEN < identity_len c + (esclen (desc0 c) - rawlen (desc0 c)))%Z).
Proof. exact disabled_iff. Qed.

(*    ... hence (full statement: disabled iff the identity alone does not fit) only for descriptions without
      characters that JSON escapes; C19_refuted_disabled_though_identity_fits shows the guard is needed ... *)
Theorem C19_disabled_iff_identity_too_long_except_escapes : forall c,
  valid (desc0 c) -> no_escapes (desc0 c) ->
  (l_enabled (init c) = false <-> (MAX_MESSAGE_LEN < identity_len c)%Z).
Proof.
  intros c Hv Hn. rewrite (disabled_iff c Hv), (esclen_no_escapes _ Hn). split; intro; lia.
Qed.

(*    ... while an identity that does not fit always disables *)
Theorem C19_identity_too_long_disables : forall c,
  valid (desc0 c) -> (MAX_MESSAGE_LEN < identity_len c)%Z -> l_enabled (init c) = false.
Proof.
  intros c Hv H. apply (disabled_iff c Hv). pose proof (esclen_ge_rawlen (desc0 c)). lia.
Qed.

(* 5. each announcement or answer is a good datagram: it announces a tcp port of the interface list handed over by
      the server, has at most 508 bytes, is valid UTF-8 and a JSON object carrying port, identity and description.
      Full strength: every configuration, every history of the socket (a disabled responder sends nothing) *)
Theorem C19_sends_good : forall c ins,
  wf_cfg c -> (forall p, In p (ports_of (c_ifaces c)) -> p <= 65535) ->
  Forall (good_datagram c) (outs (run (init c) ins)).
Proof. exact sends_good. Qed.

Theorem C19_disabled_silent : forall c ins,
  l_enabled (init c) = false -> outs (run (init c) ins) = [] /\ st (run (init c) ins) = NotListening.
Proof. intros c ins. apply run_disabled_silent. Qed.

(*    the ports announced are exactly those of the tcp interfaces in the list (in order); that the list holds the
      interfaces actually opened is the pair of source facts server_passes_opened_interfaces /
      interfaces_registered_after_open of C19_source_facts *)
Theorem C19_ports_opened : forall c p,
  In p (l_ports (init c)) <->
  exists scheme, In (scheme, p) (c_ifaces c) /\ starts_with K_tcp (uri (scheme, p)) = true.
Proof. intros c p. destruct (init_frame c) as (_ & _ & -> & _). apply ports_of_in. Qed.

(* 6. answers iff discovery request: whatever a listening responder receives, it sends one message per port to the
      sender if the datagram is a discovery request, and nothing otherwise (full strength) *)
Theorem C19_answers_iff : forall l s data p a,
  st s = Listening ->
  outs (lstep l s (IRecv data p a)) = outs s ++ (if is_request data p then answers l (DAddr a) else []).
Proof. exact answers_iff. Qed.

Theorem C19_is_request_meaning : forall data p,
  is_request data p = true <->
  (exists text, utf8_decode (firstn recv_bufsize data) = Some text) /\
  exists ms, p = PObj ms /\ lookup K_SECoP ms = Some (Some K_discover).
Proof. exact is_request_spec. Qed.

(* 7. keeps answering, full strength: every datagram -- any bytes, any JSON value -- leaves the responder
      listening *)
Theorem C19_survives : forall l s data p a,
  st s = Listening -> st (lstep l s (IRecv data p a)) = Listening.
Proof. exact survives. Qed.

(*    and over whole histories: after any sequence of datagrams the responder listens and has answered exactly the
      requests among them, in order; only a socket error (shutdown) ends the loop *)
Theorem C19_keeps_answering : forall l ins,
  l_enabled l = true -> Forall is_recv ins ->
  st (run l ins) = Listening /\ outs (run l ins) = outs (start l) ++ flat_map (reply l) ins.
Proof. exact keeps_answering. Qed.

(* non-vacuity: a description of 300 euro signs is cut to 140 characters (whole characters: 3 bytes each), the
   messages have 508 bytes, a request from sender 2 is answered once per tcp port, other datagrams (an empty object,
   invalid UTF-8, the JSON number 5) are neither answered nor fatal *)
Definition demo_cfg : cfg :=
  {| c_eid := s2l "e"; c_version := s2l "v1"; c_desc := Some (repeat 8364 300);
     c_ifaces := [(s2l "tcp", 10767); (s2l "ws", 8010); (s2l "tcp", 1)]; c_bcast := false |}.
Example C19_demo :
  let l := init demo_cfg in
  let r := run l [IRecv (utf8_encode (s2l "{}")) (PObj []) 1; IRecv [255] PBad 0; IRecv [53] PScalar 0;
                  IRecv request_bytes request_parse 2] in
  (l_enabled l, List.length (l_desc l), l_ports l, st r, map (fun o => (fst o, blen (snd o))) (outs r))
  = (true, 140%nat, [10767; 1], Listening, [(DAddr 2, 508%Z); (DAddr 2, 504%Z)]).
Proof. vm_compute. reflexivity. Qed.

Print Assumptions C19_source_facts.
Print Assumptions C19_bounded.
Print Assumptions C19_wellformed.
Print Assumptions C19_char_boundary.
Print Assumptions C19_disabled_iff.
Print Assumptions C19_disabled_iff_identity_too_long_except_escapes.
Print Assumptions C19_identity_too_long_disables.
Print Assumptions C19_sends_good.
Print Assumptions C19_disabled_silent.
Print Assumptions C19_ports_opened.
Print Assumptions C19_answers_iff.
Print Assumptions C19_is_request_meaning.
Print Assumptions C19_survives.
Print Assumptions C19_keeps_answering.
Print Assumptions C19_refuted_disabled_though_identity_fits.
