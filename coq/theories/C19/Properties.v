(* C19 -- Discovery responder: bounded well-formed answers, unkillable by datagrams.
   Property theorems only; each is closed by a lemma of Lemmas*.v.  c ranges over all constructor arguments
   (equipment id, version, description of Unicode scalar values, any interface list, broadcast flag), ins over
   all histories of the socket (datagrams with what json.loads makes of them, socket errors).
   The code still violates the property in one way (Refuted.v: a description full of JSON-escaped characters
   disables the responder although the identity fits); theorem 4 carries the exact guard.  The two other defects
   found earlier were repaired in /repo (8298523, d6d9c1c): theorems 5 and 7 now hold without guard.
   Theorem 7 rests on the receive size of run() being below the nesting limit of json.loads (an obligation on the
   generated constants); theorem 8 covers the start-up of the interfaces in Server.run. *)
From Coq Require Import List Arith ZArith NArith Bool Lia String.
Import ListNotations.
Require Import FV.Gen.C19 FV.C19.Model FV.C19.LemmasUtf8 FV.C19.LemmasJson FV.C19.Lemmas FV.C19.LemmasServer
  FV.C19.Refuted.
Open Scope N_scope.

(* obligations on the facts regenerated from /repo (Gen/C19.v): the source still has the modelled shape *)
Theorem C19_source_facts :
  run_shape = true /\ budget_shape = true /\ init_assignments = true /\
  dumps_compact_no_ascii_escape = true /\
  msg_keys = [s2l "SECoP"; s2l "port"; s2l "equipment_id"; s2l "firmware"; s2l "description"] /\
  msg_values = [s2l "'node'"; s2l "port"; s2l "self.equipment_id"; s2l "self.firmware"; s2l "self.description"] /\
  getmsg_args = [s2l "self"; s2l "port"] /\
  firmware_prefix = s2l "FRAPPY " /\
  loads_catches = [s2l "ValueError"] /\
  filter_expr = s2l "not isinstance(request, dict) or request.get('SECoP') != 'discover'" /\
  broadcast_guarded_by_enabled = true /\
  server_passes_opened_interfaces = true /\ interfaces_registered_after_open = true /\
  tcp_port_parse_agrees = true /\
  server_startup_shape = true /\ interface_thread_shape = true /\ startup_broadcast_default = true /\
  budget_port = 65535 /\ (0 < MAX_MESSAGE_LEN)%Z /\ 0 < recv_bufsize /\ 0 < UDP_PORT /\
  (* the datagram is cut to fewer bytes than json.loads needs nesting levels to raise a RecursionError *)
  recv_bufsize < json_depth_limit.
Proof. repeat split; reflexivity. Qed.

(* the same obligation in the form the theorems about the receive loop use it *)
Theorem C19_recv_below_limit : (recv_size < N.to_nat json_depth_limit)%nat.
Proof.
  unfold recv_size. apply Nat.compare_lt_iff. rewrite <- N2Nat.inj_compare.
  destruct C19_source_facts as (_ & _ & _ & _ & _ & _ & _ & _ & _ & _ & _ & _ & _ & _ & _ & _ & _ & _ & _ & _ & _ & H).
  exact H.
Qed.

(* 1. at most MAX_MESSAGE_LEN (508) bytes for every port a TCP server can listen on, whenever the responder is
      enabled *)
Theorem C19_bounded : forall c port,
  wf_cfg c -> l_enabled (init c) = true -> port <= 65535 ->
  (blen (message (init c) port) <= MAX_MESSAGE_LEN)%Z.
Proof. exact bounded. Qed.

(* 2. every message is valid UTF-8 and a JSON object that reads back as exactly the port, the equipment id, the
      firmware string and the description the listener holds, which is a prefix of the configured one *)
Theorem C19_wellformed : forall c port,
  wf_cfg c -> port <= 65535 ->
  let l := init c in
  utf8_decode (message l port) = Some (msg_text port (l_eid l) (l_fw l) (l_desc l)) /\
  read_msg (msg_text port (l_eid l) (l_fw l) (l_desc l))
    = Some (port, c_eid c, firmware_prefix ++ c_version c, l_desc l) /\
  prefix_of (l_desc l) (desc0 c).
Proof. exact wellformed. Qed.

(* 3. truncation on a character boundary: the description kept is a prefix (in whole code points) of the
      configured one; it is the whole one if the message fits; and if a character was dropped, it would not have
      fitted into the bytes that raw-length budgeting grants *)
Theorem C19_char_boundary : forall c,
  valid (desc0 c) ->
  prefix_of (l_desc (init c)) (desc0 c) /\ valid (l_desc (init c)) /\
  ((blen (message (base c) budget_port) <= MAX_MESSAGE_LEN)%Z -> init c = base c) /\
  (forall ch rest, l_enabled (init c) = true -> desc0 c = l_desc (init c) ++ ch :: rest ->
     (rawlen (desc0 c) + avail c < rawlen (l_desc (init c) ++ [ch]))%Z).
Proof.
  intros c Hv. split; [apply init_desc_prefix; exact Hv|]. split; [apply init_desc_valid; exact Hv|].
  split; [apply init_desc_whole; exact Hv|]. intros ch rest. apply init_desc_maximal. exact Hv.
Qed.

(* 4. when is the responder disabled?  Exactly when the identity alone (5 digit port, empty description) plus the
      bytes that JSON escaping adds to the description exceed the limit ... *)
Theorem C19_disabled_iff : forall c, valid (desc0 c) ->
  (l_enabled (init c) = false <->
   (MAX_MESSAGE_LEN < identity_len c + (esclen (desc0 c) - rawlen (desc0 c)))%Z).
Proof. exact disabled_iff. Qed.

(*    ... hence (full statement: disabled iff the identity alone does not fit) only for descriptions without
      characters that JSON escapes; C19_refuted_disabled_though_identity_fits shows the guard is needed ... *)
Theorem C19_disabled_iff_identity_too_long_except_escapes : forall c,
  valid (desc0 c) -> no_escapes (desc0 c) ->
  (l_enabled (init c) = false <-> (MAX_MESSAGE_LEN < identity_len c)%Z).
Proof.
  intros c Hv Hn. rewrite (disabled_iff c Hv), (esclen_no_escapes _ Hn). split; intro; lia.
Qed.

(*    ... while an identity that does not fit always disables *)
Theorem C19_identity_too_long_disables : forall c,
  valid (desc0 c) -> (MAX_MESSAGE_LEN < identity_len c)%Z -> l_enabled (init c) = false.
Proof.
  intros c Hv H. apply (disabled_iff c Hv). pose proof (esclen_ge_rawlen (desc0 c)). lia.
Qed.

(* 5. each announcement or answer is a good datagram: it announces a tcp port of the interface list handed over by
      the server, has at most 508 bytes, is valid UTF-8 and a JSON object carrying port, identity and description.
      Full strength: every configuration, every history of the socket (a disabled responder sends nothing) *)
Theorem C19_sends_good : forall c ins,
  wf_cfg c -> (forall p, In p (ports_of (c_ifaces c)) -> p <= 65535) ->
  Forall (good_datagram c) (outs (run (init c) ins)).
Proof. exact sends_good. Qed.

Theorem C19_disabled_silent : forall c ins,
  l_enabled (init c) = false -> outs (run (init c) ins) = [] /\ st (run (init c) ins) = NotListening.
Proof. intros c ins. apply run_disabled_silent. Qed.

(*    the ports announced are exactly those of the tcp interfaces in the list (in order); that the list holds the
      interfaces actually opened is the pair of source facts server_passes_opened_interfaces /
      interfaces_registered_after_open of C19_source_facts *)
Theorem C19_ports_opened : forall c p,
  In p (l_ports (init c)) <->
  exists scheme, In (scheme, p) (c_ifaces c) /\ starts_with K_tcp (uri (scheme, p)) = true.
Proof. intros c p. destruct (init_frame c) as (_ & _ & -> & _). apply ports_of_in. Qed.

(* 6. answers iff discovery request: whatever a listening responder receives, it sends one message per port to the
      sender if the datagram is a discovery request, and nothing otherwise (full strength) *)
Theorem C19_answers_iff : forall l s data p a,
  st s = Listening ->
  outs (lstep l s (IRecv data p a)) = outs s ++ (if is_request data p then answers l (DAddr a) else []).
Proof. exact answers_iff. Qed.

Theorem C19_is_request_meaning : forall data p,
  is_request data p = true <->
  (exists text, utf8_decode (received data) = Some text) /\
  exists ms, p = PObj ms /\ lookup K_SECoP ms = Some (Some K_discover).
Proof. exact is_request_spec. Qed.

(* 7. keeps answering.  The loop catches ValueError only; what else json.loads can raise is a RecursionError, and
      only on text with at least json_depth_limit nested brackets (loads_law: the law assumed of CPython, measured
      and checked on every generated datagram).  The thread is ended by exactly such datagrams ... *)
Theorem C19_killed_iff : forall l s data p a,
  st s = Listening ->
  (st (lstep l s (IRecv data p a)) = Killed <->
   (exists text, utf8_decode (received data) = Some text) /\ p = PRaise).
Proof.
  intros l s data p a H. rewrite (killed_iff l s data p a H). unfold is_killer.
  destruct (utf8_decode (received data)) as [t|].
  - destruct p; split; try discriminate; try (intros (_ & E); discriminate); eauto.
  - split; [discriminate | intros ((t & E) & _); discriminate].
Qed.

(*    ... which cannot arrive when the receive size is below the limit: for every receive size and every limit
      above it, every datagram -- any bytes, any JSON value -- leaves the responder listening ... *)
Theorem C19_survives_if_recv_below_limit : forall limit l s data p a,
  (recv_size < limit)%nat -> loads_law limit (received data) p ->
  st s = Listening -> st (lstep l s (IRecv data p a)) = Listening.
Proof. exact survives. Qed.

(*    ... in particular for the code as it is: recvfrom(1024) against the measured limit (the obligation
      recv_bufsize < json_depth_limit of C19_source_facts) *)
Theorem C19_survives : forall l s data p a,
  loads_law (N.to_nat json_depth_limit) (received data) p ->
  st s = Listening -> st (lstep l s (IRecv data p a)) = Listening.
Proof. intros l s data p a. apply survives. exact C19_recv_below_limit. Qed.

(*    and over whole histories: after any sequence of datagrams the responder listens and has answered exactly the
      requests among them, in order; only a socket error (shutdown) ends the loop *)
Theorem C19_keeps_answering : forall l ins,
  l_enabled l = true -> Forall (recv_ok (N.to_nat json_depth_limit)) ins ->
  st (run l ins) = Listening /\ outs (run l ins) = outs (start l) ++ flat_map (reply l) ins.
Proof. intros l ins. apply keeps_answering. exact C19_recv_below_limit. Qed.

(* 8. a TCP port it really listens on: Server.run starts one thread per configured interface; evs is what these
      threads did before the server went on -- (i, true): thread i constructed (bound) its interface and registered
      it, (i, false): its constructor raised, no event: still inside the constructor when the start-up time-out
      expired -- in any order, any number of them.  Whatever happened, every datagram the responder ever sends
      announces the tcp port of an interface that was opened ... *)
Theorem C19_ports_are_open : forall conf evs ifs eid ver desc ins o,
  handed conf evs = Some ifs ->
  In o (outs (run (init (node_cfg eid ver desc ifs)) ins)) ->
  exists i scheme p,
    In (i, true) evs /\ nth_error (map normalise conf) i = Some (scheme, p) /\
    starts_with K_tcp (uri (scheme, p)) = true /\
    snd o = message (init (node_cfg eid ver desc ifs)) p.
Proof. exact ports_are_open. Qed.

(*    ... every opened tcp interface is announced, each interface once ... *)
Theorem C19_open_ports_announced : forall conf evs ifs eid ver desc i scheme p,
  handed conf evs = Some ifs ->
  In (i, true) evs -> nth_error (map normalise conf) i = Some (scheme, p) ->
  starts_with K_tcp (uri (scheme, p)) = true ->
  In p (l_ports (init (node_cfg eid ver desc ifs))).
Proof. exact open_ports_announced. Qed.

Theorem C19_handed_interfaces : forall conf evs ifs,
  handed conf evs = Some ifs ->
  ifs <> [] /\ NoDup ifs /\ forall u, In u ifs <-> opened_by (map normalise conf) evs u.
Proof. exact handed_spec. Qed.

(*    ... and no responder is created exactly when no interface was opened *)
Theorem C19_no_responder_iff_nothing_opened : forall conf evs,
  handed conf evs = None <-> forall u, ~ opened_by (map normalise conf) evs u.
Proof. exact handed_none. Qed.

(* non-vacuity: a description of 300 euro signs is cut to 140 characters (whole characters: 3 bytes each), the
   messages have 508 bytes, a request from sender 2 is answered once per tcp port, other datagrams (an empty object,
   invalid UTF-8, the JSON number 5) are neither answered nor fatal *)
Definition demo_cfg : cfg :=
  {| c_eid := s2l "e"; c_version := s2l "v1"; c_desc := Some (repeat 8364 300);
     c_ifaces := [(s2l "tcp", 10767); (s2l "ws", 8010); (s2l "tcp", 1)]; c_bcast := false |}.
Example C19_demo :
  let l := init demo_cfg in
  let r := run l [IRecv (utf8_encode (s2l "{}")) (PObj []) 1; IRecv [255] PBad 0; IRecv [53] PScalar 0;
                  IRecv request_bytes request_parse 2] in
  (l_enabled l, List.length (l_desc l), l_ports l, st r, map (fun o => (fst o, blen (snd o))) (outs r))
  = (true, 140%nat, [10767; 1], Listening, [(DAddr 2, 508%Z); (DAddr 2, 504%Z)]).
Proof. vm_compute. reflexivity. Qed.

(* non-vacuity of the law hypothesis of theorem 7: the model can express the kill -- json.loads raising on valid
   UTF-8 ends the loop -- so C19_survives really rests on the receive size obligation *)
Example C19_demo_killer :
  st (run (init demo_cfg) [IRecv (repeat 91 2000) PRaise 0; IRecv request_bytes request_parse 2]) = Killed
  /\ loads_law_b (N.to_nat json_depth_limit) (received (repeat 91 2000)) PRaise = false.
Proof. vm_compute. split; reflexivity. Qed.

(* non-vacuity of theorem 8: four configured interfaces (the second one a bare number); the ws interface and the
   first tcp interface come up (in this order), the last one fails, the second one hangs until the time-out: the
   responder gets the two opened ones and announces port 10767 only, although the local list of the server still
   holds the hanging tcp://10768 *)
Example C19_demo_startup :
  let conf := [(Some (s2l "tcp"), 10767); (None, 10768); (Some (s2l "ws"), 8010); (Some (s2l "tcp"), 10769)] in
  let evs := [(2, true); (0, true); (3, false)]%nat in
  handed conf evs = Some [(s2l "ws", 8010); (s2l "tcp", 10767)] /\
  s_list (startup (map normalise conf) evs) = [(s2l "tcp", 10767); (s2l "tcp", 10768); (s2l "ws", 8010)] /\
  l_ports (init (node_cfg (s2l "e") (s2l "v1") None [(s2l "ws", 8010); (s2l "tcp", 10767)])) = [10767].
Proof. vm_compute. repeat split; reflexivity. Qed.

Print Assumptions C19_source_facts.
Print Assumptions C19_recv_below_limit.
Print Assumptions C19_bounded.
Print Assumptions C19_wellformed.
Print Assumptions C19_char_boundary.
Print Assumptions C19_disabled_iff.
Print Assumptions C19_disabled_iff_identity_too_long_except_escapes.
Print Assumptions C19_identity_too_long_disables.
Print Assumptions C19_sends_good.
Print Assumptions C19_disabled_silent.
Print Assumptions C19_ports_opened.
Print Assumptions C19_answers_iff.
Print Assumptions C19_is_request_meaning.
Print Assumptions C19_killed_iff.
Print Assumptions C19_survives_if_recv_below_limit.
Print Assumptions C19_survives.
Print Assumptions C19_keeps_answering.
Print Assumptions C19_ports_are_open.
Print Assumptions C19_open_ports_announced.
Print Assumptions C19_handed_interfaces.
Print Assumptions C19_no_responder_iff_nothing_opened.
Print Assumptions C19_refuted_disabled_though_identity_fits.
