(* C19 -- property theorems (stub while the correspondence is being built) *)
From Coq Require Import List Arith ZArith NArith Bool.
Import ListNotations.
Require Import FV.Gen.C19 FV.C19.Model.

Theorem C19_source_facts : run_shape = true /\ budget_shape = true.
Proof. split; reflexivity. Qed.
Print Assumptions C19_source_facts.
