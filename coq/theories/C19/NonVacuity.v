(* C19 -- vacuity audit: for every theorem of Properties.v its premises are instantiated with concrete, non-trivial
   terms and the theorem is applied.  Nothing here is part of the property; the examples only show that the
   hypotheses of the theorems can be met together, by instances of the shape the correspondence driver (Run.v)
   builds: constructor arguments through xs, datagrams through mk_input / xb, start-up through handed.

   The instance:
   - aud_cfg: equipment id with a two byte and a four byte character, description of 60 blocks
     [euro sign; double quote; line feed; U+1F600; a] (600 raw bytes, 720 bytes inside a JSON string), three
     interfaces (two of them tcp, one with the largest port), start-up broadcast on.  The description is truncated
     in the middle of a multi byte character, the responder stays enabled.
   - aud_dgrams: seven datagrams from four senders: an empty object, invalid UTF-8, a JSON number, a discovery
     request, 1000 opening brackets (json.loads answers with a ValueError), an object whose SECoP member is not
     discover, a second request with further members.
   - aud_conf / aud_evs: five configured interfaces (one a bare number); three come up, one fails, one hangs. *)
From Coq Require Import List Arith ZArith NArith Bool Lia String.
From Coq Require Import Init.Byte.
Import ListNotations.
Require Import FV.Base.Util FV.Gen.C19 FV.C19.Model FV.C19.LemmasUtf8 FV.C19.LemmasJson FV.C19.Lemmas
  FV.C19.LemmasServer FV.C19.Refuted FV.C19.Run FV.C19.Properties.
Open Scope N_scope.

(* ------------------------------------------------------------------ bridges from boolean checks *)
Definition recv_ok_b (limit : nat) (i : input) : bool :=
  match i with IRecv data p _ => loads_law_b limit (received data) p | IError => false end.

Lemma recv_ok_of_b limit ins : forallb (recv_ok_b limit) ins = true -> Forall (recv_ok limit) ins.
Proof.
  intro H. apply Forall_forall. intros i Hi. rewrite forallb_forall in H. specialize (H i Hi).
  destruct i; [exact H | discriminate].
Qed.

Definition no_escape_b (c : N) : bool := match esc1 c with [d] => d =? c | _ => false end.

Lemma no_escapes_of_b s : forallb no_escape_b s = true -> no_escapes s.
Proof.
  intro H. apply Forall_forall. intros c Hc. rewrite forallb_forall in H. specialize (H c Hc).
  unfold no_escape_b in H. destruct (esc1 c) as [|d [|e r]]; try discriminate.
  apply N.eqb_eq in H. subst d. reflexivity.
Qed.

(* ------------------------------------------------------------------ the instance *)
Definition aud_block : list N := [8364; 34; 10; 128512; 97].

Definition aud_cfg : cfg :=
  {| c_eid := xs [([233; 113], 2%nat); ([128512], 1%nat); ([113], 2%nat)];
     c_version := xs [(s2l "1.2", 1%nat)];
     c_desc := option_map xs (Some [(aud_block, 60%nat)]);
     c_ifaces := [(s2l "tcp", 10767); (s2l "ws", 8010); (s2l "tcp", 65535)];
     c_bcast := true |}.

(* the bytes of {"SECoP":"discover"} *)
Definition aud_req : list byte :=
  [x7b; x22; x53; x45; x43; x6f; x50; x22; x3a; x22; x64; x69; x73; x63; x6f; x76; x65; x72; x22; x7d].

Definition aud_dgrams : list dgram :=
  [DG [([x7b; x7d], 1%nat)] (PObj []) 1;
   DG [([xff], 1%nat)] PBad 0;
   DG [([x35], 1%nat)] PScalar 0;
   DG [(aud_req, 1%nat)] request_parse 2;
   DG [([x5b], 1000%nat)] PBad 3;
   DG [(aud_req, 1%nat)] (PObj [(K_SECoP, Some (s2l "describe"))]) 1;
   DG [(aud_req, 1%nat)] (PObj [(s2l "x", None); (K_SECoP, Some K_discover); (s2l "y", Some (s2l "z"))]) 3].

Definition aud_ins : list input := map mk_input aud_dgrams.

Example aud_req_is_request_bytes : xb [(aud_req, 1%nat)] = request_bytes.
Proof. vm_compute. reflexivity. Qed.

Lemma aud_wf : wf_cfg aud_cfg.
Proof. repeat split; apply valid_closed; vm_compute; reflexivity. Qed.

Lemma aud_ports_le : forall p, In p (ports_of (c_ifaces aud_cfg)) -> p <= 65535.
Proof. intros p H. vm_compute in H. destruct H as [<-|[<-|[]]]; vm_compute; discriminate. Qed.

(* what the instance looks like: enabled, 600 raw bytes cut to 143 whole characters (285 bytes; the budget of 288
   bytes ends inside the four byte character that follows), two tcp ports, the announcement for the longest port has 443
   bytes *)
Example aud_shape :
  (l_enabled (init aud_cfg), List.length (desc0 aud_cfg), List.length (l_desc (init aud_cfg)),
   rawlen (desc0 aud_cfg), esclen (desc0 aud_cfg), rawlen (l_desc (init aud_cfg)),
   (rawlen (desc0 aud_cfg) + avail aud_cfg)%Z, l_ports (init aud_cfg),
   blen (message (init aud_cfg) 65535))
  = (true, 300%nat, 143%nat, 600%Z, 720%Z, 285%Z, 288%Z, [10767; 65535], 443%Z).
Proof. vm_compute. reflexivity. Qed.

(* ------------------------------------------------------------------ 1. C19_bounded
   premises: wf_cfg c, l_enabled (init c) = true, port <= 65535 *)
Example C19_bounded_applies : (blen (message (init aud_cfg) 65535) <= MAX_MESSAGE_LEN)%Z.
Proof. apply C19_bounded; [exact aud_wf | vm_compute; reflexivity | vm_compute; discriminate]. Qed.

(* the same for a configuration that is not truncated at all and for the one of C19_demo (cut on a character
   boundary, 508 bytes exactly) *)
Definition small_cfg : cfg :=
  {| c_eid := s2l "eq"; c_version := s2l "v1"; c_desc := None;
     c_ifaces := [(s2l "tcp", 10767)]; c_bcast := false |}.

Lemma small_wf : wf_cfg small_cfg.
Proof. repeat split; apply valid_closed; vm_compute; reflexivity. Qed.

Lemma demo_wf : wf_cfg demo_cfg.
Proof. repeat split; apply valid_closed; vm_compute; reflexivity. Qed.

Example C19_bounded_applies_untruncated : (blen (message (init small_cfg) 0) <= MAX_MESSAGE_LEN)%Z.
Proof. apply C19_bounded; [exact small_wf | vm_compute; reflexivity | vm_compute; discriminate]. Qed.

Example C19_bounded_applies_tight : (blen (message (init demo_cfg) 10767) <= MAX_MESSAGE_LEN)%Z.
Proof. apply C19_bounded; [exact demo_wf | vm_compute; reflexivity | vm_compute; discriminate]. Qed.

(* ------------------------------------------------------------------ 2. C19_wellformed
   premises: wf_cfg c, port <= 65535 *)
Example C19_wellformed_applies :
  let l := init aud_cfg in
  utf8_decode (message l 10767) = Some (msg_text 10767 (l_eid l) (l_fw l) (l_desc l)) /\
  read_msg (msg_text 10767 (l_eid l) (l_fw l) (l_desc l))
    = Some (10767, c_eid aud_cfg, firmware_prefix ++ c_version aud_cfg, l_desc l) /\
  prefix_of (l_desc l) (desc0 aud_cfg).
Proof. apply C19_wellformed; [exact aud_wf | vm_compute; discriminate]. Qed.

(* ------------------------------------------------------------------ 3. C19_char_boundary
   premise: valid (desc0 c); inside the conclusion: (a) the message of the untruncated listener fits,
   (b) the responder is enabled and a character ch was dropped.  (a) and (b) exclude each other for one
   configuration (as they should), each is met by a configuration of its own. *)
Example C19_char_boundary_applies :
  prefix_of (l_desc (init aud_cfg)) (desc0 aud_cfg) /\ valid (l_desc (init aud_cfg)) /\
  ((blen (message (base aud_cfg) budget_port) <= MAX_MESSAGE_LEN)%Z -> init aud_cfg = base aud_cfg) /\
  (forall ch rest, l_enabled (init aud_cfg) = true -> desc0 aud_cfg = l_desc (init aud_cfg) ++ ch :: rest ->
     (rawlen (desc0 aud_cfg) + avail aud_cfg < rawlen (l_desc (init aud_cfg) ++ [ch]))%Z).
Proof. apply C19_char_boundary. destruct aud_wf as (_ & _ & H). exact H. Qed.

(* (a): the inner premise of the third part holds for small_cfg, the part yields init = base *)
Example C19_char_boundary_whole_applies : init small_cfg = base small_cfg.
Proof.
  destruct (C19_char_boundary small_cfg) as (_ & _ & H & _).
  - destruct small_wf as (_ & _ & H). exact H.
  - apply H. vm_compute. discriminate.
Qed.

(* (b): the inner premises of the fourth part hold for aud_cfg with the dropped character U+1F600: it needs
   4 bytes where 3 are left *)
Example C19_char_boundary_dropped_applies :
  let kept := l_desc (init aud_cfg) in
  let ch := nth (List.length kept) (desc0 aud_cfg) 0 in
  ch = 128512 /\
  (rawlen (desc0 aud_cfg) + avail aud_cfg < rawlen (kept ++ [ch]))%Z /\
  (rawlen kept, (rawlen (desc0 aud_cfg) + avail aud_cfg)%Z, rawlen (kept ++ [ch])) = (285%Z, 288%Z, 289%Z).
Proof.
  intros kept ch. split; [vm_compute; reflexivity|]. split; [|vm_compute; reflexivity].
  destruct (C19_char_boundary aud_cfg) as (_ & _ & _ & H).
  - destruct aud_wf as (_ & _ & H). exact H.
  - apply (H ch (skipn (S (List.length kept)) (desc0 aud_cfg))); vm_compute; reflexivity.
Qed.

(* ------------------------------------------------------------------ 4. C19_disabled_iff and its corollaries
   premise: valid (desc0 c); both sides of the equivalence occur *)
Definition long_eid_cfg : cfg :=
  {| c_eid := repeat 120 240 ++ repeat 233 120; c_version := s2l "v1"; c_desc := Some (s2l "a fine node, 20 " ++ [8364]);
     c_ifaces := [(s2l "tcp", 10767)]; c_bcast := true |}.

Lemma long_eid_wf : wf_cfg long_eid_cfg.
Proof. repeat split; apply valid_closed; vm_compute; reflexivity. Qed.

Example C19_disabled_iff_both_sides :
  (* disabled by escapes although the identity fits, disabled by the identity, enabled *)
  (l_enabled (init cfg_escapes) = false /\
   (MAX_MESSAGE_LEN < identity_len cfg_escapes + (esclen (desc0 cfg_escapes) - rawlen (desc0 cfg_escapes)))%Z) /\
  (l_enabled (init long_eid_cfg) = false /\
   (MAX_MESSAGE_LEN < identity_len long_eid_cfg + (esclen (desc0 long_eid_cfg) - rawlen (desc0 long_eid_cfg)))%Z) /\
  (l_enabled (init aud_cfg) = true /\
   ~ (MAX_MESSAGE_LEN < identity_len aud_cfg + (esclen (desc0 aud_cfg) - rawlen (desc0 aud_cfg)))%Z).
Proof.
  assert (valid (desc0 cfg_escapes)) as V1 by (apply valid_closed; vm_compute; reflexivity).
  destruct long_eid_wf as (_ & _ & V2). destruct aud_wf as (_ & _ & V3).
  split; [|split].
  - assert (l_enabled (init cfg_escapes) = false) as E by (vm_compute; reflexivity).
    split; [exact E | apply (C19_disabled_iff _ V1); exact E].
  - assert (MAX_MESSAGE_LEN < identity_len long_eid_cfg
              + (esclen (desc0 long_eid_cfg) - rawlen (desc0 long_eid_cfg)))%Z as E by (vm_compute; reflexivity).
    split; [apply (C19_disabled_iff _ V2); exact E | exact E].
  - split; [vm_compute; reflexivity|]. intro H. apply (C19_disabled_iff _ V3) in H. vm_compute in H. discriminate.
Qed.

(* premises: valid (desc0 c), no_escapes (desc0 c); both sides occur (long identity / euro signs only) *)
Example C19_disabled_iff_identity_applies :
  l_enabled (init long_eid_cfg) = false /\ ~ (MAX_MESSAGE_LEN < identity_len demo_cfg)%Z.
Proof.
  split.
  - apply C19_disabled_iff_identity_too_long_except_escapes.
    + destruct long_eid_wf as (_ & _ & H). exact H.
    + apply no_escapes_of_b. vm_compute. reflexivity.
    + vm_compute. reflexivity.
  - intro H. apply C19_disabled_iff_identity_too_long_except_escapes in H.
    + vm_compute in H. discriminate.
    + destruct demo_wf as (_ & _ & H'). exact H'.
    + apply no_escapes_of_b. vm_compute. reflexivity.
Qed.

(* premises: valid (desc0 c), MAX_MESSAGE_LEN < identity_len c *)
Example C19_identity_too_long_disables_applies :
  l_enabled (init long_eid_cfg) = false /\ identity_len long_eid_cfg = 567%Z.
Proof.
  split; [|vm_compute; reflexivity].
  apply C19_identity_too_long_disables; [destruct long_eid_wf as (_ & _ & H); exact H | vm_compute; reflexivity].
Qed.

(* ------------------------------------------------------------------ 5. C19_sends_good, C19_disabled_silent,
   C19_ports_opened.  premises of C19_sends_good: wf_cfg c, every tcp port of the list is at most 65535 *)
Example C19_sends_good_applies :
  Forall (good_datagram aud_cfg) (outs (run (init aud_cfg) (aud_ins ++ [IError]))) /\
  (* ... and the Forall ranges over something: two broadcasts, two answers to sender 2, two to sender 3; the
     history is the one the driver produces (it ends with the socket error) *)
  (st (run (init aud_cfg) (aud_ins ++ [IError])), consumed (run (init aud_cfg) (aud_ins ++ [IError])),
   map (fun o => (fst o, blen (snd o))) (outs (run (init aud_cfg) (aud_ins ++ [IError]))))
  = (Returned, 8%nat,
     [(DBroadcast 10767, 443%Z); (DBroadcast 10767, 443%Z); (DAddr 2, 443%Z); (DAddr 2, 443%Z);
      (DAddr 3, 443%Z); (DAddr 3, 443%Z)]).
Proof.
  split; [apply C19_sends_good; [exact aud_wf | exact aud_ports_le] | vm_compute; reflexivity].
Qed.

(* premise: l_enabled (init c) = false; the history contains requests and the broadcast flag is set *)
Example C19_disabled_silent_applies :
  c_bcast long_eid_cfg = true /\
  outs (run (init long_eid_cfg) aud_ins) = [] /\ st (run (init long_eid_cfg) aud_ins) = NotListening.
Proof. split; [reflexivity|]. apply C19_disabled_silent. vm_compute. reflexivity. Qed.

(* an equivalence without premises; both sides hold for the largest port, both fail for the ws port *)
Example C19_ports_opened_applies :
  In 65535 (l_ports (init aud_cfg)) /\ ~ In 8010 (l_ports (init aud_cfg)).
Proof.
  split.
  - apply C19_ports_opened. exists (s2l "tcp"). split; [right; right; left; reflexivity | vm_compute; reflexivity].
  - intro H. vm_compute in H. destruct H as [H|[H|[]]]; discriminate.
Qed.

(* ------------------------------------------------------------------ 6. C19_answers_iff, C19_is_request_meaning
   premise: st s = Listening; s is the state reached after the first three datagrams, with the two broadcasts
   already sent *)
Definition aud_s3 : lstate := run (init aud_cfg) (firstn 3 aud_ins).

Example aud_s3_shape : (st aud_s3, consumed aud_s3, List.length (outs aud_s3)) = (Listening, 3%nat, 2%nat).
Proof. vm_compute. reflexivity. Qed.

Example C19_answers_iff_applies :
  (* a request: one answer per port *)
  outs (lstep (init aud_cfg) aud_s3 (IRecv request_bytes request_parse 2))
    = outs aud_s3 ++ answers (init aud_cfg) (DAddr 2) /\
  (* a JSON object that is no request: nothing *)
  outs (lstep (init aud_cfg) aud_s3 (IRecv request_bytes (PObj [(K_SECoP, Some (s2l "describe"))]) 2))
    = outs aud_s3 ++ [].
Proof.
  split.
  - rewrite C19_answers_iff by (vm_compute; reflexivity).
    replace (is_request request_bytes request_parse) with true by (vm_compute; reflexivity). reflexivity.
  - rewrite C19_answers_iff by (vm_compute; reflexivity).
    replace (is_request request_bytes (PObj [(K_SECoP, Some (s2l "describe"))])) with false
      by (vm_compute; reflexivity). reflexivity.
Qed.

(* an equivalence without premises: the right hand side is met by the request with further members (and so the
   left one), and refuted by the same bytes with another SECoP member *)
Example C19_is_request_meaning_applies :
  is_request request_bytes (PObj [(s2l "x", None); (K_SECoP, Some K_discover); (s2l "y", Some (s2l "z"))]) = true /\
  is_request request_bytes (PObj [(K_SECoP, Some (s2l "describe"))]) = false.
Proof.
  split.
  - apply C19_is_request_meaning. split.
    + eexists. vm_compute. reflexivity.
    + eexists. split; [reflexivity | vm_compute; reflexivity].
  - vm_compute. reflexivity.
Qed.

(* ------------------------------------------------------------------ 7. C19_killed_iff, C19_survives*,
   C19_keeps_answering *)
(* premise: st s = Listening; both sides of the equivalence occur: 2000 opening brackets on which json.loads
   raises a RecursionError (only possible on an interpreter whose limit is below the receive size: the model can
   express it, the law excludes it), and they fail together for the same bytes with a ValueError *)
Example C19_killed_iff_applies :
  st (lstep (init aud_cfg) aud_s3 (IRecv (repeat 91 2000) PRaise 0)) = Killed /\
  st (lstep (init aud_cfg) aud_s3 (IRecv (repeat 91 2000) PBad 0)) <> Killed.
Proof.
  split.
  - apply C19_killed_iff; [vm_compute; reflexivity|]. split; [eexists; vm_compute; reflexivity | reflexivity].
  - intro H. apply C19_killed_iff in H; [|vm_compute; reflexivity]. destruct H as (_ & H). discriminate.
Qed.

(* premises: recv_size < limit, loads_law limit (received data) p, st s = Listening.
   Instance with a limit of its own (1100) and the datagram of 1000 brackets answered by a ValueError. *)
Example C19_survives_if_recv_below_limit_applies :
  st (lstep (init aud_cfg) aud_s3 (IRecv (xb [([x5b], 1000%nat)]) PBad 3)) = Listening.
Proof.
  apply (C19_survives_if_recv_below_limit 1100); [vm_compute; lia | vm_compute; reflexivity | vm_compute; reflexivity].
Qed.

(* the premises recv_size < limit and loads_law limit _ PRaise exclude each other -- that is the content of the
   theorem, not an accident: for p = PRaise the law asks for at least limit brackets among at most recv_size bytes.
   Shown here on the datagram with the most brackets a datagram can have.  For every other p the law holds
   trivially, so the premises are met by every datagram on which json.loads returns or raises a ValueError. *)
Example C19_survives_law_excludes_raise :
  loads_law_b (S recv_size) (received (repeat 91 5000)) PRaise = false /\
  loads_law_b recv_size (received (repeat 91 5000)) PRaise = true.
Proof. vm_compute. split; reflexivity. Qed.

(* premises: loads_law at the measured limit, st s = Listening; here for the request *)
Example C19_survives_applies :
  st (lstep (init aud_cfg) aud_s3 (IRecv request_bytes request_parse 2)) = Listening.
Proof. apply C19_survives; vm_compute; reflexivity. Qed.

(* premises: l_enabled l = true, every input is a datagram obeying the law.  The seven datagrams of the
   instance, built by mk_input as the driver does; law_ok of Run.v is the same check *)
Lemma aud_ins_ok : Forall (recv_ok (N.to_nat json_depth_limit)) aud_ins.
Proof. apply recv_ok_of_b. vm_compute. reflexivity. Qed.

Example aud_law_ok_as_in_run :
  forallb (fun d => match d with
                    | DG data p _ => loads_law_b (N.to_nat json_depth_limit) (received (xb data)) p
                    | DErr => true
                    end) aud_dgrams = true.
Proof. vm_compute. reflexivity. Qed.

Example C19_keeps_answering_applies :
  st (run (init aud_cfg) aud_ins) = Listening /\
  outs (run (init aud_cfg) aud_ins) = outs (start (init aud_cfg)) ++ flat_map (reply (init aud_cfg)) aud_ins.
Proof. apply C19_keeps_answering; [vm_compute; reflexivity | exact aud_ins_ok]. Qed.

Example C19_keeps_answering_nontrivial :
  (List.length aud_ins, List.length (outs (start (init aud_cfg))),
   map (fun i => List.length (reply (init aud_cfg) i)) aud_ins)
  = (7%nat, 2%nat, [0; 0; 0; 2; 0; 0; 2]%nat).
Proof. vm_compute. reflexivity. Qed.

(* ------------------------------------------------------------------ 8. start-up of the interfaces *)
Definition aud_conf : list cfg_iface :=
  [(Some (s2l "tcp"), 10767); (None, 10768); (Some (s2l "ws"), 8010); (Some (s2l "tcp"), 10769);
   (Some (s2l "tcp"), 10770)].
(* ws first, then the bare number, then tcp://10767; tcp://10769 fails; tcp://10770 hangs *)
Definition aud_evs : list (nat * bool) := [(2, true); (1, true); (3, false); (0, true)]%nat.
Definition aud_ifs : list (str * N) := [(s2l "ws", 8010); (s2l "tcp", 10768); (s2l "tcp", 10767)].

Lemma aud_handed : handed aud_conf aud_evs = Some aud_ifs.
Proof. vm_compute. reflexivity. Qed.

Definition aud_node : cfg := node_cfg (c_eid aud_cfg) (c_version aud_cfg) (c_desc aud_cfg) aud_ifs.

(* premises: handed conf evs = Some ifs, o is among the datagrams sent.  o is the answer to the second request
   for the second port (index 5 of 6 datagrams) *)
Example C19_ports_are_open_applies :
  let o := (DAddr 3, message (init aud_node) 10767) in
  nth_error (outs (run (init aud_node) (aud_ins ++ [IError]))) 5 = Some o /\
  List.length (outs (run (init aud_node) (aud_ins ++ [IError]))) = 6%nat /\
  exists i scheme p,
    In (i, true) aud_evs /\ nth_error (map normalise aud_conf) i = Some (scheme, p) /\
    starts_with K_tcp (uri (scheme, p)) = true /\ snd o = message (init aud_node) p.
Proof.
  intro o. assert (nth_error (outs (run (init aud_node) (aud_ins ++ [IError]))) 5 = Some o) as E
    by (vm_compute; reflexivity).
  split; [exact E|]. split; [vm_compute; reflexivity|].
  apply (C19_ports_are_open aud_conf aud_evs aud_ifs (c_eid aud_cfg) (c_version aud_cfg) (c_desc aud_cfg)
           (aud_ins ++ [IError]) o aud_handed).
  exact (nth_error_In _ _ E).
Qed.

(* premises: handed = Some ifs, thread i reported success, it was started for (scheme, p), a tcp uri.
   The bare number 10768 (thread 1) that the server turned into tcp://10768 *)
Example C19_open_ports_announced_applies :
  In 10768 (l_ports (init aud_node)) /\ l_ports (init aud_node) = [10768; 10767].
Proof.
  split; [|vm_compute; reflexivity].
  apply (C19_open_ports_announced aud_conf aud_evs aud_ifs _ _ _ 1%nat (s2l "tcp") 10768 aud_handed).
  - right. left. reflexivity.
  - vm_compute. reflexivity.
  - vm_compute. reflexivity.
Qed.

(* premise: handed = Some ifs *)
Example C19_handed_interfaces_applies :
  aud_ifs <> [] /\ NoDup aud_ifs /\ forall u, In u aud_ifs <-> opened_by (map normalise aud_conf) aud_evs u.
Proof. apply (C19_handed_interfaces aud_conf aud_evs). exact aud_handed. Qed.

(* an equivalence without premises: the left side holds when two threads fail and the others hang, and fails
   for the instance above *)
Example C19_no_responder_applies :
  (forall u, ~ opened_by (map normalise aud_conf) [(3, false); (0, false)]%nat u) /\
  ~ (forall u, ~ opened_by (map normalise aud_conf) aud_evs u).
Proof.
  split.
  - apply C19_no_responder_iff_nothing_opened. vm_compute. reflexivity.
  - intro H. apply C19_no_responder_iff_nothing_opened in H. vm_compute in H. discriminate.
Qed.

Print Assumptions C19_bounded_applies.
Print Assumptions C19_wellformed_applies.
Print Assumptions C19_char_boundary_dropped_applies.
Print Assumptions C19_disabled_iff_both_sides.
Print Assumptions C19_disabled_iff_identity_applies.
Print Assumptions C19_identity_too_long_disables_applies.
Print Assumptions C19_sends_good_applies.
Print Assumptions C19_disabled_silent_applies.
Print Assumptions C19_answers_iff_applies.
Print Assumptions C19_killed_iff_applies.
Print Assumptions C19_survives_if_recv_below_limit_applies.
Print Assumptions C19_survives_applies.
Print Assumptions C19_keeps_answering_applies.
Print Assumptions C19_ports_are_open_applies.
Print Assumptions C19_open_ports_announced_applies.
Print Assumptions C19_handed_interfaces_applies.
Print Assumptions C19_no_responder_applies.
