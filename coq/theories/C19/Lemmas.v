(* C19 -- lemmas about the constructor (length budgeting, truncation, disabling) and the receive loop
   (answers exactly the discovery requests, which datagrams end it, what it sends). *)
From Coq Require Import List Arith ZArith NArith Bool Lia.
Import ListNotations.
Require Import FV.Gen.C19 FV.C19.Model FV.C19.LemmasUtf8 FV.C19.LemmasJson.
Open Scope N_scope.

Ltac Zify.zify_post_hook ::= Z.to_euclidean_division_equations.

(* ------------------------------------------------------------------ vocabulary of the statements *)
Definition desc0 (c : cfg) : str := match c_desc c with Some d => d | None => [] end.

Definition wf_cfg (c : cfg) : Prop := valid (c_eid c) /\ valid (c_version c) /\ valid (desc0 c).

(* the listener before budgeting *)
Definition base (c : cfg) : listener :=
  {| l_eid := c_eid c; l_fw := firmware_prefix ++ c_version c; l_desc := desc0 c;
     l_ports := ports_of (c_ifaces c); l_enabled := true; l_bcast := c_bcast c |}.

Definition avail (c : cfg) : Z := (MAX_MESSAGE_LEN - blen (message (base c) budget_port))%Z.
Definition rawlen (s : str) : Z := blen (utf8_encode s).       (* bytes of the text itself *)
Definition esclen (s : str) : Z := blen (utf8_encode (escape s)). (* bytes of the text inside a JSON string *)

(* bytes of the announcement with the longest port and an empty description: "the identity alone" *)
Definition identity_len (c : cfg) : Z := blen (message (set_desc (base c) []) budget_port).

Definition no_escapes (s : str) : Prop := Forall (fun c => esc1 c = [c]) s.

Definition prefix_of (a b : str) : Prop := exists rest, b = a ++ rest.

(* ------------------------------------------------------------------ lengths *)
Lemma blen_app a b : blen (a ++ b) = (blen a + blen b)%Z.
Proof. unfold blen. rewrite app_length. lia. Qed.

Lemma esc1_length_ge c : (length (enc1 c) <= length (utf8_encode (esc1 c)))%nat.
Proof.
  unfold esc1.
  destruct (N.eqb_spec c 34) as [->|]; [cbn; lia|].
  destruct (N.eqb_spec c 92) as [->|]; [cbn; lia|].
  destruct (N.eqb_spec c 10) as [->|]; [cbn; lia|].
  destruct (N.eqb_spec c 13) as [->|]; [cbn; lia|].
  destruct (N.eqb_spec c 9) as [->|]; [cbn; lia|].
  destruct (N.eqb_spec c 8) as [->|]; [cbn; lia|].
  destruct (N.eqb_spec c 12) as [->|]; [cbn; lia|].
  destruct (N.ltb_spec c 32) as [L|L].
  - assert (enc1 c = [c]) as -> by (unfold enc1; destruct (N.ltb_spec c 128); [reflexivity | lia]).
    rewrite !utf8_encode_cons, !app_length.
    pose proof (enc1_length 92). cbn [length]. lia.
  - rewrite utf8_encode_cons, app_length. cbn. lia.
Qed.

Lemma esclen_ge_rawlen s : (rawlen s <= esclen s)%Z.
Proof.
  unfold rawlen, esclen. induction s as [|c s IH]; [cbn; lia|].
  rewrite escape_cons, utf8_encode_app, utf8_encode_cons, !blen_app.
  pose proof (esc1_length_ge c). unfold blen in *. lia.
Qed.

Lemma esclen_app a b : esclen (a ++ b) = (esclen a + esclen b)%Z.
Proof. unfold esclen. rewrite escape_app, utf8_encode_app. apply blen_app. Qed.

Lemma rawlen_app a b : rawlen (a ++ b) = (rawlen a + rawlen b)%Z.
Proof. unfold rawlen. rewrite utf8_encode_app. apply blen_app. Qed.

Lemma esclen_no_escapes s : no_escapes s -> esclen s = rawlen s.
Proof.
  unfold esclen, rawlen. induction 1 as [|c s Hc _ IH]; [reflexivity|].
  rewrite escape_cons, Hc, utf8_encode_app, (utf8_encode_cons c s), !blen_app, IH.
  cbn [utf8_encode flat_map]. rewrite app_nil_r. reflexivity.
Qed.

Definition hlen (port : N) (eid fw : str) : Z := blen (utf8_encode (msg_head port eid fw)).

Lemma message_length l port :
  blen (message l port) = (hlen port (l_eid l) (l_fw l) + esclen (l_desc l) + 3)%Z.
Proof.
  unfold message, msg_text, hlen, esclen, json_string.
  change (34 :: escape (l_desc l) ++ [34]) with ([34] ++ escape (l_desc l) ++ [34]).
  rewrite !utf8_encode_app, !blen_app.
  replace (blen (utf8_encode [34])) with 1%Z by reflexivity.
  match goal with |- context [blen (utf8_encode (s2l ?x))] =>
    replace (blen (utf8_encode (s2l x))) with 1%Z by reflexivity end.
  lia.
Qed.

Lemma hlen_port_le port eid fw : port <= 65535 -> (hlen port eid fw <= hlen budget_port eid fw)%Z.
Proof.
  intro Hp. unfold hlen, msg_head. rewrite !utf8_encode_app, !blen_app.
  rewrite (utf8_encode_ascii (digits port)) by (apply digits_ascii_le; exact Hp).
  pose proof (digits_length_le port Hp) as L.
  replace (blen (utf8_encode (digits budget_port))) with 5%Z by reflexivity.
  unfold blen at 2. lia.
Qed.

Lemma message_port_le l port : port <= 65535 -> (blen (message l port) <= blen (message l budget_port))%Z.
Proof. intro Hp. rewrite !message_length. pose proof (hlen_port_le port (l_eid l) (l_fw l) Hp). lia. Qed.

Lemma message_set_desc l d port :
  blen (message (set_desc l d) port) = (blen (message l port) - esclen (l_desc l) + esclen d)%Z.
Proof. rewrite !message_length. cbn [set_desc l_eid l_fw l_desc]. lia. Qed.

(* ------------------------------------------------------------------ the constructor *)
Lemma init_unfold c :
  init c = if (avail c <? 0)%Z then
             if (avail c + rawlen (desc0 c) <? 0)%Z then set_enabled (base c) false
             else set_desc (base c) (utf8_decode_ignore (py_slice_to (utf8_encode (desc0 c)) (avail c)))
           else base c.
Proof. reflexivity. Qed.

Lemma py_slice_to_neg {A} (l : list A) k : (k < 0)%Z -> (0 <= Z.of_nat (length l) + k)%Z ->
  py_slice_to l k = firstn (Z.to_nat (Z.of_nat (length l) + k)) l.
Proof.
  intros H1 H2. unfold py_slice_to. destruct (Z.ltb_spec k 0); [|lia]. rewrite Z.max_r by lia. reflexivity.
Qed.

Inductive init_case (c : cfg) : Prop :=
| IC_fits : (0 <= avail c)%Z -> init c = base c -> init_case c
| IC_disabled : (avail c + rawlen (desc0 c) < 0)%Z -> init c = set_enabled (base c) false -> init_case c
| IC_truncated : (avail c < 0)%Z -> (0 <= avail c + rawlen (desc0 c))%Z ->
    init c = set_desc (base c) (take_fit (Z.to_nat (rawlen (desc0 c) + avail c)) (desc0 c)) -> init_case c.

Lemma rawlen_nonneg s : (0 <= rawlen s)%Z.
Proof. unfold rawlen, blen. lia. Qed.

Lemma init_cases c : valid (desc0 c) -> init_case c.
Proof.
  intro Hv.
  destruct (Z.ltb_spec (avail c) 0) as [A|A].
  - destruct (Z.ltb_spec (avail c + rawlen (desc0 c)) 0) as [B|B].
    + apply IC_disabled; [exact B|]. rewrite init_unfold.
      destruct (Z.ltb_spec (avail c) 0); [|lia].
      destruct (Z.ltb_spec (avail c + rawlen (desc0 c)) 0); [reflexivity | lia].
    + apply IC_truncated; [exact A | exact B |]. rewrite init_unfold.
      destruct (Z.ltb_spec (avail c) 0); [|lia].
      destruct (Z.ltb_spec (avail c + rawlen (desc0 c)) 0); [lia|].
      f_equal. unfold rawlen, blen in *. rewrite py_slice_to_neg by lia.
      rewrite utf8_decode_ignore_cut by exact Hv. reflexivity.
  - apply IC_fits; [exact A|]. rewrite init_unfold. destruct (Z.ltb_spec (avail c) 0); [lia | reflexivity].
Qed.

(* what the constructor never touches *)
Lemma init_frame c : l_eid (init c) = c_eid c /\ l_fw (init c) = firmware_prefix ++ c_version c /\
  l_ports (init c) = ports_of (c_ifaces c) /\ l_bcast (init c) = c_bcast c.
Proof.
  rewrite init_unfold. destruct (avail c <? 0)%Z; [destruct (avail c + rawlen (desc0 c) <? 0)%Z|]; cbn; auto.
Qed.

Lemma init_desc_prefix c : valid (desc0 c) -> prefix_of (l_desc (init c)) (desc0 c).
Proof.
  intro Hv. destruct (init_cases c Hv) as [_ E|_ E|_ _ E]; rewrite E; cbn.
  - exists []. symmetry. apply app_nil_r.
  - exists []. symmetry. apply app_nil_r.
  - destruct (take_fit_split (Z.to_nat (rawlen (desc0 c) + avail c)) (desc0 c)) as (rest & E' & _).
    exists rest. exact E'.
Qed.

Lemma init_desc_valid c : valid (desc0 c) -> valid (l_desc (init c)).
Proof.
  intro Hv. destruct (init_desc_prefix c Hv) as (rest & E). rewrite E in Hv. apply valid_app in Hv. tauto.
Qed.

(* not truncated unless necessary *)
Lemma init_desc_whole c : valid (desc0 c) -> (blen (message (base c) budget_port) <= MAX_MESSAGE_LEN)%Z ->
  init c = base c.
Proof.
  intros Hv H. destruct (init_cases c Hv) as [_ E|B _|A _ _]; [exact E | |]; unfold avail in *.
  - pose proof (rawlen_nonneg (desc0 c)). lia.
  - lia.
Qed.

(* when truncated, the cut is as late as raw-length budgeting allows: the next character does not fit in the
   number of bytes that were kept *)
Lemma init_desc_maximal c ch rest : valid (desc0 c) -> l_enabled (init c) = true ->
  desc0 c = l_desc (init c) ++ ch :: rest ->
  (rawlen (desc0 c) + avail c < rawlen (l_desc (init c) ++ [ch]))%Z.
Proof.
  intros Hv He E. destruct (init_cases c Hv) as [_ E1|_ E1|A B E1]; rewrite E1 in *; cbn in *.
  - exfalso. apply (f_equal (@length N)) in E. rewrite app_length in E. cbn in E. lia.
  - discriminate.
  - apply take_fit_maximal in E. unfold rawlen, blen in *. lia.
Qed.

Theorem bounded c port : wf_cfg c -> l_enabled (init c) = true -> port <= 65535 ->
  (blen (message (init c) port) <= MAX_MESSAGE_LEN)%Z.
Proof.
  intros (_ & _ & Hv) He Hp.
  pose proof (message_port_le (init c) port Hp) as P.
  enough (blen (message (init c) budget_port) <= MAX_MESSAGE_LEN)%Z by lia. clear P.
  destruct (init_cases c Hv) as [A E|_ E|A B E]; rewrite E in *.
  - unfold avail in A. lia.
  - discriminate.
  - rewrite message_set_desc. change (l_desc (base c)) with (desc0 c).
    set (k := Z.to_nat (rawlen (desc0 c) + avail c)).
    destruct (take_fit_split k (desc0 c)) as (rest & E' & F).
    assert (esclen (desc0 c) = esclen (take_fit k (desc0 c)) + esclen rest)%Z as S
      by (rewrite E' at 1; apply esclen_app).
    assert (rawlen (desc0 c) = rawlen (take_fit k (desc0 c)) + rawlen rest)%Z as R
      by (rewrite E' at 1; apply rawlen_app).
    pose proof (esclen_ge_rawlen rest) as G.
    assert (Z.of_nat k = rawlen (desc0 c) + avail c)%Z as Hk by (unfold k; lia).
    assert (rawlen (take_fit k (desc0 c)) <= rawlen (desc0 c) + avail c)%Z
      by (unfold rawlen at 1, blen; lia).
    unfold avail in *. lia.
Qed.

Theorem disabled_iff c : valid (desc0 c) ->
  (l_enabled (init c) = false <->
   (MAX_MESSAGE_LEN < identity_len c + (esclen (desc0 c) - rawlen (desc0 c)))%Z).
Proof.
  intro Hv. unfold identity_len. rewrite message_set_desc. change (l_desc (base c)) with (desc0 c).
  change (esclen []) with 0%Z.
  destruct (init_cases c Hv) as [A E|B E|A B E]; rewrite E; cbn [l_enabled set_enabled set_desc base];
    unfold avail in *; pose proof (esclen_ge_rawlen (desc0 c)); pose proof (rawlen_nonneg (desc0 c));
    split; intro; try discriminate; try reflexivity; lia.
Qed.

(* ------------------------------------------------------------------ well-formedness *)
Lemma valid_esc1 c : is_scalar c = true -> valid (esc1 c).
Proof.
  intro Hs. unfold esc1, hexdigit, valid.
  repeat match goal with
         | |- context [if (?a =? ?b) then _ else _] => destruct (N.eqb_spec a b)
         | |- context [if (?a <? ?b) then _ else _] => destruct (N.ltb_spec a b)
         end;
    repeat (apply Forall_cons; [try reflexivity; try exact Hs; apply is_scalar_spec; lia|]); apply Forall_nil.
Qed.

Lemma valid_escape s : valid s -> valid (escape s).
Proof.
  induction 1 as [|c s Hc _ IH]; [constructor|]. rewrite escape_cons. apply valid_app. split; [apply valid_esc1; exact Hc | exact IH].
Qed.

Lemma valid_json_string s : valid s -> valid (json_string s).
Proof.
  intro H. unfold json_string. constructor; [reflexivity|]. apply valid_app. split; [apply valid_escape; exact H|].
  constructor; [reflexivity | constructor].
Qed.

Lemma valid_closed s : forallb is_scalar s = true -> valid s.
Proof. intro H. apply Forall_forall. rewrite forallb_forall in H. exact H. Qed.

Lemma valid_msg_text port eid fw desc : port <= 65535 -> valid eid -> valid fw -> valid desc ->
  valid (msg_text port eid fw desc).
Proof.
  intros Hp He Hf Hd. unfold msg_text, msg_head.
  repeat (apply valid_app; split); try (apply valid_json_string; assumption);
    try (apply valid_closed; reflexivity).
  apply ascii_valid. apply digits_ascii_le. exact Hp.
Qed.

Lemma valid_firmware_prefix : valid firmware_prefix.
Proof. apply valid_closed. reflexivity. Qed.

Theorem wellformed c port : wf_cfg c -> port <= 65535 ->
  let l := init c in
  utf8_decode (message l port) = Some (msg_text port (l_eid l) (l_fw l) (l_desc l)) /\
  read_msg (msg_text port (l_eid l) (l_fw l) (l_desc l))
    = Some (port, c_eid c, firmware_prefix ++ c_version c, l_desc l) /\
  prefix_of (l_desc l) (desc0 c).
Proof.
  intros (He & Hver & Hd) Hp l.
  destruct (init_frame c) as (E1 & E2 & _ & _). fold l in E1, E2.
  assert (valid (l_fw l)) as Hf by (rewrite E2; apply valid_app; split; [apply valid_firmware_prefix | exact Hver]).
  assert (valid (l_eid l)) as He' by (rewrite E1; exact He).
  pose proof (init_desc_valid c Hd) as Hd'. fold l in Hd'.
  split; [|split].
  - unfold message. apply utf8_decode_encode. apply valid_msg_text; assumption.
  - rewrite read_msg_msg_text by assumption. rewrite E1, E2. reflexivity.
  - apply init_desc_prefix. exact Hd.
Qed.

(* ------------------------------------------------------------------ the receive loop *)
Lemma str_eqb_eq a b : str_eqb a b = true <-> a = b.
Proof.
  revert b. induction a as [|x a IH]; intros [|y b]; cbn; try (split; [discriminate | discriminate]); [tauto|].
  rewrite andb_true_iff, N.eqb_eq, IH. split; [intros [-> ->]; reflexivity | intro E; injection E; auto].
Qed.

(* a discovery request: UTF-8 text (as far as the receive buffer goes) that json.loads turns into a dict whose
   member SECoP is the str discover *)
Definition is_request (data : bytes) (p : parse) : bool :=
  match utf8_decode (received data) with
  | None => false
  | Some _ => match p with
              | PObj ms => match lookup K_SECoP ms with
                           | Some (Some v) => str_eqb K_discover v
                           | _ => false
                           end
              | _ => false
              end
  end.

(* a killer: UTF-8 text on which json.loads raises something that is not a ValueError *)
Definition is_killer (data : bytes) (p : parse) : bool :=
  match utf8_decode (received data) with
  | None => false
  | Some _ => match p with PRaise => true | _ => false end
  end.

Lemma is_request_spec data p : is_request data p = true <->
  (exists text, utf8_decode (received data) = Some text) /\
  exists ms, p = PObj ms /\ lookup K_SECoP ms = Some (Some K_discover).
Proof.
  unfold is_request. destruct (utf8_decode (received data)) as [t|].
  2:{ split; [discriminate | intros ((t & E) & _); discriminate]. }
  destruct p as [| | |s0|es|ms]; try (split; [discriminate | intros (_ & ms & E & _); discriminate]).
  destruct (lookup K_SECoP ms) as [[v|]|] eqn:L.
  - rewrite str_eqb_eq. split.
    + intros <-. split; [eauto|]. exists ms. auto.
    + intros (_ & ms' & E & L'). injection E as <-. rewrite L in L'. injection L' as <-. reflexivity.
  - split; [discriminate|]. intros (_ & ms' & E & L'). injection E as <-. rewrite L in L'. discriminate.
  - split; [discriminate|]. intros (_ & ms' & E & L'). injection E as <-. rewrite L in L'. discriminate.
Qed.

Lemma handle_spec data p :
  handle data p = if is_request data p then VAnswer else if is_killer data p then VKill else VIgnore.
Proof.
  unfold handle, is_request, is_killer. destruct (utf8_decode (received data)); [|reflexivity].
  destruct p as [| | |s0|es|ms]; try reflexivity.
  destruct (lookup K_SECoP ms) as [[v|]|]; try reflexivity.
  all: cbn [elem_is]; destruct (str_eqb K_discover v); reflexivity.
Qed.

Definition reply (l : listener) (i : input) : list (dest * bytes) :=
  match i with
  | IRecv data p a => if is_request data p then answers l (DAddr a) else []
  | IError => []
  end.

(* answers iff discovery request: holds for every datagram a listening responder receives *)
Theorem answers_iff l s data p a : st s = Listening ->
  outs (lstep l s (IRecv data p a)) = outs s ++ reply l (IRecv data p a).
Proof.
  intro H. unfold lstep, reply. rewrite H, handle_spec.
  destruct (is_request data p); cbn; [reflexivity|].
  destruct (is_killer data p); cbn; symmetry; apply app_nil_r.
Qed.

(* ---- the receive size limit against the nesting limit of json.loads *)
Definition loads_law (limit : nat) (text : bytes) (p : parse) : Prop := loads_law_b limit text p = true.

Lemma openers_le_length bs : (openers bs <= length bs)%nat.
Proof.
  unfold openers. induction bs as [|b bs IH]; [cbn; lia|]. cbn [filter]. destruct (is_opener b); cbn [length]; lia.
Qed.

Lemma received_length data : (length (received data) <= recv_size)%nat.
Proof. unfold received. rewrite firstn_length. lia. Qed.

(* a text cut to fewer bytes than the nesting limit cannot make json.loads raise anything but a ValueError *)
Lemma law_no_raise limit data p : (recv_size < limit)%nat -> loads_law limit (received data) p -> p <> PRaise.
Proof.
  intros HR HL ->. unfold loads_law, loads_law_b in HL. apply Nat.leb_le in HL.
  pose proof (openers_le_length (received data)). pose proof (received_length data). lia.
Qed.

Lemma law_not_killer limit data p : (recv_size < limit)%nat -> loads_law limit (received data) p ->
  is_killer data p = false.
Proof.
  intros HR HL. pose proof (law_no_raise limit data p HR HL) as N. unfold is_killer.
  destruct (utf8_decode (received data)); [|reflexivity]. destruct p; try reflexivity. contradiction.
Qed.

(* exactly the killers end the thread ... *)
Theorem killed_iff l s data p a : st s = Listening ->
  (st (lstep l s (IRecv data p a)) = Killed <-> is_killer data p = true).
Proof.
  intro H. unfold lstep. rewrite H, handle_spec.
  destruct (is_request data p) eqn:R.
  - assert (is_killer data p = false) as ->.
    { unfold is_request, is_killer in *. destruct (utf8_decode (received data)); [|reflexivity].
      destruct p; try reflexivity. discriminate. }
    cbn. split; discriminate.
  - destruct (is_killer data p); cbn; split; try discriminate; reflexivity.
Qed.

(* ... and a datagram that is no killer leaves the responder listening *)
Lemma survives_unless_killer l s data p a : st s = Listening -> is_killer data p = false ->
  st (lstep l s (IRecv data p a)) = Listening.
Proof.
  intros H K. unfold lstep. rewrite H, handle_spec, K. destruct (is_request data p); reflexivity.
Qed.

(* no datagram whatsoever ends the loop, as long as the receive size is below the nesting limit of json.loads *)
Theorem survives limit l s data p a : (recv_size < limit)%nat -> loads_law limit (received data) p ->
  st s = Listening -> st (lstep l s (IRecv data p a)) = Listening.
Proof. intros HR HL H. apply survives_unless_killer; [exact H | eapply law_not_killer; eassumption]. Qed.

Definition is_recv (i : input) : Prop := match i with IRecv _ _ _ => True | IError => False end.

(* a received datagram together with a json.loads outcome that obeys the law *)
Definition recv_ok (limit : nat) (i : input) : Prop :=
  match i with IRecv data p _ => loads_law limit (received data) p | IError => False end.

Lemma loop_recv limit l ins : (recv_size < limit)%nat -> Forall (recv_ok limit) ins -> forall s, st s = Listening ->
  st (fold_left (lstep l) ins s) = Listening /\
  outs (fold_left (lstep l) ins s) = outs s ++ flat_map (reply l) ins /\
  consumed (fold_left (lstep l) ins s) = (consumed s + length ins)%nat.
Proof.
  intro HR. induction 1 as [|i ins Hi _ IH]; intros s Hs.
  - cbn. rewrite app_nil_r. auto.
  - destruct i as [data p a|]; [|contradiction].
    cbn [fold_left flat_map].
    pose proof (answers_iff l s data p a Hs) as O.
    pose proof (survives limit l s data p a HR Hi Hs) as S.
    destruct (IH _ S) as (I1 & I2 & I3). split; [exact I1|]. split.
    + rewrite I2, O, <- app_assoc. reflexivity.
    + rewrite I3. unfold lstep. rewrite Hs. destruct (handle data p); cbn; lia.
Qed.

(* whatever is received -- any bytes, any JSON value -- an enabled responder goes on listening and has answered
   exactly the requests, in order; only a socket error (shutdown) ends it *)
Theorem keeps_answering limit l ins : (recv_size < limit)%nat ->
  l_enabled l = true -> Forall (recv_ok limit) ins ->
  st (run l ins) = Listening /\ outs (run l ins) = outs (start l) ++ flat_map (reply l) ins.
Proof.
  intros HR He Hb. unfold run. assert (st (start l) = Listening) as Hs by (cbn; rewrite He; reflexivity).
  destruct (loop_recv limit l ins HR Hb _ Hs) as (A & B & _). auto.
Qed.

Lemma not_listening_forever l ins : forall s, st s <> Listening -> fold_left (lstep l) ins s = s.
Proof.
  induction ins as [|i ins IH]; intros s H; [reflexivity|].
  cbn [fold_left]. assert (lstep l s i = s) as -> by (unfold lstep; destruct (st s); [contradiction| | |]; reflexivity).
  apply IH. exact H.
Qed.

(* ------------------------------------------------------------------ what is sent *)
Definition sent_ok (l : listener) (o : dest * bytes) : Prop := exists p, In p (l_ports l) /\ snd o = message l p.

Lemma answers_sent_ok l d : Forall (sent_ok l) (answers l d).
Proof.
  unfold answers. apply Forall_forall. intros o H. apply in_map_iff in H. destruct H as (p & <- & Hp).
  exists p. auto.
Qed.

Lemma lstep_sent_ok l s i : Forall (sent_ok l) (outs s) -> Forall (sent_ok l) (outs (lstep l s i)).
Proof.
  intro H. unfold lstep. destruct (st s); try exact H. destruct i as [data p a|]; [|exact H].
  destruct (handle data p); cbn; try exact H. apply Forall_app. split; [exact H | apply answers_sent_ok].
Qed.

Theorem run_sent_ok l ins : Forall (sent_ok l) (outs (run l ins)).
Proof.
  unfold run. assert (Forall (sent_ok l) (outs (start l))) as H.
  { cbn. destruct (l_bcast l && l_enabled l); [apply answers_sent_ok | constructor]. }
  revert H. generalize (start l). induction ins as [|i ins IH]; intros s H; [exact H|].
  cbn [fold_left]. apply IH. apply lstep_sent_ok. exact H.
Qed.

(* a disabled responder sends nothing at all *)
Lemma run_disabled_silent l ins : l_enabled l = false -> outs (run l ins) = [] /\ st (run l ins) = NotListening.
Proof.
  intros He. unfold run. rewrite not_listening_forever; cbn; rewrite ?He, ?andb_false_r; [auto | discriminate].
Qed.

(* the advertised ports are those of the tcp interfaces handed to the constructor *)
Definition K_tcp : str := [116; 99; 112].    (* the letters t c p *)
Lemma ports_of_in ifaces p : In p (ports_of ifaces) <->
  exists scheme, In (scheme, p) ifaces /\ starts_with K_tcp (uri (scheme, p)) = true.
Proof.
  unfold ports_of. rewrite in_map_iff. split.
  - intros ([sch q] & E & H). cbn in E. subst q. apply filter_In in H. exists sch. exact H.
  - intros (sch & H1 & H2). exists (sch, p). split; [reflexivity|]. apply filter_In. auto.
Qed.

(* everything a responder ever sends: an announcement of one of the tcp ports of the interface list, within the
   limit, valid UTF-8, a JSON object that reads back as port, identity and the (possibly shortened) description *)
Definition good_datagram (c : cfg) (o : dest * bytes) : Prop :=
  exists scheme p,
    In (scheme, p) (c_ifaces c) /\ starts_with K_tcp (uri (scheme, p)) = true /\
    snd o = message (init c) p /\
    (blen (snd o) <= MAX_MESSAGE_LEN)%Z /\
    exists text, utf8_decode (snd o) = Some text /\
      read_msg text = Some (p, c_eid c, firmware_prefix ++ c_version c, l_desc (init c)) /\
      prefix_of (l_desc (init c)) (desc0 c).

Theorem sends_good c ins : wf_cfg c -> (forall p, In p (ports_of (c_ifaces c)) -> p <= 65535) ->
  Forall (good_datagram c) (outs (run (init c) ins)).
Proof.
  intros Hwf Hports. destruct (l_enabled (init c)) eqn:He.
  - pose proof (run_sent_ok (init c) ins) as H. eapply Forall_impl; [|exact H].
    intros o (p & Hp & E). destruct (init_frame c) as (_ & _ & EP & _). rewrite EP in Hp.
    pose proof (Hports p Hp) as Hle. apply ports_of_in in Hp. destruct Hp as (scheme & H1 & H2).
    exists scheme, p. split; [exact H1|]. split; [exact H2|]. split; [exact E|]. rewrite E. split.
    + apply bounded; assumption.
    + destruct (wellformed c p Hwf Hle) as (W1 & W2 & W3). eexists. split; [exact W1|]. split; [exact W2 | exact W3].
  - destruct (run_disabled_silent (init c) ins He) as [-> _]. constructor.
Qed.
