(* C19 -- what the pinned code still violates.  The witness is evaluated on the model (which corresponds to the
   implementation case by case) and reproduced on the real code by corpus/C19.
   Two earlier witnesses are gone with the repairs in /repo: the responder is no longer ended by datagrams
   (fix 8298523, now C19_survives / C19_keeps_answering in Properties.v) and a disabled responder no longer
   broadcasts (fix d6d9c1c, now C19_sends_good without guard). *)
From Coq Require Import List Arith ZArith NArith Bool Lia String.
Import ListNotations.
Require Import FV.Gen.C19 FV.C19.Model FV.C19.LemmasUtf8 FV.C19.LemmasJson FV.C19.Lemmas.
Open Scope N_scope.

Definition request_bytes : bytes := utf8_encode (s2l "{""SECoP"":""discover""}").
Definition request_parse : parse := PObj [(K_SECoP, Some K_discover)].

(* finding C19/disabled-by-escaped-description: 100 control characters as description; the identity alone needs
   97 bytes, the responder is disabled *)
Definition cfg_escapes : cfg :=
  {| c_eid := s2l "eq"; c_version := s2l "v1"; c_desc := Some (repeat 1 100);
     c_ifaces := [(s2l "tcp", 10767)]; c_bcast := false |}.

Theorem C19_refuted_disabled_though_identity_fits :
  exists c, wf_cfg c /\ (identity_len c <= MAX_MESSAGE_LEN)%Z /\ l_enabled (init c) = false.
Proof.
  exists cfg_escapes. split; [|split].
  - repeat split; apply valid_closed; vm_compute; reflexivity.
  - apply Z.leb_le. vm_compute. reflexivity.
  - vm_compute. reflexivity.
Qed.
