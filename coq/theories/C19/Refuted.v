(* C19 -- the pinned code violates the property in three ways; each witness is evaluated on the model
   (which corresponds to the implementation case by case) and reproduced on the real code by corpus/C19. *)
From Coq Require Import List Arith ZArith NArith Bool Lia String.
Import ListNotations.
Require Import FV.Gen.C19 FV.C19.Model FV.C19.LemmasUtf8 FV.C19.LemmasJson FV.C19.Lemmas.
Open Scope N_scope.

Definition cfg_small : cfg :=
  {| c_eid := s2l "eq"; c_version := s2l "v1"; c_desc := Some (s2l "d");
     c_ifaces := [(s2l "tcp", 10767)]; c_bcast := false |}.

Definition request_bytes : bytes := utf8_encode (s2l "{""SECoP"":""discover""}").
Definition request_parse : parse := PObj [(K_SECoP, Some K_discover)].

(* finding C19/killed-by-datagram.  Each of these first datagrams -- invalid UTF-8; the JSON number 5; the JSON
   string "xSECoPy"; the JSON array ["SECoP"] -- ends the responder: the discovery request that follows
   is a request, the responder is enabled and has a port, yet nothing is sent. *)
Definition killers : list (bytes * parse) :=
  [ ([255], PBad);
    (utf8_encode (s2l "5"), PScalar);
    (utf8_encode (s2l """xSECoPy"""), PStr (s2l "xSECoPy"));
    (utf8_encode (s2l "[""SECoP""]"), PArr [Some K_SECoP]) ].

Theorem C19_refuted_survives :
  l_enabled (init cfg_small) = true /\ l_ports (init cfg_small) = [10767] /\
  is_request request_bytes request_parse = true /\
  Forall (fun k => exists e,
            let r := run (init cfg_small) [IRecv (fst k) (snd k) 0; IRecv request_bytes request_parse 1] in
            st r = Killed e /\ outs r = [])
         killers.
Proof.
  split; [vm_compute; reflexivity|]. split; [vm_compute; reflexivity|]. split; [vm_compute; reflexivity|].
  repeat constructor; eexists; vm_compute; split; reflexivity.
Qed.

(* the same for every history: once a killer has been received nothing is sent any more, whatever follows *)
Theorem C19_refuted_survives_general : forall l ins1 data p a ins2,
  l_enabled l = true -> Forall benign ins1 -> killer data p = true ->
  outs (run l (ins1 ++ IRecv data p a :: ins2)) = outs (run l ins1) /\
  exists e, st (run l (ins1 ++ IRecv data p a :: ins2)) = Killed e.
Proof. exact killer_ends_everything. Qed.

(* finding C19/disabled-by-escaped-description: 100 control characters as description; the identity alone needs
   97 bytes, the responder is disabled *)
Definition cfg_escapes : cfg :=
  {| c_eid := s2l "eq"; c_version := s2l "v1"; c_desc := Some (repeat 1 100);
     c_ifaces := [(s2l "tcp", 10767)]; c_bcast := false |}.

Theorem C19_refuted_disabled_though_identity_fits :
  exists c, wf_cfg c /\ (identity_len c <= MAX_MESSAGE_LEN)%Z /\ l_enabled (init c) = false.
Proof.
  exists cfg_escapes. split; [|split].
  - repeat split; apply valid_closed; vm_compute; reflexivity.
  - apply Z.leb_le. vm_compute. reflexivity.
  - vm_compute. reflexivity.
Qed.

(* finding C19/oversize-announcement-when-disabled: an equipment id of 600 letters; the responder is disabled,
   and still run() broadcasts an announcement of 688 bytes *)
Definition cfg_long_id : cfg :=
  {| c_eid := repeat 101 600; c_version := s2l "v1"; c_desc := Some (s2l "d");
     c_ifaces := [(s2l "tcp", 10767)]; c_bcast := true |}.

Theorem C19_refuted_bounded_when_disabled :
  exists c, wf_cfg c /\ (forall p, In p (ports_of (c_ifaces c)) -> p <= 65535) /\
    l_enabled (init c) = false /\
    exists o, In o (outs (run (init c) [])) /\ (MAX_MESSAGE_LEN < blen (snd o))%Z.
Proof.
  exists cfg_long_id. split; [|split; [|split]].
  - repeat split; apply valid_closed; vm_compute; reflexivity.
  - intros p [<-|[]]. vm_compute. discriminate.
  - vm_compute. reflexivity.
  - eexists. split; [left; reflexivity|]. apply Z.ltb_lt. vm_compute. reflexivity.
Qed.
