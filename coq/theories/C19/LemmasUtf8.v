(* C19 -- UTF-8 lemmas: decoding inverts encoding on scalar values; decoding a cut-off encoding with
   the lenient decoder yields the longest prefix of whole characters that fits. *)
From Coq Require Import List Arith ZArith NArith Bool Lia.
Import ListNotations.
Require Import FV.Gen.C19 FV.C19.Model.
Open Scope N_scope.

Ltac Zify.zify_post_hook ::= Z.to_euclidean_division_equations.

Definition valid (s : str) : Prop := Forall (fun c => is_scalar c = true) s.

Ltac dec_if :=
  match goal with
  | |- context [if (?a <? ?b) then _ else _] =>
      let H := fresh "C" in destruct (N.ltb_spec a b) as [H|H]; try (exfalso; lia)
  | |- context [if (?a <=? ?b) then _ else _] =>
      let H := fresh "C" in destruct (N.leb_spec a b) as [H|H]; try (exfalso; lia)
  end.

Lemma is_scalar_spec c : is_scalar c = true <-> (c < 0xD800 \/ (0xDFFF < c /\ c <= 0x10FFFF)).
Proof.
  unfold is_scalar. rewrite orb_true_iff, andb_true_iff, N.ltb_lt, N.ltb_lt, N.leb_le. tauto.
Qed.

Lemma is_cont_mod x : is_cont (0x80 + x mod 64) = true.
Proof.
  unfold is_cont. apply andb_true_iff. split; [apply N.leb_le | apply N.ltb_lt]; lia.
Qed.

Lemma enc1_length c : (1 <= length (enc1 c) <= 4)%nat.
Proof. unfold enc1. repeat dec_if; cbn; lia. Qed.

Lemma enc1_nonnil c : enc1 c <> [].
Proof. pose proof (enc1_length c). destruct (enc1 c); cbn in *; [lia | discriminate]. Qed.

(* ------------------------------------------------------------------ one character *)
Lemma dec1_enc1 c r : is_scalar c = true -> dec1 (enc1 c ++ r) = Some (c, r).
Proof.
  intro Hs. apply is_scalar_spec in Hs. unfold enc1.
  destruct (N.ltb_spec c 0x80) as [C1|C1].
  { cbn. destruct (N.ltb_spec c 128); [reflexivity | lia]. }
  destruct (N.ltb_spec c 0x800) as [C2|C2].
  { cbn [app dec1].
    repeat dec_if. rewrite is_cont_mod. do 2 f_equal. lia. }
  destruct (N.ltb_spec c 0x10000) as [C3|C3].
  { cbn [app dec1].
    repeat dec_if. rewrite !is_cont_mod. cbn [andb].
    replace ((224 + c / 4096 - 224) * 4096 + (128 + (c / 64) mod 64 - 128) * 64 + (128 + c mod 64 - 128)) with c by lia.
    assert (is_scalar c = true) as -> by (apply is_scalar_spec; lia).
    destruct (N.leb_spec 2048 c); [reflexivity | lia]. }
  cbn [app dec1].
  repeat dec_if. rewrite !is_cont_mod. cbn [andb].
  replace ((240 + c / 262144 - 240) * 262144 + (128 + (c / 4096) mod 64 - 128) * 4096
           + (128 + (c / 64) mod 64 - 128) * 64 + (128 + c mod 64 - 128)) with c by lia.
  destruct (N.leb_spec 65536 c); [|lia]. destruct (N.leb_spec c 1114111); [reflexivity | lia].
Qed.

(* a proper prefix of the encoding of one character does not decode *)
Lemma dec1_cut c k : (k < length (enc1 c))%nat -> dec1 (firstn k (enc1 c)) = None.
Proof.
  unfold enc1.
  destruct (N.ltb_spec c 0x80) as [C1|C1].
  { cbn. intro. assert (k = 0%nat) as -> by lia. reflexivity. }
  destruct (N.ltb_spec c 0x800) as [C2|C2].
  { cbn [length]. intro Hk. destruct k as [|[|k]]; [reflexivity | | lia].
    cbn [firstn dec1]. repeat dec_if; reflexivity. }
  destruct (N.ltb_spec c 0x10000) as [C3|C3].
  { cbn [length]. intro Hk. destruct k as [|[|[|k]]]; [reflexivity | | | lia];
    cbn [firstn dec1]; repeat dec_if; reflexivity. }
  cbn [length]. intro Hk. destruct k as [|[|[|[|k]]]]; [reflexivity | | | | lia];
    cbn [firstn dec1]; repeat dec_if; reflexivity.
Qed.

(* ------------------------------------------------------------------ whole strings *)
Lemma utf8_encode_app a b : utf8_encode (a ++ b) = utf8_encode a ++ utf8_encode b.
Proof. apply flat_map_app. Qed.

Lemma utf8_encode_cons c s : utf8_encode (c :: s) = enc1 c ++ utf8_encode s.
Proof. reflexivity. Qed.

Lemma utf8_length_ge s : (length s <= length (utf8_encode s))%nat.
Proof.
  induction s as [|c s IH]; [cbn; lia|]. rewrite utf8_encode_cons, app_length.
  pose proof (enc1_length c). cbn [length]. lia.
Qed.

Lemma dec_loop_encode strict s : valid s -> forall fuel, (length s <= fuel)%nat ->
  dec_loop fuel strict (utf8_encode s) = Some s.
Proof.
  induction 1 as [|c s Hc Hs IH]; intros fuel Hf.
  - destruct fuel; reflexivity.
  - rewrite utf8_encode_cons. destruct fuel as [|fuel]; [cbn in Hf; lia|].
    cbn [dec_loop]. rewrite (dec1_enc1 c _ Hc). rewrite IH by (cbn in Hf; lia). reflexivity.
Qed.

Lemma utf8_decode_encode s : valid s -> utf8_decode (utf8_encode s) = Some s.
Proof. intro H. apply dec_loop_encode; [exact H | apply utf8_length_ge]. Qed.

(* the longest prefix of whole characters whose encoding has at most k bytes *)
Fixpoint take_fit (k : nat) (s : str) : str :=
  match s with
  | [] => []
  | c :: s' => if (length (enc1 c) <=? k)%nat then c :: take_fit (k - length (enc1 c)) s' else []
  end.

Lemma dec_loop_cut s : valid s -> forall k fuel, (length (take_fit k s) <= fuel)%nat ->
  dec_loop fuel false (firstn k (utf8_encode s)) = Some (take_fit k s).
Proof.
  induction 1 as [|c s Hc Hs IH]; intros k fuel Hf.
  - rewrite firstn_nil. destruct fuel; reflexivity.
  - rewrite utf8_encode_cons, firstn_app. cbn [take_fit] in *.
    destruct (Nat.leb_spec (length (enc1 c)) k) as [L|L].
    + rewrite firstn_all2 by exact L.
      destruct fuel as [|fuel]; [cbn in Hf; lia|].
      cbn [dec_loop]. rewrite (dec1_enc1 c _ Hc). rewrite IH by (cbn in Hf; lia). reflexivity.
    + replace (k - length (enc1 c))%nat with 0%nat by lia. rewrite firstn_O, app_nil_r.
      destruct fuel; cbn [dec_loop]; rewrite (dec1_cut c k L); destruct (firstn k (enc1 c)); reflexivity.
Qed.

Lemma take_fit_split k s : exists rest,
  s = take_fit k s ++ rest /\ (length (utf8_encode (take_fit k s)) <= k)%nat.
Proof.
  revert k. induction s as [|c s IH]; intro k.
  - exists []. split; [reflexivity | cbn; lia].
  - cbn [take_fit]. destruct (Nat.leb_spec (length (enc1 c)) k) as [L|L].
    + destruct (IH (k - length (enc1 c))%nat) as (rest & E & B). exists rest. split.
      * cbn. f_equal. exact E.
      * rewrite utf8_encode_cons, app_length. lia.
    + exists (c :: s). split; [reflexivity | cbn; lia].
Qed.

Lemma take_fit_all k s : (length (utf8_encode s) <= k)%nat -> take_fit k s = s.
Proof.
  revert k. induction s as [|c s IH]; intros k Hk; [reflexivity|].
  rewrite utf8_encode_cons, app_length in Hk. cbn [take_fit].
  destruct (Nat.leb_spec (length (enc1 c)) k) as [L|L]; [|lia]. f_equal. apply IH. lia.
Qed.

(* maximality: the next character would not fit any more *)
Lemma take_fit_maximal k s c rest : s = take_fit k s ++ c :: rest ->
  (k < length (utf8_encode (take_fit k s ++ [c])))%nat.
Proof.
  revert k. induction s as [|d s IH]; intros k E.
  - destruct (take_fit k []); discriminate.
  - cbn [take_fit] in *. destruct (Nat.leb_spec (length (enc1 d)) k) as [L|L].
    + cbn [app] in E. injection E as E. specialize (IH _ E).
      cbn [app]. rewrite utf8_encode_cons, app_length. lia.
    + cbn [app] in E. injection E as -> _. cbn [app]. rewrite utf8_encode_cons, app_length. cbn. lia.
Qed.

Lemma utf8_decode_ignore_cut s k : valid s ->
  utf8_decode_ignore (firstn k (utf8_encode s)) = take_fit k s.
Proof.
  intro H. unfold utf8_decode_ignore. rewrite dec_loop_cut; [reflexivity | exact H |].
  destruct (take_fit_split k s) as (rest & E & B).
  rewrite firstn_length. apply Nat.min_glb.
  - pose proof (utf8_length_ge (take_fit k s)). lia.
  - rewrite E at 2. rewrite utf8_encode_app, app_length. pose proof (utf8_length_ge (take_fit k s)). lia.
Qed.

Lemma valid_app a b : valid (a ++ b) <-> valid a /\ valid b.
Proof. apply Forall_app. Qed.

(* characters below 0x80 are their own encoding *)
Definition ascii (s : str) : Prop := Forall (fun c => c < 0x80) s.

Lemma utf8_encode_ascii s : ascii s -> utf8_encode s = s.
Proof.
  induction 1 as [|c s Hc _ IH]; [reflexivity|].
  rewrite utf8_encode_cons, IH. unfold enc1. destruct (N.ltb_spec c 0x80); [reflexivity | lia].
Qed.

Lemma ascii_valid s : ascii s -> valid s.
Proof.
  unfold ascii, valid. apply Forall_impl. intros c Hc. apply is_scalar_spec. lia.
Qed.
