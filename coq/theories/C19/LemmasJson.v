(* C19 -- specification side: a small reader for the JSON texts the responder may send (an object with the five
   members in order, string values with the standard escapes, a non-negative integer without leading zeros), and
   the proof that it reads back exactly what the message builder was given.  The reader accepts a subset of JSON:
   whatever it accepts is a JSON object; it is only used in theorem statements, never by the model. *)
From Coq Require Import List Arith ZArith NArith Bool Lia String.
Import ListNotations.
Require Import FV.Gen.C19 FV.C19.Model FV.C19.LemmasUtf8.
Open Scope N_scope.

Ltac Zify.zify_post_hook ::= Z.to_euclidean_division_equations.

(* ------------------------------------------------------------------ reader *)
Definition is_digit (c : N) : bool := (48 <=? c) && (c <=? 57).

Fixpoint read_digits (acc : N) (t : str) : N * str :=
  match t with
  | c :: r => if is_digit c then read_digits (acc * 10 + (c - 48)) r else (acc, t)
  | [] => (acc, [])
  end.

Definition read_nat (t : str) : option (N * str) :=
  match t with
  | c :: r =>
    if is_digit c then
      if (c =? 48) && (match r with d :: _ => is_digit d | [] => false end) then None
      else Some (read_digits 0 t)
    else None
  | [] => None
  end.

Definition unhex (c : N) : option N :=
  if (48 <=? c) && (c <=? 57) then Some (c - 48)
  else if (97 <=? c) && (c <=? 102) then Some (c - 87)
  else if (65 <=? c) && (c <=? 70) then Some (c - 55)
  else None.

Definition unesc_simple (e : N) : option N :=
  if e =? 34 then Some 34 else if e =? 92 then Some 92 else if e =? 47 then Some 47
  else if e =? 98 then Some 8 else if e =? 102 then Some 12 else if e =? 110 then Some 10
  else if e =? 114 then Some 13 else if e =? 116 then Some 9 else None.

Definition cons_opt (x : N) (o : option (str * str)) : option (str * str) :=
  match o with Some (s, rest) => Some (x :: s, rest) | None => None end.

(* the body of a JSON string after the opening quote: (decoded text, rest after the closing quote) *)
Fixpoint read_string (t : str) : option (str * str) :=
  match t with
  | [] => None
  | c :: r =>
    if c =? 34 then Some ([], r)
    else if c =? 92 then
      match r with
      | e :: r1 =>
        if e =? 117 then
          match r1 with
          | h1 :: h2 :: h3 :: h4 :: r2 =>
            match unhex h1, unhex h2, unhex h3, unhex h4 with
            | Some a, Some b, Some c', Some d =>
              let u := ((a * 16 + b) * 16 + c') * 16 + d in
              if is_scalar u then cons_opt u (read_string r2) else None
            | _, _, _, _ => None
            end
          | _ => None
          end
        else match unesc_simple e with
             | Some x => cons_opt x (read_string r1)
             | None => None
             end
      | [] => None
      end
    else if c <? 32 then None
    else cons_opt c (read_string r)
  end.

Definition read_jstring (t : str) : option (str * str) :=
  match t with
  | 34 :: r => read_string r
  | _ => None
  end.

Fixpoint expect (lit t : str) : option str :=
  match lit with
  | [] => Some t
  | a :: lit' => match t with
                 | b :: t' => if a =? b then expect lit' t' else None
                 | [] => None
                 end
  end.

(* {"SECoP":"node","port":<n>,"equipment_id":<string>,"firmware":<string>,"description":<string>} *)
Definition read_msg (t : str) : option (N * str * str * str) :=
  match expect (s2l "{""SECoP"":""node"",""port"":") t with None => None | Some t1 =>
  match read_nat t1 with None => None | Some (port, t2) =>
  match expect (s2l ",""equipment_id"":") t2 with None => None | Some t3 =>
  match read_jstring t3 with None => None | Some (eid, t4) =>
  match expect (s2l ",""firmware"":") t4 with None => None | Some t5 =>
  match read_jstring t5 with None => None | Some (fw, t6) =>
  match expect (s2l ",""description"":") t6 with None => None | Some t7 =>
  match read_jstring t7 with None => None | Some (desc, t8) =>
  match t8 with
  | [125] => Some (port, eid, fw, desc)
  | _ => None
  end end end end end end end end end.

(* ------------------------------------------------------------------ strings read back *)
Lemma expect_app lit r : expect lit (lit ++ r) = Some r.
Proof. induction lit as [|a lit IH]; [reflexivity|]. cbn. rewrite N.eqb_refl. exact IH. Qed.

Lemma unhex_hexdigit x : x < 16 -> unhex (hexdigit x) = Some x.
Proof.
  intro H. unfold hexdigit, unhex. destruct (N.ltb_spec x 10).
  - assert ((48 <=? 48 + x) && (48 + x <=? 57) = true) as ->.
    { apply andb_true_iff; split; apply N.leb_le; lia. }
    f_equal. lia.
  - assert ((48 <=? 87 + x) && (87 + x <=? 57) = false) as ->.
    { apply andb_false_iff; right; apply N.leb_gt; lia. }
    assert ((97 <=? 87 + x) && (87 + x <=? 102) = true) as ->.
    { apply andb_true_iff; split; apply N.leb_le; lia. }
    f_equal. lia.
Qed.

Lemma escape_cons c s : escape (c :: s) = esc1 c ++ escape s.
Proof. reflexivity. Qed.

Lemma escape_app a b : escape (a ++ b) = escape a ++ escape b.
Proof. apply flat_map_app. Qed.

Lemma read_string_esc1 c t : is_scalar c = true ->
  read_string (esc1 c ++ t) = cons_opt c (read_string t).
Proof.
  intro Hs. unfold esc1.
  destruct (N.eqb_spec c 34) as [->|N1]; [reflexivity|].
  destruct (N.eqb_spec c 92) as [->|N2]; [reflexivity|].
  destruct (N.eqb_spec c 10) as [->|N3]; [reflexivity|].
  destruct (N.eqb_spec c 13) as [->|N4]; [reflexivity|].
  destruct (N.eqb_spec c 9) as [->|N5]; [reflexivity|].
  destruct (N.eqb_spec c 8) as [->|N6]; [reflexivity|].
  destruct (N.eqb_spec c 12) as [->|N7]; [reflexivity|].
  destruct (N.ltb_spec c 32) as [L|L].
  - change (read_string ([92; 117; 48; 48; hexdigit (c / 16); hexdigit (c mod 16)] ++ t))
      with (match unhex (hexdigit (c / 16)), unhex (hexdigit (c mod 16)) with
            | Some c', Some d =>
              let u := ((0 * 16 + 0) * 16 + c') * 16 + d in
              if is_scalar u then cons_opt u (read_string t) else None
            | _, _ => None
            end).
    rewrite !unhex_hexdigit by lia. cbv zeta.
    replace (((0 * 16 + 0) * 16 + c / 16) * 16 + c mod 16) with c by lia.
    rewrite Hs. reflexivity.
  - cbn [app read_string].
    destruct (N.eqb_spec c 34); [contradiction|]. destruct (N.eqb_spec c 92); [contradiction|].
    destruct (N.ltb_spec c 32); [lia | reflexivity].
Qed.

Lemma read_string_escape s rest : valid s ->
  read_string (escape s ++ 34 :: rest) = Some (s, rest).
Proof.
  induction 1 as [|c s Hc _ IH]; [reflexivity|].
  rewrite escape_cons, <- app_assoc, read_string_esc1 by exact Hc. rewrite IH. reflexivity.
Qed.

Lemma read_jstring_json_string s rest : valid s ->
  read_jstring (json_string s ++ rest) = Some (s, rest).
Proof.
  intro H. unfold json_string. cbn [app read_jstring]. rewrite <- app_assoc. apply read_string_escape. exact H.
Qed.

(* ------------------------------------------------------------------ the port reads back (finite sweep) *)
Definition digits_value (ds : str) : N := fold_left (fun a c => a * 10 + (c - 48)) ds 0.

Definition port_ok (p : N) : bool :=
  forallb is_digit (digits p)
  && (digits_value (digits p) =? p)
  && (match digits p with [] => false | 48 :: _ :: _ => false | _ => true end)
  && (List.length (digits p) <=? 5)%nat.

Fixpoint nrange (k : nat) (start : N) : list N :=
  match k with O => [] | S k' => start :: nrange k' (N.succ start) end.

Lemma in_nrange k : forall start p, start <= p -> p < start + N.of_nat k -> In p (nrange k start).
Proof.
  induction k as [|k IH]; intros start p H1 H2; [lia|].
  cbn [nrange]. destruct (N.eq_dec start p) as [->|Ne]; [left; reflexivity|].
  right. apply IH; lia.
Qed.

Definition all_ports : list N := nrange (N.to_nat 65536) 0.

Lemma ports_sweep : forallb port_ok all_ports = true.
Proof. vm_cast_no_check (eq_refl true). Qed.

Lemma port_ok_le p : p <= 65535 -> port_ok p = true.
Proof.
  intro H. pose proof ports_sweep as S. rewrite forallb_forall in S. apply S.
  unfold all_ports. apply in_nrange; lia.
Qed.

Lemma read_digits_app ds : forallb is_digit ds = true -> forall acc c r, is_digit c = false ->
  read_digits acc (ds ++ c :: r) = (fold_left (fun a c => a * 10 + (c - 48)) ds acc, c :: r).
Proof.
  induction ds as [|d ds IH]; intros H acc c r Hc.
  - cbn. rewrite Hc. reflexivity.
  - cbn in H. apply andb_true_iff in H. destruct H as [Hd H]. cbn. rewrite Hd. apply IH; assumption.
Qed.

Lemma read_nat_digits p c r : p <= 65535 -> is_digit c = false ->
  read_nat (digits p ++ c :: r) = Some (p, c :: r).
Proof.
  intros Hp Hc. pose proof (port_ok_le p Hp) as H. unfold port_ok in H.
  apply andb_true_iff in H. destruct H as [H _].
  apply andb_true_iff in H. destruct H as [H H1].
  apply andb_true_iff in H. destruct H as [H H0].
  destruct (digits p) as [|d ds] eqn:E; [discriminate|].
  pose proof (read_digits_app (d :: ds) H 0 c r Hc) as R.
  apply N.eqb_eq in H0. unfold digits_value in H0. rewrite H0 in R.
  cbn [app read_nat] in *. cbn in H. apply andb_true_iff in H. destruct H as [Hd Hds]. rewrite Hd.
  assert (((d =? 48) && match ds ++ c :: r with d0 :: _ => is_digit d0 | [] => false end) = false) as ->.
  { destruct (N.eqb_spec d 48) as [->|]; [|reflexivity]. destruct ds; [cbn; exact Hc | discriminate]. }
  rewrite R. reflexivity.
Qed.

Lemma digits_length_le p : p <= 65535 -> (List.length (digits p) <= 5)%nat.
Proof.
  intro Hp. pose proof (port_ok_le p Hp) as H. unfold port_ok in H.
  apply andb_true_iff in H. destruct H as [_ H]. apply Nat.leb_le. exact H.
Qed.

Lemma digits_ascii_le p : p <= 65535 -> ascii (digits p).
Proof.
  intro Hp. pose proof (port_ok_le p Hp) as H. unfold port_ok in H.
  do 3 (apply andb_true_iff in H; destruct H as [H _]).
  rewrite forallb_forall in H. apply Forall_forall. intros c Hc. specialize (H c Hc).
  unfold is_digit in H. apply andb_true_iff in H. destruct H as [_ H]. apply N.leb_le in H. lia.
Qed.

(* ------------------------------------------------------------------ the whole message reads back *)
Theorem read_msg_msg_text port eid fw desc : port <= 65535 -> valid eid -> valid fw -> valid desc ->
  read_msg (msg_text port eid fw desc) = Some (port, eid, fw, desc).
Proof.
  intros Hp He Hf Hd. unfold read_msg, msg_text, msg_head.
  repeat rewrite <- app_assoc.
  rewrite expect_app.
  change (s2l ",""equipment_id"":") with (44 :: s2l """equipment_id"":").
  cbn [app]. rewrite read_nat_digits by (exact Hp || reflexivity).
  change (44 :: s2l """equipment_id"":" ++ ?x) with (s2l ",""equipment_id"":" ++ x).
  rewrite expect_app.
  rewrite read_jstring_json_string by exact He.
  rewrite expect_app.
  rewrite read_jstring_json_string by exact Hf.
  rewrite expect_app.
  rewrite read_jstring_json_string by exact Hd.
  reflexivity.
Qed.
