(* C16 - correspondence driver.  A case carries the configuration, the programs of the callers, the executed step
   sequence of the real threads (thread, label of the synchronisation point, virtual time, whether the poll thread
   goes on with another read) and what the implementation did: outcome of every call, the send log of the fake
   socket, the callback log, the announced is_connected values and the final connection state.  check_case re-runs
   the model along the same schedule and requires: every step is enabled in the model and parked at the same label,
   and all observations are equal.
   A second kind of case (rxcase) drives the receive layer alone: a socket queue with arrival times and a script of
   readline / readbytes / flush_recv calls on one real AsynTcp object; check_rx re-runs RxModel.do_calls and compares,
   after every call, the result, the clock, _rxbuffer and the number of chunks left in the socket. *)
From Coq Require Import List Arith ZArith NArith Bool.
Import ListNotations.
Require Import FV.Base.Util FV.Gen.C16 FV.C16.Model FV.C16.RxModel.
Open Scope Z_scope.

Definition TICKS_PER_S : Z := 8.
Definition SLICE : Z := Z.of_nat recv_slice_s * TICKS_PER_S.

Definition label_eqb (a b : label) : bool :=
  match a, b with
  | LStart, LStart | LAccess, LAccess | LConnect, LConnect | LLock, LLock | LSend, LSend | LRecv, LRecv
  | LSleep, LSleep | LWait, LWait | LNone, LNone => true
  | _, _ => false
  end.

Record case := {
  c_mode : mode; c_timeout : Z; c_interval : Z;
  c_progs : list (list op); c_refuse : list bool; c_cbs : list (nat * cbkind); c_poller : bool;
  c_trace : list (tid * label * Z * bool);
  c_outs : list (list outcome);
  c_sends : list (nat * nat * nat);
  c_cblog : list nat; c_ann : list bool;
  c_connected : bool; c_conn : bool; c_nconn : nat; c_cbkeys : list nat; c_lasterr : bool; c_lastatt : Z;
}.

Definition enabled (st : state) (t : tid) (now : Z) : bool :=
  match t with
  | TC i => match nth_error (callers st) i with Some c => caller_enabled i now (sh st) c | None => false end
  | TP => poll_enabled (sh st) (poll st)
  end.

Fixpoint follow (c : case) (st : state) (tr : list (tid * label * Z * bool)) (n : nat) : state * option nat :=
  match tr with
  | [] => (st, None)
  | (t, l, now, nxt) :: r =>
      if label_eqb (label_of st t) l && enabled st t now
      then follow c (step (c_mode c) (c_timeout c) (c_interval c) SLICE st (t, now, nxt)) r (S n)
      else (st, Some n)
  end.

Definition final (c : case) : state * option nat :=
  follow c (init (c_progs c) (c_refuse c) (c_cbs c) (c_poller c)) (c_trace c) 0.

Definition bytes_eqb : list N -> list N -> bool := list_eqb N.eqb.
Definition outcome_eqb (a b : outcome) : bool :=
  match a, b with
  | ROk x, ROk y => list_eqb bytes_eqb x y
  | RFail, RFail => true
  | _, _ => false
  end.
Definition triple_eqb (a b : nat * nat * nat) : bool :=
  Nat.eqb (fst (fst a)) (fst (fst b)) && Nat.eqb (snd (fst a)) (snd (fst b)) && Nat.eqb (snd a) (snd b).

Definition check_case (c : case) : bool :=
  let '(st, bad) := final c in
  match bad with Some _ => false | None =>
    let s := sh st in
    list_eqb (list_eqb outcome_eqb) (map outs (callers st)) (c_outs c)
    && forallb (fun k => match pc k with CDone => true | _ => false end) (callers st)
    && list_eqb triple_eqb (sendlog s) (c_sends c)
    && list_eqb Nat.eqb (cblog s) (c_cblog c)
    && list_eqb Bool.eqb (ann s) (c_ann c)
    && Bool.eqb (connected s) (c_connected c) && Bool.eqb (conn s) (c_conn c) && Nat.eqb (nconn s) (c_nconn c)
    && list_eqb Nat.eqb (map fst (cbs s)) (c_cbkeys c)
    && Bool.eqb (last_error s) (c_lasterr c) && Z.eqb (last_attempt s) (c_lastatt c)
  end.

(* diagnosis: first step not followed and the label the model is parked at there; the model's observations *)
Definition model_result (c : case) :=
  let '(st, bad) := final c in
  let s := sh st in
  (bad, match bad with Some n => match nth_error (c_trace c) n with Some (t, _, _, _) => Some (label_of st t) | None => None end | None => None end,
   map outs (callers st), sendlog s, (cblog s, ann s), (connected s, conn s, nconn s), (map fst (cbs s), last_error s, last_attempt s)).

(* ---------------------------------------------------------------- the receive layer alone (RxModel.v) *)
Record rxstep := { k_call : rxcall; k_out : rxout; k_now : Z; k_buf : list N; k_left : nat }.
Record rxcase := { r_eol : list N; r_slice : Z; r_t0 : Z; r_queue : list item; r_steps : list rxstep }.

Definition rxout_eqb (a b : rxout) : bool :=
  match a, b with
  | UData x, UData y => bytes_eqb x y
  | UNone, UNone | UTimeout, UTimeout | UClosed, UClosed => true
  | _, _ => false
  end.

Fixpoint all2 {A B} (f : A -> B -> bool) (a : list A) (b : list B) : bool :=
  match a, b with
  | [], [] => true
  | x :: a', y :: b' => f x y && all2 f a' b'
  | _, _ => false
  end.

Definition rxobs_eqb (m : rxout * Z * list N * nat) (k : rxstep) : bool :=
  let '(o, t, b, n) := m in
  rxout_eqb o (k_out k) && Z.eqb t (k_now k) && bytes_eqb b (k_buf k) && Nat.eqb n (k_left k).

Definition rx_model (r : rxcase) : list (rxout * Z * list N * nat) :=
  do_calls (r_eol r) (r_slice r) (map k_call (r_steps r)) (r_t0 r) [] (r_queue r).

(* the slice the implementation passed to the socket is AsynConn.timeout *)
Definition check_rx (r : rxcase) : bool :=
  Z.eqb (r_slice r) SLICE && all2 rxobs_eqb (rx_model r) (r_steps r).

Inductive tcase := TSys (c : case) | TRx (r : rxcase).

Definition check_tcase (t : tcase) : bool :=
  match t with TSys c => check_case c | TRx r => check_rx r end.
