(* C16 - the receive layer (RxModel.v): what a call takes from the socket, chunking independence of the sequence of
   lines, flush_recv, termination of the loops, and the link to the abstractions used by the transition system
   (Model.flush, Framing.read_loop). *)
From Coq Require Import List Arith ZArith NArith Bool Lia.
Import ListNotations.
Require Import FV.C16.Model FV.C16.Framing FV.C16.RxModel.
Open Scope Z_scope.

(* a chunk of data (not the end of the stream) *)
Definition is_chunk (it : item) : Prop := exists a b d, it = mkItem a (Some (b :: d)).

Fixpoint payload (l : list item) : list N :=
  match l with
  | [] => []
  | mkItem _ (Some d) :: r => d ++ payload r
  | mkItem _ None :: r => payload r
  end.

(* the bytes the socket will still deliver: the chunks up to the end of the stream *)
Fixpoint stream (q : list item) : list N :=
  match q with
  | mkItem _ (Some (b :: d)) :: r => (b :: d) ++ stream r
  | _ => []
  end.

Lemma payload_app : forall a b, payload (a ++ b) = payload a ++ payload b.
Proof.
  induction a as [|[t [d|]] a IH]; intros b; simpl; [reflexivity| |apply IH]. rewrite IH. apply app_assoc.
Qed.

Lemma stream_app : forall taken q, Forall is_chunk taken -> stream (taken ++ q) = payload taken ++ stream q.
Proof.
  induction taken as [|it taken IH]; intros q F; [reflexivity|].
  inversion F as [|? ? (a & b & d & ->) F']; subst. simpl. rewrite (IH q F'). rewrite app_assoc. reflexivity.
Qed.

(* ------------------------------------------------------------------ one receive step *)
Lemma tcp_recv_cases : forall slice now q r t q', tcp_recv slice now q = (r, t, q') ->
  (exists a b d, q = mkItem a (Some (b :: d)) :: q' /\ r = RxData (b :: d) /\ t = Z.max now a /\ a <= now + slice) \/
  (r = RxClosed /\ q' = q /\ stream q = [] /\ now <= t) \/
  (r = RxEmpty /\ q' = q /\ t = now + slice).
Proof.
  intros slice now q r t q' H. unfold tcp_recv, sock_recv in H.
  destruct q as [|[a [[|b d]|]] rest].
  - inversion H; subst. right; right. auto.
  - destruct (a <=? now + slice) eqn:E; inversion H; subst.
    + right; left. repeat split; auto. lia.
    + right; right. auto.
  - destruct (a <=? now + slice) eqn:E; inversion H; subst.
    + left. exists a, b, d. repeat split; auto. apply Z.leb_le. exact E.
    + right; right. auto.
  - destruct (a <=? now + slice) eqn:E; inversion H; subst.
    + right; left. repeat split; auto. lia.
    + right; right. auto.
Qed.

(* ------------------------------------------------------------------ what a readline call takes from the socket *)
Definition took (buf : list N) (q : list item) (buf' : list N) (q' : list item) (frame : list N -> option (list N * list N))
                (res : rxout) : Prop :=
  exists taken, q = taken ++ q' /\ Forall is_chunk taken /\
    match res with
    | UData l => frame (buf ++ payload taken) = Some (l, buf')
    | _ => buf' = buf ++ payload taken
    end.

Lemma took_cons : forall a b d buf q buf' q' frame res,
  took (buf ++ b :: d) q buf' q' frame res -> took buf (mkItem a (Some (b :: d)) :: q) buf' q' frame res.
Proof.
  intros a b d buf q buf' q' frame res (taken & E & F & H).
  exists (mkItem a (Some (b :: d)) :: taken). split; [simpl; rewrite E; reflexivity|]. split.
  - constructor; [exists a, b, d; reflexivity|exact F].
  - change (payload (mkItem a (Some (b :: d)) :: taken)) with ((b :: d) ++ payload taken).
    rewrite app_assoc. exact H.
Qed.

Lemma took_nil_keep : forall buf q frame res, (forall l, res <> UData l) -> took buf q buf q frame res.
Proof.
  intros buf q frame res NL. exists []. split; [reflexivity|]. split; [constructor|].
  simpl. rewrite app_nil_r. destruct res; try reflexivity. exfalso. eapply NL. reflexivity.
Qed.

Lemma readline_loop_took : forall fuel eol slice endt now buf q res t buf' q',
  readline_loop fuel eol slice endt now buf q = (res, t, buf', q') ->
  took buf q buf' q' (split_eol eol) res.
Proof.
  induction fuel as [|f IH]; intros eol slice endt now buf q res t buf' q' H; simpl in H.
  - inversion H; subst. apply took_nil_keep. discriminate.
  - destruct (split_eol eol buf) as [[l rest]|] eqn:S.
    + inversion H; subst. exists []. split; [reflexivity|]. split; [constructor|]. simpl. rewrite app_nil_r. exact S.
    + destruct (tcp_recv slice now q) as [[r t1] q1] eqn:R.
      apply tcp_recv_cases in R. destruct R as [(a & b & d & -> & -> & -> & _)|[(-> & -> & _)|(-> & -> & ->)]].
      * apply took_cons. eapply IH. exact H.
      * inversion H; subst. apply took_nil_keep. discriminate.
      * destruct endt as [e|].
        { destruct (now + slice <? e); [eapply IH; exact H|]. inversion H; subst. apply took_nil_keep. discriminate. }
        { inversion H; subst. apply took_nil_keep. discriminate. }
Qed.

Definition frame_n (n : nat) (buf : list N) : option (list N * list N) :=
  if Nat.ltb (length buf) n then None else Some (firstn n buf, skipn n buf).

Lemma readbytes_loop_took : forall fuel n slice endt now buf q res t buf' q',
  readbytes_loop fuel n slice endt now buf q = (res, t, buf', q') ->
  took buf q buf' q' (frame_n n) res.
Proof.
  induction fuel as [|f IH]; intros n slice endt now buf q res t buf' q' H; simpl in H.
  - inversion H; subst. apply took_nil_keep. discriminate.
  - destruct (Nat.ltb (length buf) n) eqn:S.
    + destruct (tcp_recv slice now q) as [[r t1] q1] eqn:R.
      apply tcp_recv_cases in R. destruct R as [(a & b & d & -> & -> & -> & _)|[(-> & -> & _)|(-> & -> & ->)]].
      * apply took_cons. eapply IH. exact H.
      * inversion H; subst. apply took_nil_keep. discriminate.
      * destruct endt as [e|].
        { destruct (now + slice <? e); [eapply IH; exact H|]. inversion H; subst. apply took_nil_keep. discriminate. }
        { inversion H; subst. apply took_nil_keep. discriminate. }
    + inversion H; subst. exists []. split; [reflexivity|]. split; [constructor|]. simpl. rewrite app_nil_r.
      unfold frame_n. rewrite S. reflexivity.
Qed.

(* ------------------------------------------------------------------ the sequence of lines of a byte stream *)
Inductive parsed (eol : list N) : list N -> list (list N) -> list N -> Prop :=
| P_end : forall s, split_eol eol s = None -> parsed eol s [] s
| P_line : forall s l r ls t, split_eol eol s = Some (l, r) -> parsed eol r ls t -> parsed eol s (l :: ls) t.

Lemma parsed_fun : forall eol s ls t, parsed eol s ls t -> forall ls' t', parsed eol s ls' t' -> ls = ls' /\ t = t'.
Proof.
  intros eol s ls t H. induction H as [s S|s l r ls t S H IH]; intros ls' t' H'.
  - inversion H' as [? S'|? ? ? ? ? S' ?]; subst; [auto|congruence].
  - inversion H' as [? S'|? l2 r2 ls2 ? S' H2]; subst; [congruence|].
    rewrite S in S'. inversion S'; subst. destruct (IH _ _ H2) as [-> ->]. auto.
Qed.

(* a script of readline calls on one connection: per call the number of passes allowed, the time that passes before
   the call, the deadline (None = no time-out given); all of them arbitrary *)
Fixpoint rl_run (eol : list N) (slice : Z) (calls : list (nat * Z * option Z)) (now : Z) (buf : list N) (q : list item)
  : list rxout * (list N * list item) :=
  match calls with
  | [] => ([], (buf, q))
  | (fuel, w, endt) :: r =>
      let '(res, t, buf', q') := readline_loop fuel eol slice endt (now + w) buf q in
      let '(rs, fin) := rl_run eol slice r t buf' q' in (res :: rs, fin)
  end.

Definition lines_of (rs : list rxout) : list (list N) :=
  flat_map (fun r => match r with UData l => [l] | _ => [] end) rs.

(* when everything the socket delivers has been taken and no complete line is left in the buffer, the lines returned
   (whatever calls failed in between) are the lines of buffer ++ stream and the buffer is the incomplete rest *)
Lemma rl_run_parsed : forall eol slice calls now buf q rs buf' q', eol <> [] ->
  rl_run eol slice calls now buf q = (rs, (buf', q')) -> stream q' = [] -> split_eol eol buf' = None ->
  parsed eol (buf ++ stream q) (lines_of rs) buf'.
Proof.
  intros eol slice calls. induction calls as [|[[fuel w] endt] r IH]; intros now buf q rs buf' q' NE H SQ SB; simpl in H.
  - inversion H; subst. rewrite SQ, app_nil_r. constructor. exact SB.
  - destruct (readline_loop fuel eol slice endt (now + w) buf q) as [[[res t] b1] q1] eqn:R.
    destruct (rl_run eol slice r t b1 q1) as [rs1 fin] eqn:RR. inversion H; subst rs fin.
    specialize (IH _ _ _ _ _ _ NE RR SQ SB).
    apply readline_loop_took in R. destruct R as (taken & -> & F & T).
    rewrite (stream_app _ _ F), app_assoc.
    destruct res; try (subst b1; exact IH).
    simpl. eapply P_line; [|exact IH]. apply split_eol_app; assumption.
Qed.

Lemma chunking_full : forall eol slice1 slice2 calls1 calls2 now1 now2 buf q1 q2 rs1 rs2 b1 b2 q1' q2',
  eol <> [] -> stream q1 = stream q2 ->
  rl_run eol slice1 calls1 now1 buf q1 = (rs1, (b1, q1')) -> stream q1' = [] -> split_eol eol b1 = None ->
  rl_run eol slice2 calls2 now2 buf q2 = (rs2, (b2, q2')) -> stream q2' = [] -> split_eol eol b2 = None ->
  lines_of rs1 = lines_of rs2 /\ b1 = b2.
Proof.
  intros eol slice1 slice2 calls1 calls2 now1 now2 buf q1 q2 rs1 rs2 b1 b2 q1' q2' NE E R1 S1 B1 R2 S2 B2.
  pose proof (rl_run_parsed _ _ _ _ _ _ _ _ _ NE R1 S1 B1) as P1.
  pose proof (rl_run_parsed _ _ _ _ _ _ _ _ _ NE R2 S2 B2) as P2.
  rewrite E in P1. exact (parsed_fun _ _ _ _ P1 _ _ P2).
Qed.

(* at any moment (not only when the socket is drained): the lines returned so far are a prefix of the lines of the
   stream, what is left to come is buffer ++ stream *)
Lemma rl_run_prefix : forall eol slice calls now buf q rs buf' q' ls t, eol <> [] ->
  rl_run eol slice calls now buf q = (rs, (buf', q')) ->
  parsed eol (buf' ++ stream q') ls t -> parsed eol (buf ++ stream q) (lines_of rs ++ ls) t.
Proof.
  intros eol slice calls. induction calls as [|[[fuel w] endt] r IH]; intros now buf q rs buf' q' ls t NE H P; simpl in H.
  - inversion H; subst. exact P.
  - destruct (readline_loop fuel eol slice endt (now + w) buf q) as [[[res t1] b1] q1] eqn:R.
    destruct (rl_run eol slice r t1 b1 q1) as [rs1 fin] eqn:RR. inversion H; subst rs fin.
    specialize (IH _ _ _ _ _ _ _ _ NE RR P).
    apply readline_loop_took in R. destruct R as (taken & -> & F & T).
    rewrite (stream_app _ _ F), app_assoc.
    destruct res; try (subst b1; exact IH).
    simpl. eapply P_line; [|exact IH]. apply split_eol_app; assumption.
Qed.

(* ------------------------------------------------------------------ flush_recv *)
Fixpoint fifo (q : list item) : Prop :=
  match q with
  | a :: (b :: _) as r => arrival_of a <= arrival_of b /\ fifo r
  | _ => True
  end.

Lemma fifo_later : forall q a, fifo (a :: q) -> Forall (fun it => arrival_of a <= arrival_of it) q.
Proof.
  induction q as [|b q IH]; intros a F; [constructor|]. simpl in F. destruct F as [AB F].
  constructor; [exact AB|]. eapply Forall_impl; [|apply (IH b F)]. simpl. intros c H. lia.
Qed.

Lemma flush_loop_spec : forall now q acc g q', fifo q -> flush_loop now q acc = (Some g, q') ->
  exists taken, q = taken ++ q' /\ Forall is_chunk taken /\ Forall (fun it => arrival_of it <= now) taken /\
                g = acc ++ payload taken /\ Forall (fun it => now < arrival_of it) q'.
Proof.
  intros now q. induction q as [|[a p] r IH]; intros acc g q' F H; simpl in H.
  - inversion H; subst. exists []. simpl. rewrite app_nil_r. repeat split; constructor.
  - destruct (a <=? now) eqn:E.
    + destruct p as [[|b d]|]; try discriminate.
      assert (F' : fifo r) by (destruct r; [exact I|apply F]).
      destruct (IH _ _ _ F' H) as (taken & -> & C & A & -> & L).
      exists (mkItem a (Some (b :: d)) :: taken). repeat split; auto.
      * constructor; [exists a, b, d; reflexivity|exact C].
      * constructor; [simpl; apply Z.leb_le; exact E|exact A].
      * simpl. rewrite <- app_assoc. reflexivity.
    + inversion H; subst. exists []. simpl. rewrite app_nil_r. repeat split; try constructor.
      * simpl. apply Z.leb_gt. exact E.
      * apply Z.leb_gt in E. eapply Forall_impl; [|apply (fifo_later _ _ F)]. simpl. intros c H1. lia.
Qed.

Lemma Forall_app_l : forall {A} (P : A -> Prop) a b, Forall P (a ++ b) -> Forall P a.
Proof. intros A P a b H. apply Forall_forall. intros x I. rewrite Forall_forall in H. apply H. apply in_or_app. auto. Qed.

(* after flush_recv the buffer is empty, what had arrived is gone from the socket, and whatever a later readline /
   readbytes returns (and leaves in the buffer) consists of chunks that arrived after the flush *)
Lemma flush_empties : forall now buf q g buf' q', fifo q -> tcp_flush now buf q = (UData g, buf', q') ->
  buf' = [] /\
  (exists gone, q = gone ++ q' /\ Forall is_chunk gone /\ Forall (fun it => arrival_of it <= now) gone /\
                g = buf ++ payload gone) /\
  Forall (fun it => now < arrival_of it) q' /\
  (forall fuel eol slice endt now2 l t b2 q2,
     readline_loop fuel eol slice endt now2 buf' q' = (UData l, t, b2, q2) ->
     exists taken, q' = taken ++ q2 /\ Forall is_chunk taken /\ Forall (fun it => now < arrival_of it) taken /\
                   payload taken = l ++ eol ++ b2) /\
  (forall fuel n slice endt now2 l t b2 q2,
     readbytes_loop fuel n slice endt now2 buf' q' = (UData l, t, b2, q2) ->
     exists taken, q' = taken ++ q2 /\ Forall is_chunk taken /\ Forall (fun it => now < arrival_of it) taken /\
                   payload taken = l ++ b2 /\ length l = n).
Proof.
  intros now buf q g buf' q' F H. unfold tcp_flush in H.
  destruct (flush_loop now q buf) as [[g0|] q0] eqn:FL; inversion H; subst g0 buf' q0.
  destruct (flush_loop_spec _ _ _ _ _ F FL) as (gone & E & C & A & G & L).
  split; [reflexivity|]. split; [exists gone; auto|]. split; [exact L|]. split.
  - intros fuel eol slice endt now2 l t b2 q2 R. apply readline_loop_took in R.
    destruct R as (taken & E2 & C2 & T). simpl in T. exists taken. repeat split; auto.
    + rewrite E2 in L. eapply Forall_app_l. exact L.
    + apply split_eol_spec. exact T.
  - intros fuel n slice endt now2 l t b2 q2 R. apply readbytes_loop_took in R.
    destruct R as (taken & E2 & C2 & T). simpl in T. unfold frame_n in T.
    destruct (Nat.ltb (length (payload taken)) n) eqn:LT; [discriminate|]. inversion T; subst l b2.
    exists taken. repeat split; auto.
    + rewrite E2 in L. eapply Forall_app_l. exact L.
    + symmetry. apply firstn_skipn.
    + apply firstn_length_le. apply Nat.ltb_ge. exact LT.
Qed.

(* the loop `while select: data.append(recv())`: while the head has arrived, one pass is one AsynTcp.recv, which
   returns at once *)
Lemma flush_loop_pass : forall slice now q acc, 0 <= slice -> sock_readable now q = true ->
  flush_loop now q acc =
    match tcp_recv slice now q with
    | (RxData d, _, q') => flush_loop now q' (acc ++ d)
    | (_, _, _) => (None, q)
    end /\ snd (fst (tcp_recv slice now q)) = now.
Proof.
  intros slice now q acc SL R. unfold sock_readable, head_ready in R. destruct q as [|[a p] r]; [discriminate|].
  assert (E2 : (a <=? now + slice) = true) by (apply Z.leb_le; apply Z.leb_le in R; lia).
  unfold tcp_recv, sock_recv. simpl flush_loop. rewrite R, E2.
  apply Z.leb_le in R. destruct p as [[|b d]|]; simpl; split; try reflexivity; lia.
Qed.

Lemma flush_loop_stops : forall now q acc, sock_readable now q = false -> flush_loop now q acc = (Some acc, q).
Proof.
  intros now q acc R. unfold sock_readable, head_ready in R. destruct q as [|[a p] r]; [reflexivity|].
  simpl. rewrite R. reflexivity.
Qed.

(* the flush of the transition system (Model.flush) is this loop *)
Definition no_empty_chunk (it : item) : Prop := match it with mkItem _ (Some []) => False | _ => True end.

Lemma flush_is_model_flush : forall now q acc, Forall no_empty_chunk q ->
  match flush_loop now q acc with
  | (Some _, q') => flush now q = (false, q')
  | (None, q') => flush now q = (true, q')
  end.
Proof.
  intros now q. induction q as [|[a p] r IH]; intros acc F; simpl; [reflexivity|].
  inversion F as [|? ? NE F']; subst.
  destruct (a <=? now); [|destruct p; reflexivity].
  destruct p as [[|b d]|]; [destruct NE| |reflexivity]. apply IH. exact F'.
Qed.

(* ------------------------------------------------------------------ the loops end: with a slice of at least one
   tick the number of passes computed by rx_fuel is never used up *)
Definition span (endt : option Z) (now : Z) : nat := Z.to_nat (match endt with Some e => e - now | None => 0 end).

Lemma readline_loop_ends : forall fuel eol slice endt now buf q, 1 <= slice ->
  (length q + span endt now + 2 <= fuel)%nat ->
  fst (fst (fst (readline_loop fuel eol slice endt now buf q))) <> UFuel.
Proof.
  induction fuel as [|f IH]; intros eol slice endt now buf q SL B; [lia|]. simpl.
  destruct (split_eol eol buf) as [[l rest]|]; [simpl; discriminate|].
  destruct (tcp_recv slice now q) as [[r t1] q1] eqn:R.
  apply tcp_recv_cases in R. destruct R as [(a & b & d & -> & -> & -> & _)|[(-> & -> & _)|(-> & -> & ->)]].
  - apply IH; [exact SL|]. simpl in B. unfold span in *. destruct endt; lia.
  - simpl. discriminate.
  - destruct endt as [e|]; [|simpl; discriminate].
    destruct (now + slice <? e) eqn:LT; [|simpl; discriminate].
    apply IH; [exact SL|]. apply Z.ltb_lt in LT. unfold span in *. lia.
Qed.

Lemma readbytes_loop_ends : forall fuel n slice endt now buf q, 1 <= slice ->
  (length q + span endt now + 2 <= fuel)%nat ->
  fst (fst (fst (readbytes_loop fuel n slice endt now buf q))) <> UFuel.
Proof.
  induction fuel as [|f IH]; intros n slice endt now buf q SL B; [lia|]. simpl.
  destruct (Nat.ltb (length buf) n); [|simpl; discriminate].
  destruct (tcp_recv slice now q) as [[r t1] q1] eqn:R.
  apply tcp_recv_cases in R. destruct R as [(a & b & d & -> & -> & -> & _)|[(-> & -> & _)|(-> & -> & ->)]].
  - apply IH; [exact SL|]. simpl in B. unfold span in *. destruct endt; lia.
  - simpl. discriminate.
  - destruct endt as [e|]; [|simpl; discriminate].
    destruct (now + slice <? e) eqn:LT; [|simpl; discriminate].
    apply IH; [exact SL|]. apply Z.ltb_lt in LT. unfold span in *. lia.
Qed.

Lemma readline_terminates : forall eol slice timeout now buf q, 1 <= slice ->
  fst (fst (fst (readline eol slice timeout now buf q))) <> UFuel.
Proof. intros. unfold readline. apply readline_loop_ends; [assumption|]. unfold rx_fuel, span. lia. Qed.

Lemma readbytes_terminates : forall n slice timeout now buf q, 1 <= slice ->
  fst (fst (fst (readbytes n slice timeout now buf q))) <> UFuel.
Proof. intros. unfold readbytes. apply readbytes_loop_ends; [assumption|]. unfold rx_fuel, span. lia. Qed.

(* ------------------------------------------------------------------ link to the clock-free receive loop of Framing.v
   (what the receive steps of the transition system compute): a line returned by readline is the frame read_loop
   finds in the chunks taken *)
Lemma readline_is_first_frame : forall fuel eol slice endt now buf q l t buf' q', eol <> [] ->
  readline_loop fuel eol slice endt now buf q = (UData l, t, buf', q') ->
  exists taken, q = taken ++ q' /\ try_frame (MLine eol) 0 (buf ++ payload taken) = Some (l, buf').
Proof.
  intros fuel eol slice endt now buf q l t buf' q' NE H. apply readline_loop_took in H.
  destruct H as (taken & E & _ & T). exists taken. split; [exact E|exact T].
Qed.
