(* C16 - framing over the receive buffer: the frame returned by readline / readbytes is the first frame of the
   concatenated byte stream, whatever the chunking. *)
From Coq Require Import List Arith ZArith NArith Bool Lia.
Import ListNotations.
Require Import FV.C16.Model.

Lemma starts_with_length : forall p s, starts_with p s = true -> (length p <= length s)%nat.
Proof.
  induction p as [|a p IH]; intros [|b s] H; simpl in *; try lia; try discriminate.
  apply andb_true_iff in H. destruct H as [_ H]. apply IH in H. lia.
Qed.

Lemma starts_with_app : forall p s x, (length p <= length s)%nat -> starts_with p (s ++ x) = starts_with p s.
Proof.
  induction p as [|a p IH]; intros [|b s] x H; simpl in *; try reflexivity; try lia.
  rewrite IH by lia. reflexivity.
Qed.

Lemma starts_with_spec : forall p s, starts_with p s = true -> s = p ++ skipn (length p) s.
Proof.
  induction p as [|a p IH]; intros [|b s] H; simpl in *; try reflexivity; try discriminate.
  apply andb_true_iff in H. destruct H as [E H]. apply N.eqb_eq in E. subst. f_equal. apply IH. exact H.
Qed.

Lemma split_eol_length : forall eol buf l r, eol <> [] -> split_eol eol buf = Some (l, r) -> (length eol <= length buf)%nat.
Proof.
  intros eol buf. induction buf as [|b buf IH]; intros l r NE H; simpl in H; try discriminate.
  destruct (starts_with eol (b :: buf)) eqn:S.
  - apply starts_with_length in S. exact S.
  - destruct (split_eol eol buf) as [[l' r']|] eqn:E; try discriminate.
    specialize (IH l' r' NE eq_refl). simpl. lia.
Qed.

(* the frame is a split of the buffer at an occurrence of the separator *)
Lemma split_eol_spec : forall eol buf l r, split_eol eol buf = Some (l, r) -> buf = l ++ eol ++ r.
Proof.
  intros eol buf. induction buf as [|b buf IH]; intros l r H; simpl in H; try discriminate.
  destruct (starts_with eol (b :: buf)) eqn:S.
  - inversion H; subst. simpl. apply starts_with_spec. exact S.
  - destruct (split_eol eol buf) as [[l' r']|] eqn:E; try discriminate.
    inversion H; subst. simpl. f_equal. apply IH. reflexivity.
Qed.

(* more data never changes a frame that is already complete *)
Lemma split_eol_app : forall eol buf x l r, eol <> [] ->
  split_eol eol buf = Some (l, r) -> split_eol eol (buf ++ x) = Some (l, r ++ x).
Proof.
  intros eol buf. induction buf as [|b buf IH]; intros x l r NE H; simpl in H; try discriminate.
  change ((b :: buf) ++ x) with (b :: (buf ++ x)). simpl split_eol.
  destruct (starts_with eol (b :: buf)) eqn:S.
  - inversion H; subst. pose proof (starts_with_length _ _ S) as L.
    change (b :: buf ++ x) with ((b :: buf) ++ x). rewrite starts_with_app by exact L. rewrite S.
    f_equal. f_equal. rewrite skipn_app. replace (length eol - length (b :: buf))%nat with 0%nat by lia.
    reflexivity.
  - destruct (split_eol eol buf) as [[l' r']|] eqn:E; try discriminate. inversion H; subst.
    pose proof (split_eol_length _ _ _ _ NE E) as L.
    change (b :: buf ++ x) with ((b :: buf) ++ x). rewrite starts_with_app by (simpl; lia). rewrite S.
    rewrite (IH x l' r NE eq_refl). reflexivity.
Qed.

Definition mode_ok (m : mode) : Prop := match m with MLine eol => eol <> [] | MBytes => True end.

Lemma try_frame_app : forall m n buf x l r, mode_ok m ->
  try_frame m n buf = Some (l, r) -> try_frame m n (buf ++ x) = Some (l, r ++ x).
Proof.
  intros [eol|] n buf x l r OK H; simpl in *.
  - apply split_eol_app; assumption.
  - destruct (Nat.leb n (length buf)) eqn:L; try discriminate. apply Nat.leb_le in L.
    inversion H; subst. rewrite app_length.
    replace (Nat.leb n (length buf + length x)) with true by (symmetry; apply Nat.leb_le; lia).
    rewrite firstn_app, skipn_app. replace (n - length buf)%nat with 0%nat by lia. simpl.
    rewrite app_nil_r. reflexivity.
Qed.

(* the receive loop of readline / readbytes without its clock: test the buffer, else append the next chunk *)
Fixpoint read_loop (m : mode) (n : nat) (buf : list N) (chunks : list (list N)) : option (list N) :=
  match try_frame m n buf with
  | Some (l, _) => Some l
  | None => match chunks with
            | [] => None
            | c :: r => read_loop m n (buf ++ c) r
            end
  end.

Lemma read_loop_first_frame : forall m n chunks buf l, mode_ok m ->
  read_loop m n buf chunks = Some l ->
  exists r, try_frame m n (buf ++ concat chunks) = Some (l, r).
Proof.
  intros m n chunks. induction chunks as [|c cs IH]; intros buf l OK H; simpl in H.
  - destruct (try_frame m n buf) as [[l' r']|] eqn:E; try discriminate. inversion H; subst.
    exists r'. simpl. rewrite app_nil_r. exact E.
  - destruct (try_frame m n buf) as [[l' r']|] eqn:E.
    + inversion H; subst. exists (r' ++ concat (c :: cs)). apply try_frame_app; assumption.
    + apply IH in H; [|exact OK]. destruct H as [r H]. exists r. simpl. rewrite app_assoc. exact H.
Qed.

(* reply framing is independent of how the device's bytes are chunked *)
Lemma framing_chunking : forall m n c1 c2 l1 l2, mode_ok m -> concat c1 = concat c2 ->
  read_loop m n [] c1 = Some l1 -> read_loop m n [] c2 = Some l2 -> l1 = l2.
Proof.
  intros m n c1 c2 l1 l2 OK E H1 H2.
  apply read_loop_first_frame in H1; [|exact OK]. apply read_loop_first_frame in H2; [|exact OK].
  destruct H1 as [r1 H1], H2 as [r2 H2]. simpl in *. rewrite E in H1. rewrite H1 in H2. inversion H2. reflexivity.
Qed.
