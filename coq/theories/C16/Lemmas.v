(* C16 - invariants of the transition system: lock discipline (mutual exclusion, only the lock owner writes to the
   connection), time-out bound, delays, callbacks. *)
From Coq Require Import List Arith ZArith NArith Bool Lia.
Import ListNotations.
Require Import FV.C16.Model FV.C16.Framing.
Open Scope Z_scope.

Section L.
Variable md : mode.
Variable timeout interval slice : Z.

Notation caller_step := (caller_step md timeout interval slice).
Notation run_ops := (run_ops interval).
Notation fail_op := (fail_op interval).
Notation next_in_multi := (next_in_multi interval).
Notation finish_exch := (finish_exch interval).
Notation begin_exch := (begin_exch interval).
Notation step := (step md timeout interval slice).
Notation run := (run md timeout interval slice).
Notation flush_then := (flush_then interval).

(* parked at a send: of the last line of a command (CSend) or of a line in front of it (CSendPre) *)
Definition is_send (p : cpc) : Prop := match p with CSend | CSendPre _ => True | _ => False end.

Lemma send_pc_is_send : forall l, is_send (send_pc l).
Proof. intros [|x l]; exact I. Qed.

Lemma is_send_dec : forall p, {is_send p} + {~ is_send p}.
Proof. intros p. destruct p; simpl; auto. Qed.

Lemma flush_then_cases : forall now s1 c p,
  (exists q, conn s1 = true /\ flush now (queue s1) = (true, q) /\
             flush_then now s1 c p = fail_op now (release (close_conn s1)) c) \/
  (exists q, conn s1 = true /\ flush now (queue s1) = (false, q) /\
             flush_then now s1 c p = (set_rxbuf (set_queue s1 q) [], set_pc c p)) \/
  (conn s1 = false /\ flush_then now s1 c p = fail_op now (release s1) c).
Proof.
  intros now s1 c p. unfold Model.flush_then. destruct (conn s1); [|right; right; auto].
  destruct (flush now (queue s1)) as [[|] q]; [left|right; left]; exists q; auto.
Qed.

(* ------------------------------------------------------------------ the lock *)
Definition lk (s : shared) : option nat * nat := (lock_owner s, lock_cnt s).

(* how many times a caller parked at this point holds the communicator lock *)
Definition cnt_of (c : cst) : nat :=
  match pc c with
  | CSend | CRecv _ _ | CWaitB _ _ _ | CSendPre _ => if inmulti c then 2 else 1
  | CSleepX _ => 1
  | CAccess | CConnect | CLock => if inmulti c then 1 else 0
  | _ => 0
  end%nat.

Definition target (i k : nat) : option nat * nat := match k with O => (None, O) | _ => (Some i, k) end.

Lemma lk_release : forall s o n, lk s = (o, S n) -> lk (release s) = match n with O => (None, O) | _ => (o, n) end.
Proof. intros s o n H. unfold lk in *. inversion H. unfold release. rewrite H2. simpl. destruct n; reflexivity. Qed.

Lemma lk_acquire : forall i s, lk (acquire i s) = (Some i, S (lock_cnt s)).
Proof. reflexivity. Qed.

Lemma lk_connect_ok : forall s, lk (connect_ok s) = lk s.
Proof. intros s. unfold connect_ok. destruct (last_error s); reflexivity. Qed.

Lemma begin_exch_lk : forall now s s' p, begin_exch now s = Some (s', p) -> lk s' = lk s /\ (p = CLock \/ p = CAccess).
Proof.
  intros now s s' p H. unfold Model.begin_exch in H.
  destruct (connected s). { inversion H; subst. auto. }
  destruct (last_attempt s + interval <=? now); inversion H; subst. auto.
Qed.

Lemma run_ops_lk : forall now ops s o, lk (fst (run_ops now s o ops)) = lk s /\ cnt_of (snd (run_ops now s o ops)) = 0%nat.
Proof.
  intros now ops. induction ops as [|[x|xs|d] r IH]; intros s o; simpl; auto.
  destruct (begin_exch now s) as [[s' p]|] eqn:E.
  - apply begin_exch_lk in E. destruct E as [E [P|P]]; subst; simpl; auto.
  - apply IH.
Qed.

Lemma fail_op_lk : forall now s c i,
  lk s = target i (if inmulti c then 1 else 0)%nat ->
  lk (fst (fail_op now s c)) = (None, 0%nat) /\ cnt_of (snd (fail_op now s c)) = 0%nat.
Proof.
  intros now s c i H. unfold Model.fail_op.
  destruct (run_ops_lk now (rest c) (if inmulti c then release s else s) (outs c ++ [RFail])) as [A B].
  split; [|exact B]. rewrite A. destruct (inmulti c); simpl in H.
  - rewrite (lk_release s (Some i) 0 H). reflexivity.
  - exact H.
Qed.

Lemma next_in_multi_lk : forall now s c i, inmulti c = true -> lk s = (Some i, 1%nat) ->
  let r := next_in_multi now s c in lk (fst r) = target i (cnt_of (snd r)).
Proof.
  intros now s c i M H. unfold Model.next_in_multi.
  destruct (tl (cur c)) as [|x r'].
  - destruct (run_ops_lk now (rest c) (release s) (outs c ++ [ROk (acc c)])) as [A B].
    simpl. rewrite A, B. rewrite (lk_release s (Some i) 0 H). reflexivity.
  - destruct (begin_exch now s) as [[s' p]|] eqn:E.
    + apply begin_exch_lk in E. destruct E as [E [P|P]]; subst; simpl; rewrite E, H; reflexivity.
    + destruct (fail_op_lk now s c i) as [A B]. { rewrite M. exact H. }
      simpl. rewrite A, B. reflexivity.
Qed.

Lemma finish_exch_lk : forall now s c i r,
  lk s = (Some i, if inmulti c then 2 else 1)%nat ->
  let q := finish_exch now s c r in lk (fst q) = target i (cnt_of (snd q)).
Proof.
  intros now s c i r H. unfold Model.finish_exch.
  destruct (inmulti c) eqn:M.
  - pose proof (lk_release s (Some i) 1 H) as R. simpl in R.
    set (c1 := mk (pc c) (cur c) true (acc c ++ match r with Some b => [b] | None => [] end) (rest c) (outs c)).
    assert (M1 : inmulti c1 = true) by reflexivity.
    destruct (cur c) as [|x xs] eqn:C.
    + apply next_in_multi_lk; assumption.
    + destruct (x_delay x =? 0).
      * apply next_in_multi_lk; assumption.
      * simpl. rewrite R. reflexivity.
  - destruct (run_ops_lk now (rest c) (release s) (outs c ++ [ROk match r with Some b => [b] | None => [] end])) as [A B].
    simpl. rewrite A, B. rewrite (lk_release s (Some i) 0 H). reflexivity.
Qed.

(* well-formed parked callers: multicomm flag and program counter agree *)
Definition wf (c : cst) : Prop :=
  match pc c with
  | CLockOuter | CSleepX _ => inmulti c = true
  | CStart | CPause _ | CDone => inmulti c = false
  | _ => True
  end.

Lemma run_ops_wf : forall now ops s o, wf (snd (run_ops now s o ops)).
Proof.
  intros now ops. induction ops as [|[x|xs|d] r IH]; intros s o; simpl; try reflexivity.
  destruct (begin_exch now s) as [[s' p]|] eqn:E.
  - apply begin_exch_lk in E. destruct E as [_ [P|P]]; subst; exact I.
  - apply IH.
Qed.

Lemma next_in_multi_wf : forall now s c, wf (snd (next_in_multi now s c)).
Proof.
  intros now s c. unfold Model.next_in_multi. destruct (tl (cur c)). { apply run_ops_wf. }
  destruct (begin_exch now s) as [[s' p]|] eqn:E.
  - apply begin_exch_lk in E. destruct E as [_ [P|P]]; subst; exact I.
  - apply run_ops_wf.
Qed.

Lemma finish_exch_wf : forall now s c r, wf (snd (finish_exch now s c r)).
Proof.
  intros now s c r. unfold Model.finish_exch. destruct (inmulti c). 2: apply run_ops_wf.
  destruct (cur c) as [|x xs]. { apply next_in_multi_wf. }
  destruct (x_delay x =? 0). { apply next_in_multi_wf. } reflexivity.
Qed.

Lemma flush_then_wf : forall now s1 c p, is_send p -> wf (snd (flush_then now s1 c p)).
Proof.
  intros now s1 c p IS.
  destruct (flush_then_cases now s1 c p) as [(q & _ & _ & ->)|[(q & _ & _ & ->)|(_ & ->)]]; try apply run_ops_wf.
  unfold wf. simpl. destruct p; try contradiction; exact I.
Qed.

Lemma caller_step_wf : forall i now s c, wf c -> wf (snd (caller_step i now s c)).
Proof.
  intros i now s c W. unfold Model.caller_step, wf in *.
  destruct (pc c) eqn:P; try apply run_ops_wf; try apply next_in_multi_wf.
  - destruct (connected s); simpl; rewrite ?P; exact I.
  - destruct (pop_refuse s) as [[|] s1]; simpl; try apply run_ops_wf. exact I.
  - destruct (cur c). { apply run_ops_wf. }
    destruct (begin_exch now (acquire i s)) as [[s' p]|] eqn:E; [|apply run_ops_wf].
    apply begin_exch_lk in E. destruct E as [_ [Q|Q]]; subst; simpl; exact I.
  - destruct (wait_of c =? 0); [apply (flush_then_wf now (acquire i s) c CSend I)|exact I].
  - destruct (x_noreply (cur_x c)). { apply finish_exch_wf. }
    destruct (try_frame md (x_n (cur_x c)) _) as [[r rst]|]; [apply finish_exch_wf|exact I].
  - destruct (queue s) as [|[a [d|]] q'].
    + destruct (now <? e); [exact I|apply run_ops_wf].
    + destruct (a <=? now).
      * destruct (try_frame md _ _) as [[r rst]|]; [apply finish_exch_wf|exact I].
      * destruct (now <? e); [exact I|apply run_ops_wf].
    + destruct (a <=? now). { apply run_ops_wf. } destruct (now <? e); [exact I|apply run_ops_wf].
  - simpl. rewrite P. exact W.
  - destruct first; [apply (flush_then_wf now s c (send_pc l) (send_pc_is_send l))|destruct l; exact I].
  - destruct l; exact I.
Qed.

Lemma flush_then_mine : forall now s1 c i p, is_send p ->
  lk s1 = (Some i, if inmulti c then 2 else 1)%nat ->
  let q := flush_then now s1 c p in lk (fst q) = target i (cnt_of (snd q)).
Proof.
  intros now s1 c i p IS F.
  assert (R : lk (release s1) = target i (if inmulti c then 1 else 0)%nat).
  { destruct (inmulti c); [rewrite (lk_release _ (Some i) 1 F)|rewrite (lk_release _ (Some i) 0 F)]; reflexivity. }
  destruct (flush_then_cases now s1 c p) as [(q & _ & _ & E)|[(q & _ & _ & E)|(_ & E)]]; simpl; rewrite E.
  - destruct (fail_op_lk now (release (close_conn s1)) c i) as [A B]. { exact R. }
    rewrite A, B. reflexivity.
  - unfold cnt_of; simpl. destruct p; try contradiction; destruct (inmulti c); exact F.
  - destruct (fail_op_lk now (release s1) c i) as [A B]. { exact R. }
    rewrite A, B. reflexivity.
Qed.

(* Lemma A: a caller that holds the lock cnt_of c times (or finds it free) leaves it held cnt_of c' times *)
Lemma caller_step_mine : forall i now s c, wf c ->
  lk s = target i (cnt_of c) ->
  let q := caller_step i now s c in lk (fst q) = target i (cnt_of (snd q)).
Proof.
  intros i now s c W H. unfold Model.caller_step, wf in *. unfold cnt_of in H.
  destruct (pc c) eqn:P; simpl in H.
  - (* CStart *) destruct (run_ops_lk now (rest c) s (outs c)) as [A B]. simpl. rewrite A, B. exact H.
  - (* CAccess *) destruct (connected s); simpl; rewrite ?P; simpl; exact H.
  - (* CConnect *)
    unfold pop_refuse. destruct (refuse s) as [|b rf]; [|destruct b].
    + simpl. rewrite lk_connect_ok. exact H.
    + destruct (fail_op_lk now (connect_refused (set_acc_owner (set_refuse s rf) None)) c i) as [A B].
      { destruct (inmulti c); exact H. }
      simpl. rewrite A, B. reflexivity.
    + simpl. rewrite lk_connect_ok. exact H.
  - (* CLockOuter *)
    assert (F : lock_cnt s = 0%nat) by (inversion H; reflexivity).
    destruct (cur c) as [|x xs].
    + destruct (run_ops_lk now (rest c) (release (acquire i s)) (outs c ++ [ROk []])) as [A B].
      simpl. rewrite A, B. unfold release, acquire, lk. simpl. rewrite F. reflexivity.
    + destruct (begin_exch now (acquire i s)) as [[s' p]|] eqn:E.
      * apply begin_exch_lk in E. destruct E as [E [Q|Q]]; subst; unfold cnt_of; simpl; rewrite W, E; unfold lk; simpl; rewrite F; reflexivity.
      * destruct (fail_op_lk now (acquire i s) c i) as [A B].
        { rewrite W. unfold lk. simpl. rewrite F. reflexivity. }
        simpl. rewrite A, B. reflexivity.
  - (* CLock *)
    assert (F : lk (acquire i s) = (Some i, if inmulti c then 2 else 1)%nat).
    { unfold lk in *. simpl. destruct (inmulti c); inversion H; reflexivity. }
    destruct (wait_of c =? 0). { apply flush_then_mine; [exact I|exact F]. }
    unfold cnt_of; simpl. destruct (inmulti c); exact F.
  - (* CSend *)
    assert (F : lk s = (Some i, if inmulti c then 2 else 1)%nat) by (destruct (inmulti c); exact H).
    destruct (x_noreply (cur_x c)). { apply finish_exch_lk. exact F. }
    destruct (try_frame md (x_n (cur_x c)) _) as [[r rst]|]. { apply finish_exch_lk. exact F. }
    unfold cnt_of; simpl; rewrite ?P; exact H.
  - (* CRecv *)
    assert (F : lk s = (Some i, if inmulti c then 2 else 1)%nat) by (destruct (inmulti c); exact H).
    assert (R : forall s1, lk s1 = lk s -> lk (release s1) = target i (if inmulti c then 1 else 0)%nat).
    { intros s1 E. rewrite <- E in F.
      destruct (inmulti c); [rewrite (lk_release _ (Some i) 1 F)|rewrite (lk_release _ (Some i) 0 F)]; reflexivity. }
    assert (TO : let q := fail_op now (release (set_last_error s true)) c in lk (fst q) = target i (cnt_of (snd q))).
    { destruct (fail_op_lk now (release (set_last_error s true)) c i) as [A B]. { apply R. reflexivity. }
      simpl. rewrite A, B. reflexivity. }
    destruct (queue s) as [|[a [d|]] q'].
    + destruct (now <? e). { unfold cnt_of; simpl; rewrite ?P; exact H. } exact TO.
    + destruct (a <=? now).
      * destruct (try_frame md _ _) as [[r rst]|]. { apply finish_exch_lk. exact F. }
        unfold cnt_of; simpl; rewrite ?P; exact H.
      * destruct (now <? e). { unfold cnt_of; simpl; rewrite ?P; exact H. } exact TO.
    + destruct (a <=? now).
      * destruct (fail_op_lk now (release (close_conn s)) c i) as [A B]. { apply R. reflexivity. }
        simpl. rewrite A, B. reflexivity.
      * destruct (now <? e). { unfold cnt_of; simpl; rewrite ?P; exact H. } exact TO.
  - (* CSleepX *) apply next_in_multi_lk; assumption.
  - (* CPause *) destruct (run_ops_lk now (rest c) s (outs c)) as [A B]. simpl. rewrite A, B. exact H.
  - (* CDone *) unfold cnt_of; simpl; rewrite ?P; exact H.
  - (* CWaitB *)
    assert (F : lk s = (Some i, if inmulti c then 2 else 1)%nat) by (destruct (inmulti c); exact H).
    destruct first. { apply flush_then_mine; [apply send_pc_is_send|exact F]. }
    unfold cnt_of; simpl. destruct l; simpl; destruct (inmulti c); exact F.
  - (* CSendPre *)
    destruct l as [|p l']; unfold cnt_of; simpl; exact H.
Qed.

(* ------------------------------------------------------------------ frame: what run_ops / fail_op / ... leave alone *)
Section Frame.
Variable A : Type.
Variable f : shared -> A.
Hypothesis f_la : forall s v, f (set_last_attempt s v) = f s.
Hypothesis f_rel : forall s, f (release s) = f s.

Lemma f_begin : forall now s s' p, begin_exch now s = Some (s', p) -> f s' = f s.
Proof.
  intros now s s' p H. unfold Model.begin_exch in H. destruct (connected s). { inversion H; reflexivity. }
  destruct (last_attempt s + interval <=? now); inversion H. apply f_la.
Qed.

Lemma f_run_ops : forall now ops s o, f (fst (run_ops now s o ops)) = f s.
Proof.
  intros now ops. induction ops as [|[x|xs|d] r IH]; intros s o; simpl; try reflexivity.
  destruct (begin_exch now s) as [[s' p]|] eqn:E. { simpl. eapply f_begin; eauto. } apply IH.
Qed.

Lemma f_fail_op : forall now s c, f (fst (fail_op now s c)) = f s.
Proof. intros. unfold Model.fail_op. rewrite f_run_ops. destruct (inmulti c); [apply f_rel|reflexivity]. Qed.

Lemma f_next : forall now s c, f (fst (next_in_multi now s c)) = f s.
Proof.
  intros. unfold Model.next_in_multi. destruct (tl (cur c)). { rewrite f_run_ops. apply f_rel. }
  destruct (begin_exch now s) as [[s' p]|] eqn:E. { simpl. eapply f_begin; eauto. } apply f_fail_op.
Qed.

Lemma f_finish : forall now s c r, f (fst (finish_exch now s c r)) = f s.
Proof.
  intros. unfold Model.finish_exch. destruct (inmulti c). 2: { rewrite f_run_ops. apply f_rel. }
  destruct (cur c) as [|x xs]. { rewrite f_next. apply f_rel. }
  destruct (x_delay x =? 0). { rewrite f_next. apply f_rel. } simpl. apply f_rel.
Qed.
End Frame.

(* Lemma B: a caller that does not hold the lock cannot touch it while somebody else holds it *)
Lemma caller_step_other : forall i j now s c, wf c -> cnt_of c = 0%nat ->
  lock_owner s = Some j -> j <> i -> caller_enabled i now s c = true ->
  let q := caller_step i now s c in lk (fst q) = lk s /\ cnt_of (snd q) = 0%nat.
Proof.
  intros i j now s c W K O NE EN. unfold Model.caller_step, caller_enabled, wf, cnt_of in *.
  assert (NF : lock_free_for i s = false).
  { unfold lock_free_for. rewrite O. apply Nat.eqb_neq. exact NE. }
  destruct (pc c) eqn:P; try (rewrite NF in EN; discriminate); try (destruct (inmulti c); discriminate).
  - apply run_ops_lk.
  - destruct (inmulti c) eqn:M; try discriminate. destruct (connected s); simpl; unfold cnt_of; simpl; rewrite M; auto.
  - destruct (inmulti c) eqn:M; try discriminate.
    destruct (pop_refuse s) as [[|] s1] eqn:PR; unfold pop_refuse in PR; destruct (refuse s) as [|b rf]; inversion PR; subst.
    + destruct (run_ops_lk now (rest c) (connect_refused (set_acc_owner (set_refuse s rf) None)) (outs c ++ [RFail])) as [A B].
      unfold Model.fail_op. rewrite M. split; [rewrite A; reflexivity|exact B].
    + simpl. unfold cnt_of; simpl. rewrite M, lk_connect_ok. auto.
    + simpl. unfold cnt_of; simpl. rewrite M, lk_connect_ok. auto.
  - apply run_ops_lk.
Qed.

(* ------------------------------------------------------------------ global lock invariant *)
Definition lock_inv (st : state) : Prop :=
  (forall i c, nth_error (callers st) i = Some c -> (cnt_of c > 0)%nat -> lk (sh st) = (Some i, cnt_of c)) /\
  (lock_owner (sh st) = None -> lock_cnt (sh st) = 0%nat) /\
  (forall j, lock_owner (sh st) = Some j -> exists c, nth_error (callers st) j = Some c /\ (cnt_of c > 0)%nat) /\
  (forall i c, nth_error (callers st) i = Some c -> wf c).

Lemma nth_set_nth_eq : forall {A} (l : list A) i v c, nth_error l i = Some c -> nth_error (set_nth i v l) i = Some v.
Proof. induction l as [|x l IH]; intros [|i] v c H; simpl in *; try discriminate; eauto. Qed.

Lemma nth_set_nth_neq : forall {A} (l : list A) i j v, i <> j -> nth_error (set_nth i v l) j = nth_error l j.
Proof. induction l as [|x l IH]; intros [|i] [|j] v H; simpl in *; try reflexivity; try lia. apply IH. lia. Qed.

Lemma target_some : forall i k o n, target i k = (Some o, n) -> o = i /\ k = n /\ (k > 0)%nat.
Proof. intros i [|k] o n H; simpl in H; inversion H; subst. repeat split. lia. Qed.

Lemma lock_inv_step : forall st x, lock_inv st -> lock_inv (step st x).
Proof.
  intros st [[t now] nxt] (I1 & I2 & I3 & I4). unfold Model.step. destruct t as [i|].
  - destruct (nth_error (callers st) i) as [c|] eqn:Ci; [|repeat split; assumption].
    destruct (caller_enabled i now (sh st) c) eqn:EN; [|repeat split; assumption].
    destruct (caller_step i now (sh st) c) as [s' c'] eqn:CS.
    pose proof (I4 i c Ci) as W.
    pose proof (caller_step_wf i now (sh st) c W) as W'. rewrite CS in W'. simpl in W'.
    assert (CASES : (lk s' = target i (cnt_of c') /\ (forall j cj, j <> i -> nth_error (callers st) j = Some cj -> cnt_of cj = 0%nat)) \/
                    (lk s' = lk (sh st) /\ cnt_of c' = 0%nat /\ cnt_of c = 0%nat /\ exists j, j <> i /\ lock_owner (sh st) = Some j)).
    { destruct (Nat.eq_dec (cnt_of c) 0) as [Z|NZ].
      - destruct (lock_owner (sh st)) as [j|] eqn:O.
        + destruct (Nat.eq_dec j i) as [->|NE].
          * destruct (I3 i eq_refl) as [c2 [C2 G]]. rewrite Ci in C2. inversion C2; subst. lia.
          * right. pose proof (caller_step_other i j now (sh st) c W Z O NE EN) as B. rewrite CS in B. simpl in B.
            destruct B as [B1 B2]. repeat split; auto. exists j; auto.
        + left. pose proof (caller_step_mine i now (sh st) c W) as A. rewrite CS in A. simpl in A. split.
          * apply A. rewrite Z. unfold lk. rewrite O, (I2 eq_refl). reflexivity.
          * intros j cj NE Cj. destruct (Nat.eq_dec (cnt_of cj) 0) as [|G]; auto.
            assert (G' : (cnt_of cj > 0)%nat) by lia. pose proof (I1 j cj Cj G') as L. unfold lk in L. rewrite O in L. discriminate.
      - left. assert (G : (cnt_of c > 0)%nat) by lia. pose proof (I1 i c Ci G) as L.
        pose proof (caller_step_mine i now (sh st) c W) as A. rewrite CS in A. simpl in A. split.
        + apply A. rewrite L. destruct (cnt_of c); [lia|reflexivity].
        + intros j cj NE Cj. destruct (Nat.eq_dec (cnt_of cj) 0) as [|G2]; auto.
          assert (G' : (cnt_of cj > 0)%nat) by lia. pose proof (I1 j cj Cj G') as L2. rewrite L in L2. inversion L2. lia. }
    unfold lock_inv. simpl.
    destruct CASES as [[T OT]|(E & Z' & Z & j & NE & O)].
    + repeat split.
      * intros k ck Ck G. destruct (Nat.eq_dec k i) as [->|NK].
        { rewrite (nth_set_nth_eq _ _ _ _ Ci) in Ck. inversion Ck; subst. rewrite T. destruct (cnt_of ck); [lia|reflexivity]. }
        { rewrite nth_set_nth_neq in Ck by lia. rewrite (OT k ck NK Ck) in G. lia. }
      * intros O. unfold lk in T. destruct (cnt_of c'); simpl in T; inversion T; try reflexivity. rewrite H0 in O. discriminate.
      * intros k O. assert (L : lk s' = (Some k, lock_cnt s')) by (unfold lk; rewrite O; reflexivity).
        rewrite T in L. apply target_some in L. destruct L as (-> & _ & G).
        exists c'. split; [eapply nth_set_nth_eq; eauto|exact G].
      * intros k ck Ck. destruct (Nat.eq_dec k i) as [->|NK].
        { rewrite (nth_set_nth_eq _ _ _ _ Ci) in Ck. inversion Ck; subst. exact W'. }
        { rewrite nth_set_nth_neq in Ck by lia. eapply I4; eauto. }
    + repeat split.
      * intros k ck Ck G. destruct (Nat.eq_dec k i) as [->|NK].
        { rewrite (nth_set_nth_eq _ _ _ _ Ci) in Ck. inversion Ck; subst. lia. }
        { rewrite nth_set_nth_neq in Ck by lia. rewrite E. apply I1; assumption. }
      * intros O'. unfold lk in E. inversion E. rewrite H0 in O'. rewrite O' in O. discriminate.
      * intros k O'. unfold lk in E. inversion E. rewrite H0 in O'. destruct (I3 k O') as [ck [Ck G]].
        exists ck. split; [|exact G]. rewrite nth_set_nth_neq; [exact Ck|]. intros ->. rewrite Ci in Ck. inversion Ck; subst. lia.
      * intros k ck Ck. destruct (Nat.eq_dec k i) as [->|NK].
        { rewrite (nth_set_nth_eq _ _ _ _ Ci) in Ck. inversion Ck; subst. exact W'. }
        { rewrite nth_set_nth_neq in Ck by lia. eapply I4; eauto. }
  - destruct (poll_enabled (sh st) (poll st)); [|repeat split; assumption].
    destruct (poll_step nxt (sh st) (poll st)) as [s' p'] eqn:PS.
    assert (E : lk s' = lk (sh st)).
    { unfold poll_step in PS. destruct (poll st); inversion PS; subst; try reflexivity.
      - destruct (connected (sh st)); inversion PS; reflexivity.
      - unfold pop_refuse in *. destruct (refuse (sh st)) as [|[|] rf]; inversion PS; subst; simpl;
          try rewrite lk_connect_ok; reflexivity. }
    unfold lock_inv. simpl. unfold lk in E. inversion E. repeat split.
    + intros k ck Ck G. unfold lk. rewrite H0, H1. apply I1; assumption.
    + rewrite H0, H1. exact I2.
    + rewrite H0. exact I3.
    + exact I4.
Qed.

Lemma lock_inv_init : forall progs rf cb p, lock_inv (init progs rf cb p).
Proof.
  intros. unfold lock_inv, init. simpl. repeat split; try discriminate.
  - intros i c H G. apply nth_error_In in H. apply in_map_iff in H. destruct H as [x [<- _]]. unfold cnt_of in G. simpl in G. lia.
  - intros i c H. apply nth_error_In in H. apply in_map_iff in H. destruct H as [x [<- _]]. reflexivity.
Qed.

Lemma lock_inv_run : forall sched st, lock_inv st -> lock_inv (run st sched).
Proof. induction sched as [|x r IH]; intros st H; simpl; auto. apply IH. apply lock_inv_step. exact H. Qed.

(* ------------------------------------------------------------------ only the step parked at `send` writes *)
Lemma sendlog_connect_ok : forall s, sendlog (connect_ok s) = sendlog s.
Proof. intros s. unfold connect_ok. destruct (last_error s); reflexivity. Qed.

Lemma sendlog_flush_then : forall now s1 c p, sendlog (fst (flush_then now s1 c p)) = sendlog s1.
Proof.
  intros now s1 c p.
  assert (FF := f_fail_op _ sendlog (fun _ _ => eq_refl) (fun _ => eq_refl)).
  destruct (flush_then_cases now s1 c p) as [(q & _ & _ & ->)|[(q & _ & _ & ->)|(_ & ->)]]; rewrite ?FF; reflexivity.
Qed.

Lemma sendlog_caller_step : forall i now s c, ~ is_send (pc c) -> sendlog (fst (caller_step i now s c)) = sendlog s.
Proof.
  intros i now s c NS. unfold Model.caller_step.
  assert (FR := f_run_ops _ sendlog (fun _ _ => eq_refl)).
  assert (FF := f_fail_op _ sendlog (fun _ _ => eq_refl) (fun _ => eq_refl)).
  assert (FN := f_next _ sendlog (fun _ _ => eq_refl) (fun _ => eq_refl)).
  assert (FI := f_finish _ sendlog (fun _ _ => eq_refl) (fun _ => eq_refl)).
  assert (FB := f_begin _ sendlog (fun _ _ => eq_refl)).
  destruct (pc c) eqn:P.
  - apply FR.
  - destruct (connected s); reflexivity.
  - unfold pop_refuse. destruct (refuse s) as [|[|] rf]; simpl; rewrite ?FF, ?sendlog_connect_ok; reflexivity.
  - destruct (cur c). { rewrite FR. reflexivity. }
    destruct (begin_exch now (acquire i s)) as [[s2 p]|] eqn:E. { simpl. rewrite (FB _ _ _ _ E). reflexivity. }
    rewrite FF. reflexivity.
  - destruct (wait_of c =? 0); [rewrite sendlog_flush_then|]; reflexivity.
  - exfalso. apply NS. exact I.
  - destruct (queue s) as [|[a [d|]] q'].
    + destruct (now <? e); [|rewrite FF]; reflexivity.
    + destruct (a <=? now).
      * destruct (try_frame md _ _) as [[r rst]|]; [rewrite FI|]; reflexivity.
      * destruct (now <? e); [|rewrite FF]; reflexivity.
    + destruct (a <=? now). { rewrite FF. reflexivity. } destruct (now <? e); [|rewrite FF]; reflexivity.
  - apply FN.
  - apply FR.
  - reflexivity.
  - destruct first; [rewrite sendlog_flush_then|]; reflexivity.
  - exfalso. apply NS. exact I.
Qed.

Lemma sendlog_poll_step : forall nxt s p, sendlog (fst (poll_step nxt s p)) = sendlog s.
Proof.
  intros nxt s p. unfold poll_step. destruct p; try reflexivity.
  - destruct (connected s); reflexivity.
  - unfold pop_refuse. destruct (refuse s) as [|[|] rf]; simpl; rewrite ?sendlog_connect_ok; reflexivity.
Qed.

Lemma only_owner_writes : forall st x, lock_inv st ->
  sendlog (sh (step st x)) <> sendlog (sh st) ->
  exists i c, fst (fst x) = TC i /\ nth_error (callers st) i = Some c /\ is_send (pc c) /\ lock_owner (sh st) = Some i.
Proof.
  intros st [[t now] nxt] (I1 & _) H. unfold Model.step in H. destruct t as [i|].
  - destruct (nth_error (callers st) i) as [c|] eqn:Ci; [|congruence].
    destruct (caller_enabled i now (sh st) c); [|congruence].
    destruct (caller_step i now (sh st) c) as [s' c'] eqn:CS. simpl in H.
    destruct (is_send_dec (pc c)) as [IS|NS].
    2: { exfalso; apply H; replace s' with (fst (caller_step i now (sh st) c)) by (rewrite CS; reflexivity).
         apply sendlog_caller_step; exact NS. }
    exists i, c. repeat split; auto.
    assert (G : (cnt_of c > 0)%nat) by (unfold cnt_of; destruct (pc c); try contradiction; destruct (inmulti c); lia).
    pose proof (I1 i c Ci G) as L. unfold lk in L. inversion L. reflexivity.
  - destruct (poll_enabled (sh st) (poll st)); [|congruence].
    destruct (poll_step nxt (sh st) (poll st)) as [s' p'] eqn:PS. simpl in H.
    exfalso. apply H. replace s' with (fst (poll_step nxt (sh st) (poll st))) by (rewrite PS; reflexivity).
    apply sendlog_poll_step.
Qed.

(* ------------------------------------------------------------------ stale input is flushed before the command is written *)
Lemma flush_head : forall now q q', flush now q = (false, q') -> head_ready now q' = false.
Proof.
  intros now q. induction q as [|[a [d|]] r IH]; intros q' H; simpl in H.
  - inversion H. reflexivity.
  - destruct (a <=? now) eqn:E. { apply IH. exact H. } inversion H. simpl. exact E.
  - destruct (a <=? now) eqn:E; inversion H. simpl. exact E.
Qed.

(* the flush in front of the first send: if the caller comes out of it parked at a send, the receive buffer is empty
   and nothing that has arrived by now is left on the socket *)
Lemma stale_flush_then : forall now s1 c p s' c', flush_then now s1 c p = (s', c') -> is_send (pc c') ->
  rxbuf s' = [] /\ head_ready now (queue s') = false.
Proof.
  intros now s1 c p s' c' H P'.
  assert (NF : forall s0, fail_op now s0 c = (s', c') -> False).
  { intros s0 E. pose proof (run_ops_lk now (rest c) (if inmulti c then release s0 else s0) (outs c ++ [RFail])) as [_ B].
    unfold Model.fail_op in E. rewrite E in B. simpl in B. unfold cnt_of in B.
    destruct (pc c'); try contradiction; destruct (inmulti c'); discriminate. }
  destruct (flush_then_cases now s1 c p) as [(q & _ & _ & E)|[(q & _ & F & E)|(_ & E)]]; rewrite E in H.
  - exfalso. eapply NF; eauto.
  - inversion H; subst. simpl. split; [reflexivity|]. eapply flush_head; eauto.
  - exfalso. eapply NF; eauto.
Qed.

(* the step that brings a caller to its first send: from the lock when wait_before is 0, from the end of the first
   sleep (CWaitB _ true _) when wait_before is set - then everything that arrived during the pause is discarded, too *)
Lemma stale_discarded : forall i now s c s' c',
  (pc c = CLock /\ wait_of c = 0) \/ (exists w l, pc c = CWaitB w true l) ->
  caller_step i now s c = (s', c') -> is_send (pc c') ->
  rxbuf s' = [] /\ head_ready now (queue s') = false.
Proof.
  intros i now s c s' c' [[P W]|(w & l & P)] H P'; unfold Model.caller_step in H; rewrite P in H.
  - rewrite W in H. simpl in H. eapply stale_flush_then; eauto.
  - eapply stale_flush_then; eauto.
Qed.

(* with wait_before set, the step at the lock only goes to sleep: nothing is flushed yet, the first line is not sent *)
Lemma lock_then_sleep : forall i now s c, pc c = CLock -> wait_of c <> 0 ->
  caller_step i now s c = (acquire i s, set_pc c (CWaitB (now + wait_of c) true (pre_of md c))).
Proof.
  intros i now s c P W. unfold Model.caller_step. rewrite P.
  replace (wait_of c =? 0) with false by (symmetry; apply Z.eqb_neq; exact W). reflexivity.
Qed.

(* a sleep in front of a send lasts wait_before: the caller is not enabled before *)
Lemma wait_before_honoured : forall i now s c w f l, pc c = CWaitB w f l -> caller_enabled i now s c = true -> w <= now.
Proof. intros i now s c w f l P E. unfold caller_enabled in E. rewrite P in E. apply Z.leb_le. exact E. Qed.

(* the lines in front of the last one: each is written, then the caller sleeps wait_before again, without another flush *)
Lemma pre_line_step : forall i now s c p l, pc c = CSendPre (p :: l) ->
  caller_step i now s c = (send_line i now s p, set_pc c (CWaitB (now + wait_of c) false l)).
Proof. intros i now s c p l P. unfold Model.caller_step. rewrite P. reflexivity. Qed.

Lemma later_sleep_step : forall i now s c w l, pc c = CWaitB w false l ->
  caller_step i now s c = (s, set_pc c (send_pc l)).
Proof. intros i now s c w l P. unfold Model.caller_step. rewrite P. reflexivity. Qed.

(* the command is written into an empty receive buffer: the reply is framed from bytes received afterwards only *)
Lemma recv_step_is_read_loop : forall i now s c e sl a d q',
  pc c = CRecv e sl -> queue s = mkItem a (Some d) :: q' -> a <= now ->
  caller_step i now s c =
    match try_frame md (x_n (cur_x c)) (rxbuf s ++ d) with
    | Some (r, rst) => finish_exch now (set_rxbuf (set_queue s q') rst) c (Some r)
    | None => (set_rxbuf (set_queue s q') (rxbuf s ++ d), set_pc c (CRecv e (now + slice)))
    end.
Proof.
  intros i now s c e sl a d q' P Q L. unfold Model.caller_step. rewrite P, Q.
  replace (a <=? now) with true by (symmetry; apply Z.leb_le; exact L). reflexivity.
Qed.

(* ------------------------------------------------------------------ time-out *)
Lemma timeout_bound : forall i now s c e sl, pc c = CRecv e sl ->
  (sl <= now -> caller_enabled i now s c = true) /\
  (head_ready now (queue s) = false -> e <= now ->
   caller_step i now s c = fail_op now (release (set_last_error s true)) c) /\
  (head_ready now (queue s) = false -> now < e ->
   caller_step i now s c = (s, set_pc c (CRecv e (now + slice)))).
Proof.
  intros i now s c e sl P. repeat split.
  - intros L. unfold caller_enabled. rewrite P. apply orb_true_iff. right. apply Z.leb_le. exact L.
  - intros NR L. unfold Model.caller_step. rewrite P. unfold head_ready in NR.
    assert (NL : (now <? e) = false) by (apply Z.ltb_ge; exact L).
    destruct (queue s) as [|[a p] q']; rewrite ?NR, NL; reflexivity.
  - intros NR L. unfold Model.caller_step. rewrite P. unfold head_ready in NR.
    assert (NL : (now <? e) = true) by (apply Z.ltb_lt; exact L).
    destruct (queue s) as [|[a p] q']; rewrite ?NR, NL; reflexivity.
Qed.

(* ------------------------------------------------------------------ delays of a transaction *)
Lemma delay_honoured : forall i now s c r x xs, inmulti c = true -> cur c = x :: xs -> x_delay x <> 0 ->
  let q := finish_exch now s c r in
  pc (snd q) = CSleepX (now + x_delay x) /\ cur (snd q) = x :: xs /\
  (forall now' s', caller_enabled i now' s' (snd q) = true -> now + x_delay x <= now').
Proof.
  intros i now s c r x xs M C D. unfold Model.finish_exch. rewrite M, C.
  replace (x_delay x =? 0) with false by (symmetry; apply Z.eqb_neq; exact D). simpl.
  repeat split. intros now' s' EN. unfold caller_enabled in EN. simpl in EN. apply Z.leb_le. exact EN.
Qed.

(* after the sleep the transaction goes on with the next command, still under the lock *)
Lemma sleep_then_next : forall i now s c w, pc c = CSleepX w -> caller_step i now s c = next_in_multi now s c.
Proof. intros i now s c w P. unfold Model.caller_step. rewrite P. reflexivity. Qed.

(* ------------------------------------------------------------------ reconnect rate *)
Lemma reconnect_rate : forall now s s' p, begin_exch now s = Some (s', p) ->
  (p = CLock /\ connected s = true /\ s' = s) \/
  (p = CAccess /\ connected s = false /\ last_attempt s + interval <= now /\ last_attempt s' = now).
Proof.
  intros now s s' p H. unfold Model.begin_exch in H. destruct (connected s). { inversion H; auto. }
  destruct (last_attempt s + interval <=? now) eqn:E; inversion H; subst. right. repeat split. apply Z.leb_le. exact E.
Qed.

Lemma no_attempt_within_interval : forall now s, connected s = false -> now < last_attempt s + interval ->
  begin_exch now s = None.
Proof.
  intros now s C L. unfold Model.begin_exch. rewrite C.
  replace (last_attempt s + interval <=? now) with false by (symmetry; apply Z.leb_gt; exact L). reflexivity.
Qed.

(* last_attempt is written by check_connection only: every step leaves it alone or records a permitted attempt *)
Definition la_rel (now : Z) (s s' : shared) : Prop :=
  last_attempt s' = last_attempt s \/ (last_attempt s + interval <= now /\ last_attempt s' = now).

Lemma la_begin : forall now s s' p, begin_exch now s = Some (s', p) -> la_rel now s s'.
Proof. intros now s s' p H. apply reconnect_rate in H. destruct H as [(_ & _ & ->)|(_ & _ & A & B)]; [left|right]; auto. Qed.

Lemma la_run_ops : forall now ops s o, la_rel now s (fst (run_ops now s o ops)).
Proof.
  intros now ops. induction ops as [|[x|xs|d] r IH]; intros s o; simpl; try (left; reflexivity).
  destruct (begin_exch now s) as [[s' p]|] eqn:E. { simpl. eapply la_begin; eauto. } apply IH.
Qed.

(* ------------------------------------------------------------------ connection state and callbacks *)
Lemma close_visible : forall s, let s' := close_conn s in
  connected s' = false /\ conn s' = false /\ last (ann s') true = false /\ last_error s' = true.
Proof. intros s. simpl. repeat split. apply last_last. Qed.

Lemma connect_visible : forall s, let s' := connect_ok s in
  connected s' = true /\ conn s' = true /\ last (ann s') false = true /\ nconn s' = S (nconn s) /\
  queue s' = [] /\ rxbuf s' = [].
Proof. intros s. unfold connect_ok. destruct (last_error s); simpl; repeat split; apply last_last. Qed.

Lemma callbacks_once : forall s, last_error s = true ->
  cblog (connect_ok s) = cblog s ++ map fst (cbs s) /\
  cbs (connect_ok s) = filter (fun kc => cb_keeps (snd kc)) (cbs s) /\
  (NoDup (map fst (cbs s)) -> forall k, In k (map fst (cbs s)) -> count_occ Nat.eq_dec (map fst (cbs s)) k = 1%nat).
Proof.
  intros s E. unfold connect_ok. rewrite E. simpl. repeat split.
  intros ND k IN. apply NoDup_count_occ'; assumption.
Qed.

(* ------------------------------------------------------------------ what one step can do to the connection
   bookkeeping: nothing, a successful connect, a close, or storing an error text *)
Section Shape.
Variable A : Type.
Variable f : shared -> A.
Hypothesis f_la : forall s v, f (set_last_attempt s v) = f s.
Hypothesis f_rel : forall s, f (release s) = f s.
Hypothesis f_acq : forall i s, f (acquire i s) = f s.
Hypothesis f_acc : forall s v, f (set_acc_owner s v) = f s.
Hypothesis f_refuse : forall s v, f (set_refuse s v) = f s.
Hypothesis f_queue : forall s v, f (set_queue s v) = f s.
Hypothesis f_rxbuf : forall s v, f (set_rxbuf s v) = f s.
Hypothesis f_sendlog : forall s v, f (set_sendlog s v) = f s.

Definition shape (s r : shared) : Prop :=
  f r = f s \/
  (exists s0, f s0 = f s /\ f r = f (connect_ok s0)) \/
  (exists s0, f s0 = f s /\ f r = f (close_conn s0)) \/
  (exists s0, f s0 = f s /\ f r = f (set_last_error s0 true)).

Lemma flush_then_shape : forall now s s1 c p, f s1 = f s -> shape s (fst (flush_then now s1 c p)).
Proof.
  intros now s s1 c p E. unfold shape.
  assert (FF := f_fail_op _ f f_la f_rel).
  destruct (flush_then_cases now s1 c p) as [(q & _ & _ & ->)|[(q & _ & _ & ->)|(_ & ->)]].
  - right; right; left. exists s1. split; [exact E|]. rewrite FF. apply f_rel.
  - left. simpl. rewrite f_rxbuf, f_queue. exact E.
  - left. rewrite FF, f_rel. exact E.
Qed.

Lemma caller_step_shape : forall i now s c, shape s (fst (caller_step i now s c)).
Proof.
  intros i now s c. unfold Model.caller_step, shape.
  assert (FR := f_run_ops _ f f_la).
  assert (FF := f_fail_op _ f f_la f_rel).
  assert (FN := f_next _ f f_la f_rel).
  assert (FI := f_finish _ f f_la f_rel).
  assert (FB := f_begin _ f f_la).
  destruct (pc c) eqn:P.
  - left. apply FR.
  - left. destruct (connected s); simpl; [reflexivity|apply f_acc].
  - unfold pop_refuse. destruct (refuse s) as [|[|] rf]; simpl.
    + right; left. exists (set_acc_owner s None). split; [apply f_acc|reflexivity].
    + right; right; right. exists (set_acc_owner (set_refuse s rf) None). split.
      * rewrite f_acc. apply f_refuse.
      * rewrite FF. reflexivity.
    + right; left. exists (set_acc_owner (set_refuse s rf) None). split; [rewrite f_acc; apply f_refuse|reflexivity].
  - left. destruct (cur c). { rewrite FR, f_rel. apply f_acq. }
    destruct (begin_exch now (acquire i s)) as [[s2 p]|] eqn:E. { simpl. rewrite (FB _ _ _ _ E). apply f_acq. }
    rewrite FF. apply f_acq.
  - destruct (wait_of c =? 0); [apply flush_then_shape; apply f_acq|left; simpl; apply f_acq].
  - left. destruct (x_noreply (cur_x c)). { rewrite FI, f_sendlog. apply f_queue. }
    destruct (try_frame md (x_n (cur_x c)) _) as [[r rst]|].
    + rewrite FI, f_rxbuf, f_sendlog. apply f_queue.
    + simpl. rewrite f_sendlog. apply f_queue.
  - assert (TO : f (fst (fail_op now (release (set_last_error s true)) c)) = f (set_last_error s true)).
    { rewrite FF. apply f_rel. }
    destruct (queue s) as [|[a [d|]] q'].
    + destruct (now <? e); [left; reflexivity|]. right; right; right. exists s. split; [reflexivity|exact TO].
    + destruct (a <=? now).
      * left. destruct (try_frame md _ _) as [[r rst]|].
        { rewrite FI, f_rxbuf. apply f_queue. } { simpl. rewrite f_rxbuf. apply f_queue. }
      * destruct (now <? e); [left; reflexivity|]. right; right; right. exists s. split; [reflexivity|exact TO].
    + destruct (a <=? now).
      * right; right; left. exists s. split; [reflexivity|]. rewrite FF. apply f_rel.
      * destruct (now <? e); [left; reflexivity|]. right; right; right. exists s. split; [reflexivity|exact TO].
  - left. apply FN.
  - left. apply FR.
  - left. reflexivity.
  - destruct first; [apply flush_then_shape; reflexivity|left; reflexivity].
  - left. destruct l; [reflexivity|]. simpl. unfold send_line. rewrite f_sendlog. apply f_queue.
Qed.
End Shape.

(* the bookkeeping the reconnect callbacks depend on *)
Definition bk (s : shared) : nat * bool * bool * list (nat * cbkind) * list nat :=
  (nconn s, connected s, last_error s, cbs s, cblog s).

Lemma bk_shape : forall i now s c, shape _ bk s (fst (caller_step i now s c)).
Proof. intros. apply caller_step_shape; intros; reflexivity. Qed.

Lemma bk_connect_ok : forall s0, bk (connect_ok s0) =
  (S (nconn s0), true, last_error s0,
   if last_error s0 then filter (fun kc => cb_keeps (snd kc)) (cbs s0) else cbs s0,
   if last_error s0 then cblog s0 ++ map fst (cbs s0) else cblog s0).
Proof. intros s0. unfold connect_ok, bk. destruct (last_error s0) eqn:E; unfold call_callbacks; simpl; rewrite E; reflexivity. Qed.

(* after a connection existed, either it is still up or an error text is stored (closeConnection stores one) *)
Definition ready (s : shared) : Prop := (0 < nconn s)%nat -> connected s = true \/ last_error s = true.

Lemma ready_of_bk : forall s r, bk r = bk s -> ready s -> ready r.
Proof. intros s r E R. unfold bk in E. inversion E. unfold ready. rewrite H0, H1, H2. exact R. Qed.

Lemma ready_shape : forall s r, shape _ bk s r -> ready s -> ready r.
Proof.
  intros s r [E|[(s0 & E0 & E)|[(s0 & E0 & E)|(s0 & E0 & E)]]] R.
  - eapply ready_of_bk; eauto.
  - rewrite bk_connect_ok in E. unfold bk in E. inversion E. unfold ready. intros _. left. assumption.
  - unfold bk in E. simpl in E. inversion E. unfold ready. intros _. right. assumption.
  - unfold bk in E. simpl in E. inversion E. unfold ready. intros _. right. assumption.
Qed.

Lemma poll_step_bk : forall nxt s p,
  let r := fst (poll_step nxt s p) in
  (nconn r = nconn s /\ connected r = connected s /\ (last_error s = true -> last_error r = true) /\ cblog r = cblog s /\
   (cbs r = cbs s \/ (p = QStart /\ cbs r = cbs s ++ [(TRIGGER, CbTrue)]))) \/
  (p = QConnect /\ exists s0, bk s0 = bk s /\ bk r = bk (connect_ok s0)).
Proof.
  intros nxt s p. unfold poll_step. destruct p; simpl; try (left; repeat split; auto; fail).
  - left. destruct (connected s) eqn:C; simpl; repeat split; auto.
  - unfold pop_refuse. destruct (refuse s) as [|[|] rf]; simpl.
    + right. split; [reflexivity|]. exists (set_acc_owner s None). split; reflexivity.
    + left. repeat split; auto.
    + right. split; [reflexivity|]. exists (set_acc_owner (set_refuse s rf) None). split; reflexivity.
Qed.

Lemma ready_step : forall st x, ready (sh st) -> ready (sh (step st x)).
Proof.
  intros st [[t now] nxt] R. unfold Model.step. destruct t as [i|].
  - destruct (nth_error (callers st) i) as [c|]; [|exact R].
    destruct (caller_enabled i now (sh st) c); [|exact R].
    pose proof (bk_shape i now (sh st) c) as S. destruct (caller_step i now (sh st) c) as [s' c']. simpl in *.
    eapply ready_shape; eauto.
  - destruct (poll_enabled (sh st) (poll st)); [|exact R].
    pose proof (poll_step_bk nxt (sh st) (poll st)) as S. destruct (poll_step nxt (sh st) (poll st)) as [s' p']. simpl in *.
    destruct S as [(N & C & E & _)|(_ & s0 & E0 & E)].
    + unfold ready in *. rewrite N, C. intros G. destruct (R G) as [|L]; auto.
    + eapply ready_shape; [|exact R]. right; left. exists s0. split; assumption.
Qed.

Lemma ready_run : forall sched st, ready (sh st) -> ready (sh (run st sched)).
Proof. induction sched as [|x r IH]; intros st H; simpl; auto. apply IH. apply ready_step. exact H. Qed.

Lemma ready_init : forall progs rf cb p, ready (sh (init progs rf cb p)).
Proof. intros. unfold ready, init. simpl. lia. Qed.

(* every step that establishes a connection while disconnected after an earlier connection (= a reconnect) calls every
   registered callback exactly once, in registration order, and keeps those that returned True *)
Lemma reconnect_runs_callbacks : forall st x, ready (sh st) ->
  (0 < nconn (sh st))%nat -> connected (sh st) = false ->
  nconn (sh (step st x)) <> nconn (sh st) ->
  cblog (sh (step st x)) = cblog (sh st) ++ map fst (cbs (sh st)) /\
  cbs (sh (step st x)) = filter (fun kc => cb_keeps (snd kc)) (cbs (sh st)) /\
  connected (sh (step st x)) = true /\ nconn (sh (step st x)) = S (nconn (sh st)).
Proof.
  intros st [[t now] nxt] R G D NE.
  assert (LE : last_error (sh st) = true). { destruct (R G) as [C|L]; [congruence|exact L]. }
  assert (CONN : forall s0 r, bk s0 = bk (sh st) -> bk r = bk (connect_ok s0) ->
            cblog r = cblog (sh st) ++ map fst (cbs (sh st)) /\
            cbs r = filter (fun kc => cb_keeps (snd kc)) (cbs (sh st)) /\ connected r = true /\ nconn r = S (nconn (sh st))).
  { intros s0 r E0 E. rewrite bk_connect_ok in E. unfold bk in E0, E.
    injection E0 as A1 A2 A3 A4 A5. rewrite A3, LE in E. injection E as B1 B2 B3 B4 B5.
    repeat split; congruence. }
  unfold Model.step in *. destruct t as [i|].
  - destruct (nth_error (callers st) i) as [c|]; [|congruence].
    destruct (caller_enabled i now (sh st) c); [|congruence].
    pose proof (bk_shape i now (sh st) c) as S. destruct (caller_step i now (sh st) c) as [s' c']. simpl in *.
    destruct S as [E|[(s0 & E0 & E)|[(s0 & E0 & E)|(s0 & E0 & E)]]].
    + unfold bk in E. inversion E. congruence.
    + eapply CONN; eauto.
    + unfold bk in E0, E. simpl in E. inversion E0. inversion E. congruence.
    + unfold bk in E0, E. simpl in E. inversion E0. inversion E. congruence.
  - destruct (poll_enabled (sh st) (poll st)); [|congruence].
    pose proof (poll_step_bk nxt (sh st) (poll st)) as S. destruct (poll_step nxt (sh st) (poll st)) as [s' p']. simpl in *.
    destruct S as [(N & _)|(_ & s0 & E0 & E)]; [congruence|]. eapply CONN; eauto.
Qed.

(* ------------------------------------------------------------------ polling resumes: once the poll thread has started,
   its trigger callback is registered for ever *)
Definition trigger_inv (st : state) : Prop :=
  match poll st with QNone | QStart => True | _ => In (TRIGGER, CbTrue) (cbs (sh st)) end.

Lemma keeps_true : forall k l, In (k, CbTrue) l -> In (k, CbTrue) (filter (fun kc : nat * cbkind => cb_keeps (snd kc)) l).
Proof. intros k l H. apply filter_In. split; [exact H|reflexivity]. Qed.

Lemma trigger_shape : forall s r, shape _ bk s r -> In (TRIGGER, CbTrue) (cbs s) -> In (TRIGGER, CbTrue) (cbs r).
Proof.
  intros s r [E|[(s0 & E0 & E)|[(s0 & E0 & E)|(s0 & E0 & E)]]] H.
  - unfold bk in E. injection E as _ _ _ C _. rewrite C. exact H.
  - rewrite bk_connect_ok in E. unfold bk in E0, E. injection E0 as _ _ _ A4 _. injection E as _ _ _ B4 _.
    rewrite B4. rewrite <- A4 in H. destruct (last_error s0); [apply keeps_true|]; exact H.
  - unfold bk in E0, E. simpl in E. injection E0 as _ _ _ A4 _. injection E as _ _ _ B4 _. rewrite B4, A4. exact H.
  - unfold bk in E0, E. simpl in E. injection E0 as _ _ _ A4 _. injection E as _ _ _ B4 _. rewrite B4, A4. exact H.
Qed.

Lemma trigger_inv_step : forall st x, trigger_inv st -> trigger_inv (step st x).
Proof.
  intros st [[t now] nxt] T. unfold Model.step. destruct t as [i|].
  - destruct (nth_error (callers st) i) as [c|]; [|exact T].
    destruct (caller_enabled i now (sh st) c); [|exact T].
    pose proof (bk_shape i now (sh st) c) as S. destruct (caller_step i now (sh st) c) as [s' c']. simpl in *.
    unfold trigger_inv in *. simpl. destruct (poll st); auto; eapply trigger_shape; eauto.
  - destruct (poll_enabled (sh st) (poll st)) eqn:EN; [|exact T].
    unfold trigger_inv in *. unfold poll_step.
    destruct (poll st) eqn:Q; simpl in *; try discriminate.
    + destruct nxt; simpl; apply in_or_app; right; left; reflexivity.
    + destruct nxt; exact T.
    + destruct (connected (sh st)); simpl; [destruct nxt|]; exact T.
    + assert (K : forall s0, cbs s0 = cbs (sh st) -> In (TRIGGER, CbTrue) (cbs (connect_ok s0))).
      { intros s0 E. unfold connect_ok. destruct (last_error s0); simpl; rewrite E; [apply keeps_true|]; exact T. }
      unfold pop_refuse. destruct (refuse (sh st)) as [|[|] rf]; simpl; destruct nxt; simpl; try exact T; apply K; reflexivity.
Qed.

Lemma trigger_inv_run : forall sched st, trigger_inv st -> trigger_inv (run st sched).
Proof. induction sched as [|x r IH]; intros st H; simpl; auto. apply IH. apply trigger_inv_step. exact H. Qed.

Lemma trigger_inv_init : forall progs rf cb p, trigger_inv (init progs rf cb p).
Proof. intros. unfold trigger_inv, init. simpl. destruct p; exact I. Qed.
End L.
