(* C16 - explicit model of the receive layer frappy/lib/asynconn.py: AsynTcp.recv, AsynTcp.flush_recv,
   AsynConn.readline, AsynConn.readbytes as functions on (clock, _rxbuffer, socket queue).  The socket queue is the
   list of what the peer has put / will put on the wire: items (arrival time, bytes), None or an empty byte string =
   end of the stream (the socket returns b'').  Time in ticks.  No proofs in this file. *)
From Coq Require Import List Arith ZArith NArith Bool.
Import ListNotations.
Require Import FV.C16.Model.
Open Scope Z_scope.

(* ---------------------------------------------------------------- the socket (environment, not frappy code) *)
Inductive sockres := SData (d : list N) | STimeout.

(* blocking socket.recv(8192) with time-out `slice`, called at time now: the head chunk is returned at its arrival if
   it has arrived or arrives within the slice (result, time of return, queue afterwards); the end of the stream is
   returned as b'' and stays at the head; otherwise socket.timeout is raised after one slice *)
Definition sock_recv (slice now : Z) (q : list item) : sockres * Z * list item :=
  match q with
  | mkItem a p :: r =>
      if a <=? now + slice then
        match p with
        | Some (b :: d) => (SData (b :: d), Z.max now a, r)
        | _ => (SData [], Z.max now a, q)
        end
      else (STimeout, now + slice, q)
  | [] => (STimeout, now + slice, [])
  end.

(* select.select([connection], [], [], 0)[0]: readable = the head has arrived *)
Definition sock_readable (now : Z) (q : list item) : bool := head_ready now q.

(* ---------------------------------------------------------------- AsynTcp.recv:
     try: data = self.connection.recv(8192); if data: return data
     except (socket.timeout, TimeoutError): return b''
     raise ConnectionClosed() *)
Inductive rres := RxData (d : list N) | RxEmpty | RxClosed.

Definition tcp_recv (slice now : Z) (q : list item) : rres * Z * list item :=
  let '(r, t, q') := sock_recv slice now q in
  (match r with SData [] => RxClosed | SData d => RxData d | STimeout => RxEmpty end, t, q').

(* what a call of the receive layer hands back: bytes / None / TimeoutError / ConnectionClosed / (model only) the
   loop was cut off *)
Inductive rxout := UData (d : list N) | UNone | UTimeout | UClosed | UFuel.

(* ---------------------------------------------------------------- AsynTcp.flush_recv:
     data = [self._rxbuffer]
     while select.select([self.connection], [], [], 0)[0]: data.append(self.recv())
     self._rxbuffer = b''
     return b''.join(data)
   inside the loop recv returns at once (the head has arrived); None = ConnectionClosed was raised by recv, in which
   case the assignment to _rxbuffer is not reached *)
Fixpoint flush_loop (now : Z) (q : list item) (acc : list N) : option (list N) * list item :=
  match q with
  | [] => (Some acc, [])
  | mkItem a p :: r =>
      if a <=? now then
        match p with
        | Some (b :: d) => flush_loop now r (acc ++ b :: d)
        | _ => (None, q)
        end
      else (Some acc, q)
  end.

(* result, _rxbuffer afterwards, queue afterwards *)
Definition tcp_flush (now : Z) (buf : list N) (q : list item) : rxout * list N * list item :=
  match flush_loop now q buf with
  | (Some g, q') => (UData g, [], q')
  | (None, q') => (UClosed, buf, q')
  end.

(* ---------------------------------------------------------------- AsynConn.readline(timeout):
     if timeout: end = time.time() + timeout
     while True:
         splitted = self._rxbuffer.split(self.end_of_line, 1)
         if len(splitted) == 2: line, self._rxbuffer = splitted; return line
         data = self.recv()
         if not data:
             if timeout:
                 if time.time() < end: continue
                 raise TimeoutError
             return None
         self._rxbuffer += data
   endt = Some end / None (no time-out given); result, clock, _rxbuffer, queue *)
Fixpoint readline_loop (fuel : nat) (eol : list N) (slice : Z) (endt : option Z) (now : Z) (buf : list N)
                       (q : list item) : rxout * Z * list N * list item :=
  match fuel with
  | O => (UFuel, now, buf, q)
  | S f =>
      match split_eol eol buf with
      | Some (l, rest) => (UData l, now, rest, q)
      | None =>
          let '(r, t, q') := tcp_recv slice now q in
          match r with
          | RxData d => readline_loop f eol slice endt t (buf ++ d) q'
          | RxClosed => (UClosed, t, buf, q')
          | RxEmpty =>
              match endt with
              | Some e => if t <? e then readline_loop f eol slice endt t buf q' else (UTimeout, t, buf, q')
              | None => (UNone, t, buf, q')
              end
          end
      end
  end.

(* AsynConn.readbytes(nbytes, timeout): while len(self._rxbuffer) < nbytes: (same receive step);
   line = self._rxbuffer[:nbytes]; self._rxbuffer = self._rxbuffer[nbytes:] *)
Fixpoint readbytes_loop (fuel : nat) (n : nat) (slice : Z) (endt : option Z) (now : Z) (buf : list N)
                        (q : list item) : rxout * Z * list N * list item :=
  match fuel with
  | O => (UFuel, now, buf, q)
  | S f =>
      if Nat.ltb (length buf) n then
        let '(r, t, q') := tcp_recv slice now q in
        match r with
        | RxData d => readbytes_loop f n slice endt t (buf ++ d) q'
        | RxClosed => (UClosed, t, buf, q')
        | RxEmpty =>
            match endt with
            | Some e => if t <? e then readbytes_loop f n slice endt t buf q' else (UTimeout, t, buf, q')
            | None => (UNone, t, buf, q')
            end
        end
      else (UData (firstn n buf), now, skipn n buf, q)
  end.

(* `if timeout:` - a zero time-out means none *)
Definition deadline (timeout now : Z) : option Z := if timeout =? 0 then None else Some (now + timeout).

(* enough passes for every run when a slice lasts at least one tick (RxLemmas.readline_terminates): every pass either
   takes a chunk from the queue, or ends the call, or is an empty slice before the deadline *)
Definition rx_fuel (endt : option Z) (now : Z) (q : list item) : nat :=
  (length q + Z.to_nat (match endt with Some e => e - now | None => 0 end) + 2)%nat.

Definition readline (eol : list N) (slice timeout now : Z) (buf : list N) (q : list item) :=
  let endt := deadline timeout now in readline_loop (rx_fuel endt now q) eol slice endt now buf q.

Definition readbytes (n : nat) (slice timeout now : Z) (buf : list N) (q : list item) :=
  let endt := deadline timeout now in readbytes_loop (rx_fuel endt now q) n slice endt now buf q.

(* ---------------------------------------------------------------- a script of calls on one connection *)
Inductive rxcall := KReadline (timeout : Z) | KReadbytes (n : nat) (timeout : Z) | KFlush | KWait (d : Z).

Definition do_call (eol : list N) (slice : Z) (k : rxcall) (now : Z) (buf : list N) (q : list item)
  : rxout * Z * list N * list item :=
  match k with
  | KReadline t => readline eol slice t now buf q
  | KReadbytes n t => readbytes n slice t now buf q
  | KFlush => let '(r, b, q') := tcp_flush now buf q in (r, now, b, q')
  | KWait d => (UNone, now + d, buf, q)
  end.

Fixpoint do_calls (eol : list N) (slice : Z) (ks : list rxcall) (now : Z) (buf : list N) (q : list item)
  : list (rxout * Z * list N * nat) :=
  match ks with
  | [] => []
  | k :: r => let '(o, t, b, q') := do_call eol slice k now buf q in
              (o, t, b, length q') :: do_calls eol slice r t b q'
  end.
