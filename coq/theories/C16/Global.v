(* C16 - global invariants over fold_left step, for every program, refusal script, callback set, schedule and
   time of every step:
   (1) reconnect rate: the field last_attempt (IOBase._last_connect_attempt) is written by an attempt started by
       check_connection and by nothing else, every such attempt writes it, hence consecutive attempts are at least
       one reconnect interval apart;
   (2) connection state visible: is_connected = (the connection object exists) = the value announced last, in
       every reachable state; accessLock discipline (at most one thread inside the connecting branch of
       read_is_connected, is_connected is False as long as it is there); a step in which a call fails leaves the
       communicator disconnected, except for the time-out on a silent device, which keeps the connection. *)
From Coq Require Import List Arith ZArith NArith Bool Lia.
Import ListNotations.
Require Import FV.C16.Model FV.C16.Framing FV.C16.Lemmas.
Open Scope Z_scope.

Section G.
Variable md : mode.
Variable timeout interval slice : Z.

Notation caller_step := (caller_step md timeout interval slice).
Notation run_ops := (run_ops interval).
Notation fail_op := (fail_op interval).
Notation next_in_multi := (next_in_multi interval).
Notation finish_exch := (finish_exch interval).
Notation begin_exch := (begin_exch interval).
Notation step := (step md timeout interval slice).
Notation run := (run md timeout interval slice).
Notation flush_then := (flush_then interval).

(* ================================================================== (1) reconnect rate *)
Definition is_access (p : cpc) : bool := match p with CAccess => true | _ => false end.

(* what a step of a caller does to last_attempt: either the caller comes out parked at the entry of
   read_is_connected (check_connection has just started an attempt): then the previous attempt is at least one
   interval ago, the time of this one is recorded and the communicator is disconnected; or it comes out anywhere
   else and last_attempt is untouched *)
Definition att (now : Z) (s : shared) (r : shared * cst) : Prop :=
  (is_access (pc (snd r)) = true /\ last_attempt s + interval <= now /\ last_attempt (fst r) = now /\
   connected (fst r) = false) \/
  (is_access (pc (snd r)) = false /\ last_attempt (fst r) = last_attempt s).

Lemma begin_att : forall now s s' p, begin_exch now s = Some (s', p) ->
  (p = CAccess /\ last_attempt s + interval <= now /\ last_attempt s' = now /\ connected s' = false) \/
  (p = CLock /\ s' = s).
Proof.
  intros now s s' p H. unfold Model.begin_exch in H. destruct (connected s) eqn:C. { inversion H; auto. }
  destruct (last_attempt s + interval <=? now) eqn:E; inversion H; subst. left. repeat split; auto.
  apply Z.leb_le. exact E.
Qed.

Lemma begin_none : forall now s, begin_exch now s = None -> connected s = false.
Proof.
  intros now s H. unfold Model.begin_exch in H. destruct (connected s); [discriminate|reflexivity].
Qed.

Lemma att_la : forall now s0 s r, last_attempt s = last_attempt s0 -> att now s r -> att now s0 r.
Proof. intros now s0 s r E H. unfold att in *. rewrite <- E. exact H. Qed.

Lemma att_begin_mk : forall now s s' p cu im ac r o, begin_exch now s = Some (s', p) ->
  att now s (s', mk p cu im ac r o).
Proof.
  intros now s s' p cu im ac r o E. apply begin_att in E.
  destruct E as [(-> & A & B & C)|(-> & ->)]; [left|right]; simpl; auto.
Qed.

Lemma att_run_ops : forall now ops s o, att now s (run_ops now s o ops).
Proof.
  intros now ops. induction ops as [|[x|xs|d] r IH]; intros s o; simpl.
  - right. split; reflexivity.
  - destruct (begin_exch now s) as [[s' p]|] eqn:E; [apply att_begin_mk; exact E|apply IH].
  - right. split; reflexivity.
  - right. split; reflexivity.
Qed.

Lemma att_fail_op : forall now s c, att now s (fail_op now s c).
Proof.
  intros now s c. unfold Model.fail_op. eapply att_la; [|apply att_run_ops]. destruct (inmulti c); reflexivity.
Qed.

Lemma att_next : forall now s c, att now s (next_in_multi now s c).
Proof.
  intros now s c. unfold Model.next_in_multi. destruct (tl (cur c)) as [|x r].
  - eapply att_la; [|apply att_run_ops]. reflexivity.
  - destruct (begin_exch now s) as [[s' p]|] eqn:E; [apply att_begin_mk; exact E|apply att_fail_op].
Qed.

Lemma att_finish : forall now s c r, att now s (finish_exch now s c r).
Proof.
  intros now s c r. unfold Model.finish_exch. destruct (inmulti c).
  - destruct (cur c) as [|x xs].
    + eapply att_la; [|apply att_next]. reflexivity.
    + destruct (x_delay x =? 0).
      * eapply att_la; [|apply att_next]. reflexivity.
      * right. split; reflexivity.
  - eapply att_la; [|apply att_run_ops]. reflexivity.
Qed.

Lemma la_connect_ok : forall s, last_attempt (connect_ok s) = last_attempt s.
Proof. intros s. unfold connect_ok. destruct (last_error s); reflexivity. Qed.

Lemma att_flush_then : forall now s s1 c p, last_attempt s1 = last_attempt s -> is_access p = false ->
  att now s (flush_then now s1 c p).
Proof.
  intros now s s1 c p E NA.
  destruct (flush_then_cases interval now s1 c p) as [(q & _ & _ & ->)|[(q & _ & _ & ->)|(_ & ->)]].
  - eapply att_la; [|apply att_fail_op]. exact E.
  - right. split; [exact NA|exact E].
  - eapply att_la; [|apply att_fail_op]. exact E.
Qed.

Lemma caller_step_att : forall i now s c, att now s (caller_step i now s c).
Proof.
  intros i now s c. unfold Model.caller_step. destruct (pc c) eqn:P.
  - apply att_run_ops.
  - right. destruct (connected s); split; reflexivity.
  - unfold pop_refuse. destruct (refuse s) as [|[|] rf].
    + right. split; [reflexivity|]. simpl. rewrite la_connect_ok. reflexivity.
    + eapply att_la; [|apply att_fail_op]. reflexivity.
    + right. split; [reflexivity|]. simpl. rewrite la_connect_ok. reflexivity.
  - destruct (cur c) as [|x xs].
    + eapply att_la; [|apply att_run_ops]. reflexivity.
    + destruct (begin_exch now (acquire i s)) as [[s2 p]|] eqn:E.
      * apply begin_att in E. destruct E as [(-> & A & B & C)|(-> & ->)]; [left|right]; simpl; auto.
      * eapply att_la; [|apply att_fail_op]. reflexivity.
  - destruct (wait_of c =? 0); [apply att_flush_then; reflexivity|right; split; reflexivity].
  - destruct (x_noreply (cur_x c)). { eapply att_la; [|apply att_finish]. reflexivity. }
    destruct (try_frame md (x_n (cur_x c)) _) as [[r rst]|].
    + eapply att_la; [|apply att_finish]. reflexivity.
    + right. split; reflexivity.
  - assert (TO : att now s (fail_op now (release (set_last_error s true)) c)).
    { eapply att_la; [|apply att_fail_op]. reflexivity. }
    destruct (queue s) as [|[a [d|]] q'].
    + destruct (now <? e); [right; split; reflexivity|exact TO].
    + destruct (a <=? now).
      * destruct (try_frame md _ _) as [[r rst]|].
        { eapply att_la; [|apply att_finish]. reflexivity. } { right. split; reflexivity. }
      * destruct (now <? e); [right; split; reflexivity|exact TO].
    + destruct (a <=? now).
      * eapply att_la; [|apply att_fail_op]. reflexivity.
      * destruct (now <? e); [right; split; reflexivity|exact TO].
  - apply att_next.
  - apply att_run_ops.
  - right. simpl. rewrite P. split; reflexivity.
  - destruct first; [apply att_flush_then; [reflexivity|destruct l; reflexivity]|right; destruct l; split; reflexivity].
  - right. destruct l; split; reflexivity.
Qed.

(* a caller parked at the entry of read_is_connected leaves it with its step *)
Lemma access_step_leaves : forall i now s c, pc c = CAccess -> is_access (pc (snd (caller_step i now s c))) = false.
Proof. intros i now s c P. unfold Model.caller_step. rewrite P. destruct (connected s); reflexivity. Qed.

Lemma la_poll_step : forall nxt s p, last_attempt (fst (poll_step nxt s p)) = last_attempt s.
Proof.
  intros nxt s p. unfold poll_step. destruct p; try reflexivity.
  - destruct (connected s); reflexivity.
  - unfold pop_refuse. destruct (refuse s) as [|[|] rf]; simpl; rewrite ?la_connect_ok; reflexivity.
Qed.

(* an attempt = a step after which a caller is parked at the entry of read_is_connected and before which it was
   not: check_connection found the communicator disconnected and decided to call read_is_connected *)
Definition at_access (st : state) (i : nat) : bool :=
  match nth_error (callers st) i with Some c => is_access (pc c) | None => false end.

Definition is_attempt (st : state) (x : tid * Z * bool) : bool :=
  match fst (fst x) with
  | TC i => at_access (step st x) i && negb (at_access st i)
  | TP => false
  end.

Definition time_of (x : tid * Z * bool) : Z := snd (fst x).

(* every attempt writes last_attempt (and is permitted by the rate limit); nothing else writes it *)
Lemma la_step : forall st x,
  (is_attempt st x = true ->
     last_attempt (sh st) + interval <= time_of x /\ last_attempt (sh (step st x)) = time_of x /\
     connected (sh (step st x)) = false) /\
  (is_attempt st x = false -> last_attempt (sh (step st x)) = last_attempt (sh st)).
Proof.
  intros st [[t now] nxt]. unfold is_attempt, time_of. simpl fst. simpl snd. destruct t as [i|].
  - unfold at_access. unfold Model.step.
    destruct (nth_error (callers st) i) as [c|] eqn:Ci.
    2: { rewrite Ci. simpl. split; [discriminate|reflexivity]. }
    destruct (caller_enabled i now (sh st) c).
    2: { rewrite Ci. split; [|reflexivity]. destruct (is_access (pc c)); discriminate. }
    pose proof (caller_step_att i now (sh st) c) as A.
    pose proof (access_step_leaves i now (sh st) c) as L.
    destruct (caller_step i now (sh st) c) as [s' c']. unfold att in A. simpl in *.
    rewrite (nth_set_nth_eq _ _ _ _ Ci).
    destruct (is_access (pc c)) eqn:PA.
    + assert (P : pc c = CAccess) by (destruct (pc c); try discriminate; reflexivity).
      rewrite (L P). simpl. split; [discriminate|intros _].
      destruct A as [(A1 & _)|(_ & A2)]; [rewrite (L P) in A1; discriminate|exact A2].
    + rewrite andb_true_r. destruct A as [(A1 & A2 & A3 & A4)|(A1 & A2)]; rewrite A1.
      * split; [intros _; auto|discriminate].
      * split; [discriminate|intros _; exact A2].
  - split; [discriminate|intros _]. unfold Model.step.
    destruct (poll_enabled (sh st) (poll st)); [|reflexivity].
    pose proof (la_poll_step nxt (sh st) (poll st)) as E.
    destruct (poll_step nxt (sh st) (poll st)) as [s' p']. exact E.
Qed.

(* the times of the attempts of a run, in the order in which they are made *)
Fixpoint attempts (st : state) (sched : list (tid * Z * bool)) : list Z :=
  match sched with
  | [] => []
  | x :: r => (if is_attempt st x then [time_of x] else []) ++ attempts (step st x) r
  end.

Fixpoint spaced (l : list Z) : Prop :=
  match l with
  | a :: (b :: _) as r => a + interval <= b /\ spaced r
  | _ => True
  end.

Lemma last_cons : forall l (a d : Z), last (a :: l) d = last l a.
Proof.
  induction l as [|b l IH]; intros a d; [reflexivity|].
  change (last (a :: b :: l) d) with (last (b :: l) d). rewrite (IH b d), (IH b a). reflexivity.
Qed.

Lemma attempts_spaced : forall sched st,
  spaced (last_attempt (sh st) :: attempts st sched) /\
  last_attempt (sh (run st sched)) = last (attempts st sched) (last_attempt (sh st)).
Proof.
  induction sched as [|x r IH]; intros st.
  - simpl. auto.
  - destruct (la_step st x) as [T F]. specialize (IH (step st x)). destruct IH as [IH1 IH2].
    simpl attempts. unfold Model.run in *. simpl fold_left. destruct (is_attempt st x).
    + destruct (T eq_refl) as (A & B & _). rewrite B in IH1, IH2. simpl app. split.
      * simpl. split; [exact A|exact IH1].
      * rewrite IH2. symmetry. apply last_cons.
    + rewrite (F eq_refl) in IH1, IH2. simpl app. split; assumption.
Qed.

Lemma spaced_all_later : forall l a, 0 <= interval -> spaced (a :: l) -> Forall (fun b => a + interval <= b) l.
Proof.
  induction l as [|b l IH]; intros a NN S; [constructor|].
  simpl in S. destruct S as [AB S]. constructor; [exact AB|].
  specialize (IH b NN S). eapply Forall_impl; [|exact IH]. simpl. intros c H. lia.
Qed.

Lemma spaced_pairs : forall l, 0 <= interval -> spaced l -> ForallOrdPairs (fun a b => a + interval <= b) l.
Proof.
  induction l as [|a l IH]; intros NN S; [constructor|].
  constructor; [apply spaced_all_later; assumption|]. apply IH; [exact NN|]. destruct l; [exact I|]. simpl in S. apply S.
Qed.

(* ================================================================== (2) connection state *)
Definition vz (s : shared) : bool * bool * list bool := (connected s, conn s, ann s).

(* is_connected = (connection object exists) = the value announced last (nothing announced yet: the default False) *)
Definition vis (s : shared) : Prop := connected s = conn s /\ last (ann s) false = connected s.

Lemma vz_connect_ok : forall s, vz (connect_ok s) = (true, true, ann s ++ [true]).
Proof. intros s. unfold connect_ok, vz. destruct (last_error s); reflexivity. Qed.

Lemma vis_of_vz : forall s r, vz r = vz s -> vis s -> vis r.
Proof. intros s r E V. unfold vz in E. injection E as H0 H1 H2. unfold vis. rewrite H0, H1, H2. exact V. Qed.

Lemma vis_connect_ok : forall r s0, vz r = vz (connect_ok s0) -> vis r.
Proof.
  intros r s0 E. rewrite vz_connect_ok in E. unfold vz in E. injection E as H0 H1 H2. unfold vis. rewrite H0, H1, H2.
  split; [reflexivity|apply last_last].
Qed.

Lemma vis_close : forall r s0, vz r = vz (close_conn s0) -> vis r.
Proof.
  intros r s0 E. unfold vz in E. simpl in E. injection E as H0 H1 H2. unfold vis. rewrite H0, H1, H2.
  split; [reflexivity|apply last_last].
Qed.

Lemma vz_shape : forall i now s c, shape _ vz s (fst (caller_step i now s c)).
Proof. intros. apply caller_step_shape; intros; reflexivity. Qed.

Lemma vis_shape : forall s r, shape _ vz s r -> vis s -> vis r.
Proof.
  intros s r [E|[(s0 & E0 & E)|[(s0 & E0 & E)|(s0 & E0 & E)]]] V.
  - eapply vis_of_vz; eauto.
  - eapply vis_connect_ok; eauto.
  - eapply vis_close; eauto.
  - eapply vis_of_vz; [|exact V]. rewrite E. unfold vz in *. simpl. exact E0.
Qed.

Lemma vis_poll_step : forall nxt s p, vis s -> vis (fst (poll_step nxt s p)).
Proof.
  intros nxt s p V. unfold poll_step. destruct p; simpl; try exact V.
  - destruct (connected s); exact V.
  - unfold pop_refuse. destruct (refuse s) as [|[|] rf]; simpl.
    + eapply vis_connect_ok. reflexivity.
    + exact V.
    + eapply vis_connect_ok. reflexivity.
Qed.

Lemma vis_step : forall st x, vis (sh st) -> vis (sh (step st x)).
Proof.
  intros st [[t now] nxt] V. unfold Model.step. destruct t as [i|].
  - destruct (nth_error (callers st) i) as [c|]; [|exact V].
    destruct (caller_enabled i now (sh st) c); [|exact V].
    pose proof (vz_shape i now (sh st) c) as S. destruct (caller_step i now (sh st) c) as [s' c']. simpl in *.
    eapply vis_shape; eauto.
  - destruct (poll_enabled (sh st) (poll st)); [|exact V].
    pose proof (vis_poll_step nxt (sh st) (poll st) V) as S. destruct (poll_step nxt (sh st) (poll st)) as [s' p']. exact S.
Qed.

Lemma vis_run : forall sched st, vis (sh st) -> vis (sh (run st sched)).
Proof. induction sched as [|x r IH]; intros st H; simpl; auto. apply IH. apply vis_step. exact H. Qed.

Lemma vis_init : forall progs rf cb p, vis (sh (init progs rf cb p)).
Proof. intros. unfold vis, init. simpl. auto. Qed.

(* ------------------------------------------------------------------ accessLock: who is inside the connecting branch of
   read_is_connected *)
Lemma run_ops_nc : forall now ops s o, pc (snd (run_ops now s o ops)) <> CConnect.
Proof.
  intros now ops. induction ops as [|[x|xs|d] r IH]; intros s o; simpl; try discriminate.
  destruct (begin_exch now s) as [[s' p]|] eqn:E; [|apply IH].
  apply begin_exch_lk in E. destruct E as [_ [->| ->]]; simpl; discriminate.
Qed.

Lemma fail_op_nc : forall now s c, pc (snd (fail_op now s c)) <> CConnect.
Proof. intros. unfold Model.fail_op. apply run_ops_nc. Qed.

Lemma next_nc : forall now s c, pc (snd (next_in_multi now s c)) <> CConnect.
Proof.
  intros now s c. unfold Model.next_in_multi. destruct (tl (cur c)); [apply run_ops_nc|].
  destruct (begin_exch now s) as [[s' p]|] eqn:E; [|apply fail_op_nc].
  apply begin_exch_lk in E. destruct E as [_ [->| ->]]; simpl; discriminate.
Qed.

Lemma finish_nc : forall now s c r, pc (snd (finish_exch now s c r)) <> CConnect.
Proof.
  intros now s c r. unfold Model.finish_exch. destruct (inmulti c); [|apply run_ops_nc].
  destruct (cur c) as [|x xs]; [apply next_nc|]. destruct (x_delay x =? 0); [apply next_nc|simpl; discriminate].
Qed.

Lemma flush_then_nc : forall now s1 c p, p <> CConnect -> pc (snd (flush_then now s1 c p)) <> CConnect.
Proof.
  intros now s1 c p NP.
  destruct (flush_then_cases interval now s1 c p) as [(q & _ & _ & ->)|[(q & _ & _ & ->)|(_ & ->)]];
    [apply fail_op_nc|exact NP|apply fail_op_nc].
Qed.

(* only the step at the entry of read_is_connected leads into the connecting branch *)
Lemma caller_step_nc : forall i now s c, pc c <> CAccess -> pc (snd (caller_step i now s c)) <> CConnect.
Proof.
  intros i now s c NA. unfold Model.caller_step. destruct (pc c) eqn:P.
  - apply run_ops_nc.
  - congruence.
  - unfold pop_refuse. destruct (refuse s) as [|[|] rf]; simpl; try discriminate. apply fail_op_nc.
  - destruct (cur c); [apply run_ops_nc|].
    destruct (begin_exch now (acquire i s)) as [[s2 p]|] eqn:E; [|apply fail_op_nc].
    apply begin_exch_lk in E. destruct E as [_ [->| ->]]; simpl; discriminate.
  - destruct (wait_of c =? 0); [apply flush_then_nc; discriminate|simpl; discriminate].
  - destruct (x_noreply (cur_x c)); [apply finish_nc|].
    destruct (try_frame md (x_n (cur_x c)) _) as [[r rst]|]; [apply finish_nc|simpl; discriminate].
  - destruct (queue s) as [|[a [d|]] q'].
    + destruct (now <? e); [simpl; discriminate|apply fail_op_nc].
    + destruct (a <=? now).
      * destruct (try_frame md _ _) as [[r rst]|]; [apply finish_nc|simpl; discriminate].
      * destruct (now <? e); [simpl; discriminate|apply fail_op_nc].
    + destruct (a <=? now); [apply fail_op_nc|]. destruct (now <? e); [simpl; discriminate|apply fail_op_nc].
  - apply next_nc.
  - apply run_ops_nc.
  - simpl. rewrite P. discriminate.
  - destruct first; [apply flush_then_nc|simpl]; destruct l; discriminate.
  - destruct l; simpl; discriminate.
Qed.

(* frames of a field that is written neither by set_last_attempt nor by the lock operations *)
Section Frame2.
Variable A : Type.
Variable f : shared -> A.
Hypothesis f_la : forall s v, f (set_last_attempt s v) = f s.
Hypothesis f_rel : forall s, f (release s) = f s.
Hypothesis f_acq : forall i s, f (acquire i s) = f s.
Hypothesis f_queue : forall s v, f (set_queue s v) = f s.
Hypothesis f_rxbuf : forall s v, f (set_rxbuf s v) = f s.
Hypothesis f_sendlog : forall s v, f (set_sendlog s v) = f s.
Hypothesis f_lasterr : forall s v, f (set_last_error s v) = f s.

Lemma flush_then_frame2 : forall now s s1 c p, f s1 = f s ->
  let r := fst (flush_then now s1 c p) in
  f r = f s \/ (exists s0, f s0 = f s /\ f r = f (close_conn s0)).
Proof.
  intros now s s1 c p E.
  assert (FF := f_fail_op interval _ f f_la f_rel).
  destruct (flush_then_cases interval now s1 c p) as [(q & _ & _ & E1)|[(q & _ & _ & E1)|(_ & E1)]]; simpl; rewrite E1.
  - right. exists s1. split; [exact E|]. rewrite FF. apply f_rel.
  - left. simpl. rewrite f_rxbuf, f_queue. exact E.
  - left. rewrite FF, f_rel. exact E.
Qed.

(* outside read_is_connected a step leaves f alone or closes the connection *)
Lemma caller_step_frame2 : forall i now s c, pc c <> CAccess -> pc c <> CConnect ->
  let r := fst (caller_step i now s c) in
  f r = f s \/ (exists s0, f s0 = f s /\ f r = f (close_conn s0)).
Proof.
  intros i now s c NA NC. unfold Model.caller_step.
  assert (FR := f_run_ops interval _ f f_la).
  assert (FF := f_fail_op interval _ f f_la f_rel).
  assert (FN := f_next interval _ f f_la f_rel).
  assert (FI := f_finish interval _ f f_la f_rel).
  assert (FB := f_begin interval _ f f_la).
  destruct (pc c) eqn:P; [ | exfalso; apply NA; reflexivity | exfalso; apply NC; reflexivity | .. ].
  - left. apply FR.
  - left. destruct (cur c). { rewrite FR, f_rel. apply f_acq. }
    destruct (begin_exch now (acquire i s)) as [[s2 p]|] eqn:E. { simpl. rewrite (FB _ _ _ _ E). apply f_acq. }
    rewrite FF. apply f_acq.
  - destruct (wait_of c =? 0); [apply flush_then_frame2; apply f_acq|left; simpl; apply f_acq].
  - left. destruct (x_noreply (cur_x c)). { rewrite FI, f_sendlog. apply f_queue. }
    destruct (try_frame md (x_n (cur_x c)) _) as [[r rst]|].
    + rewrite FI, f_rxbuf, f_sendlog. apply f_queue.
    + simpl. rewrite f_sendlog. apply f_queue.
  - assert (TO : f (fst (fail_op now (release (set_last_error s true)) c)) = f s).
    { rewrite FF, f_rel. apply f_lasterr. }
    destruct (queue s) as [|[a [d|]] q'].
    + destruct (now <? e); [left; reflexivity|left; exact TO].
    + destruct (a <=? now).
      * left. destruct (try_frame md _ _) as [[r rst]|].
        { rewrite FI, f_rxbuf. apply f_queue. } { simpl. rewrite f_rxbuf. apply f_queue. }
      * destruct (now <? e); [left; reflexivity|left; exact TO].
    + destruct (a <=? now).
      * right. exists s. split; [reflexivity|]. rewrite FF. apply f_rel.
      * destruct (now <? e); [left; reflexivity|left; exact TO].
  - left. apply FN.
  - left. apply FR.
  - left. reflexivity.
  - destruct first; [apply flush_then_frame2; reflexivity|left; reflexivity].
  - left. destruct l; [reflexivity|]. simpl. unfold send_line. rewrite f_sendlog. apply f_queue.
Qed.
End Frame2.

Lemma caller_step_acc : forall i now s c, pc c <> CAccess -> pc c <> CConnect ->
  acc_owner (fst (caller_step i now s c)) = acc_owner s.
Proof.
  intros i now s c NA NC.
  destruct (caller_step_frame2 _ acc_owner) with (i := i) (now := now) (s := s) (c := c) as [E|(s0 & E0 & E)];
    try (intros; reflexivity); try assumption.
  rewrite E. simpl. exact E0.
Qed.

Lemma caller_step_connected : forall i now s c, pc c <> CAccess -> pc c <> CConnect ->
  connected (fst (caller_step i now s c)) = connected s \/ connected (fst (caller_step i now s c)) = false.
Proof.
  intros i now s c NA NC.
  destruct (caller_step_frame2 _ connected) with (i := i) (now := now) (s := s) (c := c) as [E|(s0 & E0 & E)];
    try (intros; reflexivity); try assumption; auto.
Qed.

Lemma acc_connect_ok : forall s, acc_owner (connect_ok s) = acc_owner s.
Proof. intros s. unfold connect_ok. destruct (last_error s); reflexivity. Qed.

Lemma connect_step_acc : forall i now s c, pc c = CConnect -> acc_owner (fst (caller_step i now s c)) = None.
Proof.
  intros i now s c P. unfold Model.caller_step. rewrite P.
  assert (FF := f_fail_op interval _ acc_owner (fun _ _ => eq_refl) (fun _ => eq_refl)).
  unfold pop_refuse. destruct (refuse s) as [|[|] rf]; simpl; rewrite ?FF, ?acc_connect_ok; reflexivity.
Qed.

Definition acc_inv (st : state) : Prop :=
  (forall i c, nth_error (callers st) i = Some c -> pc c = CConnect -> acc_owner (sh st) = Some (TC i)) /\
  (poll st = QConnect -> acc_owner (sh st) = Some TP) /\
  (acc_owner (sh st) <> None -> connected (sh st) = false).

Lemma acc_inv_step : forall st x, acc_inv st -> acc_inv (step st x).
Proof.
  intros st [[t now] nxt] (A1 & A2 & A3). unfold Model.step. destruct t as [i|].
  - destruct (nth_error (callers st) i) as [c|] eqn:Ci; [|repeat split; assumption].
    destruct (caller_enabled i now (sh st) c) eqn:EN; [|repeat split; assumption].
    destruct (caller_step i now (sh st) c) as [s' c'] eqn:CS.
    assert (S1 : s' = fst (caller_step i now (sh st) c)) by (rewrite CS; reflexivity).
    assert (S2 : c' = snd (caller_step i now (sh st) c)) by (rewrite CS; reflexivity).
    unfold acc_inv. simpl.
    assert (OTHER : forall k ck, k <> i -> nth_error (set_nth i c' (callers st)) k = Some ck -> nth_error (callers st) k = Some ck).
    { intros k ck NK H. rewrite nth_set_nth_neq in H by lia. exact H. }
    destruct (pc c) eqn:P.
    2: { (* CAccess *)
      clear S1 S2.
      unfold caller_enabled in EN. rewrite P in EN. unfold acc_free in EN.
      destruct (acc_owner (sh st)) eqn:AO; [discriminate|].
      unfold Model.caller_step in CS. rewrite P in CS. destruct (connected (sh st)) eqn:C; inversion CS; subst s' c'.
      - repeat split.
        + intros k ck Ck Pk. exfalso. destruct (Nat.eq_dec k i) as [->|NK].
          * rewrite (nth_set_nth_eq _ _ _ _ Ci) in Ck. inversion Ck; subst. discriminate.
          * pose proof (A1 k ck (OTHER k ck NK Ck) Pk) as H. discriminate.
        + rewrite ?AO. exact A2.
        + rewrite ?AO, ?C. exact A3.
      - repeat split.
        + intros k ck Ck Pk. destruct (Nat.eq_dec k i) as [->|NK]; [reflexivity|].
          pose proof (A1 k ck (OTHER k ck NK Ck) Pk) as H. discriminate.
        + intros Q. pose proof (A2 Q) as H. discriminate.
        + intros _. simpl. exact C. }
    2: { (* CConnect *)
      pose proof (A1 i c Ci P) as AO.
      pose proof (connect_step_acc i now (sh st) c P) as N. rewrite <- S1 in N.
      assert (NC' : pc c' <> CConnect).
      { rewrite S2. unfold Model.caller_step. rewrite P. unfold pop_refuse.
        destruct (refuse (sh st)) as [|[|] rf]; simpl; try discriminate. apply fail_op_nc. }
      repeat split.
      - intros k ck Ck Pk. destruct (Nat.eq_dec k i) as [->|NK].
        + rewrite (nth_set_nth_eq _ _ _ _ Ci) in Ck. inversion Ck; subst. congruence.
        + pose proof (A1 k ck (OTHER k ck NK Ck) Pk) as H. rewrite AO in H. inversion H. congruence.
      - intros Q. pose proof (A2 Q) as H. rewrite AO in H. discriminate.
      - intros H. congruence. }
    all: assert (NA : pc c <> CAccess) by congruence; assert (NC : pc c <> CConnect) by congruence;
      pose proof (caller_step_acc i now (sh st) c NA NC) as EA; rewrite <- S1 in EA;
      pose proof (caller_step_connected i now (sh st) c NA NC) as EC; rewrite <- S1 in EC;
      pose proof (caller_step_nc i now (sh st) c NA) as NC'; rewrite <- S2 in NC';
      (repeat split;
       [ intros k ck Ck Pk; destruct (Nat.eq_dec k i) as [->|NK];
         [ rewrite (nth_set_nth_eq _ _ _ _ Ci) in Ck; inversion Ck; subst; congruence
         | rewrite EA; eapply A1; eauto ]
       | rewrite EA; exact A2
       | rewrite EA; intros H; destruct EC as [EC|EC]; [rewrite EC; apply A3; exact H|exact EC] ]).
  - destruct (poll_enabled (sh st) (poll st)) eqn:EN; [|repeat split; assumption].
    unfold acc_inv, poll_step. destruct (poll st) eqn:Q; simpl in *; try discriminate.
    + (* QStart *) repeat split; auto. destruct nxt; discriminate.
    + (* QIdle *) repeat split; auto. destruct nxt; discriminate.
    + (* QAccess *)
      unfold acc_free in EN. destruct (acc_owner (sh st)) eqn:AO; [discriminate|].
      destruct (connected (sh st)) eqn:C; simpl; rewrite ?AO, ?C.
      * repeat split; auto. destruct nxt; discriminate.
      * repeat split; auto. intros k ck Ck Pk. pose proof (A1 k ck Ck Pk) as H. discriminate.
    + (* QConnect *)
      pose proof (A2 eq_refl) as AO.
      unfold pop_refuse. destruct (refuse (sh st)) as [|[|] rf]; simpl; rewrite ?acc_connect_ok; simpl;
        (repeat split;
         [ intros k ck Ck Pk; pose proof (A1 k ck Ck Pk) as H; rewrite AO in H; discriminate
         | destruct nxt; discriminate
         | intros H; congruence ]).
Qed.

Lemma acc_inv_init : forall progs rf cb p, acc_inv (init progs rf cb p).
Proof.
  intros. unfold acc_inv, init. simpl. repeat split.
  - intros i c H P. apply nth_error_In in H. apply in_map_iff in H. destruct H as [x [<- _]]. discriminate.
  - destruct p; discriminate.
Qed.

Lemma acc_inv_run : forall sched st, acc_inv st -> acc_inv (run st sched).
Proof. induction sched as [|x r IH]; intros st H; simpl; auto. apply IH. apply acc_inv_step. exact H. Qed.

(* ------------------------------------------------------------------ a failed call leaves the communicator disconnected *)
(* the outcomes a step appends to those of the caller; a failure among them comes with a disconnected communicator *)
Definition fl (o : list outcome) (r : shared * cst) : Prop :=
  exists mid, outs (snd r) = o ++ mid /\ (In RFail mid -> connected (fst r) = false).

Lemma fl_ext : forall o m r, fl (o ++ m) r -> (In RFail m -> connected (fst r) = false) -> fl o r.
Proof.
  intros o m r (mid & E & H) K. exists (m ++ mid). split; [rewrite E; apply app_assoc_reverse|].
  intros I. apply in_app_or in I. destruct I; auto.
Qed.

Lemma fl_same : forall o r, outs (snd r) = o -> fl o r.
Proof. intros o r E. exists []. split; [rewrite app_nil_r; exact E|intros []]. Qed.

Lemma run_ops_fl : forall now ops s o, fl o (run_ops now s o ops).
Proof.
  intros now ops. induction ops as [|[x|xs|d] r IH]; intros s o; simpl; try (apply fl_same; reflexivity).
  destruct (begin_exch now s) as [[s' p]|] eqn:E; [apply fl_same; reflexivity|].
  eapply fl_ext; [apply IH|]. intros _.
  rewrite (f_run_ops interval _ connected (fun _ _ => eq_refl)). eapply begin_none; eauto.
Qed.

Lemma conn_fail_op : forall now s c, connected (fst (fail_op now s c)) = connected s.
Proof. intros. apply (f_fail_op interval _ connected); intros; reflexivity. Qed.

Lemma fail_op_outs : forall now s c, exists mid, outs (snd (fail_op now s c)) = outs c ++ mid.
Proof.
  intros now s c. unfold Model.fail_op.
  destruct (run_ops_fl now (rest c) (if inmulti c then release s else s) (outs c ++ [RFail])) as (mid & E & _).
  exists ([RFail] ++ mid). rewrite E. apply app_assoc_reverse.
Qed.

Lemma fail_op_fl : forall now s c, connected s = false -> fl (outs c) (fail_op now s c).
Proof.
  intros now s c D. destruct (fail_op_outs now s c) as (mid & E). exists mid. split; [exact E|].
  intros _. rewrite conn_fail_op. exact D.
Qed.

Lemma next_fl : forall now s c, fl (outs c) (next_in_multi now s c).
Proof.
  intros now s c. unfold Model.next_in_multi. destruct (tl (cur c)) as [|x r].
  - eapply fl_ext; [apply run_ops_fl|]. intros [H|[]]. discriminate.
  - destruct (begin_exch now s) as [[s' p]|] eqn:E; [apply fl_same; reflexivity|].
    apply fail_op_fl. eapply begin_none; eauto.
Qed.

Lemma finish_fl : forall now s c r, fl (outs c) (finish_exch now s c r).
Proof.
  intros now s c r. unfold Model.finish_exch. destruct (inmulti c).
  - destruct (cur c) as [|x xs]; [apply (next_fl now (release s) (mk (pc c) [] true _ (rest c) (outs c)))|].
    destruct (x_delay x =? 0); [apply (next_fl now (release s) (mk (pc c) (x :: xs) true _ (rest c) (outs c)))|].
    apply fl_same. reflexivity.
  - eapply fl_ext; [apply run_ops_fl|]. intros [H|[]]. discriminate.
Qed.

(* the exception: the time-out on a silent device keeps the connection and stores the error text *)
Definition timed_out (now : Z) (s : shared) (c : cst) (r : shared * cst) : Prop :=
  exists e sl, pc c = CRecv e sl /\ e <= now /\ head_ready now (queue s) = false /\
               connected (fst r) = connected s /\ last_error (fst r) = true.

Definition flt (now : Z) (s : shared) (c : cst) (r : shared * cst) : Prop :=
  exists mid, outs (snd r) = outs c ++ mid /\ (In RFail mid -> connected (fst r) = false \/ timed_out now s c r).

Lemma flt_of_fl : forall now s c r, fl (outs c) r -> flt now s c r.
Proof. intros now s c r (mid & E & H). exists mid. split; [exact E|]. intros I. left. auto. Qed.

Lemma flush_then_fl : forall now s1 c p, connected s1 = conn s1 -> fl (outs c) (flush_then now s1 c p).
Proof.
  intros now s1 c p V.
  destruct (flush_then_cases interval now s1 c p) as [(q & _ & _ & ->)|[(q & _ & _ & ->)|(CN & ->)]].
  - apply fail_op_fl. reflexivity.
  - apply fl_same. reflexivity.
  - apply fail_op_fl. simpl. congruence.
Qed.

Lemma caller_step_flt : forall i now s c, connected s = conn s -> (pc c = CConnect -> connected s = false) ->
  flt now s c (caller_step i now s c).
Proof.
  intros i now s c V AC. unfold Model.caller_step. destruct (pc c) eqn:P.
  - apply flt_of_fl. apply run_ops_fl.
  - apply flt_of_fl. destruct (connected s); apply fl_same; reflexivity.
  - apply flt_of_fl. specialize (AC eq_refl). unfold pop_refuse. destruct (refuse s) as [|[|] rf].
    + apply fl_same. reflexivity.
    + apply fail_op_fl. exact AC.
    + apply fl_same. reflexivity.
  - apply flt_of_fl. destruct (cur c) as [|x xs].
    + eapply fl_ext; [apply run_ops_fl|]. intros [H|[]]. discriminate.
    + destruct (begin_exch now (acquire i s)) as [[s2 p]|] eqn:E; [apply fl_same; reflexivity|].
      apply fail_op_fl. eapply begin_none; eauto.
  - apply flt_of_fl. destruct (wait_of c =? 0); [apply flush_then_fl; exact V|apply fl_same; reflexivity].
  - apply flt_of_fl. destruct (x_noreply (cur_x c)); [apply finish_fl|].
    destruct (try_frame md (x_n (cur_x c)) _) as [[r rst]|]; [apply finish_fl|apply fl_same; reflexivity].
  - assert (TO : head_ready now (queue s) = false -> (now <? e) = false ->
                 flt now s c (fail_op now (release (set_last_error s true)) c)).
    { intros HR NL. destruct (fail_op_outs now (release (set_last_error s true)) c) as (mid & E).
      exists mid. split; [exact E|]. intros _. right. exists e, sl. repeat split; auto.
      - apply Z.ltb_ge. exact NL.
      - rewrite conn_fail_op. reflexivity.
      - rewrite (f_fail_op interval _ last_error); intros; reflexivity. }
    destruct (queue s) as [|[a [d|]] q'] eqn:Q.
    + destruct (now <? e) eqn:NL; [apply flt_of_fl; apply fl_same; reflexivity|apply TO; auto].
    + destruct (a <=? now) eqn:AR.
      * apply flt_of_fl. destruct (try_frame md _ _) as [[r rst]|]; [apply finish_fl|apply fl_same; reflexivity].
      * destruct (now <? e) eqn:NL; [apply flt_of_fl; apply fl_same; reflexivity|apply TO; auto].
    + destruct (a <=? now) eqn:AR.
      * apply flt_of_fl. apply fail_op_fl. reflexivity.
      * destruct (now <? e) eqn:NL; [apply flt_of_fl; apply fl_same; reflexivity|apply TO; auto].
  - apply flt_of_fl. apply next_fl.
  - apply flt_of_fl. apply run_ops_fl.
  - apply flt_of_fl. apply fl_same. reflexivity.
  - apply flt_of_fl. destruct first; [apply flush_then_fl; exact V|apply fl_same; reflexivity].
  - apply flt_of_fl. destruct l; apply fl_same; reflexivity.
Qed.

(* both invariants together *)
Definition conn_inv (st : state) : Prop := vis (sh st) /\ acc_inv st.

Lemma conn_inv_run : forall progs rf cb p sched, conn_inv (run (init progs rf cb p) sched).
Proof.
  intros. split; [apply vis_run; apply vis_init|apply acc_inv_run; apply acc_inv_init].
Qed.

Lemma failed_call_disconnects : forall st i now nxt c c' mid, conn_inv st ->
  nth_error (callers st) i = Some c ->
  nth_error (callers (step st (TC i, now, nxt))) i = Some c' ->
  outs c' = outs c ++ mid -> In RFail mid ->
  let s' := sh (step st (TC i, now, nxt)) in
  connected s' = false \/ timed_out now (sh st) c (s', c').
Proof.
  intros st i now nxt c c' mid ((V1 & V2) & (A1 & A2 & A3)) Ci Ci' E I. unfold Model.step in *. rewrite Ci in *.
  destruct (caller_enabled i now (sh st) c).
  2: { rewrite Ci in Ci'. inversion Ci'; subst c'. rewrite <- (app_nil_r (outs c)) in E at 1.
       apply app_inv_head in E. subst mid. destruct I. }
  assert (AC : pc c = CConnect -> connected (sh st) = false).
  { intros P. apply A3. rewrite (A1 i c Ci P). discriminate. }
  pose proof (caller_step_flt i now (sh st) c V1 AC) as F.
  destruct (caller_step i now (sh st) c) as [s1 c1]. simpl in *.
  rewrite (nth_set_nth_eq _ _ _ _ Ci) in Ci'. inversion Ci'; subst c1.
  destruct F as (mid0 & E0 & H). simpl in E0. rewrite E in E0. apply app_inv_head in E0. subst mid0.
  exact (H I).
Qed.

End G.
