(* C16 - property theorems only; each is closed by a lemma of Lemmas.v / Framing.v (no refutation is left: every
   defect found for C16 has been repaired in /repo).
   `sched` ranges over every interleaving of callers and poll thread at their synchronisation points together with
   every virtual time of every step; `progs` over every set of caller programs (communicate / writeline / multicomm /
   pause with any device directive: delays, chunkings, garbage, silence, close), `rf` over every refusal script, `cb`
   over every set of registered callbacks; md = line mode with any end-of-line or byte mode. *)
From Coq Require Import List Arith ZArith NArith Bool Lia.
Import ListNotations.
Require Import FV.Gen.C16 FV.C16.Model FV.C16.Run FV.C16.Framing FV.C16.Lemmas.
Open Scope Z_scope.

(* obligations on the facts regenerated from /repo (Gen/C16.v): every modelled function has the statement structure
   the model was written from, the lock structure is the one the atomic steps rely on *)
Theorem C16_source_facts :
  shape_IOBase_connectStart = true /\ shape_IOBase_closeConnection = true /\ shape_IOBase_doPoll = true /\
  shape_IOBase_read_is_connected = true /\ shape_IOBase_check_connection = true /\
  shape_IOBase_registerReconnectCallback = true /\ shape_IOBase_callCallbacks = true /\
  shape_StringIO_communicate = true /\ shape_StringIO_writeline = true /\ shape_StringIO_multicomm = true /\
  shape_BytesIO_communicate = true /\ shape_BytesIO_multicomm = true /\ shape_BytesIO_getFullReply = true /\
  shape_AsynConn_readline = true /\ shape_AsynConn_readbytes = true /\ shape_AsynTcp_flush_recv = true /\
  shape_AsynTcp_recv = true /\ shape_AsynTcp_send = true /\ shape_AsynTcp_disconnect = true /\
  lock_is_reentrant = true /\ communicate_atomic = true /\ multicomm_holds_lock = true /\
  read_is_connected_is_wrapped = true /\ trigger_all_registered = true /\
  recv_slice_s = 1%nat /\ initial_last_attempt = 0%nat.
Proof. repeat split; reflexivity. Qed.

(* mutual exclusion: in every reachable state at most one caller is inside a locked region (between acquiring the
   lock for a communicate / multicomm and releasing it, including the sleeps of a transaction), the lock is owned by
   exactly that caller with exactly the nesting depth of its position *)
Theorem C16_mutual_exclusion : forall md timeout interval slice progs rf cb poller sched i j ci cj,
  let st := run md timeout interval slice (init progs rf cb poller) sched in
  nth_error (callers st) i = Some ci -> nth_error (callers st) j = Some cj ->
  (cnt_of ci > 0)%nat -> (cnt_of cj > 0)%nat ->
  i = j /\ lock_owner (sh st) = Some i /\ lock_cnt (sh st) = cnt_of ci.
Proof.
  intros md timeout interval slice progs rf cb poller sched i j ci cj st Hi Hj Gi Gj.
  destruct (lock_inv_run md timeout interval slice sched _ (lock_inv_init progs rf cb poller)) as (I1 & _).
  pose proof (I1 i ci Hi Gi) as Li. pose proof (I1 j cj Hj Gj) as Lj. fold st in Li, Lj.
  rewrite Li in Lj. inversion Lj. unfold lk in Li. inversion Li. subst. repeat split; congruence.
Qed.

(* a transaction is never interleaved with other traffic: in every reachable state, the only step that writes to
   the connection is the step of the caller that owns the lock and is parked at its own send *)
Theorem C16_transaction_atomic : forall md timeout interval slice progs rf cb poller sched x,
  let st := run md timeout interval slice (init progs rf cb poller) sched in
  sendlog (sh (step md timeout interval slice st x)) <> sendlog (sh st) ->
  exists i c, fst (fst x) = TC i /\ nth_error (callers st) i = Some c /\ pc c = CSend /\ lock_owner (sh st) = Some i.
Proof.
  intros. apply (only_owner_writes md timeout interval slice); [|assumption].
  apply lock_inv_run. apply lock_inv_init.
Qed.

(* stale data is discarded: whenever a caller gets from the lock to its send, the receive buffer is empty and nothing
   is readable on the socket any more (everything that arrived before the command is written has been thrown away);
   the reply is then framed only from chunks received after that (recv_step_is_read_loop) *)
Theorem C16_stale_discarded : forall md timeout interval slice i now s c s' c',
  pc c = CLock -> caller_step md timeout interval slice i now s c = (s', c') -> pc c' = CSend ->
  rxbuf s' = [] /\ head_ready now (queue s') = false.
Proof. intros; eapply stale_discarded; eauto. Qed.

Theorem C16_reply_is_first_frame_received : forall md timeout interval slice i now s c e sl a d q',
  pc c = CRecv e sl -> queue s = mkItem a (Some d) :: q' -> a <= now ->
  caller_step md timeout interval slice i now s c =
    match try_frame md (x_n (cur_x c)) (rxbuf s ++ d) with
    | Some (r, rst) => finish_exch interval now (set_rxbuf (set_queue s q') rst) c (Some r)
    | None => (set_rxbuf (set_queue s q') (rxbuf s ++ d), set_pc c (CRecv e (now + slice)))
    end.
Proof. intros; eapply recv_step_is_read_loop; eauto. Qed.

(* reply framing is independent of how the device's bytes are chunked (line mode with any non-empty end-of-line,
   also when a chunk boundary falls inside the end-of-line; byte mode with any length) *)
Theorem C16_framing_chunking : forall m n c1 c2 l1 l2, mode_ok m -> concat c1 = concat c2 ->
  read_loop m n [] c1 = Some l1 -> read_loop m n [] c2 = Some l2 -> l1 = l2.
Proof. exact framing_chunking. Qed.

Theorem C16_frame_is_split_at_eol : forall eol buf l r, split_eol eol buf = Some (l, r) -> buf = l ++ eol ++ r.
Proof. exact split_eol_spec. Qed.

(* time-out: a caller waiting for its reply can always take a step one receive slice after it was parked; a step
   taken at or after the deadline with nothing readable ends the call with an error (lock released); before the
   deadline it keeps waiting for one more slice *)
Theorem C16_timeout_bound : forall md timeout interval slice i now s c e sl, pc c = CRecv e sl ->
  (sl <= now -> caller_enabled i now s c = true) /\
  (head_ready now (queue s) = false -> e <= now ->
   caller_step md timeout interval slice i now s c = fail_op interval now (release (set_last_error s true)) c) /\
  (head_ready now (queue s) = false -> now < e ->
   caller_step md timeout interval slice i now s c = (s, set_pc c (CRecv e (now + slice)))).
Proof. intros; eapply timeout_bound; eauto. Qed.

(* every delay of a transaction is honoured, in line and in byte mode: after a command with a non-zero delay the
   caller is parked in its sleep until now + delay, with the rest of the transaction still to do *)
Theorem C16_delays_honoured : forall interval i now s c r x xs, inmulti c = true -> cur c = x :: xs -> x_delay x <> 0 ->
  let q := finish_exch interval now s c r in
  pc (snd q) = CSleepX (now + x_delay x) /\ cur (snd q) = x :: xs /\
  (forall now' s', caller_enabled i now' s' (snd q) = true -> now + x_delay x <= now').
Proof. intros; eapply delay_honoured; eauto. Qed.

(* reconnect rate: check_connection starts a connection attempt only if the last one it started is at least one
   reconnect interval ago, and records the new one; otherwise the call fails at once *)
Theorem C16_reconnect_rate : forall interval now s,
  (forall s' p, begin_exch interval now s = Some (s', p) ->
     (p = CLock /\ connected s = true /\ s' = s) \/
     (p = CAccess /\ connected s = false /\ last_attempt s + interval <= now /\ last_attempt s' = now)) /\
  (connected s = false -> now < last_attempt s + interval -> begin_exch interval now s = None).
Proof. intros. split; [intros; eapply reconnect_rate; eauto | apply no_attempt_within_interval]. Qed.

(* connection state visible: closing and connecting update is_connected and the connection object together and
   announce the new value *)
Theorem C16_state_visible : forall s,
  (let s' := close_conn s in connected s' = false /\ conn s' = false /\ last (ann s') true = false /\ last_error s' = true) /\
  (let s' := connect_ok s in connected s' = true /\ conn s' = true /\ last (ann s') false = true /\
                             nconn s' = S (nconn s) /\ queue s' = [] /\ rxbuf s' = []).
Proof. intros. split; [apply close_visible | apply connect_visible]. Qed.

(* after every successful reconnect every registered reconnect callback runs exactly once (unconditional since
   closeConnection stores an error text, /repo 18d6f98): in every reachable state, a step that establishes a connection
   while the communicator is disconnected after an earlier connection calls the registered callbacks, each once, in
   registration order, and keeps exactly those that returned True *)
Theorem C16_callbacks_once : forall md timeout interval slice progs rf cb poller sched x,
  let st := run md timeout interval slice (init progs rf cb poller) sched in
  let st' := step md timeout interval slice st x in
  (0 < nconn (sh st))%nat -> connected (sh st) = false -> nconn (sh st') <> nconn (sh st) ->
  cblog (sh st') = cblog (sh st) ++ map fst (cbs (sh st)) /\
  cbs (sh st') = filter (fun kc => cb_keeps (snd kc)) (cbs (sh st)) /\
  connected (sh st') = true /\ nconn (sh st') = S (nconn (sh st)).
Proof.
  intros. apply (reconnect_runs_callbacks md timeout interval slice); try assumption.
  apply ready_run. apply ready_init.
Qed.

(* an error text is stored whenever the communicator is disconnected after a connection existed *)
Theorem C16_error_stored_while_disconnected : forall md timeout interval slice progs rf cb poller sched,
  let s := sh (run md timeout interval slice (init progs rf cb poller) sched) in
  (0 < nconn s)%nat -> connected s = false -> last_error s = true.
Proof.
  intros md timeout interval slice progs rf cb poller sched s G D.
  destruct (ready_run md timeout interval slice sched _ (ready_init progs rf cb poller) G) as [C|L]; [|exact L].
  fold s in C. congruence.
Qed.

(* polling resumes after every reconnect (trigger_all returns True, /repo f9007fb): once the poll thread has started, its
   trigger callback stays registered in every reachable state, hence (C16_callbacks_once) it is called at every reconnect *)
Theorem C16_polling_resumes : forall md timeout interval slice progs rf cb poller sched,
  let st := run md timeout interval slice (init progs rf cb poller) sched in
  poll st <> QNone -> poll st <> QStart ->
  In (TRIGGER, CbTrue) (cbs (sh st)) /\ In TRIGGER (map fst (cbs (sh st))).
Proof.
  intros md timeout interval slice progs rf cb poller sched st N1 N2.
  pose proof (trigger_inv_run md timeout interval slice sched _ (trigger_inv_init progs rf cb poller)) as T.
  fold st in T. unfold trigger_inv in T.
  assert (I : In (TRIGGER, CbTrue) (cbs (sh st))) by (destruct (poll st); try congruence; exact T).
  split; [exact I|]. apply in_map_iff. exists (TRIGGER, CbTrue). split; [reflexivity|exact I].
Qed.

Print Assumptions C16_source_facts.
Print Assumptions C16_mutual_exclusion.
Print Assumptions C16_transaction_atomic.
Print Assumptions C16_stale_discarded.
Print Assumptions C16_reply_is_first_frame_received.
Print Assumptions C16_framing_chunking.
Print Assumptions C16_frame_is_split_at_eol.
Print Assumptions C16_timeout_bound.
Print Assumptions C16_delays_honoured.
Print Assumptions C16_reconnect_rate.
Print Assumptions C16_state_visible.
Print Assumptions C16_callbacks_once.
Print Assumptions C16_error_stored_while_disconnected.
Print Assumptions C16_polling_resumes.
