(* C16 - property theorems only; each is closed by a lemma of Lemmas.v / Framing.v / Global.v / RxLemmas.v (no refutation
   is left: every defect found for C16 has been repaired in /repo).
   `sched` ranges over every interleaving of callers and poll thread at their synchronisation points together with
   every virtual time of every step; `progs` over every set of caller programs (communicate / writeline / multicomm /
   pause with any device directive: delays, chunkings, garbage, silence, close), `rf` over every refusal script, `cb`
   over every set of registered callbacks; md = line mode with any end-of-line or byte mode. *)
From Coq Require Import List Arith ZArith NArith Bool Lia.
Import ListNotations.
Require Import FV.Gen.C16 FV.C16.Model FV.C16.Run FV.C16.Framing FV.C16.Lemmas FV.C16.Global FV.C16.RxModel FV.C16.RxLemmas.
Open Scope Z_scope.

(* obligations on the facts regenerated from /repo (Gen/C16.v): every modelled function has the statement structure
   the model was written from, the lock structure is the one the atomic steps rely on *)
Theorem C16_source_facts :
  shape_IOBase_connectStart = true /\ shape_IOBase_closeConnection = true /\ shape_IOBase_doPoll = true /\
  shape_IOBase_read_is_connected = true /\ shape_IOBase_check_connection = true /\
  shape_IOBase_registerReconnectCallback = true /\ shape_IOBase_callCallbacks = true /\
  shape_StringIO_communicate = true /\ shape_StringIO_writeline = true /\ shape_StringIO_multicomm = true /\
  shape_BytesIO_communicate = true /\ shape_BytesIO_multicomm = true /\ shape_BytesIO_getFullReply = true /\
  shape_AsynConn_readline = true /\ shape_AsynConn_readbytes = true /\ shape_AsynTcp_flush_recv = true /\
  shape_AsynTcp_recv = true /\ shape_AsynTcp_send = true /\ shape_AsynTcp_disconnect = true /\
  lock_is_reentrant = true /\ communicate_atomic = true /\ multicomm_holds_lock = true /\
  read_is_connected_is_wrapped = true /\ trigger_all_registered = true /\
  readline_splits_whole_buffer = true /\ readbytes_slices_prefix = true /\ flush_recv_clears_buffer = true /\
  recv_empty_is_closed = true /\ flush_after_wait_before = true /\
  recv_slice_s = 1%nat /\ initial_last_attempt = 0%nat.
Proof. repeat split; reflexivity. Qed.

(* mutual exclusion: in every reachable state at most one caller is inside a locked region (between acquiring the
   lock for a communicate / multicomm and releasing it, including the sleeps of a transaction), the lock is owned by
   exactly that caller with exactly the nesting depth of its position *)
Theorem C16_mutual_exclusion : forall md timeout interval slice progs rf cb poller sched i j ci cj,
  let st := run md timeout interval slice (init progs rf cb poller) sched in
  nth_error (callers st) i = Some ci -> nth_error (callers st) j = Some cj ->
  (cnt_of ci > 0)%nat -> (cnt_of cj > 0)%nat ->
  i = j /\ lock_owner (sh st) = Some i /\ lock_cnt (sh st) = cnt_of ci.
Proof.
  intros md timeout interval slice progs rf cb poller sched i j ci cj st Hi Hj Gi Gj.
  destruct (lock_inv_run md timeout interval slice sched _ (lock_inv_init progs rf cb poller)) as (I1 & _).
  pose proof (I1 i ci Hi Gi) as Li. pose proof (I1 j cj Hj Gj) as Lj. fold st in Li, Lj.
  rewrite Li in Lj. inversion Lj. unfold lk in Li. inversion Li. subst. repeat split; congruence.
Qed.

(* a transaction is never interleaved with other traffic: in every reachable state, the only step that writes to
   the connection is the step of the caller that owns the lock and is parked at its own send (is_send: the send of the
   last line of its command, CSend, or of a line split off in front of it when wait_before is set, CSendPre) *)
Theorem C16_transaction_atomic : forall md timeout interval slice progs rf cb poller sched x,
  let st := run md timeout interval slice (init progs rf cb poller) sched in
  sendlog (sh (step md timeout interval slice st x)) <> sendlog (sh st) ->
  exists i c, fst (fst x) = TC i /\ nth_error (callers st) i = Some c /\ is_send (pc c) /\ lock_owner (sh st) = Some i.
Proof.
  intros. apply (only_owner_writes md timeout interval slice); [|assumption].
  apply lock_inv_run. apply lock_inv_init.
Qed.

(* stale data is discarded, for every wait_before (x_wait of the running command, any value): the step that brings a
   caller to the send of the first line of its command is the step at the lock when wait_before is 0 and the step at the
   end of the first sleep (CWaitB _ true _) when wait_before is set; after it the receive buffer is empty and nothing that
   has arrived by `now` - the time of this step, i.e. the end of the pause - is readable on the socket: everything that
   arrived before the command is written, also during the pause, has been thrown away; the reply is then framed only
   from chunks received after that (recv_step_is_read_loop).  With wait_before set the step at the lock itself flushes
   nothing and only starts the sleep (second clause), the sleep lasts wait_before (third), and the later lines of a
   multi-line command are written one by one, each after another sleep of wait_before, without another flush (fourth,
   fifth: `read garbage only once`) *)
Theorem C16_stale_discarded : forall md timeout interval slice i now s c s' c',
  (pc c = CLock /\ wait_of c = 0) \/ (exists w l, pc c = CWaitB w true l) ->
  caller_step md timeout interval slice i now s c = (s', c') -> is_send (pc c') ->
  rxbuf s' = [] /\ head_ready now (queue s') = false.
Proof. intros; eapply stale_discarded; eauto. Qed.

Theorem C16_wait_before : forall md timeout interval slice i now s c,
  (pc c = CLock -> wait_of c <> 0 ->
     caller_step md timeout interval slice i now s c =
       (acquire i s, set_pc c (CWaitB (now + wait_of c) true (pre_of md c)))) /\
  (forall w f l, pc c = CWaitB w f l -> caller_enabled i now s c = true -> w <= now) /\
  (forall p l, pc c = CSendPre (p :: l) ->
     caller_step md timeout interval slice i now s c =
       (send_line i now s p, set_pc c (CWaitB (now + wait_of c) false l))) /\
  (forall w l, pc c = CWaitB w false l ->
     caller_step md timeout interval slice i now s c = (s, set_pc c (send_pc l))).
Proof.
  intros. split; [intros; apply lock_then_sleep; assumption|].
  split; [intros; eapply wait_before_honoured; eauto|].
  split; [intros; apply pre_line_step; assumption|intros; eapply later_sleep_step; eauto].
Qed.

Theorem C16_reply_is_first_frame_received : forall md timeout interval slice i now s c e sl a d q',
  pc c = CRecv e sl -> queue s = mkItem a (Some d) :: q' -> a <= now ->
  caller_step md timeout interval slice i now s c =
    match try_frame md (x_n (cur_x c)) (rxbuf s ++ d) with
    | Some (r, rst) => finish_exch interval now (set_rxbuf (set_queue s q') rst) c (Some r)
    | None => (set_rxbuf (set_queue s q') (rxbuf s ++ d), set_pc c (CRecv e (now + slice)))
    end.
Proof. intros; eapply recv_step_is_read_loop; eauto. Qed.

(* reply framing is independent of how the device's bytes are chunked (line mode with any non-empty end-of-line,
   also when a chunk boundary falls inside the end-of-line; byte mode with any length) *)
Theorem C16_framing_chunking : forall m n c1 c2 l1 l2, mode_ok m -> concat c1 = concat c2 ->
  read_loop m n [] c1 = Some l1 -> read_loop m n [] c2 = Some l2 -> l1 = l2.
Proof. exact framing_chunking. Qed.

Theorem C16_frame_is_split_at_eol : forall eol buf l r, split_eol eol buf = Some (l, r) -> buf = l ++ eol ++ r.
Proof. exact split_eol_spec. Qed.

(* time-out: a caller waiting for its reply can always take a step one receive slice after it was parked; a step
   taken at or after the deadline with nothing readable ends the call with an error (lock released); before the
   deadline it keeps waiting for one more slice *)
Theorem C16_timeout_bound : forall md timeout interval slice i now s c e sl, pc c = CRecv e sl ->
  (sl <= now -> caller_enabled i now s c = true) /\
  (head_ready now (queue s) = false -> e <= now ->
   caller_step md timeout interval slice i now s c = fail_op interval now (release (set_last_error s true)) c) /\
  (head_ready now (queue s) = false -> now < e ->
   caller_step md timeout interval slice i now s c = (s, set_pc c (CRecv e (now + slice)))).
Proof. intros; eapply timeout_bound; eauto. Qed.

(* every delay of a transaction is honoured, in line and in byte mode: after a command with a non-zero delay the
   caller is parked in its sleep until now + delay, with the rest of the transaction still to do *)
Theorem C16_delays_honoured : forall interval i now s c r x xs, inmulti c = true -> cur c = x :: xs -> x_delay x <> 0 ->
  let q := finish_exch interval now s c r in
  pc (snd q) = CSleepX (now + x_delay x) /\ cur (snd q) = x :: xs /\
  (forall now' s', caller_enabled i now' s' (snd q) = true -> now + x_delay x <= now').
Proof. intros; eapply delay_honoured; eauto. Qed.

(* reconnect rate: check_connection starts a connection attempt only if the last one it started is at least one
   reconnect interval ago, and records the new one; otherwise the call fails at once *)
Theorem C16_reconnect_rate : forall interval now s,
  (forall s' p, begin_exch interval now s = Some (s', p) ->
     (p = CLock /\ connected s = true /\ s' = s) \/
     (p = CAccess /\ connected s = false /\ last_attempt s + interval <= now /\ last_attempt s' = now)) /\
  (connected s = false -> now < last_attempt s + interval -> begin_exch interval now s = None).
Proof. intros. split; [intros; eapply reconnect_rate; eauto | apply no_attempt_within_interval]. Qed.

(* connection state visible: closing and connecting update is_connected and the connection object together and
   announce the new value *)
Theorem C16_state_visible : forall s,
  (let s' := close_conn s in connected s' = false /\ conn s' = false /\ last (ann s') true = false /\ last_error s' = true) /\
  (let s' := connect_ok s in connected s' = true /\ conn s' = true /\ last (ann s') false = true /\
                             nconn s' = S (nconn s) /\ queue s' = [] /\ rxbuf s' = []).
Proof. intros. split; [apply close_visible | apply connect_visible]. Qed.

(* after every successful reconnect every registered reconnect callback runs exactly once (unconditional since
   closeConnection stores an error text, /repo 18d6f98): in every reachable state, a step that establishes a connection
   while the communicator is disconnected after an earlier connection calls the registered callbacks, each once, in
   registration order, and keeps exactly those that returned True *)
Theorem C16_callbacks_once : forall md timeout interval slice progs rf cb poller sched x,
  let st := run md timeout interval slice (init progs rf cb poller) sched in
  let st' := step md timeout interval slice st x in
  (0 < nconn (sh st))%nat -> connected (sh st) = false -> nconn (sh st') <> nconn (sh st) ->
  cblog (sh st') = cblog (sh st) ++ map fst (cbs (sh st)) /\
  cbs (sh st') = filter (fun kc => cb_keeps (snd kc)) (cbs (sh st)) /\
  connected (sh st') = true /\ nconn (sh st') = S (nconn (sh st)).
Proof.
  intros. apply (reconnect_runs_callbacks md timeout interval slice); try assumption.
  apply ready_run. apply ready_init.
Qed.

(* an error text is stored whenever the communicator is disconnected after a connection existed *)
Theorem C16_error_stored_while_disconnected : forall md timeout interval slice progs rf cb poller sched,
  let s := sh (run md timeout interval slice (init progs rf cb poller) sched) in
  (0 < nconn s)%nat -> connected s = false -> last_error s = true.
Proof.
  intros md timeout interval slice progs rf cb poller sched s G D.
  destruct (ready_run md timeout interval slice sched _ (ready_init progs rf cb poller) G) as [C|L]; [|exact L].
  fold s in C. congruence.
Qed.

(* polling resumes after every reconnect (trigger_all returns True, /repo f9007fb): once the poll thread has started, its
   trigger callback stays registered in every reachable state, hence (C16_callbacks_once) it is called at every reconnect *)
Theorem C16_polling_resumes : forall md timeout interval slice progs rf cb poller sched,
  let st := run md timeout interval slice (init progs rf cb poller) sched in
  poll st <> QNone -> poll st <> QStart ->
  In (TRIGGER, CbTrue) (cbs (sh st)) /\ In TRIGGER (map fst (cbs (sh st))).
Proof.
  intros md timeout interval slice progs rf cb poller sched st N1 N2.
  pose proof (trigger_inv_run md timeout interval slice sched _ (trigger_inv_init progs rf cb poller)) as T.
  fold st in T. unfold trigger_inv in T.
  assert (I : In (TRIGGER, CbTrue) (cbs (sh st))) by (destruct (poll st); try congruence; exact T).
  split; [exact I|]. apply in_map_iff. exists (TRIGGER, CbTrue). split; [reflexivity|exact I].
Qed.

(* ================================================================== global versions (Global.v) *)

(* reconnect rate, in every run: an attempt = a step after which a caller is parked at the entry of read_is_connected and
   before which it was not (check_connection found the communicator disconnected and decided to try).  Whatever the
   programs, refusals, callbacks, schedule and the time of every step are: the times of the attempts of the run, in the
   order in which they are made, are at least one reconnect interval apart (the first one from the initial value 0 of
   _last_connect_attempt; pairwise when the interval is not negative); last_attempt always holds the time of the last
   attempt; every attempt writes it and no other step of any thread does (stated for every reachable state and step).
   Counted are the attempts of calls (communicate / writeline / multicomm through check_connection), which is what the
   rate limit of the code governs; the poll thread's own read of is_connected (doPoll, paced by its poll interval, C13)
   does not pass check_connection and never writes last_attempt (second clause: a poll step is never an attempt) *)
Theorem C16_reconnect_rate_global : forall md timeout interval slice progs rf cb poller sched,
  let st0 := init progs rf cb poller in
  let st := run md timeout interval slice st0 sched in
  let att := attempts md timeout interval slice st0 sched in
  spaced interval (0 :: att) /\
  (0 <= interval -> ForallOrdPairs (fun a b => a + interval <= b) att) /\
  last_attempt (sh st) = last att 0 /\
  (forall x, let st' := step md timeout interval slice st x in
     (is_attempt md timeout interval slice st x = true ->
        last_attempt (sh st) + interval <= time_of x /\ last_attempt (sh st') = time_of x /\ connected (sh st') = false) /\
     (is_attempt md timeout interval slice st x = false -> last_attempt (sh st') = last_attempt (sh st))).
Proof.
  intros md timeout interval slice progs rf cb poller sched st0 st att.
  destruct (attempts_spaced md timeout interval slice sched st0) as [S L].
  change (last_attempt (sh st0)) with 0 in S, L. fold att in S, L. fold st in L.
  split; [exact S|]. split; [|split; [exact L|intros x; apply la_step]].
  intros NN. apply spaced_pairs; [exact NN|]. destruct att as [|a l]; [exact I|]. simpl in S. apply S.
Qed.

(* connection state visible, in every reachable state: is_connected = (the connection object exists) = the value
   announced last; and a step in which a call fails (an RFail is appended to the outcomes of the caller) leaves the
   communicator disconnected - visibly so - with one exception, which the code makes: the time-out of a call on a
   silent device (deadline reached, nothing readable) keeps the connection and stores the error text *)
Theorem C16_state_visible_global : forall md timeout interval slice progs rf cb poller sched,
  let st := run md timeout interval slice (init progs rf cb poller) sched in
  (connected (sh st) = conn (sh st) /\ last (ann (sh st)) false = connected (sh st)) /\
  (forall i now nxt c c' mid,
     nth_error (callers st) i = Some c ->
     nth_error (callers (step md timeout interval slice st (TC i, now, nxt))) i = Some c' ->
     outs c' = outs c ++ mid -> In RFail mid ->
     let s' := sh (step md timeout interval slice st (TC i, now, nxt)) in
     (connected s' = false /\ conn s' = false /\ last (ann s') false = false) \/
     (exists e sl, pc c = CRecv e sl /\ e <= now /\ head_ready now (queue (sh st)) = false /\
                   connected s' = connected (sh st) /\ last_error s' = true)).
Proof.
  intros md timeout interval slice progs rf cb poller sched st.
  pose proof (conn_inv_run md timeout interval slice progs rf cb poller sched) as CI. fold st in CI.
  split; [exact (proj1 CI)|].
  intros i now nxt c c' mid Ci Ci' E I s'.
  pose proof (vis_step md timeout interval slice st (TC i, now, nxt) (proj1 CI)) as [V1 V2]. fold s' in V1, V2.
  destruct (failed_call_disconnects md timeout interval slice st i now nxt c c' mid CI Ci Ci' E I) as [D|T].
  - left. fold s' in D. rewrite <- V1, V2. auto.
  - right. exact T.
Qed.

(* accessLock: in every reachable state at most one thread is inside the connecting branch of read_is_connected, it owns
   accessLock, and is_connected is False as long as it is there (nobody else can connect meanwhile) *)
Theorem C16_connect_exclusive : forall md timeout interval slice progs rf cb poller sched,
  let st := run md timeout interval slice (init progs rf cb poller) sched in
  (forall i j ci cj, nth_error (callers st) i = Some ci -> nth_error (callers st) j = Some cj ->
     pc ci = CConnect -> pc cj = CConnect -> i = j) /\
  (forall i ci, nth_error (callers st) i = Some ci -> pc ci = CConnect ->
     poll st <> QConnect /\ acc_owner (sh st) = Some (TC i) /\ connected (sh st) = false) /\
  (poll st = QConnect -> acc_owner (sh st) = Some TP /\ connected (sh st) = false).
Proof.
  intros md timeout interval slice progs rf cb poller sched st.
  destruct (conn_inv_run md timeout interval slice progs rf cb poller sched) as [_ (A1 & A2 & A3)]. fold st in A1, A2, A3.
  repeat split.
  - intros i j ci cj Hi Hj Pi Pj. pose proof (A1 i ci Hi Pi) as E1. rewrite (A1 j cj Hj Pj) in E1. congruence.
  - intros Q. pose proof (A1 i ci H H0) as E1. rewrite (A2 Q) in E1. discriminate.
  - eapply A1; eauto.
  - apply A3. rewrite (A1 i ci H H0). discriminate.
  - apply A2. assumption.
  - apply A3. rewrite (A2 H). discriminate.
Qed.

(* ================================================================== the receive layer (RxModel.v, RxLemmas.v) *)

(* readline, full chunking independence: for every non-empty end-of-line, two socket queues that deliver the same byte
   stream (cut into chunks anywhere - also inside a multi-byte end-of-line - arriving at any times), read by any two
   scripts of readline calls (any time-outs, pauses, slices, cut-offs; calls may fail with a time-out in between and the
   buffer survives): once everything has been taken from the socket and no complete line is left in the buffer, the
   sequences of lines returned are equal and the final buffers are equal *)
Theorem C16_readline_chunking_full :
  forall eol slice1 slice2 calls1 calls2 now1 now2 buf q1 q2 rs1 rs2 b1 b2 q1' q2',
  eol <> [] -> stream q1 = stream q2 ->
  rl_run eol slice1 calls1 now1 buf q1 = (rs1, (b1, q1')) -> stream q1' = [] -> split_eol eol b1 = None ->
  rl_run eol slice2 calls2 now2 buf q2 = (rs2, (b2, q2')) -> stream q2' = [] -> split_eol eol b2 = None ->
  lines_of rs1 = lines_of rs2 /\ b1 = b2.
Proof. exact chunking_full. Qed.

(* ... namely the lines of buffer ++ stream, and the incomplete rest; at any earlier moment the lines returned so far
   followed by the lines of (buffer ++ what the socket still delivers) are the lines of the whole *)
Theorem C16_readline_returns_the_lines_of_the_stream :
  forall eol slice calls now buf q rs buf' q', eol <> [] ->
  rl_run eol slice calls now buf q = (rs, (buf', q')) ->
  (stream q' = [] -> split_eol eol buf' = None -> parsed eol (buf ++ stream q) (lines_of rs) buf') /\
  (forall ls t, parsed eol (buf' ++ stream q') ls t -> parsed eol (buf ++ stream q) (lines_of rs ++ ls) t).
Proof.
  intros. split; [intros; eapply rl_run_parsed; eauto|intros; eapply rl_run_prefix; eauto].
Qed.

(* one call: what readline / readbytes take from the socket is a prefix of the queue consisting of chunks; a returned
   line is the split of (buffer ++ these chunks) at the first end-of-line, the rest stays in the buffer; a failed call
   keeps everything it received in the buffer *)
Theorem C16_readline_takes_chunks : forall fuel eol slice endt now buf q res t buf' q',
  readline_loop fuel eol slice endt now buf q = (res, t, buf', q') ->
  exists taken, q = taken ++ q' /\ Forall is_chunk taken /\
    match res with
    | UData l => split_eol eol (buf ++ payload taken) = Some (l, buf')
    | _ => buf' = buf ++ payload taken
    end.
Proof. exact readline_loop_took. Qed.

Theorem C16_readbytes_takes_chunks : forall fuel n slice endt now buf q res t buf' q',
  readbytes_loop fuel n slice endt now buf q = (res, t, buf', q') ->
  exists taken, q = taken ++ q' /\ Forall is_chunk taken /\
    match res with
    | UData l => frame_n n (buf ++ payload taken) = Some (l, buf')
    | _ => buf' = buf ++ payload taken
    end.
Proof. exact readbytes_loop_took. Qed.

(* flush_recv on a first-in-first-out socket queue: afterwards _rxbuffer is empty, everything that had arrived is gone from
   the socket (and was returned as garbage together with the old buffer), everything left arrives later; and whatever a
   later readline / readbytes returns and leaves in the buffer consists only of chunks that arrived after the flush *)
Theorem C16_flush_empties : forall now buf q g buf' q', fifo q -> tcp_flush now buf q = (UData g, buf', q') ->
  buf' = [] /\
  (exists gone, q = gone ++ q' /\ Forall is_chunk gone /\ Forall (fun it => arrival_of it <= now) gone /\
                g = buf ++ payload gone) /\
  Forall (fun it => now < arrival_of it) q' /\
  (forall fuel eol slice endt now2 l t b2 q2,
     readline_loop fuel eol slice endt now2 buf' q' = (UData l, t, b2, q2) ->
     exists taken, q' = taken ++ q2 /\ Forall is_chunk taken /\ Forall (fun it => now < arrival_of it) taken /\
                   payload taken = l ++ eol ++ b2) /\
  (forall fuel n slice endt now2 l t b2 q2,
     readbytes_loop fuel n slice endt now2 buf' q' = (UData l, t, b2, q2) ->
     exists taken, q' = taken ++ q2 /\ Forall is_chunk taken /\ Forall (fun it => now < arrival_of it) taken /\
                   payload taken = l ++ b2 /\ length l = n).
Proof. exact flush_empties. Qed.

(* the flush loop is `while select: recv` (each pass one AsynTcp.recv that returns at once), and it is the flush of the
   transition system *)
Theorem C16_flush_loop_is_select_recv : forall slice now q acc, 0 <= slice ->
  (sock_readable now q = true ->
     flush_loop now q acc = match tcp_recv slice now q with
                            | (RxData d, _, q') => flush_loop now q' (acc ++ d)
                            | (_, _, _) => (None, q)
                            end /\ snd (fst (tcp_recv slice now q)) = now) /\
  (sock_readable now q = false -> flush_loop now q acc = (Some acc, q)) /\
  (Forall no_empty_chunk q ->
     match flush_loop now q acc with
     | (Some _, q') => flush now q = (false, q')
     | (None, q') => flush now q = (true, q')
     end).
Proof.
  intros. split; [intros; apply flush_loop_pass; assumption|].
  split; [apply flush_loop_stops|apply flush_is_model_flush].
Qed.

(* the receive loops end: with a slice of at least one tick the pass budget of readline / readbytes is never used up *)
Theorem C16_receive_loops_terminate : forall slice timeout now buf q, 1 <= slice ->
  (forall eol, fst (fst (fst (readline eol slice timeout now buf q))) <> UFuel) /\
  (forall n, fst (fst (fst (readbytes n slice timeout now buf q))) <> UFuel).
Proof. intros. split; intros; [apply readline_terminates|apply readbytes_terminates]; assumption. Qed.

(* non-vacuity: "ab\r\ncd\r\nx" cut in two ways (inside the end-of-line, with empty slices in between), read by different
   scripts *)
Example C16_chunking_example :
  let eol := [13; 10]%N in
  let q1 := [mkItem 0 (Some [97; 98; 13]%N); mkItem 1 (Some [10; 99; 100; 13; 10]%N); mkItem 20 (Some [120]%N)] in
  let q2 := [mkItem 0 (Some [97]%N); mkItem 0 (Some [98; 13; 10; 99]%N); mkItem 5 (Some [100; 13]%N);
             mkItem 30 (Some [10; 120]%N)] in
  let calls1 := [(50%nat, 0, None); (50%nat, 0, None); (50%nat, 0, None); (50%nat, 0, None); (50%nat, 0, None)] in
  let calls2 := [(50%nat, 0, Some 16); (50%nat, 3, Some 60); (50%nat, 0, Some 90)] in
  stream q1 = stream q2 /\
  rl_run eol 8 calls1 0 [] q1 = ([UData [97; 98]%N; UData [99; 100]%N; UNone; UNone; UNone], ([120]%N, [])) /\
  rl_run eol 8 calls2 0 [] q2 = ([UData [97; 98]%N; UData [99; 100]%N; UTimeout], ([120]%N, [])).
Proof. vm_compute. repeat split; reflexivity. Qed.

Example C16_attempts_example :
  let x := {| x_id := 1; x_emit := []; x_close := None; x_n := 0; x_delay := 0; x_noreply := false;
              x_wait := 0; x_pre := [] |} in
  let progs := [[OSingle x; OPause 4; OSingle x; OPause 40; OSingle x]] in
  let sched := [(TC 0%nat, 100, false); (TC 0%nat, 100, false); (TC 0%nat, 100, false); (TC 0%nat, 104, false);
                (TC 0%nat, 144, false)] in
  attempts MBytes 16 32 8 (init progs [true; true] [] false) sched = [100; 144].
Proof. vm_compute. reflexivity. Qed.

(* non-vacuity for wait_before: a line communicator with wait_before = 2 ticks; c1 is silent (time-out 16), its late reply
   "r1" arrives at 118, inside the pause of the next command c2 (lock at 117, send at 119): it is gone when c2 is
   written, c2 gets its own reply "r2"; the two-line command c3+c4 is written as two lines with a sleep in front of each *)
Example C16_wait_before_example :
  let x1 := {| x_id := 1; x_emit := [(18, [114; 49; 10]%N)]; x_close := None; x_n := 0; x_delay := 0; x_noreply := false;
               x_wait := 2; x_pre := [] |} in
  let x2 := {| x_id := 2; x_emit := [(1, [114; 50; 10]%N)]; x_close := None; x_n := 0; x_delay := 0; x_noreply := false;
               x_wait := 2; x_pre := [] |} in
  let x4 := {| x_id := 4; x_emit := [(0, [114; 52; 10]%N)]; x_close := None; x_n := 0; x_delay := 0; x_noreply := false;
               x_wait := 2; x_pre := [(3%nat, [], None)] |} in
  let t := TC 0%nat in
  let sched := [(t, 98, false); (t, 98, false); (t, 98, false); (t, 98, false); (t, 100, false); (t, 100, false);
                (t, 108, false); (t, 116, false); (t, 117, false); (t, 119, false); (t, 119, false); (t, 120, false);
                (t, 120, false); (t, 122, false); (t, 122, false); (t, 124, false); (t, 124, false); (t, 124, false)] in
  let st := run (MLine [10%N]) 16 32 8 (init [[OSingle x1; OSingle x2; OSingle x4]] [] [] false) sched in
  map outs (callers st) = [[RFail; ROk [[114; 50]%N]; ROk [[114; 52]%N]]] /\
  sendlog (sh st) = [(0, 1, 1); (0, 2, 1); (0, 3, 1); (0, 4, 1)]%nat.
Proof. vm_compute. split; reflexivity. Qed.

Print Assumptions C16_source_facts.
Print Assumptions C16_mutual_exclusion.
Print Assumptions C16_transaction_atomic.
Print Assumptions C16_stale_discarded.
Print Assumptions C16_wait_before.
Print Assumptions C16_wait_before_example.
Print Assumptions C16_reply_is_first_frame_received.
Print Assumptions C16_framing_chunking.
Print Assumptions C16_frame_is_split_at_eol.
Print Assumptions C16_timeout_bound.
Print Assumptions C16_delays_honoured.
Print Assumptions C16_reconnect_rate.
Print Assumptions C16_state_visible.
Print Assumptions C16_callbacks_once.
Print Assumptions C16_error_stored_while_disconnected.
Print Assumptions C16_polling_resumes.
Print Assumptions C16_reconnect_rate_global.
Print Assumptions C16_state_visible_global.
Print Assumptions C16_connect_exclusive.
Print Assumptions C16_readline_chunking_full.
Print Assumptions C16_readline_returns_the_lines_of_the_stream.
Print Assumptions C16_readline_takes_chunks.
Print Assumptions C16_readbytes_takes_chunks.
Print Assumptions C16_flush_empties.
Print Assumptions C16_flush_loop_is_select_recv.
Print Assumptions C16_receive_loops_terminate.
