(* C16 - non-vacuity of the property theorems of Properties.v: for every theorem with premises, a concrete instance that
   satisfies them (or a direct application of the theorem at that instance).  The instance for the transition system is
   one run of two callers and the poll thread over 34 steps in line mode: a refused first connection attempt made by the
   poll thread, a multicomm of two commands with a delay and stale bytes left behind by the device, a caller parked at
   the communicator lock and one parked at accessLock while another thread owns it, a device that closes the connection
   in the middle of a reply, a reconnect made by the poll thread that runs the callbacks, a call that times out on a
   silent device; every step of the schedule is enabled and the run ends with every caller at CDone (the shape of the
   traces the harness feeds to Run.check_case).  Tests only - nothing here is cited by a property theorem. *)
From Coq Require Import List Arith ZArith NArith Bool Lia.
Import ListNotations.
Require Import FV.Gen.C16 FV.C16.Model FV.C16.Run FV.C16.Framing FV.C16.Lemmas FV.C16.Global FV.C16.RxModel FV.C16.RxLemmas
               FV.C16.Properties.
Open Scope Z_scope.

Ltac fin := vm_compute; first [reflexivity | discriminate | lia | exact I | (repeat constructor; fail) | idtac].
Ltac fins := vm_compute; repeat split; first [reflexivity | discriminate | lia | exact I | idtac].

(* ------------------------------------------------------------------ the run *)
Definition MD := MLine [10%N].
Definition xa := {| x_id := 1; x_emit := [(1, [97%N]); (2, [10%N; 99%N]); (6, [100%N; 10%N])]; x_close := None; x_n := 0;
                    x_delay := 3; x_noreply := false; x_wait := 0; x_pre := [] |}.
Definition xb := {| x_id := 2; x_emit := [(1, [98%N; 10%N])]; x_close := None; x_n := 0; x_delay := 0; x_noreply := false; x_wait := 0; x_pre := [] |}.
Definition xc := {| x_id := 3; x_emit := []; x_close := None; x_n := 0; x_delay := 0; x_noreply := false; x_wait := 0; x_pre := [] |}.
Definition xd := {| x_id := 4; x_emit := [(1, [101%N])]; x_close := Some 2; x_n := 0; x_delay := 0; x_noreply := false; x_wait := 0; x_pre := [] |}.
Definition xe := {| x_id := 5; x_emit := [(1, [102%N; 10%N])]; x_close := None; x_n := 0; x_delay := 0; x_noreply := false; x_wait := 0; x_pre := [] |}.
Definition progs := [[OMulti [xa; xb]; OPause 40; OSingle xc]; [OPause 2; OSingle xd; OPause 50; OSingle xe]].
Definition rf := [true; false; false].
Definition cb := [(1%nat, CbTrue); (2%nat, CbFalse); (3%nat, CbRaise)].
Definition sched : list (tid * Z * bool) :=
  [(TP,100,true); (TP,100,false); (TC 0,100,false); (TC 1,100,false); (TC 0,100,false);
   (TP,101,false); (TC 0,101,false); (TC 0,102,false); (TC 1,102,false); (TC 0,102,false);
   (TC 0,103,false); (TC 0,104,false); (TC 0,105,false); (TC 0,108,false); (TC 0,110,false);
   (TC 0,110,false); (TC 0,111,false); (TC 1,111,false); (TC 1,112,false); (TC 1,113,false);
   (TC 1,114,false); (TP,120,true); (TP,120,false); (TC 0,151,false); (TP,152,false);
   (TC 0,152,false); (TC 0,152,false); (TC 0,153,false); (TC 0,161,false); (TC 0,169,false);
   (TC 1,169,false); (TC 1,170,false); (TC 1,170,false); (TC 1,171,false)].
(* the state before step n of the schedule *)
Definition at_ (n : nat) : state := run MD 16 32 8 (init progs rf cb true) (firstn n sched).
Definition cdummy : cst := mk CDone [] false [] [] [].
Definition cl (n i : nat) : cst := nth i (callers (at_ n)) cdummy.

(* the run is a trace of the kind Run.check_case accepts: every step enabled, parked at the expected label, all callers
   done at the end, with the observations listed *)
Example C16_run_is_a_harness_case :
  check_case {| c_mode := MD; c_timeout := 16; c_interval := 32; c_progs := progs; c_refuse := rf; c_cbs := cb;
                c_poller := true;
                c_trace := map (fun nx => (fst (fst (snd nx)), label_of (at_ (fst nx)) (fst (fst (snd nx))),
                                            snd (fst (snd nx)), snd (snd nx))) (combine (seq 0 34) sched);
                c_outs := [[ROk [[97%N]; [98%N]]; RFail]; [RFail; ROk [[102%N]]]];
                c_sends := [(0, 1, 1); (0, 2, 1); (1, 4, 1); (0, 3, 2); (1, 5, 2)]%nat;
                c_cblog := [1; 2; 3; 99; 1; 99]%nat; c_ann := [true; false; true];
                c_connected := true; c_conn := true; c_nconn := 2; c_cbkeys := [1; 99]%nat; c_lasterr := true;
                c_lastatt := 151 |} = true.
Proof. vm_compute. reflexivity. Qed.

(* ------------------------------------------------------------------ C16_mutual_exclusion *)
(* before step 10 caller 0 is at its send inside a multicomm (lock held twice) while caller 1 is parked at the lock and
   cannot take a step *)
Example C16_mutual_exclusion_applies :
  0%nat = 0%nat /\ lock_owner (sh (at_ 10)) = Some 0%nat /\ lock_cnt (sh (at_ 10)) = cnt_of (cl 10 0).
Proof.
  apply (C16_mutual_exclusion MD 16 32 8 progs rf cb true (firstn 10 sched) 0 0 (cl 10 0) (cl 10 0)); fin.
Qed.
Example C16_nonvacuous_mutual_exclusion :
  cnt_of (cl 10 0) = 2%nat /\ label_of (at_ 10) (TC 0) = LSend /\ label_of (at_ 10) (TC 1) = LLock /\
  enabled (at_ 10) (TC 1) 103 = false /\
  (* later caller 1 owns the lock and caller 0 waits *)
  cnt_of (cl 19 1) = 1%nat /\ lock_owner (sh (at_ 19)) = Some 1%nat.
Proof. fins. Qed.

(* ------------------------------------------------------------------ C16_transaction_atomic *)
Example C16_transaction_atomic_applies :
  exists i c, fst (fst (TC 0, 103, false)) = TC i /\ nth_error (callers (at_ 10)) i = Some c /\ is_send (pc c) /\
              lock_owner (sh (at_ 10)) = Some i.
Proof. apply (C16_transaction_atomic MD 16 32 8 progs rf cb true (firstn 10 sched) (TC 0, 103, false)). fin. Qed.

(* ------------------------------------------------------------------ C16_stale_discarded *)
(* before step 14 caller 0 is at the inner lock of the second command of its multicomm; the buffer holds the byte that
   followed the first reply and one more chunk is readable *)
Example C16_stale_discarded_applies :
  let s := sh (at_ 14) in let c := cl 14 0 in
  let r := caller_step MD 16 32 8 0 110 s c in
  rxbuf s = [99%N] /\ head_ready 110 (queue s) = true /\ rxbuf (fst r) = [] /\ head_ready 110 (queue (fst r)) = false.
Proof.
  intros s c r. split; [fin|]. split; [fin|].
  apply (C16_stale_discarded MD 16 32 8 0%nat 110 s c (fst r) (snd r)); [left; fins|fin|fin].
Qed.

(* ------------------------------------------------------------------ C16_reply_is_first_frame_received *)
Example C16_nonvacuous_reply_is_first_frame_received :
  (* a chunk that completes the frame *)
  (pc (cl 12 0) = CRecv 119 112 /\
   queue (sh (at_ 12)) = mkItem 105 (Some [10%N; 99%N]) :: [mkItem 109 (Some [100%N; 10%N])] /\ 105 <= 105 /\
   try_frame MD (x_n (cur_x (cl 12 0))) (rxbuf (sh (at_ 12)) ++ [10%N; 99%N]) = Some ([97%N], [99%N])) /\
  (* a chunk that does not *)
  (pc (cl 11 0) = CRecv 119 111 /\
   queue (sh (at_ 11)) = mkItem 104 (Some [97%N]) :: [mkItem 105 (Some [10%N; 99%N]); mkItem 109 (Some [100%N; 10%N])] /\
   104 <= 104 /\ try_frame MD (x_n (cur_x (cl 11 0))) (rxbuf (sh (at_ 11)) ++ [97%N]) = None).
Proof. fins. Qed.

(* ------------------------------------------------------------------ C16_framing_chunking, C16_frame_is_split_at_eol *)
Example C16_framing_chunking_applies :
  forall l1 l2,
  read_loop (MLine [13%N; 10%N]) 0 [] [[97%N; 98%N; 13%N]; [10%N; 99%N]] = Some l1 ->
  read_loop (MLine [13%N; 10%N]) 0 [] [[97%N]; [98%N; 13%N; 10%N; 99%N]] = Some l2 -> l1 = l2.
Proof. intros l1 l2. apply C16_framing_chunking; [simpl; discriminate|reflexivity]. Qed.
Example C16_nonvacuous_framing_chunking :
  mode_ok (MLine [13%N; 10%N]) /\ mode_ok MBytes /\
  read_loop (MLine [13%N; 10%N]) 0 [] [[97%N; 98%N; 13%N]; [10%N; 99%N]] = Some [97%N; 98%N] /\
  read_loop (MLine [13%N; 10%N]) 0 [] [[97%N]; [98%N; 13%N; 10%N; 99%N]] = Some [97%N; 98%N] /\
  read_loop MBytes 3 [] [[97%N]; [98%N]; [99%N; 100%N]] = Some [97%N; 98%N; 99%N] /\
  read_loop MBytes 3 [] [[97%N; 98%N; 99%N; 100%N]] = Some [97%N; 98%N; 99%N].
Proof. fins. Qed.
Example C16_nonvacuous_frame_is_split_at_eol :
  split_eol [13%N; 10%N] [97%N; 13%N; 10%N; 98%N] = Some ([97%N], [98%N]).
Proof. fins. Qed.

(* ------------------------------------------------------------------ C16_timeout_bound *)
(* before step 28 caller 0 waits for the reply of the silent command, deadline 169, next slice 161, nothing queued *)
Example C16_nonvacuous_timeout_bound :
  pc (cl 28 0) = CRecv 169 161 /\ 161 <= 161 /\
  (head_ready 169 (queue (sh (at_ 28))) = false /\ 169 <= 169) /\
  (head_ready 161 (queue (sh (at_ 28))) = false /\ 161 < 169) /\
  enabled (at_ 28) (TC 0) 160 = false.
Proof. fins. Qed.

(* ------------------------------------------------------------------ C16_delays_honoured *)
Example C16_delays_honoured_applies :
  let q := finish_exch 32 105 (sh (at_ 12)) (cl 12 0) (Some [97%N]) in
  pc (snd q) = CSleepX (105 + x_delay xa) /\ cur (snd q) = xa :: [xb] /\
  (forall now' s', caller_enabled 0%nat now' s' (snd q) = true -> 105 + x_delay xa <= now').
Proof. apply (C16_delays_honoured 32 0%nat 105 (sh (at_ 12)) (cl 12 0) (Some [97%N]) xa [xb]); fin. Qed.

(* ------------------------------------------------------------------ C16_reconnect_rate *)
Example C16_nonvacuous_reconnect_rate :
  (* connected *)
  (exists s', begin_exch 32 102 (sh (at_ 9)) = Some (s', CLock)) /\
  (* disconnected, last attempt at 100, one interval later *)
  (exists s', begin_exch 32 151 (sh (at_ 23)) = Some (s', CAccess)) /\
  (* disconnected, within the interval *)
  (connected (sh (at_ 23)) = false /\ 120 < last_attempt (sh (at_ 23)) + 32).
Proof. split; [eexists; fin|]. split; [eexists; fin|]. fins. Qed.

(* ------------------------------------------------------------------ C16_callbacks_once, C16_error_stored_while_disconnected,
   C16_polling_resumes *)
(* step 24: the poll thread re-establishes the connection that the device closed at 114 *)
Example C16_callbacks_once_applies :
  let st := at_ 24 in let st' := step MD 16 32 8 st (TP, 152, false) in
  cblog (sh st') = cblog (sh st) ++ map fst (cbs (sh st)) /\
  cbs (sh st') = filter (fun kc => cb_keeps (snd kc)) (cbs (sh st)) /\
  connected (sh st') = true /\ nconn (sh st') = S (nconn (sh st)).
Proof. apply (C16_callbacks_once MD 16 32 8 progs rf cb true (firstn 24 sched) (TP, 152, false)); fin. Qed.

(* a second run in which callbacks of every kind are still registered at the reconnect (the first connection is made
   without a stored error, hence without calling them): one caller, the device closes, the caller reconnects itself *)
Definition progs2 := [[OSingle xd; OPause 40; OSingle xe]].
Definition sched2 : list (tid * Z * bool) :=
  [(TP,100,false); (TC 0,100,false); (TC 0,100,false); (TC 0,100,false); (TC 0,100,false); (TC 0,100,false);
   (TC 0,101,false); (TC 0,102,false); (TC 0,142,false); (TC 0,142,false)].
Definition st2 : state := run MD 16 32 8 (init progs2 [] cb true) sched2.
Example C16_callbacks_once_applies_2 :
  let st' := step MD 16 32 8 st2 (TC 0, 142, false) in
  cbs (sh st2) = [(1%nat, CbTrue); (2%nat, CbFalse); (3%nat, CbRaise); (TRIGGER, CbTrue)] /\ cblog (sh st2) = [] /\
  cblog (sh st') = [1; 2; 3; 99]%nat /\ cbs (sh st') = [(1%nat, CbTrue); (TRIGGER, CbTrue)] /\
  cblog (sh st') = cblog (sh st2) ++ map fst (cbs (sh st2)).
Proof.
  intros st'. split; [fin|]. split; [fin|]. split; [fin|]. split; [fin|].
  apply (C16_callbacks_once MD 16 32 8 progs2 [] cb true sched2 (TC 0, 142, false)); fin.
Qed.

Example C16_error_stored_while_disconnected_applies : last_error (sh (at_ 22)) = true.
Proof. apply (C16_error_stored_while_disconnected MD 16 32 8 progs rf cb true (firstn 22 sched)); fin. Qed.

Example C16_polling_resumes_applies :
  In (TRIGGER, CbTrue) (cbs (sh (at_ 24))) /\ In TRIGGER (map fst (cbs (sh (at_ 24)))).
Proof. apply (C16_polling_resumes MD 16 32 8 progs rf cb true (firstn 24 sched)); fin. Qed.
Example C16_nonvacuous_polling_resumes : poll (at_ 24) = QConnect /\ poll (at_ 34) = QIdle /\ poll (at_ 2) = QConnect.
Proof. fins. Qed.

(* ------------------------------------------------------------------ C16_reconnect_rate_global *)
Example C16_nonvacuous_reconnect_rate_global :
  attempts MD 16 32 8 (init progs rf cb true) sched = [100; 151] /\ 0 <= 32 /\
  is_attempt MD 16 32 8 (at_ 4) (TC 0, 100, false) = true /\
  is_attempt MD 16 32 8 (at_ 23) (TC 0, 151, false) = true /\
  is_attempt MD 16 32 8 (at_ 22) (TP, 120, false) = false /\
  is_attempt MD 16 32 8 (at_ 6) (TC 0, 101, false) = false.
Proof. fins. Qed.

(* ------------------------------------------------------------------ C16_state_visible_global *)
Example C16_nonvacuous_state_visible_global :
  (* step 20: the end of the stream is read in the middle of a reply - the call fails, disconnected *)
  (nth_error (callers (at_ 20)) 1 = Some (cl 20 1) /\
   nth_error (callers (step MD 16 32 8 (at_ 20) (TC 1, 114, false))) 1 = Some (cl 21 1) /\
   outs (cl 21 1) = outs (cl 20 1) ++ [RFail] /\ In RFail [RFail] /\
   connected (sh (at_ 20)) = true /\ connected (sh (at_ 21)) = false) /\
  (* step 29: the call times out on the silent device - the call fails, still connected *)
  (nth_error (callers (at_ 29)) 0 = Some (cl 29 0) /\
   nth_error (callers (step MD 16 32 8 (at_ 29) (TC 0, 169, false))) 0 = Some (cl 30 0) /\
   outs (cl 30 0) = outs (cl 29 0) ++ [RFail] /\ In RFail [RFail] /\
   pc (cl 29 0) = CRecv 169 169 /\ connected (sh (at_ 30)) = true /\ last_error (sh (at_ 30)) = true).
Proof. vm_compute. repeat split; try reflexivity; left; reflexivity. Qed.

(* ------------------------------------------------------------------ C16_connect_exclusive *)
Example C16_nonvacuous_connect_exclusive :
  (* a caller inside the connecting branch *)
  pc (cl 7 0) = CConnect /\ acc_owner (sh (at_ 7)) = Some (TC 0) /\
  (* the poll thread inside it while caller 0 is parked at accessLock and cannot enter *)
  poll (at_ 5) = QConnect /\ pc (cl 5 0) = CAccess /\ enabled (at_ 5) (TC 0) 101 = false /\
  poll (at_ 24) = QConnect /\ pc (cl 24 0) = CAccess /\ enabled (at_ 24) (TC 0) 152 = false.
Proof. fins. Qed.
Example C16_connect_exclusive_applies :
  poll (at_ 7) <> QConnect /\ acc_owner (sh (at_ 7)) = Some (TC 0) /\ connected (sh (at_ 7)) = false.
Proof.
  destruct (C16_connect_exclusive MD 16 32 8 progs rf cb true (firstn 7 sched)) as (_ & A & _).
  apply (A 0%nat (cl 7 0)); fin.
Qed.


(* ------------------------------------------------------------------ wait_before: C16_wait_before, second case of
   C16_stale_discarded, C16_transaction_atomic at the send of a line split off in front of the last one.
   The run of Properties.C16_wait_before_example: wait_before = 2 ticks, a late reply arriving during the pause of the next
   command, a two-line command *)
Definition x1 := {| x_id := 1; x_emit := [(18, [114; 49; 10]%N)]; x_close := None; x_n := 0; x_delay := 0;
                    x_noreply := false; x_wait := 2; x_pre := [] |}.
Definition x2 := {| x_id := 2; x_emit := [(1, [114; 50; 10]%N)]; x_close := None; x_n := 0; x_delay := 0;
                    x_noreply := false; x_wait := 2; x_pre := [] |}.
Definition x4 := {| x_id := 4; x_emit := [(0, [114; 52; 10]%N)]; x_close := None; x_n := 0; x_delay := 0;
                    x_noreply := false; x_wait := 2; x_pre := [(3%nat, [], None)] |}.
Definition progs3 := [[OSingle x1; OSingle x2; OSingle x4]].
Definition sched3 : list (tid * Z * bool) :=
  map (fun now => (TC 0, now, false)) [98; 98; 98; 98; 100; 100; 108; 116; 117; 119; 119; 120; 120; 122; 122; 124; 124; 124].
Definition at3 (n : nat) : state := run MD 16 32 8 (init progs3 [] [] false) (firstn n sched3).
Definition c3 (n : nat) : cst := nth 0 (callers (at3 n)) cdummy.

(* before step 9 the caller is at the end of its first sleep and the late reply of the previous command has arrived *)
Example C16_stale_discarded_applies_wait_before :
  let s := sh (at3 9) in let c := c3 9 in
  let r := caller_step MD 16 32 8 0 119 s c in
  pc c = CWaitB 119 true [] /\ head_ready 119 (queue s) = true /\
  rxbuf (fst r) = [] /\ head_ready 119 (queue (fst r)) = false.
Proof.
  intros s c r. split; [fin|]. split; [fin|].
  apply (C16_stale_discarded MD 16 32 8 0%nat 119 s c (fst r) (snd r)); [right; eexists; eexists; fin|fin|fin].
Qed.
(* ... and to the send of a line in front of the last one *)
Example C16_stale_discarded_applies_first_of_two_lines :
  let s := sh (at3 13) in let c := c3 13 in
  let r := caller_step MD 16 32 8 0 122 s c in
  pc (snd r) = CSendPre [(3%nat, [], None)] /\ rxbuf (fst r) = [] /\ head_ready 122 (queue (fst r)) = false.
Proof.
  intros s c r. split; [fin|].
  apply (C16_stale_discarded MD 16 32 8 0%nat 122 s c (fst r) (snd r)); [right; eexists; eexists; fin|fin|fin].
Qed.

Example C16_nonvacuous_wait_before :
  (pc (c3 8) = CLock /\ wait_of (c3 8) <> 0) /\
  (pc (c3 9) = CWaitB 119 true [] /\ caller_enabled 0 119 (sh (at3 9)) (c3 9) = true /\
   caller_enabled 0 118 (sh (at3 9)) (c3 9) = false) /\
  pc (c3 14) = CSendPre ((3%nat, [], None) :: []) /\
  pc (c3 15) = CWaitB 124 false [].
Proof. fins. Qed.

Example C16_transaction_atomic_applies_pre_line :
  exists i c, fst (fst (TC 0, 122, false)) = TC i /\ nth_error (callers (at3 14)) i = Some c /\ is_send (pc c) /\
              lock_owner (sh (at3 14)) = Some i.
Proof. apply (C16_transaction_atomic MD 16 32 8 progs3 [] [] false (firstn 14 sched3) (TC 0, 122, false)). fin. Qed.

(* ================================================================== the receive layer *)
Definition eol := [13; 10]%N.
Definition q1 := [mkItem 0 (Some [97; 98; 13]%N); mkItem 1 (Some [10; 99; 100; 13; 10]%N); mkItem 20 (Some [120]%N)].
Definition q2 := [mkItem 0 (Some [97]%N); mkItem 0 (Some [98; 13; 10; 99]%N); mkItem 5 (Some [100; 13]%N);
                  mkItem 30 (Some [10; 120]%N)].
Definition calls1 : list (nat * Z * option Z) :=
  [(50%nat, 0, None); (50%nat, 0, None); (50%nat, 0, None); (50%nat, 0, None); (50%nat, 0, None)].
Definition calls2 : list (nat * Z * option Z) := [(50%nat, 0, Some 16); (50%nat, 3, Some 60); (50%nat, 0, Some 90)].

(* same data as Properties.C16_chunking_example, here fed to the theorem *)
Example C16_readline_chunking_full_applies :
  lines_of [UData [97; 98]%N; UData [99; 100]%N; UNone; UNone; UNone] =
  lines_of [UData [97; 98]%N; UData [99; 100]%N; UTimeout] /\ [120%N] = [120%N].
Proof.
  apply (C16_readline_chunking_full eol 8 8 calls1 calls2 0 0 [] q1 q2 _ _ _ _ [] []); fin.
Qed.

Example C16_readline_returns_the_lines_of_the_stream_applies :
  parsed eol ([] ++ stream q2) (lines_of [UData [97; 98]%N; UData [99; 100]%N; UTimeout]) [120%N].
Proof.
  apply (C16_readline_returns_the_lines_of_the_stream eol 8 calls2 0 [] q2 _ _ []); fin.
Qed.

Example C16_nonvacuous_takes_chunks :
  readline_loop 50 eol 8 None 0 [] q1 =
    (UData [97; 98]%N, 1, [99; 100; 13; 10]%N, [mkItem 20 (Some [120]%N)]) /\
  readline_loop 50 eol 8 (Some 16) 2 [120%N] [] = (UTimeout, 18, [120%N], []) /\
  readbytes_loop 50 4 8 None 0 [] q2 = (UData [97; 98; 13; 10]%N, 0, [99%N], [mkItem 5 (Some [100; 13]%N); mkItem 30 (Some [10; 120]%N)]) /\
  readbytes_loop 50 9 8 (Some 12) 0 [] q2 = (UTimeout, 13, [97; 98; 13; 10; 99; 100; 13]%N, [mkItem 30 (Some [10; 120]%N)]).
Proof. fins. Qed.

(* flush at time 5 with an old buffer, two chunks that have arrived and two that have not; a readline / readbytes after it *)
Definition qf := [mkItem 0 (Some [1; 2]%N); mkItem 3 (Some [3]%N); mkItem 10 (Some [65; 66; 13]%N); mkItem 12 (Some [10; 67]%N)].
Definition qf' := [mkItem 10 (Some [65; 66; 13]%N); mkItem 12 (Some [10; 67]%N)].
Example C16_nonvacuous_flush_empties :
  fifo qf /\ tcp_flush 5 [9%N] qf = (UData [9; 1; 2; 3]%N, [], qf') /\
  readline_loop 50 eol 8 None 5 [] qf' = (UData [65; 66]%N, 12, [67%N], []) /\
  readbytes_loop 50 2 8 None 5 [] qf' = (UData [65; 66]%N, 10, [13%N], [mkItem 12 (Some [10; 67]%N)]).
Proof. fins. Qed.
Example C16_flush_empties_applies :
  exists taken, qf' = taken ++ [] /\ Forall is_chunk taken /\ Forall (fun it => 5 < arrival_of it) taken /\
                payload taken = [65; 66]%N ++ eol ++ [67%N].
Proof.
  destruct (C16_flush_empties 5 [9%N] qf [9; 1; 2; 3]%N [] qf') as (_ & _ & _ & A & _); [fins|fin|].
  apply (A 50%nat eol 8 None 5 [65; 66]%N 12 [67%N] []). fin.
Qed.

Example C16_nonvacuous_flush_loop_is_select_recv :
  0 <= 8 /\ sock_readable 5 qf = true /\ sock_readable 5 qf' = false /\ Forall no_empty_chunk qf /\
  flush_loop 5 qf [9%N] = (Some [9; 1; 2; 3]%N, qf') /\
  (* the closed case *)
  Forall no_empty_chunk [mkItem 0 (Some [1%N]); mkItem 2 None] /\
  flush_loop 5 [mkItem 0 (Some [1%N]); mkItem 2 None] [] = (None, [mkItem 2 None]).
Proof. vm_compute. repeat split; try reflexivity; try discriminate; repeat constructor. Qed.

Example C16_receive_loops_terminate_applies :
  fst (fst (fst (readline eol 8 16 0 [] q2))) <> UFuel /\ fst (fst (fst (readbytes 9 8 12 0 [] q2))) <> UFuel.
Proof.
  destruct (C16_receive_loops_terminate 8 16 0 [] q2) as [A _]; [fin|].
  destruct (C16_receive_loops_terminate 8 12 0 [] q2) as [_ B]; [fin|].
  split; [apply A|apply B].
Qed.
