(* C16 - executable model of the communicator: frappy/io.py IOBase.check_connection / read_is_connected /
   connectStart / closeConnection / callCallbacks, StringIO.communicate / writeline / multicomm,
   BytesIO.communicate / multicomm, and frappy/lib/asynconn.py AsynConn.readline / readbytes,
   AsynTcp.flush_recv / recv / send, as a transition system whose atomic steps end exactly at the
   synchronisation points of the implementation: acquire of the communicator lock (self._lock) and of
   accessLock (the wrapper around read_is_connected), time.sleep, socket connect / sendall / blocking recv,
   Event.wait of the poll thread.  Time is virtual, in ticks, and is an input of every step.
   The device is a scripted socket: every command carries the chunks the device will emit (delay, bytes)
   and an optional close; the socket queue is ordered by arrival time.  No proofs in this file. *)
From Coq Require Import List Arith ZArith NArith Bool.
Import ListNotations.
Require Import FV.Base.Util.
Open Scope Z_scope.

Inductive tid := TC (i : nat) | TP.
Definition tid_eqb (a b : tid) : bool :=
  match a, b with TC i, TC j => Nat.eqb i j | TP, TP => true | _, _ => false end.

(* what the device will put on the wire: arrival time, bytes; None = end of stream (peer closed) *)
Inductive item := mkItem (arrival : Z) (payload : option (list N)).
Definition arrival_of (i : item) : Z := match i with mkItem a _ => a end.

(* reconnect callbacks: returns True / returns False / returns None / raises *)
Inductive cbkind := CbTrue | CbFalse | CbNone | CbRaise.
Definition cb_keeps (k : cbkind) : bool := match k with CbTrue => true | _ => false end.

(* one command: identity, what the device emits after receiving it, reply length (byte mode), delay after it
   (multicomm), no reply expected (writeline / multicomm item with expect_reply = False) *)
(* a line of a multi-line command that StringIO.communicate splits off when wait_before is set: identity, what the
   device emits after receiving it, optional close *)
Definition line := (nat * list (Z * list N) * option Z)%type.
Definition line_id (l : line) : nat := fst (fst l).
(* x_wait = IOBase.wait_before in ticks (a parameter of the communicator; carried by every command so that the theorems
   hold for every value, also one that changes between commands); x_pre = the lines in front of the last line of the
   command text (command.split(eol_write)[:-1]); the exchange itself stands for the last line and the reply *)
Record exch := { x_id : nat; x_emit : list (Z * list N); x_close : option Z; x_n : nat; x_delay : Z; x_noreply : bool;
                 x_wait : Z; x_pre : list line }.
Inductive op := OSingle (x : exch) | OMulti (xs : list exch) | OPause (d : Z).
Inductive outcome := ROk (rs : list (list N)) | RFail.
Inductive mode := MLine (eol : list N) | MBytes.

Record shared := {
  lock_owner : option nat;
  lock_cnt : nat;
  acc_owner : option tid;
  connected : bool;
  conn : bool;
  nconn : nat;
  queue : list item;
  rxbuf : list N;
  last_error : bool;
  last_attempt : Z;
  refuse : list bool;
  cbs : list (nat * cbkind);
  cblog : list nat;
  ann : list bool;
  sendlog : list (nat * nat * nat);
}.
Definition set_lock_owner (s : shared) (v : option nat) : shared :=
  {| lock_owner := v; lock_cnt := lock_cnt s; acc_owner := acc_owner s; connected := connected s; conn := conn s; nconn := nconn s; queue := queue s; rxbuf := rxbuf s; last_error := last_error s; last_attempt := last_attempt s; refuse := refuse s; cbs := cbs s; cblog := cblog s; ann := ann s; sendlog := sendlog s |}.
Definition set_lock_cnt (s : shared) (v : nat) : shared :=
  {| lock_owner := lock_owner s; lock_cnt := v; acc_owner := acc_owner s; connected := connected s; conn := conn s; nconn := nconn s; queue := queue s; rxbuf := rxbuf s; last_error := last_error s; last_attempt := last_attempt s; refuse := refuse s; cbs := cbs s; cblog := cblog s; ann := ann s; sendlog := sendlog s |}.
Definition set_acc_owner (s : shared) (v : option tid) : shared :=
  {| lock_owner := lock_owner s; lock_cnt := lock_cnt s; acc_owner := v; connected := connected s; conn := conn s; nconn := nconn s; queue := queue s; rxbuf := rxbuf s; last_error := last_error s; last_attempt := last_attempt s; refuse := refuse s; cbs := cbs s; cblog := cblog s; ann := ann s; sendlog := sendlog s |}.
Definition set_connected (s : shared) (v : bool) : shared :=
  {| lock_owner := lock_owner s; lock_cnt := lock_cnt s; acc_owner := acc_owner s; connected := v; conn := conn s; nconn := nconn s; queue := queue s; rxbuf := rxbuf s; last_error := last_error s; last_attempt := last_attempt s; refuse := refuse s; cbs := cbs s; cblog := cblog s; ann := ann s; sendlog := sendlog s |}.
Definition set_conn (s : shared) (v : bool) : shared :=
  {| lock_owner := lock_owner s; lock_cnt := lock_cnt s; acc_owner := acc_owner s; connected := connected s; conn := v; nconn := nconn s; queue := queue s; rxbuf := rxbuf s; last_error := last_error s; last_attempt := last_attempt s; refuse := refuse s; cbs := cbs s; cblog := cblog s; ann := ann s; sendlog := sendlog s |}.
Definition set_nconn (s : shared) (v : nat) : shared :=
  {| lock_owner := lock_owner s; lock_cnt := lock_cnt s; acc_owner := acc_owner s; connected := connected s; conn := conn s; nconn := v; queue := queue s; rxbuf := rxbuf s; last_error := last_error s; last_attempt := last_attempt s; refuse := refuse s; cbs := cbs s; cblog := cblog s; ann := ann s; sendlog := sendlog s |}.
Definition set_queue (s : shared) (v : list item) : shared :=
  {| lock_owner := lock_owner s; lock_cnt := lock_cnt s; acc_owner := acc_owner s; connected := connected s; conn := conn s; nconn := nconn s; queue := v; rxbuf := rxbuf s; last_error := last_error s; last_attempt := last_attempt s; refuse := refuse s; cbs := cbs s; cblog := cblog s; ann := ann s; sendlog := sendlog s |}.
Definition set_rxbuf (s : shared) (v : list N) : shared :=
  {| lock_owner := lock_owner s; lock_cnt := lock_cnt s; acc_owner := acc_owner s; connected := connected s; conn := conn s; nconn := nconn s; queue := queue s; rxbuf := v; last_error := last_error s; last_attempt := last_attempt s; refuse := refuse s; cbs := cbs s; cblog := cblog s; ann := ann s; sendlog := sendlog s |}.
Definition set_last_error (s : shared) (v : bool) : shared :=
  {| lock_owner := lock_owner s; lock_cnt := lock_cnt s; acc_owner := acc_owner s; connected := connected s; conn := conn s; nconn := nconn s; queue := queue s; rxbuf := rxbuf s; last_error := v; last_attempt := last_attempt s; refuse := refuse s; cbs := cbs s; cblog := cblog s; ann := ann s; sendlog := sendlog s |}.
Definition set_last_attempt (s : shared) (v : Z) : shared :=
  {| lock_owner := lock_owner s; lock_cnt := lock_cnt s; acc_owner := acc_owner s; connected := connected s; conn := conn s; nconn := nconn s; queue := queue s; rxbuf := rxbuf s; last_error := last_error s; last_attempt := v; refuse := refuse s; cbs := cbs s; cblog := cblog s; ann := ann s; sendlog := sendlog s |}.
Definition set_refuse (s : shared) (v : list bool) : shared :=
  {| lock_owner := lock_owner s; lock_cnt := lock_cnt s; acc_owner := acc_owner s; connected := connected s; conn := conn s; nconn := nconn s; queue := queue s; rxbuf := rxbuf s; last_error := last_error s; last_attempt := last_attempt s; refuse := v; cbs := cbs s; cblog := cblog s; ann := ann s; sendlog := sendlog s |}.
Definition set_cbs (s : shared) (v : list (nat * cbkind)) : shared :=
  {| lock_owner := lock_owner s; lock_cnt := lock_cnt s; acc_owner := acc_owner s; connected := connected s; conn := conn s; nconn := nconn s; queue := queue s; rxbuf := rxbuf s; last_error := last_error s; last_attempt := last_attempt s; refuse := refuse s; cbs := v; cblog := cblog s; ann := ann s; sendlog := sendlog s |}.
Definition set_cblog (s : shared) (v : list nat) : shared :=
  {| lock_owner := lock_owner s; lock_cnt := lock_cnt s; acc_owner := acc_owner s; connected := connected s; conn := conn s; nconn := nconn s; queue := queue s; rxbuf := rxbuf s; last_error := last_error s; last_attempt := last_attempt s; refuse := refuse s; cbs := cbs s; cblog := v; ann := ann s; sendlog := sendlog s |}.
Definition set_ann (s : shared) (v : list bool) : shared :=
  {| lock_owner := lock_owner s; lock_cnt := lock_cnt s; acc_owner := acc_owner s; connected := connected s; conn := conn s; nconn := nconn s; queue := queue s; rxbuf := rxbuf s; last_error := last_error s; last_attempt := last_attempt s; refuse := refuse s; cbs := cbs s; cblog := cblog s; ann := v; sendlog := sendlog s |}.
Definition set_sendlog (s : shared) (v : list (nat * nat * nat)) : shared :=
  {| lock_owner := lock_owner s; lock_cnt := lock_cnt s; acc_owner := acc_owner s; connected := connected s; conn := conn s; nconn := nconn s; queue := queue s; rxbuf := rxbuf s; last_error := last_error s; last_attempt := last_attempt s; refuse := refuse s; cbs := cbs s; cblog := cblog s; ann := ann s; sendlog := v |}.

(* program counters = the synchronisation point a thread is parked at *)
(* CWaitB w first l: inside communicate, in time.sleep(wait_before) until w in front of the send of the head of l (of
   the last line when l = []); first = flush_recv is still to be done (garbage is None).  CSendPre l: parked at the send
   of the head of l, a line in front of the last one *)
Inductive cpc := CStart | CAccess | CConnect | CLockOuter | CLock | CSend | CRecv (e sl : Z)
               | CSleepX (w : Z) | CPause (w : Z) | CDone
               | CWaitB (w : Z) (first : bool) (l : list line) | CSendPre (l : list line).
Record cst := { pc : cpc; cur : list exch; inmulti : bool; acc : list (list N); rest : list op; outs : list outcome }.
Inductive ppc := QNone | QStart | QIdle | QAccess | QConnect.
Record state := { sh : shared; callers : list cst; poll : ppc }.

Definition set_pc (c : cst) (p : cpc) : cst :=
  {| pc := p; cur := cur c; inmulti := inmulti c; acc := acc c; rest := rest c; outs := outs c |}.

(* ---------------------------------------------------------------- socket queue *)
Fixpoint insert_item (a : Z) (p : option (list N)) (q : list item) : list item :=
  match q with
  | [] => [mkItem a p]
  | mkItem a' p' :: r => if a <? a' then mkItem a p :: q else mkItem a' p' :: insert_item a p r
  end.

Definition insert_emits (now : Z) (em : list (Z * list N)) (q : list item) : list item :=
  fold_left (fun q e => insert_item (now + fst e) (Some (snd e)) q) em q.

Definition device_react (now : Z) (x : exch) (q : list item) : list item :=
  let q1 := insert_emits now (x_emit x) q in
  match x_close x with Some d => insert_item (now + d) None q1 | None => q1 end.

Definition line_react (now : Z) (l : line) (q : list item) : list item :=
  let q1 := insert_emits now (snd (fst l)) q in
  match snd l with Some d => insert_item (now + d) None q1 | None => q1 end.

(* AsynTcp.flush_recv: take everything that is readable now; true = the end of stream was reached (recv returned
   b'' -> ConnectionClosed) *)
Fixpoint flush (now : Z) (q : list item) : bool * list item :=
  match q with
  | [] => (false, [])
  | mkItem a (Some d) :: r => if a <=? now then flush now r else (false, q)
  | mkItem a None :: r => if a <=? now then (true, q) else (false, q)
  end.

Definition head_ready (now : Z) (q : list item) : bool :=
  match q with mkItem a _ :: _ => a <=? now | [] => false end.

(* ---------------------------------------------------------------- framing over the receive buffer *)
Fixpoint starts_with (p s : list N) : bool :=
  match p, s with
  | [], _ => true
  | a :: p', b :: s' => N.eqb a b && starts_with p' s'
  | _ :: _, [] => false
  end.

(* bytes.split(eol, 1): Some (line, rest) when the separator occurs *)
Fixpoint split_eol (eol buf : list N) : option (list N * list N) :=
  match buf with
  | [] => None
  | b :: r => if starts_with eol buf then Some ([], skipn (length eol) buf)
              else match split_eol eol r with
                   | Some (l, rest) => Some (b :: l, rest)
                   | None => None
                   end
  end.

Definition try_frame (m : mode) (n : nat) (buf : list N) : option (list N * list N) :=
  match m with
  | MLine eol => split_eol eol buf
  | MBytes => if Nat.leb n (length buf) then Some (firstn n buf, skipn n buf) else None
  end.

Section Model.
Variable md : mode.
Variable timeout : Z.        (* IOBase.timeout in ticks, > 0 *)
Variable interval : Z.       (* IOBase.pollinterval (reconnect interval) in ticks *)
Variable slice : Z.          (* AsynConn.timeout (one receive slice) in ticks *)

(* ---------------------------------------------------------------- locks *)
Definition lock_free_for (me : nat) (s : shared) : bool :=
  match lock_owner s with None => true | Some o => Nat.eqb o me end.
Definition acquire (me : nat) (s : shared) : shared :=
  set_lock_cnt (set_lock_owner s (Some me)) (S (lock_cnt s)).
Definition release (s : shared) : shared :=
  let c := pred (lock_cnt s) in
  set_lock_cnt (set_lock_owner s (match c with O => None | _ => lock_owner s end)) c.
Definition acc_free (s : shared) : bool := match acc_owner s with None => true | Some _ => false end.

(* ---------------------------------------------------------------- connection state machine *)
(* callCallbacks: every registered callback is called, in registration order; it stays registered iff it returned
   a true value *)
Definition call_callbacks (s : shared) : shared :=
  set_cbs (set_cblog s (cblog s ++ map fst (cbs s))) (filter (fun kc => cb_keeps (snd kc)) (cbs s)).

(* connectStart succeeded inside read_is_connected *)
Definition connect_ok (s : shared) : shared :=
  let s1 := set_ann (set_connected (set_rxbuf (set_queue (set_nconn (set_conn s true) (S (nconn s))) []) []) true)
                    (ann s ++ [true]) in
  if last_error s then call_callbacks s1 else s1.

(* connection attempt refused: _last_error = repr(e), SilentError *)
Definition connect_refused (s : shared) : shared := set_last_error s true.

Definition pop_refuse (s : shared) : bool * shared :=
  match refuse s with [] => (false, s) | b :: r => (b, set_refuse s r) end.

(* closeConnection: besides dropping the connection it stores 'disconnected' as last error when none is stored, so
   that the next successful connect runs the reconnect callbacks *)
Definition close_conn (s : shared) : shared :=
  set_last_error (set_ann (set_connected (set_conn s false) false) (ann s ++ [false])) true.

(* check_connection at the start of communicate: Some = goes on (parked at the given point), None = SilentError *)
Definition begin_exch (now : Z) (s : shared) : option (shared * cpc) :=
  if connected s then Some (s, CLock)
  else if last_attempt s + interval <=? now then Some (set_last_attempt s now, CAccess)
  else None.

Definition mk (p : cpc) (cu : list exch) (im : bool) (ac : list (list N)) (r : list op) (o : list outcome) : cst :=
  {| pc := p; cur := cu; inmulti := im; acc := ac; rest := r; outs := o |}.

(* start the remaining operations of a caller until the first synchronisation point *)
Fixpoint run_ops (now : Z) (s : shared) (o : list outcome) (ops : list op) : shared * cst :=
  match ops with
  | [] => (s, mk CDone [] false [] [] o)
  | OPause d :: r => (s, mk (CPause (now + d)) [] false [] r o)
  | OSingle x :: r =>
      match begin_exch now s with
      | Some (s', p) => (s', mk p [x] false [] r o)
      | None => run_ops now s (o ++ [RFail]) r
      end
  | OMulti xs :: r => (s, mk CLockOuter xs true [] r o)
  end.

(* the current operation raised (always a SilentCommunicationFailedError in the modelled paths) *)
Definition fail_op (now : Z) (s : shared) (c : cst) : shared * cst :=
  run_ops now (if inmulti c then release s else s) (outs c ++ [RFail]) (rest c).

(* multicomm: the exchange at the head of cur is finished (and its delay slept) *)
Definition next_in_multi (now : Z) (s : shared) (c : cst) : shared * cst :=
  match tl (cur c) with
  | [] => run_ops now (release s) (outs c ++ [ROk (acc c)]) (rest c)
  | x :: r =>
      match begin_exch now s with
      | Some (s', p) => (s', mk p (x :: r) true (acc c) (rest c) (outs c))
      | None => fail_op now s c
      end
  end.

(* communicate returned r (None for noreply); the inner lock is still held *)
Definition finish_exch (now : Z) (s : shared) (c : cst) (r : option (list N)) : shared * cst :=
  let s1 := release s in
  let rl := match r with Some b => [b] | None => [] end in
  if inmulti c then
    let c1 := mk (pc c) (cur c) true (acc c ++ rl) (rest c) (outs c) in
    match cur c with
    | x :: _ => if x_delay x =? 0 then next_in_multi now s1 c1 else (s1, set_pc c1 (CSleepX (now + x_delay x)))
    | [] => next_in_multi now s1 c1
    end
  else run_ops now s1 (outs c ++ [ROk rl]) (rest c).

Definition cur_x (c : cst) : exch :=
  match cur c with x :: _ => x
  | [] => {| x_id := 0; x_emit := []; x_close := None; x_n := 0; x_delay := 0; x_noreply := true;
             x_wait := 0; x_pre := [] |} end.

(* wait_before of the running command; the lines split off in front of its last line: `if self.wait_before and
   self._eol_write: cmds = command.split(self._eol_write) else: cmds = [command]` (BytesIO never splits) *)
Definition wait_of (c : cst) : Z := x_wait (cur_x c).
Definition pre_of (c : cst) : list line :=
  if wait_of c =? 0 then [] else match md with MLine (_ :: _) => x_pre (cur_x c) | _ => [] end.
Definition send_pc (l : list line) : cpc := match l with [] => CSend | _ :: _ => CSendPre l end.

(* `garbage = self._conn.flush_recv()` immediately in front of the first send: no connection object -> the call fails
   ('disconnected'); end of stream -> closeConnection; otherwise everything readable now and the receive buffer are
   thrown away and the caller is parked at its send *)
Definition flush_then (now : Z) (s1 : shared) (c : cst) (p : cpc) : shared * cst :=
  if conn s1 then
    let '(closed, q) := flush now (queue s1) in
    if closed then fail_op now (release (close_conn s1)) c
    else (set_rxbuf (set_queue s1 q) [], set_pc c p)
  else fail_op now (release s1) c.

Definition send_line (me : nat) (now : Z) (s : shared) (l : line) : shared :=
  set_sendlog (set_queue s (line_react now l (queue s))) (sendlog s ++ [(me, line_id l, nconn s)]).

(* one step of caller `me` parked at pc c, at time now *)
Definition caller_step (me : nat) (now : Z) (s : shared) (c : cst) : shared * cst :=
  match pc c with
  | CStart => run_ops now s (outs c) (rest c)
  | CAccess =>
      (* read_is_connected under accessLock *)
      if connected s then (s, set_pc c CLock)
      else (set_acc_owner s (Some (TC me)), set_pc c CConnect)
  | CConnect =>
      let '(refused, s1) := pop_refuse s in
      let s2 := set_acc_owner s1 None in
      if refused then fail_op now (connect_refused s2) c
      else (connect_ok s2, set_pc c CLock)
  | CLockOuter =>
      let s1 := acquire me s in
      match cur c with
      | [] => run_ops now (release s1) (outs c ++ [ROk []]) (rest c)
      | _ => match begin_exch now s1 with
             | Some (s2, p) => (s2, set_pc c p)
             | None => fail_op now s1 c
             end
      end
  | CLock =>
      (* with wait_before: `time.sleep(self.wait_before)` comes first, the flush after it *)
      let s1 := acquire me s in
      if wait_of c =? 0 then flush_then now s1 c CSend
      else (s1, set_pc c (CWaitB (now + wait_of c) true (pre_of c)))
  | CWaitB w first l =>
      (* the sleep is over: `if garbage is None: garbage = self._conn.flush_recv()`, then the send *)
      if first then flush_then now s c (send_pc l) else (s, set_pc c (send_pc l))
  | CSendPre l =>
      match l with
      | [] => (s, set_pc c CSend)
      | p :: l' => (send_line me now s p, set_pc c (CWaitB (now + wait_of c) false l'))
      end
  | CSend =>
      let x := cur_x c in
      let s1 := set_sendlog (set_queue s (device_react now x (queue s))) (sendlog s ++ [(me, x_id x, nconn s)]) in
      if x_noreply x then finish_exch now s1 c None
      else match try_frame md (x_n x) (rxbuf s1) with
           | Some (r, rst) => finish_exch now (set_rxbuf s1 rst) c (Some r)
           | None => (s1, set_pc c (CRecv (now + timeout) (now + slice)))
           end
  | CRecv e sl =>
      match queue s with
      | mkItem a p :: q' =>
          if a <=? now then
            match p with
            | Some d =>
                let buf := rxbuf s ++ d in
                match try_frame md (x_n (cur_x c)) buf with
                | Some (r, rst) => finish_exch now (set_rxbuf (set_queue s q') rst) c (Some r)
                | None => (set_rxbuf (set_queue s q') buf, set_pc c (CRecv e (now + slice)))
                end
            | None => fail_op now (release (close_conn s)) c
            end
          else if now <? e then (s, set_pc c (CRecv e (now + slice)))
          else fail_op now (release (set_last_error s true)) c
      | [] =>
          if now <? e then (s, set_pc c (CRecv e (now + slice)))
          else fail_op now (release (set_last_error s true)) c
      end
  | CSleepX w => next_in_multi now s c
  | CPause w => run_ops now s (outs c) (rest c)
  | CDone => (s, c)
  end.

Definition caller_enabled (me : nat) (now : Z) (s : shared) (c : cst) : bool :=
  match pc c with
  | CAccess => acc_free s
  | CLockOuter | CLock => lock_free_for me s
  | CRecv e sl => head_ready now (queue s) || (sl <=? now)
  | CSleepX w | CPause w | CWaitB w _ _ => w <=? now
  | CDone => false
  | _ => true
  end.

(* ---------------------------------------------------------------- poll thread: only its calls of
   read_is_connected are followed; nxt = it goes straight into the next read_is_connected.  Its start registers the
   reconnect callback trigger_all (key TRIGGER), which returns True *)
Definition TRIGGER : nat := 99.
Definition after_read (nxt : bool) : ppc := if nxt then QAccess else QIdle.

Definition poll_step (nxt : bool) (s : shared) (p : ppc) : shared * ppc :=
  match p with
  | QNone => (s, QNone)
  | QStart => (set_cbs s (cbs s ++ [(TRIGGER, CbTrue)]), after_read nxt)
  | QIdle => (s, after_read nxt)
  | QAccess => if connected s then (s, after_read nxt) else (set_acc_owner s (Some TP), QConnect)
  | QConnect =>
      let '(refused, s1) := pop_refuse s in
      let s2 := set_acc_owner s1 None in
      (if refused then connect_refused s2 else connect_ok s2, after_read nxt)
  end.

Definition poll_enabled (s : shared) (p : ppc) : bool :=
  match p with QNone => false | QAccess => acc_free s | _ => true end.

Fixpoint set_nth {A} (n : nat) (v : A) (l : list A) : list A :=
  match l, n with
  | [], _ => []
  | _ :: r, O => v :: r
  | x :: r, S n' => x :: set_nth n' v r
  end.

(* a step: thread, virtual time, whether the poll thread continues with another read *)
Definition step (st : state) (x : tid * Z * bool) : state :=
  let '(t, now, nxt) := x in
  match t with
  | TC i => match nth_error (callers st) i with
            | Some c => if caller_enabled i now (sh st) c
                        then let '(s', c') := caller_step i now (sh st) c in
                             {| sh := s'; callers := set_nth i c' (callers st); poll := poll st |}
                        else st
            | None => st
            end
  | TP => if poll_enabled (sh st) (poll st)
          then let '(s', p') := poll_step nxt (sh st) (poll st) in
               {| sh := s'; callers := callers st; poll := p' |}
          else st
  end.

Definition init_shared (rf : list bool) (cb : list (nat * cbkind)) : shared :=
  {| lock_owner := None; lock_cnt := 0; acc_owner := None; connected := false; conn := false; nconn := 0;
     queue := []; rxbuf := []; last_error := false; last_attempt := 0; refuse := rf; cbs := cb; cblog := [];
     ann := []; sendlog := [] |}.

Definition init (progs : list (list op)) (rf : list bool) (cb : list (nat * cbkind)) (poller : bool) : state :=
  {| sh := init_shared rf cb;
     callers := map (fun p => mk CStart [] false [] p []) progs;
     poll := if poller then QStart else QNone |}.

Definition run (st : state) (sched : list (tid * Z * bool)) : state := fold_left step sched st.

End Model.

(* ---------------------------------------------------------------- labels of the synchronisation points *)
Inductive label := LStart | LAccess | LConnect | LLock | LSend | LRecv | LSleep | LWait | LNone.

Definition label_of (st : state) (t : tid) : label :=
  match t with
  | TC i => match nth_error (callers st) i with
            | Some c => match pc c with
                        | CStart => LStart | CAccess => LAccess | CConnect => LConnect
                        | CLockOuter | CLock => LLock | CSend | CSendPre _ => LSend | CRecv _ _ => LRecv
                        | CSleepX _ | CPause _ | CWaitB _ _ _ => LSleep | CDone => LNone end
            | None => LNone end
  | TP => match poll st with
          | QNone => LNone | QStart => LStart | QIdle => LWait | QAccess => LAccess | QConnect => LConnect end
  end.
