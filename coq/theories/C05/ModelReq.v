(* C05 -- request threads: `read` / `change` requests handled by the dispatcher (handle_read / handle_change ->
   _getParameterValue / _setParameterValue).  Such a request is the wrapped read_ / write_ method of the module (the
   job [JOp o] of the concurrent model, with all its park points) followed by the construction of the REPLY:
   `pobj.export_value(), {'t': pobj.timestamp}`, done by the request thread WITHOUT the module's updateLock.  The
   harness puts a scheduler switch inside the datatype's export_value, so a request thread has [n] further park
   points after the job (n = 1 when the wrapper returned, 0 when it raised: no reply is built).

   By the source facts export_value_pure (Parameter.export_value is `return self.datatype.export_value(self.value)`:
   no state is written) and reply_built_from_cache (the reply is built from pobj.export_value() / pobj.timestamp after
   the wrapper call, nothing else is called or assigned) a step from such a park point changes nothing that is shared:
   [rstep] only counts it down.  No proofs here. *)
From Coq Require Import List Arith ZArith Bool.
Import ListNotations.
Require Import FV.C05.Model.

(* per thread: for every job still ahead (the one in progress included) the number of reply park points that follow
   it; the number of reply park points the thread still has to pass before it goes on in the concurrent model *)
Record rthread := { rt_marks : list nat; rt_pend : nat }.
Record rstate := { r_cs : cstate; r_req : list rthread }.

Definition njobs (s : cstate) (i : nat) : nat :=
  match nth_error (cs_thr s) i with Some t => length (t_ops t) | None => 0 end.

(* is the next step of thread i a step of reply building *)
Definition is_reply (s : rstate) (i : nat) : bool :=
  match nth_error (r_req s) i with Some rt => negb (Nat.eqb (rt_pend rt) 0) | None => false end.

Definition rstep (G : config) (F : flags) (s : rstate) (i : nat) : rstate :=
  match nth_error (r_req s) i with
  | None => {| r_cs := cstep G F (r_cs s) i; r_req := r_req s |}
  | Some rt =>
      match rt_pend rt with
      | S n => {| r_cs := r_cs s; r_req := set_nth i {| rt_marks := rt_marks rt; rt_pend := n |} (r_req s) |}
      | O =>
          let c' := cstep G F (r_cs s) i in
          if Nat.ltb (njobs c' i) (njobs (r_cs s) i)       (* the job in progress ended in this step *)
          then {| r_cs := c'; r_req := set_nth i {| rt_marks := tl (rt_marks rt); rt_pend := hd 0 (rt_marks rt) |} (r_req s) |}
          else {| r_cs := c'; r_req := r_req s |}
      end
  end.

Definition rrun (G : config) (F : flags) (s : rstate) (sched : list nat) : rstate := fold_left (rstep G F) sched s.
Definition rinit (s : state) (ss : subs) (progs : list (list job)) (marks : list (list nat)) : rstate :=
  {| r_cs := cinit s ss progs; r_req := map (fun l => {| rt_marks := l; rt_pend := 0 |}) marks |}.
(* no thread is in the middle of a reply *)
Definition r_idle (s : rstate) : bool := forallb (fun rt => Nat.eqb (rt_pend rt) 0) (r_req s).

(* the schedule without the steps of reply building *)
Fixpoint erase (G : config) (F : flags) (s : rstate) (sched : list nat) : list nat :=
  match sched with
  | [] => []
  | i :: r => (if is_reply s i then [] else [i]) ++ erase G F (rstep G F s i) r
  end.
