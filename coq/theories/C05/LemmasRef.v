(* C05 -- refinement: for every schedule, the concurrent run and the sequential reading of its committed actions
   (announce regions and initial values delivered atomically, in the order of their commit points) agree on the
   cache, the clock, the heap, the subscriptions and on every per-(connection, parameter) stream; the only
   difference are the messages threads inside a region still have in hand *)
From Coq Require Import ZArith NArith Bool List Arith Lia.
Import ListNotations.
Require Import FV.Base.Util FV.Base.F64 FV.Base.PyVal FV.C01.Model FV.C05.Model FV.C05.Lemmas FV.C05.LemmasConc
  FV.C05.LemmasAct.

(* the stream of connection k about parameter p, newest first *)
Definition plog (k p : nat) (log : list (nat * msg)) : list (nat * msg) :=
  filter (fun e => Nat.eqb (fst e) k && Nat.eqb (m_p (snd e)) p) log.

(* what thread t still has to hand to connection k about parameter p *)
Definition pend_t (k p : nat) (t : thread) : list (nat * msg) :=
  match t_pk t with
  | KSend m rest => if Nat.eqb (m_p m) p && existsb (Nat.eqb k) rest then [(k, m)] else []
  | KSnap m _ _ =>
      match t_ops t with
      | JConn k' (AActivate _) :: _ => if Nat.eqb k' k && Nat.eqb (m_p m) p then [(k, m)] else []
      | _ => []
      end
  | _ => []
  end.
Definition pend (k p : nat) (thr : list thread) : list (nat * msg) := flat_map (pend_t k p) thr.

Definition set_log (s : state) (l : list (nat * msg)) : state :=
  {| s_cells := s_cells s; s_heap := s_heap s; s_now := s_now s; s_log := l |}.

Definition sim (s : cstate) (q : state * subs) : Prop :=
  exists lq, q = (set_log (cs_st s) lq, cs_subs s) /\
    forall k p, plog k p lq = pend k p (cs_thr s) ++ plog k p (s_log (cs_st s)).

(* ------------------------------------------------------------------ lists *)
Lemma plog_app k p a b : plog k p (a ++ b) = plog k p a ++ plog k p b.
Proof. apply filter_app. Qed.
Lemma plog_rev k p l : plog k p (rev l) = rev (plog k p l).
Proof.
  induction l as [|x l IH]; simpl; auto. rewrite plog_app, IH. simpl.
  destruct (Nat.eqb (fst x) k && Nat.eqb (m_p (snd x)) p); simpl; auto. rewrite app_nil_r; auto.
Qed.
Lemma plog_fanout k p m ks :
  NoDup ks ->
  plog k p (map (fun k' => (k', m)) ks) = if Nat.eqb (m_p m) p && existsb (Nat.eqb k) ks then [(k, m)] else [].
Proof.
  induction ks as [|k0 ks IH]; intros ND; simpl.
  - rewrite andb_false_r; auto.
  - inversion ND; subst. rewrite (IH H2). destruct (Nat.eqb (m_p m) p); simpl.
    2:{ rewrite andb_false_r. reflexivity. }
    rewrite andb_true_r. destruct (Nat.eqb k0 k) eqn:E.
    + apply Nat.eqb_eq in E. subst k0. rewrite Nat.eqb_refl. simpl.
      destruct (existsb (Nat.eqb k) ks) eqn:Ex; auto.
      apply existsb_exists in Ex. destruct Ex as (x & I & Q). apply Nat.eqb_eq in Q. subst x. contradiction.
    + rewrite Nat.eqb_sym, E. simpl. reflexivity.
Qed.

Lemma pend_split (thr : list thread) i t :
  nth_error thr i = Some t ->
  exists l1 l2, thr = l1 ++ t :: l2 /\ length l1 = i /\
    forall t', set_nth i t' thr = l1 ++ t' :: l2.
Proof.
  revert i; induction thr as [|x r IH]; intros [|i] E; simpl in *; try discriminate.
  - inversion E; subst. exists [], r. auto.
  - destruct (IH i E) as (l1 & l2 & -> & L & S). exists (x :: l1), l2. simpl. repeat split; auto.
    intros t'. rewrite S. reflexivity.
Qed.

Lemma pend_same k p thr i t t' :
  nth_error thr i = Some t -> pend_t k p t' = pend_t k p t -> pend k p (set_nth i t' thr) = pend k p thr.
Proof.
  intros E Q. destruct (pend_split thr i t E) as (l1 & l2 & -> & _ & Hs). rewrite Hs.
  unfold pend. rewrite !flat_map_app. simpl. rewrite Q. reflexivity.
Qed.

Lemma flat_map_nil {A B} (f : A -> list B) l : (forall x, In x l -> f x = []) -> flat_map f l = [].
Proof. induction l; simpl; intros H; auto. rewrite (H a), IHl; auto. Qed.

Lemma pend_only k p thr i t t' :
  nth_error thr i = Some t ->
  (forall j tj, j <> i -> nth_error thr j = Some tj -> pend_t k p tj = []) ->
  pend k p thr = pend_t k p t /\ pend k p (set_nth i t' thr) = pend_t k p t'.
Proof.
  intros E O. destruct (pend_split thr i t E) as (l1 & l2 & -> & L & Hs). rewrite Hs.
  assert (E1 : flat_map (pend_t k p) l1 = []).
  { apply flat_map_nil. intros x I. apply In_nth_error in I. destruct I as (j & Ej).
    apply (O j x).
    - assert (j < length l1) by (apply nth_error_Some; congruence). lia.
    - rewrite nth_error_app1; auto. apply nth_error_Some; congruence. }
  assert (E2 : flat_map (pend_t k p) l2 = []).
  { apply flat_map_nil. intros x I. apply In_nth_error in I. destruct I as (j & Ej).
    apply (O (length l1 + S j) x); [lia|].
    rewrite nth_error_app2 by lia. replace (length l1 + S j - length l1) with (S j) by lia. exact Ej. }
  unfold pend. rewrite !flat_map_app. simpl. rewrite E1, E2. simpl. rewrite !app_nil_r. auto.
Qed.

(* a thread that has something in hand for parameter p holds the lock of p's module *)
Lemma pend_t_holds G k p t P :
  wf_thread G t -> pend_t k p t <> [] -> nth_error (g_params G) p = Some P -> holds_U G FK (Some (p_mod P)) t = true.
Proof.
  intros W N EP. unfold pend_t in N.
  destruct (t_pk t) eqn:K; try (exfalso; apply N; reflexivity).
  - destruct (Nat.eqb (m_p m) p) eqn:Q; [|exfalso; apply N; reflexivity]. apply Nat.eqb_eq in Q. subst p.
    apply pend_holds with (m := m); auto. unfold pend_msg. rewrite K. reflexivity.
  - destruct (t_ops t) as [|[o|k' [sc|sc|]] r]; try (exfalso; apply N; reflexivity).
    destruct (Nat.eqb (m_p m) p) eqn:Q; [|exfalso; apply N; rewrite andb_false_r; reflexivity].
    apply Nat.eqb_eq in Q. subst p.
    apply pend_holds with (m := m); auto. unfold pend_msg. rewrite K. reflexivity.
Qed.

Lemma others_empty G s i mo k p :
  wf_cstate G s -> sole G (cs_thr s) i mo -> in_mod G mo p = true ->
  forall j tj, j <> i -> nth_error (cs_thr s) j = Some tj -> pend_t k p tj = [].
Proof.
  intros (_ & W) S I j tj N E. apply in_mod_spec in I. destruct I as (P & EP & <-).
  destruct (pend_t k p tj) eqn:Q; auto. exfalso.
  assert (H : holds_U G FK (Some (p_mod P)) tj = true).
  { apply pend_t_holds with (k := k) (p := p); eauto. rewrite Q. discriminate. }
  rewrite (S j tj E N) in H. discriminate.
Qed.

Lemma pend_t_quiet k p t : quiet_pk (t_pk t) = true -> pend_t k p t = [].
Proof. unfold pend_t. destruct (t_pk t); simpl; auto; discriminate. Qed.
Lemma pend_t_noparam k p t : (forall m, pend_msg t = Some m -> m_p m <> p) -> pend_t k p t = [].
Proof.
  unfold pend_t, pend_msg. destruct (t_pk t); auto; intros H.
  - specialize (H m eq_refl). apply Nat.eqb_neq in H. rewrite H. reflexivity.
  - specialize (H m eq_refl). apply Nat.eqb_neq in H. rewrite H.
    destruct (t_ops t) as [|[o|k' [sc|sc|]] r]; auto. rewrite andb_false_r. reflexivity.
Qed.

(* ------------------------------------------------------------------ the announce region does not look at the streams *)
Lemma ann_region_set_log G ks P o inp st lq :
  ann_region G ks P o inp (set_log st lq) =
  (set_log (fst (fst (ann_region G ks P o inp st))) lq, snd (fst (ann_region G ks P o inp st)),
   snd (ann_region G ks P o inp st)).
Proof.
  unfold ann_region, apply_funnel_with, tick, set_log. simpl.
  destruct (Z.eqb (explicit_ts o) 0); simpl;
    (destruct (nth_error (s_cells st) (o_p o)); [|reflexivity]);
    (destruct (funnel _ _ _ _ _) as [c' emit]); destruct (emit && exported P); reflexivity.
Qed.
Lemma ann_region_log G ks P o inp st : s_log (fst (fst (ann_region G ks P o inp st))) = s_log st.
Proof.
  pose proof (ann_region_spec G ks P o inp st) as R. destruct (nth_error (s_cells st) (o_p o)).
  - destruct R as (ts0 & c' & emit & s' & _ & _ & _ & L & ->). exact L.
  - destruct R as (s' & -> & _ & _ & L). exact L.
Qed.

(* ------------------------------------------------------------------ the simulation *)
Lemma sim_update k p thr i t t' lq ls Xs Ys :
  nth_error thr i = Some t ->
  plog k p lq = pend k p thr ++ plog k p ls ->
  (plog k p Xs = [] /\ plog k p Ys = [] /\ pend_t k p t' = pend_t k p t) \/
  ((forall j tj, j <> i -> nth_error thr j = Some tj -> pend_t k p tj = []) /\
     plog k p Xs ++ pend_t k p t = pend_t k p t' ++ plog k p Ys) ->
  plog k p (Xs ++ lq) = pend k p (set_nth i t' thr) ++ plog k p (Ys ++ ls).
Proof.
  intros Et PL [(A & B & C)|(O & E)]; rewrite !plog_app.
  - rewrite A, B, (pend_same k p thr i t t' Et C). exact PL.
  - destruct (pend_only k p thr i t t' Et O) as (Q1 & Q2). rewrite PL, Q1, Q2.
    rewrite app_assoc, E, <- app_assoc. reflexivity.
Qed.

Lemma deliver_all_set_log s ks m : forall l,
  deliver_all (set_log s l) ks m = set_log s (rev (map (fun k => (k, m)) ks) ++ l).
Proof.
  unfold deliver_all. induction ks as [|k ks IH]; intros l; simpl; auto.
  change (deliver (set_log s l) k m) with (set_log s ((k, m) :: l)). rewrite IH, <- app_assoc. reflexivity.
Qed.

Lemma heap_acts_sim G acts st lq ss :
  (forall a, In a acts -> exists P o, a = AHeap P o) ->
  arun G acts (set_log st lq, ss) = (set_log (fst (eff G acts (st, ss))) lq, snd (eff G acts (st, ss))).
Proof.
  unfold arun, eff. revert st; induction acts as [|a r IH]; intros st H; simpl; auto.
  destruct (H a (or_introl eq_refl)) as (P & o & ->). simpl.
  change (set_heap (set_log st lq) (fst (pre P (s_heap st) o))) with (set_log (set_heap st (fst (pre P (s_heap st) o))) lq).
  apply IH. intros; apply H; right; auto.
Qed.

Lemma cstep_cases_tr G s i :
  wf_cstate G s ->
  (cs_st (cstep G FK s i) = cs_st s /\ cs_subs (cstep G FK s i) = cs_subs s /\ cs_thr (cstep G FK s i) = cs_thr s /\
   cacts G FK s i = [])
  \/ exists t acts t', nth_error (cs_thr s) i = Some t /\
       skind G (cs_st s) (cs_subs s) (cs_thr s) i t acts t' /\ wf_thread G t /\
       cs_thr (cstep G FK s i) = set_nth i t' (cs_thr s) /\
       cs_st (cstep G FK s i) = fst (eff G acts (cs_st s, cs_subs s)) /\
       cs_subs (cstep G FK s i) = snd (eff G acts (cs_st s, cs_subs s)) /\
       cacts G FK s i = acts.
Proof.
  intros (_ & W). unfold cstep, cacts. destruct (nth_error (cs_thr s) i) as [t|] eqn:Et; [|left; auto].
  destruct (tstep G FK (cs_st s) (cs_subs s) (cs_thr s) i t) as [[acts t']|] eqn:Es; [|left; auto].
  right. exists t, acts, t'. simpl. split; [reflexivity|]. split; [|split; [eauto|repeat split; auto]].
  apply tstep_kind; auto. intros m k n E. specialize (W i t Et). unfold wf_thread in W. rewrite E in W. exact W.
Qed.

Lemma pend_t_park_quiet k p t pk : quiet_pk pk = true -> pend_t k p (park_at t pk) = [].
Proof. intros Q. apply pend_t_quiet. exact Q. Qed.
Lemma pend_t_finish G k p t : pend_t k p (finish_op G FK t) = [].
Proof. apply pend_t_quiet, idle_quiet, finish_idle. Qed.

(* the three outcomes of snap_next, seen from both readings *)
Lemma sim_snap_next G s i t k0 sc r mo ps ms Ys lq :
  wf_cstate G s -> nth_error (cs_thr s) i = Some t -> t_ops t = JConn k0 (AActivate sc) :: r ->
  Forall (fun q => in_mod G mo q = true) ps -> sole G (cs_thr s) i mo ->
  (forall k p, plog k p lq = pend k p (cs_thr s) ++ plog k p (s_log (cs_st s))) ->
  (* Ys: what this step itself hands over (the message the thread had in hand, if any) *)
  (forall k p, (in_mod G mo p = false -> plog k p Ys = [] /\ pend_t k p t = []) /\
               (in_mod G mo p = true -> pend_t k p t = plog k p Ys)) ->
  let st1 := set_log (cs_st s) (Ys ++ s_log (cs_st s)) in
  exists lq', arun G (fst (snap_next G FK st1 t k0 ps ms)) (set_log (cs_st s) lq, cs_subs s)
              = (set_log (cs_st s) lq', cs_subs s) /\
    forall k p, plog k p lq' = pend k p (set_nth i (snd (snap_next G FK st1 t k0 ps ms)) (cs_thr s))
                               ++ plog k p (Ys ++ s_log (cs_st s)).
Proof.
  intros W Et O Fa So PL HY st1.
  assert (Oth : forall k p, in_mod G mo p = true ->
            forall j tj, j <> i -> nth_error (cs_thr s) j = Some tj -> pend_t k p tj = []).
  { intros k p I. eapply others_empty; eauto. }
  destruct (snap_next_cases G st1 t k0 ps ms) as [(q & ps' & P & c & -> & EP & EC & ->)|[(-> & N & ->)|(-> & _)]]; simpl.
  - (* the next initial value is built: the sequential reading delivers it now *)
    unfold arun; simpl. unfold render_at. simpl in EC |- *. rewrite EC. simpl.
    exists ((k0, render G (s_heap (cs_st s)) P q c) :: lq). split; [reflexivity|].
    intros k p. change ((k0, render G (s_heap (cs_st s)) P q c) :: lq) with ([(k0, render G (s_heap (cs_st s)) P q c)] ++ lq).
    apply sim_update with (t := t); auto.
    inversion Fa; subst.
    destruct (in_mod G mo p) eqn:I.
    + right. split; [apply Oth; auto|]. destruct (HY k p) as (_ & HY2). rewrite (HY2 I).
      unfold pend_t at 1; simpl. rewrite O. simpl.
      destruct (Nat.eqb k0 k && Nat.eqb q p) eqn:Hit; simpl; auto.
      apply andb_prop in Hit. destruct Hit as [Hk _]. apply Nat.eqb_eq in Hk. subst k0. reflexivity.
    + left. destruct (HY k p) as (HY1 & _). destruct (HY1 I) as (A & B).
      assert (Q : Nat.eqb q p = false).
      { apply Nat.eqb_neq. intros ->. congruence. }
      simpl. rewrite Q, andb_false_r. repeat split; auto.
      rewrite B. unfold pend_t; simpl. rewrite O. simpl. rewrite Q, andb_false_r. reflexivity.
  - exists lq. split; [reflexivity|]. intros k p. change lq with ([] ++ lq).
    apply sim_update with (t := t); auto.
    destruct (in_mod G mo p) eqn:I.
    + right. split; [apply Oth; auto|]. destruct (HY k p) as (_ & HY2). rewrite (HY2 I).
      change (pend_t k p (park_at t (KAcqS ms))) with (@nil (nat * msg)). reflexivity.
    + left. destruct (HY k p) as (HY1 & _). destruct (HY1 I) as (A & B).
      change (pend_t k p (park_at t (KAcqS ms))) with (@nil (nat * msg)). auto.
  - exists lq. split; [reflexivity|]. intros k p. change lq with ([] ++ lq).
    apply sim_update with (t := t); auto.
    destruct (in_mod G mo p) eqn:I.
    + right. split; [apply Oth; auto|]. destruct (HY k p) as (_ & HY2). rewrite (HY2 I).
      rewrite pend_t_finish. reflexivity.
    + left. destruct (HY k p) as (HY1 & _). destruct (HY1 I) as (A & B).
      rewrite pend_t_finish. auto.
Qed.

Lemma snap_next_ext G a b t k ps ms :
  s_cells a = s_cells b -> s_heap a = s_heap b -> snap_next G FK a t k ps ms = snap_next G FK b t k ps ms.
Proof. unfold snap_next, render_at. intros -> ->. reflexivity. Qed.

Lemma cstep_sim G s q i :
  wf_cstate G s -> exclusive G (cs_thr s) -> sim s q -> sim (cstep G FK s i) (arun G (cacts G FK s i) q).
Proof.
  intros W X (lq & -> & PL).
  destruct (cstep_cases_tr G s i W) as [(A & B & C & D)|(t & acts & t' & Et & K & Wt & Thr & St & Ss & Ca)].
  { rewrite D. exists lq. rewrite A, B, C. auto. }
  rewrite Ca. unfold sim. rewrite Thr, St, Ss. clear Thr St Ss Ca.
  destruct K as [acts t' HA HI HQ | o r inp O K Oth | o r inp P O EP HK | m k0 rest K | k0 a r O K | k0 sc r O K
                 | k0 sc r m ms O K Oth | k0 sc r m ps ms O K].
  - (* heap only *)
    rewrite heap_acts_sim by auto. exists lq. split; auto.
    destruct (heap_acts_frame G acts (cs_st s, cs_subs s) HA) as (_ & B & _). simpl in B. rewrite B.
    intros k p. rewrite (pend_same k p _ i t t' Et); auto.
    rewrite !pend_t_quiet; auto. apply idle_quiet; auto.
  - exists lq. split; auto. simpl. intros k p. rewrite (pend_same k p _ i t _ Et); auto.
    unfold pend_t; simpl. rewrite K. reflexivity.
  - (* an announce region commits: the sequential reading serves every listener at once *)
    unfold arun, eff; simpl. unfold ann_atomic. rewrite ann_region_set_log.
    unfold do_funnel; simpl.
    pose proof (ann_region_log G (dlisteners G (cs_subs s) (o_p o)) P o inp (cs_st s)) as LG.
    pose proof (ann_region_spec G (dlisteners G (cs_subs s) (o_p o)) P o inp (cs_st s)) as R.
    assert (Pt : forall k p, pend_t k p t = []).
    { intros k p. unfold pend_t. destruct HK as [Q|(Q & _)]; rewrite Q; reflexivity. }
    assert (So : sole G (cs_thr s) i (p_mod P)) by (eapply fun_sole; eauto).
    assert (IM : in_mod G (p_mod P) (o_p o) = true) by (apply in_mod_spec; eauto).
    destruct (nth_error (s_cells (cs_st s)) (o_p o)) as [c0|] eqn:EC.
    + destruct R as (ts0 & c' & emit & s' & _ & _ & _ & _ & R). rewrite R in *. simpl in *.
      pose proof (dlisteners_nodup G (cs_subs s) (o_p o)) as ND.
      destruct (emit && exported P).
      * rewrite deliver_all_set_log. eexists; split; [reflexivity|].
        intros k p. rewrite <- (app_nil_l (s_log s')). rewrite LG.
        apply sim_update with (t := t); auto.
        rewrite plog_rev, plog_fanout by auto. rewrite Pt, app_nil_r. simpl.
        set (m := render G (s_heap (cs_st s)) P (o_p o) c').
        assert (E : pend_t k p match dlisteners G (cs_subs s) (o_p o) with
                               | [] => finish_op G FK t
                               | k1 :: ks => park_at t (KSend m (k1 :: ks))
                               end
                    = if Nat.eqb (m_p m) p && existsb (Nat.eqb k) (dlisteners G (cs_subs s) (o_p o)) then [(k, m)] else []).
        { destruct (dlisteners G (cs_subs s) (o_p o)); [rewrite pend_t_finish; simpl; rewrite andb_false_r|]; reflexivity. }
        rewrite E. change (m_p m) with (o_p o).
        destruct (Nat.eqb (o_p o) p && existsb (Nat.eqb k) (dlisteners G (cs_subs s) (o_p o))) eqn:Hit.
        -- right. split; [|rewrite app_nil_r; reflexivity].
           apply andb_prop in Hit. destruct Hit as [Q _]. apply Nat.eqb_eq in Q. subst p.
           eapply others_empty; eauto.
        -- left. auto.
      * eexists; split; [reflexivity|]. intros k p. rewrite LG.
        rewrite (pend_same k p _ i t _ Et); auto. rewrite pend_t_finish, Pt. reflexivity.
    + destruct R as (s' & R & _). rewrite R in *. simpl in *.
      eexists; split; [reflexivity|]. intros k p. rewrite LG.
      rewrite (pend_same k p _ i t _ Et); auto. rewrite pend_t_finish, Pt. reflexivity.
  - (* one send_reply: nothing happens in the sequential reading *)
    unfold arun, eff; simpl. exists lq. split; [reflexivity|].
    intros k p. change lq with ([] ++ lq).
    replace (if Nat.eqb k0 k && Nat.eqb (m_p m) p then (k0, m) :: plog k p (s_log (cs_st s)) else plog k p (s_log (cs_st s)))
      with (plog k p ([(k0, m)] ++ s_log (cs_st s))) by reflexivity.
    apply sim_update with (t := t); auto.
    pose proof Wt as Wt'. unfold wf_thread in Wt'. rewrite K in Wt'.
    destruct Wt' as ((o & r & P & O & Q & EP) & ND). inversion ND; subst.
    assert (E' : forall rest', pend_t k p (match rest' with [] => finish_op G FK t | _ :: _ => park_at t (KSend m rest') end)
                 = if Nat.eqb (m_p m) p && existsb (Nat.eqb k) rest' then [(k, m)] else []).
    { intros [|k1 r1]; [rewrite pend_t_finish; simpl; rewrite andb_false_r|]; reflexivity. }
    rewrite E'.
    assert (Et' : pend_t k p t = if Nat.eqb (m_p m) p && existsb (Nat.eqb k) (k0 :: rest) then [(k, m)] else [])
      by (unfold pend_t; rewrite K; reflexivity).
    rewrite Et'. simpl.
    destruct (Nat.eqb (m_p m) p) eqn:Hp; simpl.
    + right. apply Nat.eqb_eq in Hp. split.
      * eapply others_empty with (mo := p_mod P); eauto.
        -- eapply exclusive_sole; eauto. apply pend_holds with (m := m); auto; [unfold pend_msg; rewrite K; auto|congruence].
        -- apply in_mod_spec. exists P. split; congruence.
      * rewrite andb_true_r. destruct (Nat.eqb k k0) eqn:Hk.
        -- apply Nat.eqb_eq in Hk. subst k0. rewrite Nat.eqb_refl. simpl.
           destruct (existsb (Nat.eqb k) rest) eqn:Ex; auto.
           apply existsb_exists in Ex. destruct Ex as (x & I & Qx). apply Nat.eqb_eq in Qx. subst x. contradiction.
        -- rewrite Nat.eqb_sym, Hk. simpl. rewrite app_nil_r. reflexivity.
    + left. rewrite andb_false_r. auto.
  - (* deactivation / removal *)
    unfold arun, eff; simpl. exists lq. split; auto. intros k p. rewrite (pend_same k p _ i t _ Et); auto.
    rewrite pend_t_finish. unfold pend_t. rewrite K. reflexivity.
  - (* registration *)
    unfold arun, eff; simpl. exists lq. split; auto. intros k p. rewrite (pend_same k p _ i t _ Et); auto.
    unfold pend_t at 2. rewrite K.
    destruct (scope_mods G sc); [apply pend_t_finish|reflexivity].
  - (* handle_activate takes the lock of a module *)
    rewrite eff_snap_next. simpl.
    rewrite (snap_next_ext G (cs_st s) (set_log (cs_st s) ([] ++ s_log (cs_st s)))) by reflexivity.
    destruct (sim_snap_next G s i t k0 sc r m (snap_params G sc m) ms [] lq) as (lq' & E1 & E2); auto.
    + apply Forall_forall. intros q Hq. apply snap_params_in in Hq; tauto.
    + apply other_sole; auto.
    + intros k' p. unfold pend_t. rewrite K. auto.
    + exists lq'. split; auto.
  - (* send_reply of an initial value, then the next one is built *)
    unfold eff; simpl. change (fold_left (fun x a => ceff G a x) ?a ?x) with (eff G a x).
    rewrite eff_snap_next. simpl. unfold arun; simpl. change (fold_left (fun x a => aeff G a x) ?a ?x) with (arun G a x).
    pose proof Wt as Wt'. unfold wf_thread in Wt'. rewrite K, O in Wt'.
    destruct Wt' as (k1 & sc1 & r1 & mo & _ & Im & Fa).
    change (deliver (cs_st s) k0 m) with (set_log (cs_st s) ([(k0, m)] ++ s_log (cs_st s))).
    destruct (sim_snap_next G s i t k0 sc r mo ps ms [(k0, m)] lq) as (lq' & E1 & E2); auto.
    + eapply exclusive_sole; eauto. unfold holds_U. rewrite K. simpl. rewrite (in_mod_msg_mod G mo m Im). simpl.
      apply Nat.eqb_refl.
    + intros k' p. unfold pend_t. rewrite K, O. simpl. split.
      * intros I. assert (Q : Nat.eqb (m_p m) p = false) by (apply Nat.eqb_neq; intros <-; congruence).
        rewrite Q, !andb_false_r. auto.
      * intros _. destruct (Nat.eqb k0 k' && Nat.eqb (m_p m) p) eqn:Hit; auto.
        apply andb_prop in Hit. destruct Hit as [Hk _]. apply Nat.eqb_eq in Hk. subst k'. reflexivity.
    + exists lq'. split; auto.
Qed.

(* ------------------------------------------------------------------ every schedule *)
Lemma arun_app G a b x : arun G (a ++ b) x = arun G b (arun G a x).
Proof. unfold arun. apply fold_left_app. Qed.

Theorem crun_sim G sched : forall s q,
  wf_cstate G s -> exclusive G (cs_thr s) -> sim s q ->
  sim (crun G FK s sched) (arun G (ctrace G FK s sched) q).
Proof.
  induction sched as [|i r IH]; intros s q W X S; simpl; auto.
  rewrite arun_app. apply IH; [apply cstep_wf|apply cstep_exclusive|apply cstep_sim]; auto.
Qed.

Lemma sim_init st ss progs : sim (cinit st ss progs) (st, ss).
Proof.
  exists (s_log st). split; [destruct st; reflexivity|]. intros k p. simpl.
  assert (E : pend k p (map (fun ops => {| t_ops := ops; t_pk := KStart |}) progs) = []).
  { unfold pend. apply flat_map_nil. intros x I. apply in_map_iff in I. destruct I as (ops & <- & _). reflexivity. }
  rewrite E. reflexivity.
Qed.

(* the stream of connection k about parameter p, oldest first *)
Definition pstream (k p : nat) (s : state) : list msg := filter (fun m => Nat.eqb (m_p m) p) (msgs_of k s).

Lemma filter_rev {A} (f : A -> bool) l : filter f (rev l) = rev (filter f l).
Proof.
  induction l as [|x l IH]; simpl; auto. rewrite filter_app, IH. simpl. destruct (f x); simpl; auto. apply app_nil_r.
Qed.
Lemma pstream_plog k p s : pstream k p s = rev (map snd (plog k p (s_log s))).
Proof.
  unfold pstream, msgs_of, plog. rewrite filter_rev. f_equal.
  induction (s_log s) as [|[k' m] l IH]; simpl; auto.
  destruct (Nat.eqb k' k); simpl; auto. destruct (Nat.eqb (m_p m) p); simpl; auto. f_equal; auto.
Qed.
Lemma latest_plog k p log : latest k p log = option_map snd (hd_error (plog k p log)).
Proof.
  induction log as [|[k' m] l IH]; simpl; auto. destruct (Nat.eqb k' k && Nat.eqb (m_p m) p); simpl; auto.
Qed.

Lemma quiet_pend s k p : quiet s = true -> pend k p (cs_thr s) = [].
Proof.
  unfold quiet. intros Q. rewrite forallb_forall in Q. unfold pend. apply flat_map_nil. intros t I.
  specialize (Q t I). unfold pend_t, in_flight in *. destruct (t_pk t); simpl in *; auto; discriminate.
Qed.

(* for every schedule: cache, clock, heap and subscriptions are those of the sequential reading of the committed
   actions; the per-parameter streams differ exactly by what threads inside a region have in hand -- nothing at a
   quiescent point *)
Theorem concurrent_refinement G st ss progs sched :
  length (s_cells st) = length (g_params G) ->
  let r := crun G FK (cinit st ss progs) sched in
  let q := arun G (ctrace G FK (cinit st ss progs) sched) (st, ss) in
  s_cells (cs_st r) = s_cells (fst q) /\ s_heap (cs_st r) = s_heap (fst q) /\ s_now (cs_st r) = s_now (fst q) /\
  cs_subs r = snd q /\
  (forall k p, plog k p (s_log (fst q)) = pend k p (cs_thr r) ++ plog k p (s_log (cs_st r))) /\
  (quiet r = true -> forall k p, pstream k p (cs_st r) = pstream k p (fst q) /\
                                 replay p (msgs_of k (cs_st r)) = replay p (msgs_of k (fst q))).
Proof.
  intros L r q.
  destruct (crun_sim G sched _ _ (cinit_wf G st ss progs L) (cinit_exclusive G st ss progs) (sim_init st ss progs))
    as (lq & E & PL).
  fold r in E, PL. fold q in E. rewrite E. simpl.
  split; [|split; [|split; [|split; [|split]]]]; auto.
  intros Q k p. specialize (PL k p). rewrite (quiet_pend r k p Q) in PL. simpl in PL.
  rewrite !pstream_plog, !replay_latest, !latest_plog. simpl. rewrite PL. auto.
Qed.

(* ------------------------------------------------------------------ the sequential reading and the sequential model *)
Lemma dlisteners_from_subs0 G p cs : forall k,
  dlisteners_from G p k (map (fun sc => [sc]) cs) = listeners_from G p k cs.
Proof.
  induction cs as [|sc r IH]; intros k; simpl; auto. unfold sub_covers; simpl. rewrite orb_false_r, IH. reflexivity.
Qed.
Lemma dlisteners_subs0 G p : dlisteners G (subs0 G) p = listeners G p.
Proof. apply dlisteners_from_subs0. Qed.

(* a driver operation whose two actions (wrapper prologue, announce region) are adjacent is one [step] of the
   sequential model, as long as the subscriptions are those of the configuration *)
Theorem step_as_actions G s o P :
  nth_error (g_params G) (o_p o) = Some P ->
  arun G (AHeap P o :: match snd (pre P (s_heap s) o) with Some inp => [AFun P o inp] | None => [] end) (s, subs0 G)
  = (step G s o, subs0 G).
Proof.
  intros EP. unfold step. rewrite EP. destruct (pre P (s_heap s) o) as [h1 [inp|]] eqn:E; unfold arun; simpl; auto.
  - rewrite dlisteners_subs0, E. reflexivity.
  - rewrite E. reflexivity.
Qed.
