(* C05 -- parameter callbacks (Module.addCallback / Module.registerCallbacks / the callback loop of
   Module.announceUpdate, frappy/modulebase.py).  Executable model, no proofs.

     pobj.timestamp = ...; pobj.readerror = err
     for cbfunc, cbargs in self.paramCallbacks[pname]:
         try: cbfunc( *cbargs, *value_err )
         except Exception: pass
     if pobj.export: self.updateCallback(self, pobj)

   The callbacks run after the store and before the notification; what a callback does in one invocation is a
   script: it returns, raises an exception of some type, or calls announceUpdate of a module (a nested funnel, which
   runs the callbacks registered on its own parameter, and so on: a finite tree).  A callback registered by
   registerCallbacks with autoupdate is the bound method <follower>.announceUpdate(<pname>, value [, err]).
   [caught] is the class named in the except clause as the translator read it ("Exception" on the pinned tree). *)
From Coq Require Import ZArith NArith Bool List Arith.
Import ListNotations.
Require Import FV.Base.Util FV.Base.F64 FV.Base.PyVal FV.C01.Model FV.C05.Model.

Definition s_exception : str := [69%N;120%N;99%N;101%N;112%N;116%N;105%N;111%N;110%N].      (* "Exception" *)
Definition s_typeerror : str := [84%N;121%N;112%N;101%N;69%N;114%N;114%N;111%N;114%N].      (* "TypeError" *)
Definition s_keyerror : str := [75%N;101%N;121%N;69%N;114%N;114%N;111%N;114%N].             (* "KeyError" *)

(* "except <caught>:" handles an exception whose class is named tn (the scripted exceptions are builtin classes
   deriving from Exception; no other hierarchy is modelled) *)
Definition swallows (caught tn : str) : bool := str_eqb caught s_exception || str_eqb caught tn.

(* the callbacks registered on one parameter, in registration order, with what each does in this invocation.
   strict = the callable accepts the value only (update_<p>(self, value)): called with (value, err) python raises
   TypeError before the body runs. *)
Inductive cbs :=
| CNil
| CRet (strict : bool) (r : cbs)                                   (* returns *)
| CRaise (strict : bool) (tn : str) (r : cbs)                      (* raises an exception of class tn *)
| CAnn (strict : bool) (q : nat) (v : pyval) (x : option pyexc) (ts dt : Z) (cx : cxd)
       (sub : cbs) (after : option str) (r : cbs)                  (* calls announceUpdate(<q>, v, x, ts) of the module
                                                                      owning q; sub = the callbacks of q in that
                                                                      invocation; then returns / raises [after] *)
| CAuto (q : nat) (dt : Z) (cx : cxd) (sub : cbs) (r : cbs).       (* <follower>.announceUpdate(<pname>, value [, err]) *)

Definition ann_op (q : nat) (v : pyval) (x : option pyexc) (ts dt : Z) (cx : cxd) : op :=
  {| o_p := q; o_k := KAnnounce v x ts; o_dt := dt; o_cx := cx |}.
(* value_err = (value,) or (value, err) of the entry just stored; err is the error object itself *)
Definition eobj_exc (e : eobj) : pyexc := XSecop (e_cls e) (e_msg e) (e_oid e).
Definition auto_op (pc : cell) (q : nat) (dt : Z) (cx : cxd) : op :=
  ann_op q (c_val pc) (option_map eobj_exc (c_err pc)) 0 dt cx.

(* announceUpdate up to the store: clock, funnel, store.  Some c' = the callback loop is reached, c' = the entry
   just stored; None = one of the two suppressing returns *)
Definition region_store (G : config) (P : pcfg) (o : op) (inp : finput) (s : state) : state * option cell :=
  let s2 := if Z.eqb (explicit_ts o) 0 then tick s (o_dt o) else s in
  let ts := if Z.eqb (explicit_ts o) 0 then s_now s2 else explicit_ts o in
  match nth_error (s_cells s2) (o_p o) with
  | None => (s2, None)
  | Some c =>
      let '(c', emit) := funnel P c inp (o_cx o) ts in
      ({| s_cells := set_nth (o_p o) c' (s_cells s2); s_heap := s_heap s2; s_now := s_now s2; s_log := s_log s2 |},
       if emit then Some c' else None)
  end.

(* self.updateCallback(self, pobj): make_update reads the entry the cache holds now *)
Definition notify (G : config) (P : pcfg) (p : nat) (s : state) : state :=
  match nth_error (s_cells s) p with
  | Some c => deliver_all s (listeners G p) (render G (s_heap s) P p c)
  | None => s
  end.

(* one call of the (wrapped) operation o: prologue, store, callback loop K, notification.  The second component is
   the class name of an exception leaving announceUpdate (an unknown parameter name is a KeyError) *)
Definition ann_k (G : config) (K : cell -> state -> state * option str) (s : state) (o : op) : state * option str :=
  match nth_error (g_params G) (o_p o) with
  | None => (s, Some s_keyerror)
  | Some P =>
      let '(h1, fi) := pre P (s_heap s) o in
      let s1 := set_heap s h1 in
      match fi with
      | None => (s1, None)
      | Some inp =>
          match region_store G P o inp s1 with
          | (s3, None) => (s3, None)
          | (s3, Some c') =>
              match K c' s3 with
              | (s4, Some tn) => (s4, Some tn)                   (* leaves the loop: no notification *)
              | (s4, None) => ((if exported P then notify G P (o_p o) s4 else s4), None)
              end
          end
      end
  end.

(* the callback loop; pc = the entry whose value / error the callbacks are given *)
Fixpoint run_cbs (G : config) (caught : str) (c : cbs) (pc : cell) (s : state) {struct c} : state * option str :=
  match c with
  | CNil => (s, None)
  | CRet st r =>
      if st && is_some (c_err pc) && negb (swallows caught s_typeerror) then (s, Some s_typeerror)
      else run_cbs G caught r pc s
  | CRaise st tn r =>
      let tn' := if st && is_some (c_err pc) then s_typeerror else tn in
      if swallows caught tn' then run_cbs G caught r pc s else (s, Some tn')
  | CAnn st q v x ts dt cx sub after r =>
      if st && is_some (c_err pc)
      then (if swallows caught s_typeerror then run_cbs G caught r pc s else (s, Some s_typeerror))
      else
        let '(s', esc) := ann_k G (run_cbs G caught sub) s (ann_op q v x ts dt cx) in
        match (match esc with Some tn => Some tn | None => after end) with
        | Some tn => if swallows caught tn then run_cbs G caught r pc s' else (s', Some tn)
        | None => run_cbs G caught r pc s'
        end
  | CAuto q dt cx sub r =>
      let '(s', esc) := ann_k G (run_cbs G caught sub) s (auto_op pc q dt cx) in
      match esc with
      | Some tn => if swallows caught tn then run_cbs G caught r pc s' else (s', Some tn)
      | None => run_cbs G caught r pc s'
      end
  end.

(* a driver operation with the scripts of the callbacks registered on its parameter *)
Definition step_cb (G : config) (caught : str) (s : state) (oc : op * cbs) : state :=
  fst (ann_k G (run_cbs G caught (snd oc)) s (fst oc)).
Definition run_cb (G : config) (caught : str) (s : state) (ocs : list (op * cbs)) : state :=
  fold_left (step_cb G caught) ocs s.

(* callbacks that only return or raise *)
Fixpoint cbs_flat (c : cbs) : bool :=
  match c with
  | CNil => true
  | CRet _ r | CRaise _ _ r => cbs_flat r
  | _ => false
  end.
(* no announcement anywhere in the tree is about parameter p *)
Fixpoint cbs_avoid (p : nat) (c : cbs) : bool :=
  match c with
  | CNil => true
  | CRet _ r | CRaise _ _ r => cbs_avoid p r
  | CAnn _ q _ _ _ _ _ sub _ r | CAuto q _ _ sub r => negb (Nat.eqb q p) && cbs_avoid p sub && cbs_avoid p r
  end.

(* ------------------------------------------------------------------ registration *)
Inductive cbkind := CKFun (strict : bool) | CKAuto (q : nat) | CKBad.
Inductive reg :=
| RAdd (p : nat) (strict : bool)                 (* <module of p>.addCallback(<p>, f, ...args) *)
| RFollow (src dst : nat) (upd : list (str * bool)) (auto : list str).
    (* <src>.registerCallbacks(<dst>, autoupdate=auto); upd = the update_<name> methods <dst> has (name, strict) *)

Fixpoint find_param_from (ps : list pcfg) (i m : nat) (n : str) : option nat :=
  match ps with
  | [] => None
  | P :: r => if Nat.eqb (p_mod P) m && str_eqb (p_name P) n then Some i else find_param_from r (S i) m n
  end.
Definition find_param (G : config) (m : nat) (n : str) : option nat := find_param_from (g_params G) 0 m n.

(* registerCallbacks: for pname in self.parameters: update_<pname> of the follower if it has one, else its
   announceUpdate when pname is in autoupdate *)
Definition reg_cbs (G : config) (p : nat) (P : pcfg) (r : reg) : list cbkind :=
  match r with
  | RAdd p' st => if Nat.eqb p' p then [CKFun st] else []
  | RFollow src dst upd auto =>
      if Nat.eqb (p_mod P) src then
        match assoc_str (p_name P) upd with
        | Some st => [CKFun st]
        | None =>
            if existsb (str_eqb (p_name P)) auto
            then [match find_param G dst (p_name P) with Some q => CKAuto q | None => CKBad end]
            else []
        end
      else []
  end.
Definition callbacks_of (G : config) (rs : list reg) (p : nat) : list cbkind :=
  match nth_error (g_params G) p with Some P => flat_map (reg_cbs G p P) rs | None => [] end.

Definition cbkind_eqb (a b : cbkind) : bool :=
  match a, b with
  | CKFun x, CKFun y => Bool.eqb x y
  | CKAuto x, CKAuto y => Nat.eqb x y
  | _, _ => false
  end.

(* a script tree has the shape the registrations dictate *)
Fixpoint cbs_wf (R : nat -> list cbkind) (ks : list cbkind) (c : cbs) {struct c} : bool :=
  match c, ks with
  | CNil, [] => true
  | CRet st r, CKFun st' :: ks' => Bool.eqb st st' && cbs_wf R ks' r
  | CRaise st _ r, CKFun st' :: ks' => Bool.eqb st st' && cbs_wf R ks' r
  | CAnn st q _ _ _ _ _ sub _ r, CKFun st' :: ks' => Bool.eqb st st' && cbs_wf R (R q) sub && cbs_wf R ks' r
  | CAuto q _ _ sub r, CKAuto q' :: ks' => Nat.eqb q q' && cbs_wf R (R q) sub && cbs_wf R ks' r
  | _, _ => false
  end.

(* the operations of a thread program with their scripts (missing scripts = no callbacks) *)
Fixpoint zip_cbs (js : list job) (cs : list cbs) : list (op * cbs) :=
  match js with
  | [] => []
  | JOp o :: r => (o, hd CNil cs) :: zip_cbs r (tl cs)
  | JConn _ _ :: r => zip_cbs r (tl cs)
  end.
