(* C05 -- invariants of the sequential funnel model *)
From Coq Require Import ZArith NArith Bool List Arith Lia.
Import ListNotations.
Require Import FV.Base.Util FV.Base.F64 FV.Base.PyVal FV.C01.Model FV.C05.Model.

(* ------------------------------------------------------------------ list helpers *)
Lemma nth_set_nth_eq {A} n (x : A) l y : nth_error l n = Some y -> nth_error (set_nth n x l) n = Some x.
Proof. revert n; induction l; intros [|n] H; simpl in *; try discriminate; auto. Qed.
Lemma nth_set_nth_neq {A} n m (x : A) l : n <> m -> nth_error (set_nth n x l) m = nth_error l m.
Proof. revert n m; induction l; intros [|n] [|m] H; simpl; auto; try congruence. Qed.
Lemma set_nth_length {A} n (x : A) l : length (set_nth n x l) = length l.
Proof. revert n; induction l; intros [|n]; simpl; auto. Qed.

(* ------------------------------------------------------------------ the newest message of (connection, parameter) *)
Fixpoint latest (k p : nat) (log : list (nat * msg)) : option msg :=
  match log with
  | [] => None
  | (k', m) :: r => if Nat.eqb k' k && Nat.eqb (m_p m) p then Some m else latest k p r
  end.

Lemma last_msg_app p l a acc :
  last_msg p (l ++ [a]) acc = if Nat.eqb (m_p a) p then Some a else last_msg p l acc.
Proof. revert acc; induction l; intros; simpl; auto. Qed.

Lemma replay_latest_log k p log :
  last_msg p (rev (map snd (filter (fun e => Nat.eqb (fst e) k) log))) None = latest k p log.
Proof.
  induction log as [|[k' m] r IH]; simpl; auto.
  destruct (Nat.eqb k' k) eqn:E; simpl; auto.
  rewrite last_msg_app. destruct (Nat.eqb (m_p m) p); auto.
Qed.
Lemma replay_latest k p s : replay p (msgs_of k s) = latest k p (s_log s).
Proof. apply replay_latest_log. Qed.

Lemma latest_app_other k p new log :
  (forall k' m, In (k', m) new -> k' <> k \/ m_p m <> p) -> latest k p (new ++ log) = latest k p log.
Proof.
  induction new as [|[k' m] r IH]; intros H; simpl; auto.
  destruct (H k' m (or_introl eq_refl)) as [N|N].
  - apply Nat.eqb_neq in N. rewrite N; simpl. apply IH; intros; apply H; right; auto.
  - apply Nat.eqb_neq in N. rewrite N, andb_false_r. apply IH; intros; apply H; right; auto.
Qed.

(* deliveries of one message to a list of connections *)
Lemma deliver_all_spec s ks m :
  s_cells (deliver_all s ks m) = s_cells s /\ s_heap (deliver_all s ks m) = s_heap s /\
  s_now (deliver_all s ks m) = s_now s /\ s_log (deliver_all s ks m) = rev (map (fun k => (k, m)) ks) ++ s_log s.
Proof.
  unfold deliver_all. revert s; induction ks as [|k r IH]; intros; simpl; auto.
  destruct (IH (deliver s k m)) as (A & B & C & D). rewrite A, B, C, D. simpl.
  repeat split; auto. rewrite <- app_assoc; reflexivity.
Qed.

Lemma latest_deliveries_in k p m ks log :
  In k ks -> m_p m = p -> latest k p (rev (map (fun k => (k, m)) ks) ++ log) = Some m.
Proof.
  intros I E. induction ks as [|k' r IH] using rev_ind; [destruct I|].
  rewrite map_app, rev_app_distr; simpl.
  destruct (Nat.eqb k' k) eqn:K; simpl.
  - rewrite E, Nat.eqb_refl; reflexivity.
  - apply in_app_or in I. destruct I as [I|[I|[]]]; auto. subst; rewrite Nat.eqb_refl in K; discriminate.
Qed.

(* ------------------------------------------------------------------ what "the same for a client" means *)
(* values the funnel judged unchanged (python ==) since the value that was sent *)
Inductive vchain : pyval -> pyval -> Prop :=
| vc_refl v : vchain v v
| vc_step a b c : vchain a b -> py_neq b c = false -> vchain a c.

(* the client-visible part of a cache entry did not change: same error object, same timestamp, value equal by == *)
Definition quiet_change (c c' : cell) : Prop :=
  c_err c' = c_err c /\ c_ts c' = c_ts c /\ (c_val c' = c_val c \/ py_neq (c_val c) (c_val c') = false).

(* message m reports cache entry c of parameter p: same parameter, same timestamp, same error (class name and
   the text of this very error object, rendered with some state rm of its raising-method list), or a value which the
   funnel compared equal to the cached one.  [h] given: rm is the current list (text exactly as cached). *)
Definition reports (G : config) (h : option heap) (P : pcfg) (p : nat) (c : cell) (m : msg) : Prop :=
  m_p m = p /\ m_ts m = c_ts c /\
  match c_err c with
  | Some e => exists rm, m_pay m = PErr (e_name (g_tab G) (e_cls e)) (fmt_text (g_tab G) e rm) /\
                         (forall h', h = Some h' -> rm = heap_get h' (e_oid e))
  | None => exists v, m_pay m = PVal (dt_export (p_dt P) v) /\ vchain v (c_val c)
  end.

Lemma reports_render G h P p c : reports G (Some h) P p c (render G h P p c).
Proof.
  unfold reports, render; simpl. repeat split; auto.
  destruct (c_err c).
  - eexists; split; eauto. intros h' E; inversion E; auto.
  - eexists; split; eauto. constructor.
Qed.
Lemma reports_weaken G h P p c m : reports G (Some h) P p c m -> reports G None P p c m.
Proof.
  unfold reports. intros (A & B & C); repeat split; auto. destruct (c_err c); auto.
  destruct C as (rm & C & _). exists rm; split; auto. discriminate.
Qed.
Lemma reports_quiet G P p c c' m : reports G None P p c m -> quiet_change c c' -> reports G None P p c' m.
Proof.
  unfold reports, quiet_change. intros (A & B & C) (E & T & V). repeat split; auto; try congruence.
  rewrite E. destruct (c_err c); auto.
  destruct C as (v & C & Ch). exists v; split; auto.
  destruct V as [V|V]; [rewrite V; auto|]. econstructor; eauto.
Qed.

(* ------------------------------------------------------------------ the funnel *)
Lemma funnel_err_quiet c x ts c' : funnel_err c x ts = (c', false) -> c' = c.
Proof.
  unfold funnel_err. destruct (c_err c); [destruct (eobj_eqb _ _)|]; intros H; inversion H; auto.
Qed.
Lemma funnel_val_quiet P c v ts c' : funnel_val P c v ts = (c', false) -> quiet_change c c' /\ c_err c = None.
Proof.
  unfold funnel_val, quiet_change. destruct (negb _ && _) eqn:E; intros H; inversion H; subst; simpl.
  apply andb_prop in E. destruct E as [E _]. apply negb_true_iff, orb_false_iff in E. destruct E as [E1 E2].
  destruct (c_err c); [discriminate|]. auto.
Qed.
Lemma funnel_quiet P c inp cx ts c' : funnel P c inp cx ts = (c', false) -> quiet_change c c'.
Proof.
  unfold funnel. destruct inp as [v [|]|x].
  - destruct (dt_call _ _); intros H.
    + apply funnel_val_quiet in H; tauto.
    + apply funnel_err_quiet in H; subst; unfold quiet_change; auto.
  - intros H; apply funnel_val_quiet in H; tauto.
  - intros H; apply funnel_err_quiet in H; subst; unfold quiet_change; auto.
Qed.

(* recovery: an accepted value on an entry in error state is always passed on *)
Lemma funnel_val_recovery P c v ts e : c_err c = Some e -> funnel_val P c v ts = ({| c_val := v; c_err := None; c_ts := ts |}, true).
Proof. unfold funnel_val; intros ->; simpl. rewrite orb_true_r; reflexivity. Qed.

(* ------------------------------------------------------------------ one step, relationally *)
Definition new_entries (G : config) (h : heap) (P : pcfg) (p : nat) (c' : cell) (emit : bool) : list (nat * msg) :=
  if emit && exported P then rev (map (fun k => (k, render G h P p c')) (listeners G p)) else [].

Inductive step_rel (G : config) (s : state) (o : op) (s' : state) : Prop :=
| sr_silent : s_cells s' = s_cells s -> s_log s' = s_log s -> step_rel G s o s'
| sr_funnel P c c' emit inp ts :
    nth_error (g_params G) (o_p o) = Some P -> nth_error (s_cells s) (o_p o) = Some c ->
    funnel P c inp (o_cx o) ts = (c', emit) ->
    s_cells s' = set_nth (o_p o) c' (s_cells s) ->
    s_log s' = new_entries G (s_heap s') P (o_p o) c' emit ++ s_log s ->
    step_rel G s o s'.

(* the announce region, for any listener list *)
Lemma ann_region_spec G ks P o inp s :
  match nth_error (s_cells s) (o_p o) with
  | None => exists s', ann_region G ks P o inp s = (s', [], None) /\
              s_cells s' = s_cells s /\ s_heap s' = s_heap s /\ s_log s' = s_log s
  | Some c => exists ts c' emit s', funnel P c inp (o_cx o) ts = (c', emit) /\
       s_cells s' = set_nth (o_p o) c' (s_cells s) /\ s_heap s' = s_heap s /\ s_log s' = s_log s /\
       ann_region G ks P o inp s =
         (s', (if emit && exported P then ks else []),
          (if emit && exported P then Some (render G (s_heap s) P (o_p o) c') else None))
  end.
Proof.
  unfold ann_region.
  set (s2 := if Z.eqb (explicit_ts o) 0 then tick s (o_dt o) else s).
  set (ts := if Z.eqb (explicit_ts o) 0 then s_now s2 else explicit_ts o).
  assert (C2 : s_cells s2 = s_cells s) by (unfold s2; destruct (Z.eqb _ _); reflexivity).
  assert (L2 : s_log s2 = s_log s) by (unfold s2; destruct (Z.eqb _ _); reflexivity).
  assert (H2 : s_heap s2 = s_heap s) by (unfold s2; destruct (Z.eqb _ _); reflexivity).
  unfold apply_funnel_with. rewrite C2.
  destruct (nth_error (s_cells s) (o_p o)) as [c|] eqn:EC.
  - destruct (funnel P c inp (o_cx o) ts) as [c' emit] eqn:EF.
    exists ts, c', emit. rewrite H2.
    exists {| s_cells := set_nth (o_p o) c' (s_cells s); s_heap := s_heap s; s_now := s_now s2; s_log := s_log s2 |}.
    split; [exact EF|]. simpl. repeat split; auto. destruct (emit && exported P); reflexivity.
  - exists s2. repeat split; auto.
Qed.

Lemma step_is_rel G s o : step_rel G s o (step G s o).
Proof.
  unfold step. destruct (nth_error (g_params G) (o_p o)) as [P|] eqn:EP; [|apply sr_silent; auto].
  destruct (pre P (s_heap s) o) as [h1 [inp|]] eqn:Epre; [|apply sr_silent; auto].
  unfold ann_atomic.
  pose proof (ann_region_spec G (listeners G (o_p o)) P o inp (set_heap s h1)) as R.
  change (s_cells (set_heap s h1)) with (s_cells s) in R.
  destruct (nth_error (s_cells s) (o_p o)) as [c|] eqn:EC.
  2:{ destruct R as (s' & -> & A & B & C). apply sr_silent; simpl; auto. }
  destruct R as (ts & c' & emit & s' & EF & A & B & C & ->).
  destruct (emit && exported P) eqn:EE.
  - match goal with |- step_rel _ _ _ (deliver_all ?a ?b ?m) => destruct (deliver_all_spec a b m) as (A' & B' & C' & D') end.
    apply (sr_funnel G s o _ P c c' emit inp ts); auto; try congruence.
    etransitivity; [exact D'|]. rewrite B', B. simpl. unfold new_entries. rewrite EE, C. reflexivity.
  - apply (sr_funnel G s o _ P c c' emit inp ts); auto.
    unfold new_entries. rewrite EE. simpl. exact C.
Qed.

Lemma covers_exported G sc p P : covers G sc p = true -> nth_error (g_params G) p = Some P -> exported P = true.
Proof. unfold covers; intros H E; rewrite E in H. apply andb_prop in H; tauto. Qed.

Lemma listeners_from_in G p k0 cs k sc :
  nth_error cs k = Some sc -> covers G sc p = true -> In (k0 + k) (listeners_from G p k0 cs).
Proof.
  revert k0 k; induction cs as [|sc' r IH]; intros k0 [|k] E C; simpl in *; try discriminate.
  - inversion E; subst. rewrite C. left; lia.
  - specialize (IH (S k0) k E C). replace (k0 + S k) with (S k0 + k) by lia.
    destruct (covers G sc' p); simpl; auto.
Qed.
Lemma listeners_in G p k sc : nth_error (g_conns G) k = Some sc -> covers G sc p = true -> In k (listeners G p).
Proof. intros; unfold listeners. change k with (0 + k). eapply listeners_from_in; eauto. Qed.

Lemma new_entries_param G h P p c' emit k m : In (k, m) (new_entries G h P p c' emit) -> m = render G h P p c'.
Proof.
  unfold new_entries. destruct (emit && exported P); [|intros []].
  rewrite <- in_rev, in_map_iff. intros (x & E & _); inversion E; auto.
Qed.

(* ------------------------------------------------------------------ coherence invariant *)
(* every subscribed connection's newest message of every parameter it covers reports the cached entry *)
Definition coherent (G : config) (s : state) : Prop :=
  forall k sc p P c,
    nth_error (g_conns G) k = Some sc -> covers G sc p = true ->
    nth_error (g_params G) p = Some P -> nth_error (s_cells s) p = Some c ->
    exists m, latest k p (s_log s) = Some m /\ reports G None P p c m.

Lemma step_coherent G s o : coherent G s -> coherent G (step G s o).
Proof.
  intros I. destruct (step_is_rel G s o) as [EC EL | P0 c0 c' emit inp ts EP EC0 EF ECs EL].
  - intros k sc p P c Hk Hc HP Hcell. rewrite EC in Hcell. rewrite EL. eauto.
  - intros k sc p P c Hk Hc HP Hcell. rewrite ECs in Hcell. rewrite EL.
    destruct (Nat.eq_dec (o_p o) p) as [E|N].
    + subst p. rewrite EP in HP; inversion HP; subst P0.
      rewrite (nth_set_nth_eq _ _ _ _ EC0) in Hcell; inversion Hcell; subst c'.
      destruct emit.
      * unfold new_entries. rewrite (covers_exported _ _ _ _ Hc EP); simpl.
        eexists; split.
        -- apply latest_deliveries_in; [eapply listeners_in; eauto | reflexivity].
        -- apply reports_weaken with (h := s_heap (step G s o)). apply reports_render.
      * unfold new_entries; simpl.
        destruct (I k sc (o_p o) P c0 Hk Hc EP EC0) as (m & L & R).
        exists m; split; auto. eapply reports_quiet; eauto. eapply funnel_quiet; eauto.
    + rewrite nth_set_nth_neq in Hcell by auto.
      destruct (I k sc p P c Hk Hc HP Hcell) as (m & L & R).
      exists m; split; auto. rewrite latest_app_other; auto.
      intros k' m' Hin. right. apply new_entries_param in Hin; subst m'; simpl; auto.
Qed.

Theorem run_coherent G ops : forall s, coherent G s -> coherent G (run G s ops).
Proof. unfold run. induction ops; simpl; intros; auto. apply IHops, step_coherent; auto. Qed.

(* ------------------------------------------------------------------ order, no phantom state, nothing lost *)
(* what one operation adds to the stream: every message it sends is the rendering of the entry the cache holds
   right after it, and a parameter it sends nothing about (to a covering connection) did not change for a client *)
Theorem step_sound G s o :
  let s' := step G s o in
  exists new, s_log s' = new ++ s_log s /\
    (forall k m, In (k, m) new -> exists P c', m_p m = o_p o /\ nth_error (g_params G) (o_p o) = Some P /\
        nth_error (s_cells s') (o_p o) = Some c' /\ m = render G (s_heap s') P (o_p o) c') /\
    (forall k sc p c, nth_error (g_conns G) k = Some sc -> covers G sc p = true -> nth_error (s_cells s) p = Some c ->
        (forall m, In (k, m) new -> m_p m <> p) ->
        exists c', nth_error (s_cells s') p = Some c' /\ quiet_change c c').
Proof.
  intros s'. unfold s'. destruct (step_is_rel G s o) as [EC EL | P0 c0 c' emit inp ts EP EC0 EF ECs EL].
  - exists []. rewrite EL, EC. repeat split; auto; [intros ? ? []|].
    intros. eexists; split; eauto. unfold quiet_change; auto.
  - exists (new_entries G (s_heap (step G s o)) P0 (o_p o) c' emit). repeat split; auto.
    + intros k m Hin. apply new_entries_param in Hin. exists P0, c'. subst m; simpl. repeat split; auto.
      rewrite ECs. eapply nth_set_nth_eq; eauto.
    + intros k sc p c Hk Hc Hcell Hno. rewrite ECs.
      destruct (Nat.eq_dec (o_p o) p) as [E|N].
      * subst p. rewrite EC0 in Hcell; inversion Hcell; subst c0.
        rewrite (nth_set_nth_eq _ _ _ _ EC0). exists c'; split; auto.
        destruct emit; [|eapply funnel_quiet; eauto].
        exfalso. unfold new_entries in Hno. rewrite (covers_exported _ _ _ _ Hc EP) in Hno; simpl in Hno.
        apply (Hno (render G (s_heap (step G s o)) P0 (o_p o) c')); [|reflexivity].
        rewrite <- in_rev. apply in_map_iff. eexists; split; eauto. eapply listeners_in; eauto.
      * rewrite nth_set_nth_neq by auto. exists c; split; auto. unfold quiet_change; auto.
Qed.

(* a recovery is always announced: if the entry was in error state before the operation and is not afterwards,
   every covering connection got an update message built from the new entry, whatever the value and the time *)
Theorem recovery_announced G s o k sc p P c e c' :
  nth_error (g_conns G) k = Some sc -> covers G sc p = true -> nth_error (g_params G) p = Some P ->
  nth_error (s_cells s) p = Some c -> c_err c = Some e ->
  nth_error (s_cells (step G s o)) p = Some c' -> c_err c' = None ->
  latest k p (s_log (step G s o)) = Some (render G (s_heap (step G s o)) P p c') /\
  m_pay (render G (s_heap (step G s o)) P p c') = PVal (dt_export (p_dt P) (c_val c')) /\
  In (k, render G (s_heap (step G s o)) P p c') (firstn (length (s_log (step G s o)) - length (s_log s)) (s_log (step G s o))).
Proof.
  intros Hk Hc HP Hcell He Hcell' He'.
  destruct (step_is_rel G s o) as [EC EL | P0 c0 c1 emit inp ts EP EC0 EF ECs EL].
  - rewrite EC in Hcell'. congruence.
  - rewrite ECs in Hcell'. destruct (Nat.eq_dec (o_p o) p) as [E|N].
    2:{ rewrite nth_set_nth_neq in Hcell' by auto. congruence. }
    subst p. rewrite EP in HP; inversion HP; subst P0. rewrite EC0 in Hcell; inversion Hcell; subst c0.
    rewrite (nth_set_nth_eq _ _ _ _ EC0) in Hcell'; inversion Hcell'; subst c1.
    destruct emit.
    2:{ apply funnel_quiet in EF. destruct EF as (A & _). congruence. }
    rewrite EL. unfold new_entries. rewrite (covers_exported _ _ _ _ Hc EP); simpl.
    assert (Hin : In k (listeners G (o_p o))) by (eapply listeners_in; eauto).
    split; [apply latest_deliveries_in; auto|]. split; [unfold render; simpl; rewrite He'; reflexivity|].
    rewrite app_length. replace (_ + _ - _) with (length (rev (map (fun k0 => (k0, render G (s_heap (step G s o)) P (o_p o) c')) (listeners G (o_p o))))) by lia.
    rewrite firstn_app, Nat.sub_diag, firstn_all; simpl. rewrite app_nil_r.
    rewrite <- in_rev. apply in_map_iff. eexists; split; eauto.
Qed.

(* ------------------------------------------------------------------ activation establishes the invariant *)
Lemma snapshot_from_in G h sc p0 ps cs j P c :
  nth_error ps j = Some P -> nth_error cs j = Some c -> covers G sc (p0 + j) = true ->
  In (render G h P (p0 + j) c) (snapshot_from G h sc p0 ps cs).
Proof.
  revert p0 cs j; induction ps as [|P' ps IH]; intros p0 [|c' cs] [|j] EP EC Cv; simpl in *; try discriminate.
  - inversion EP; inversion EC; subst. replace (p0 + 0) with p0 in * by lia. rewrite Cv. left; auto.
  - replace (p0 + S j) with (S p0 + j) in * by lia.
    destruct (covers G sc p0); [right|]; apply IH; auto.
Qed.
Lemma snapshot_from_only G h sc p0 ps cs m :
  In m (snapshot_from G h sc p0 ps cs) ->
  exists j P c, nth_error ps j = Some P /\ nth_error cs j = Some c /\ m = render G h P (p0 + j) c.
Proof.
  revert p0 cs; induction ps as [|P' ps IH]; intros p0 [|c' cs] H; simpl in *; try tauto.
  assert (R : In m (snapshot_from G h sc (S p0) ps cs) ->
              exists j P c, nth_error (P' :: ps) j = Some P /\ nth_error (c' :: cs) j = Some c /\ m = render G h P (p0 + j) c).
  { intros H'. destruct (IH _ _ H') as (j & P & c & A & B & C). exists (S j), P, c. simpl. repeat split; auto.
    replace (p0 + S j) with (S p0 + j) by lia; auto. }
  destruct (covers G sc p0); auto. destruct H as [H|H]; auto.
  exists 0, P', c'. simpl. replace (p0 + 0) with p0 by lia. auto.
Qed.

Lemma fold_deliver_spec k ms : forall s,
  let s' := fold_left (fun s m => deliver s k m) ms s in
  s_cells s' = s_cells s /\ s_heap s' = s_heap s /\ s_log s' = rev (map (fun m => (k, m)) ms) ++ s_log s.
Proof.
  induction ms as [|m r IH]; intros; simpl; auto.
  destruct (IH (deliver s k m)) as (A & B & C). unfold s'. simpl. rewrite A, B, C. simpl.
  repeat split; auto. rewrite <- app_assoc; reflexivity.
Qed.

Lemma latest_unique k p m0 L log :
  In m0 L -> m_p m0 = p -> (forall m, In m L -> m_p m = p -> m = m0) ->
  latest k p (rev (map (fun m => (k, m)) L) ++ log) = Some m0.
Proof.
  induction L as [|a L IH] using rev_ind; intros I E U; [destruct I|].
  rewrite map_app, rev_app_distr; simpl. rewrite Nat.eqb_refl; simpl.
  destruct (Nat.eqb (m_p a) p) eqn:Q.
  - apply Nat.eqb_eq in Q. rewrite (U a); auto. apply in_or_app; right; left; auto.
  - apply IH; auto.
    + apply in_app_or in I. destruct I as [I|[I|[]]]; auto. subst a. rewrite E, Nat.eqb_refl in Q; discriminate.
    + intros; apply U; auto. apply in_or_app; auto.
Qed.

Lemma activate_from_spec G : forall cs k0 s,
  let s' := activate_from G s k0 cs in
  s_cells s' = s_cells s /\ s_heap s' = s_heap s /\
  (exists new, s_log s' = new ++ s_log s /\ forall k' m, In (k', m) new -> k0 <= k') /\
  forall j sc p P c, nth_error cs j = Some sc -> covers G sc p = true ->
    nth_error (g_params G) p = Some P -> nth_error (s_cells s) p = Some c ->
    latest (k0 + j) p (s_log s') = Some (render G (s_heap s) P p c).
Proof.
  induction cs as [|sc0 r IH]; intros k0 s; simpl.
  - repeat split; auto. { exists []; split; auto. intros ? ? []. } intros [|j]; discriminate.
  - set (s1 := fold_left (fun s m => deliver s k0 m) (snapshot G s sc0) s).
    destruct (fold_deliver_spec k0 (snapshot G s sc0) s) as (A1 & B1 & C1). fold s1 in A1, B1, C1.
    destruct (IH (S k0) s1) as (A & B & (new & D & Dk) & F).
    repeat split; try congruence.
    + exists (new ++ rev (map (fun m => (k0, m)) (snapshot G s sc0))). split.
      * rewrite D, C1, app_assoc; reflexivity.
      * intros k' m Hin. apply in_app_or in Hin. destruct Hin as [Hin|Hin]; [apply Dk in Hin; lia|].
        rewrite <- in_rev, in_map_iff in Hin. destruct Hin as (x & E & _); inversion E; lia.
    + intros [|j] sc p P c Ej Cv EP EC; simpl in Ej.
      * inversion Ej; subst sc0. replace (k0 + 0) with k0 by lia. rewrite D, latest_app_other.
        2:{ intros k' m Hin; left. apply Dk in Hin; lia. }
        rewrite C1. apply latest_unique; auto.
        -- unfold snapshot. change p with (0 + p). apply snapshot_from_in; auto.
        -- intros m Hin Hp. unfold snapshot in Hin. apply snapshot_from_only in Hin.
           destruct Hin as (j & P' & c' & X & Y & Z). subst m. simpl in Hp. subst j. simpl. congruence.
      * replace (k0 + S j) with (S k0 + j) by lia. rewrite (F j sc p P c); auto; try congruence.
Qed.

Theorem activate_coherent G s : coherent G (activate_all G s).
Proof.
  intros k sc p P c Hk Hc HP Hcell. unfold activate_all in *.
  destruct (activate_from_spec G (g_conns G) 0 s) as (A & B & _ & F).
  rewrite A in Hcell. specialize (F k sc p P c Hk Hc HP Hcell). simpl in F. rewrite F. eexists; split; eauto.
  apply reports_weaken with (h := s_heap s). apply reports_render.
Qed.
