(* C05 -- placeholder while the correspondence is being built *)
From Coq Require Import List Arith ZArith Bool.
Require Import FV.Gen.C05 FV.C05.Model.
Theorem C05_source_facts : announce_in_updateLock = true.
Proof. reflexivity. Qed.
Print Assumptions C05_source_facts.
