(* C05 -- property theorems only; each is closed by a lemma of Lemmas.v / LemmasConc.v / LemmasAct.v / LemmasRef.v /
   Refuted.v.
   G ranges over every configuration (parameters of any datatype, any omit interval, any export setting, any set
   of subscribed connections), s over every cache state, ops over every history of wrapped reads / writes /
   assignments / announceUpdate calls with any driver behaviour and any clock; in the concurrent theorems progs
   ranges over any number of threads with any programs (driver operations, handle_activate / handle_deactivate /
   remove_connection requests of any connection) and sched over every schedule. *)
From Coq Require Import List Arith ZArith Bool.
Import ListNotations.
Require Import FV.Base.PyVal FV.Gen.C05 FV.C05.Model FV.C05.Lemmas FV.C05.LemmasConc FV.C05.LemmasAct FV.C05.LemmasRef
  FV.C05.Refuted.

(* the shapes read off the source, as the flags of the concurrent model *)
Definition src_flags : flags :=
  {| f_locked := announce_in_updateLock; f_reg_first := activate_registers_first;
     f_snap_locked := snapshot_in_updateLock; f_private := broadcast_iterates_private_copy |}.

(* obligations on the facts regenerated from /repo (Gen/C05.v) *)
Theorem C05_source_facts :
  announce_in_updateLock = true /\ updateLock_is_rlock_per_module = true /\ store_then_notify = true /\
  notify_only_if_exported = true /\ changed_includes_readerror = true /\ repeated_error_test = true /\
  omit_test = true /\ read_wrapper_routes = true /\ write_wrapper_routes = true /\ assignment_routes = true /\
  make_update_reads_cache = true /\ announce_update_broadcasts = true /\ omit_resolution = true /\
  error_eq_ignores_methods = true /\ update_unchanged_codes = (0, 999999999, -1)%Z /\
  activate_registers_first = true /\ snapshot_in_updateLock = true /\ broadcast_iterates_private_copy = true /\
  src_flags = flags_ok.
Proof. repeat split; reflexivity. Qed.
Print Assumptions C05_source_facts.

(* activation: the snapshot a connection gets reports, for every parameter it covers, the cached entry *)
Theorem C05_activation_coherent : forall G s, coherent G (activate_all G s).
Proof. exact activate_coherent. Qed.
Print Assumptions C05_activation_coherent.

(* replaying the stream reproduces the cache, after any history.
   Full statement (refuted on the pinned tree, see C05_refuted_error_text_stable):
     ... replay p (msgs_of k s') = Some m /\ reports G (Some (s_heap s')) P p c m      (error text exactly as cached)
   Proved: the same with [reports G None]: the message has the timestamp of the cached entry and either the value
   (up to python ==, the comparison the funnel itself uses) or the SECoP name of the cached error object and the
   text of that very object, rendered with some state of its raising-method list (the part finding
   C05/error-text-changes-after-announce is about). *)
Theorem C05_coherent_except_error_text : forall G s0 ops,
  let s' := run G (activate_all G s0) ops in
  forall k sc p P c,
    nth_error (g_conns G) k = Some sc -> covers G sc p = true ->
    nth_error (g_params G) p = Some P -> nth_error (s_cells s') p = Some c ->
    exists m, replay p (msgs_of k s') = Some m /\ reports G None P p c m.
Proof.
  intros G s0 ops s' k sc p P c Hk Hc HP Hcell. rewrite replay_latest.
  exact (run_coherent G ops _ (activate_coherent G s0) k sc p P c Hk Hc HP Hcell).
Qed.
Print Assumptions C05_coherent_except_error_text.

(* order / no phantom state / nothing lost, for every operation from every state: what the operation appends to the
   stream is built from the entry the cache holds right after it, and a covered parameter it is silent about did not
   change for a client (same error object, same timestamp, value equal by ==) *)
Theorem C05_order_no_phantom : forall G s o,
  let s' := step G s o in
  exists new, s_log s' = new ++ s_log s /\
    (forall k m, In (k, m) new -> exists P c', m_p m = o_p o /\ nth_error (g_params G) (o_p o) = Some P /\
        nth_error (s_cells s') (o_p o) = Some c' /\ m = render G (s_heap s') P (o_p o) c') /\
    (forall k sc p c, nth_error (g_conns G) k = Some sc -> covers G sc p = true -> nth_error (s_cells s) p = Some c ->
        (forall m, In (k, m) new -> m_p m <> p) ->
        exists c', nth_error (s_cells s') p = Some c' /\ quiet_change c c').
Proof. exact step_sound. Qed.
Print Assumptions C05_order_no_phantom.

(* a recovery from an error is always announced, whatever the value, the time and the omit interval *)
Theorem C05_recovery_announced : forall G s o k sc p P c e c',
  nth_error (g_conns G) k = Some sc -> covers G sc p = true -> nth_error (g_params G) p = Some P ->
  nth_error (s_cells s) p = Some c -> c_err c = Some e ->
  nth_error (s_cells (step G s o)) p = Some c' -> c_err c' = None ->
  latest k p (s_log (step G s o)) = Some (render G (s_heap (step G s o)) P p c') /\
  m_pay (render G (s_heap (step G s o)) P p c') = PVal (dt_export (p_dt P) (c_val c')) /\
  In (k, render G (s_heap (step G s o)) P p c')
     (firstn (length (s_log (step G s o)) - length (s_log s)) (s_log (step G s o))).
Proof. exact recovery_announced. Qed.
Print Assumptions C05_recovery_announced.

(* ------------------------------------------------------------------ any number of threads, every schedule.
   Threads: driver threads (wrapped read_ / write_, assignment, announceUpdate) and connection threads (the real
   handle_activate for the whole node, a module or one parameter; handle_deactivate; remove_connection).  The
   hypotheses on the flags are the source facts of C05_source_facts. *)

(* the regions of one module -- announceUpdate from the clock read to the last send_reply, handle_activate while it
   builds and sends the initial values of the module -- are never executed by two threads at once *)
Theorem C05_update_region_exclusive : forall G s ss progs sched,
  src_flags = flags_ok -> length (s_cells s) = length (g_params G) ->
  exclusive G (cs_thr (crun G src_flags (cinit s ss progs) sched)).
Proof. intros G s ss progs sched -> L. apply crun_exclusive; [apply cinit_wf; auto|apply cinit_exclusive]. Qed.
Print Assumptions C05_update_region_exclusive.

(* ... and a thread outside (before the lock) changes neither the cache nor any stream nor the subscriptions *)
Theorem C05_outside_region_frame : forall G F st ss ts i t acts t',
  tstep G F st ss ts i t = Some (acts, t') ->
  match t_pk t with KStart | KAcqA | KDrv => True | _ => False end ->
  let x := fold_left (fun x a => ceff G a x) acts (st, ss) in
  s_cells (fst x) = s_cells st /\ s_log (fst x) = s_log st /\ snd x = ss.
Proof. exact tstep_outside_frame. Qed.
Print Assumptions C05_outside_region_frame.

(* (1) activation coherence under concurrency.  Start: any cache, every connection activated as the configuration
   says (possibly not at all).  After any schedule of any threads, at every point at which no thread is inside the
   body of announceUpdate or inside handle_activate after its registration ([quiet]): every connection, for every
   scope it is registered for at that point and every parameter the scope covers, holds as newest message of the
   parameter a report of the cached entry -- no lost update, no stale initial value.  ([reports G None]: as in
   C05_coherent_except_error_text.) *)
Theorem C05_concurrent_activation_coherent : forall G s0 progs sched,
  src_flags = flags_ok -> wf_config G -> length (s_cells s0) = length (g_params G) ->
  let r := crun G src_flags (cinit (activate_all G s0) (subs0 G) progs) sched in
  quiet r = true ->
  forall k scs sc p P c,
    nth_error (cs_subs r) k = Some scs -> In sc scs -> covers G sc p = true ->
    nth_error (g_params G) p = Some P -> nth_error (s_cells (cs_st r)) p = Some c ->
    exists m, replay p (msgs_of k (cs_st r)) = Some m /\ reports G None P p c m.
Proof.
  intros G s0 progs sched -> WG L r Q k scs sc p P c Hk Hsc Hc HP Hcell. rewrite replay_latest.
  refine (concurrent_coherent G (activate_all G s0) (subs0 G) progs sched WG _ (served_activate G s0) Q
            k scs sc p P c Hk Hsc Hc HP Hcell).
  rewrite activate_all_cells; auto.
Qed.
Print Assumptions C05_concurrent_activation_coherent.

(* (2) refinement ("cut from the design" in the first version).  [ctrace] lists what the threads commit, in the order
   of the commit points: the wrapper prologue of an operation (bookkeeping of raising_methods), its announce region
   (at the clock read right after updateLock is taken: for one module that is the order in which the threads acquired
   the lock), every initial value of handle_activate (when it is built, inside the lock), registrations and
   deregistrations.  [arun] executes that list sequentially with every region atomic: an announce region serves all
   its listeners at once, an initial value is delivered when it is built.  For every schedule the concurrent run has
   the cache, the clock, the heap and the subscriptions of that sequential run; the stream of every connection about
   every parameter is the sequential one minus what threads inside a region still have in hand ([pend]); at a
   quiescent point the streams (and what a client replays from them) are equal.
   Streams are compared per (connection, parameter): messages about parameters of different modules are sent by
   threads holding different locks and may reach two connections in different orders -- the property orders messages
   per parameter only. *)
Theorem C05_concurrent_refinement : forall G st ss progs sched,
  src_flags = flags_ok -> length (s_cells st) = length (g_params G) ->
  let r := crun G src_flags (cinit st ss progs) sched in
  let q := arun G (ctrace G src_flags (cinit st ss progs) sched) (st, ss) in
  s_cells (cs_st r) = s_cells (fst q) /\ s_heap (cs_st r) = s_heap (fst q) /\ s_now (cs_st r) = s_now (fst q) /\
  cs_subs r = snd q /\
  (forall k p, plog k p (s_log (fst q)) = pend k p (cs_thr r) ++ plog k p (s_log (cs_st r))) /\
  (quiet r = true -> forall k p, pstream k p (cs_st r) = pstream k p (fst q) /\
                                 replay p (msgs_of k (cs_st r)) = replay p (msgs_of k (fst q))).
Proof. intros G st ss progs sched -> L. exact (concurrent_refinement G st ss progs sched L). Qed.
Print Assumptions C05_concurrent_refinement.

(* ... and the sequential reading is the sequential model: the two actions of a driver operation, executed one after
   the other with the subscriptions of the configuration, are one [step] (so C05_order_no_phantom and
   C05_recovery_announced speak about every announce region of every schedule) *)
Theorem C05_sequential_reading_is_step : forall G s o P,
  nth_error (g_params G) (o_p o) = Some P ->
  arun G (AHeap P o :: match snd (pre P (s_heap s) o) with Some inp => [AFun P o inp] | None => [] end) (s, subs0 G)
  = (step G s o, subs0 G).
Proof. exact step_as_actions. Qed.
Print Assumptions C05_sequential_reading_is_step.

Print Assumptions C05_refuted_error_text_stable.
Print Assumptions C05_refuted_without_update_lock.
Print Assumptions C05_refuted_registration_after_snapshot.
Print Assumptions C05_refuted_snapshot_outside_lock.
Print Assumptions C05_refuted_live_listener_set.

(* non-vacuity: a run in which an activation races with two updates reaches a quiescent state with a registered,
   covered, served connection *)
Example C05_concurrent_nonvacuous :
  let r := crun aG flags_ok (cinit aS (subs0 aG) a_progs) [1; 1; 0; 0; 0; 0; 1; 1] in
  cs_ok r && quiescent r && quiet r && Nat.eqb (length (msgs_of 0 (cs_st r))) 2 = true.
Proof. vm_compute. reflexivity. Qed.
