(* C05 -- property theorems only; each is closed by a lemma of Lemmas.v / LemmasConc.v / LemmasAct.v / LemmasRef.v /
   Refuted.v.
   G ranges over every configuration (parameters of any datatype, any omit interval, any export setting, any set
   of subscribed connections), s over every cache state, ops over every history of wrapped reads / writes /
   assignments / announceUpdate calls with any driver behaviour and any clock; in the concurrent theorems progs
   ranges over any number of threads with any programs (driver operations, handle_activate / handle_deactivate /
   remove_connection requests of any connection) and sched over every schedule. *)
From Coq Require Import List Arith ZArith Bool.
Import ListNotations.
Require Import FV.Base.F64 FV.Base.PyVal FV.Gen.C05 FV.C05.Model FV.C05.ModelCb FV.C05.Lemmas FV.C05.LemmasConc FV.C05.LemmasAct
  FV.C05.LemmasRef FV.C05.LemmasCb FV.C05.Refuted FV.C05.ModelReq FV.C05.LemmasReq.

(* the shapes read off the source, as the flags of the concurrent model *)
Definition src_flags : flags :=
  {| f_locked := announce_in_updateLock; f_reg_first := activate_registers_first;
     f_snap_locked := snapshot_in_updateLock; f_private := broadcast_iterates_private_copy |}.

(* obligations on the facts regenerated from /repo (Gen/C05.v) *)
Theorem C05_source_facts :
  announce_in_updateLock = true /\ updateLock_is_rlock_per_module = true /\ store_then_notify = true /\
  notify_only_if_exported = true /\ changed_includes_readerror = true /\ repeated_error_test = true /\
  omit_test = true /\ read_wrapper_routes = true /\ write_wrapper_routes = true /\ assignment_routes = true /\
  make_update_reads_cache = true /\ announce_update_broadcasts = true /\ omit_resolution = true /\
  error_eq_ignores_methods = true /\ update_unchanged_codes = (0, 999999999, -1)%Z /\
  activate_registers_first = true /\ snapshot_in_updateLock = true /\ broadcast_iterates_private_copy = true /\
  callback_except_class = s_exception /\ callback_loop_shape = true /\ callback_registration_shape = true /\
  export_value_pure = true /\ reply_built_from_cache = true /\
  src_flags = flags_ok.
Proof. repeat split; reflexivity. Qed.
Print Assumptions C05_source_facts.

(* activation: the snapshot a connection gets reports, for every parameter it covers, the cached entry *)
Theorem C05_activation_coherent : forall G s, coherent G (activate_all G s).
Proof. exact activate_coherent. Qed.
Print Assumptions C05_activation_coherent.

(* replaying the stream reproduces the cache, after any history.
   Full statement (refuted on the pinned tree, see C05_refuted_error_text_stable):
     ... replay p (msgs_of k s') = Some m /\ reports G (Some (s_heap s')) P p c m      (error text exactly as cached)
   Proved: the same with [reports G None]: the message has the timestamp of the cached entry and either the value
   (up to python ==, the comparison the funnel itself uses) or the SECoP name of the cached error object and the
   text of that very object, rendered with some state of its raising-method list (the part finding
   C05/error-text-changes-after-announce is about). *)
Theorem C05_coherent_except_error_text : forall G s0 ops,
  let s' := run G (activate_all G s0) ops in
  forall k sc p P c,
    nth_error (g_conns G) k = Some sc -> covers G sc p = true ->
    nth_error (g_params G) p = Some P -> nth_error (s_cells s') p = Some c ->
    exists m, replay p (msgs_of k s') = Some m /\ reports G None P p c m.
Proof.
  intros G s0 ops s' k sc p P c Hk Hc HP Hcell. rewrite replay_latest.
  exact (run_coherent G ops _ (activate_coherent G s0) k sc p P c Hk Hc HP Hcell).
Qed.
Print Assumptions C05_coherent_except_error_text.

(* order / no phantom state / nothing lost, for every operation from every state: what the operation appends to the
   stream is built from the entry the cache holds right after it, and a covered parameter it is silent about did not
   change for a client (same error object, same timestamp, value equal by ==) *)
Theorem C05_order_no_phantom : forall G s o,
  let s' := step G s o in
  exists new, s_log s' = new ++ s_log s /\
    (forall k m, In (k, m) new -> exists P c', m_p m = o_p o /\ nth_error (g_params G) (o_p o) = Some P /\
        nth_error (s_cells s') (o_p o) = Some c' /\ m = render G (s_heap s') P (o_p o) c') /\
    (forall k sc p c, nth_error (g_conns G) k = Some sc -> covers G sc p = true -> nth_error (s_cells s) p = Some c ->
        (forall m, In (k, m) new -> m_p m <> p) ->
        exists c', nth_error (s_cells s') p = Some c' /\ quiet_change c c').
Proof. exact step_sound. Qed.
Print Assumptions C05_order_no_phantom.

(* a recovery from an error is always announced, whatever the value, the time and the omit interval *)
Theorem C05_recovery_announced : forall G s o k sc p P c e c',
  nth_error (g_conns G) k = Some sc -> covers G sc p = true -> nth_error (g_params G) p = Some P ->
  nth_error (s_cells s) p = Some c -> c_err c = Some e ->
  nth_error (s_cells (step G s o)) p = Some c' -> c_err c' = None ->
  latest k p (s_log (step G s o)) = Some (render G (s_heap (step G s o)) P p c') /\
  m_pay (render G (s_heap (step G s o)) P p c') = PVal (dt_export (p_dt P) (c_val c')) /\
  In (k, render G (s_heap (step G s o)) P p c')
     (firstn (length (s_log (step G s o)) - length (s_log s)) (s_log (step G s o))).
Proof. exact recovery_announced. Qed.
Print Assumptions C05_recovery_announced.

(* ------------------------------------------------------------------ any number of threads, every schedule.
   Threads: driver threads (wrapped read_ / write_, assignment, announceUpdate) and connection threads (the real
   handle_activate for the whole node, a module or one parameter; handle_deactivate; remove_connection).  The
   hypotheses on the flags are the source facts of C05_source_facts. *)

(* the regions of one module -- announceUpdate from the clock read to the last send_reply, handle_activate while it
   builds and sends the initial values of the module -- are never executed by two threads at once *)
Theorem C05_update_region_exclusive : forall G s ss progs sched,
  src_flags = flags_ok -> length (s_cells s) = length (g_params G) ->
  exclusive G (cs_thr (crun G src_flags (cinit s ss progs) sched)).
Proof. intros G s ss progs sched -> L. apply crun_exclusive; [apply cinit_wf; auto|apply cinit_exclusive]. Qed.
Print Assumptions C05_update_region_exclusive.

(* ... and a thread outside (before the lock) changes neither the cache nor any stream nor the subscriptions *)
Theorem C05_outside_region_frame : forall G F st ss ts i t acts t',
  tstep G F st ss ts i t = Some (acts, t') ->
  match t_pk t with KStart | KAcqA | KDrv => True | _ => False end ->
  let x := fold_left (fun x a => ceff G a x) acts (st, ss) in
  s_cells (fst x) = s_cells st /\ s_log (fst x) = s_log st /\ snd x = ss.
Proof. exact tstep_outside_frame. Qed.
Print Assumptions C05_outside_region_frame.

(* (1) activation coherence under concurrency.  Start: any cache, every connection activated as the configuration
   says (possibly not at all).  After any schedule of any threads, at every point at which no thread is inside the
   body of announceUpdate or inside handle_activate after its registration ([quiet]): every connection, for every
   scope it is registered for at that point and every parameter the scope covers, holds as newest message of the
   parameter a report of the cached entry -- no lost update, no stale initial value.  ([reports G None]: as in
   C05_coherent_except_error_text.) *)
Theorem C05_concurrent_activation_coherent : forall G s0 progs sched,
  src_flags = flags_ok -> wf_config G -> length (s_cells s0) = length (g_params G) ->
  let r := crun G src_flags (cinit (activate_all G s0) (subs0 G) progs) sched in
  quiet r = true ->
  forall k scs sc p P c,
    nth_error (cs_subs r) k = Some scs -> In sc scs -> covers G sc p = true ->
    nth_error (g_params G) p = Some P -> nth_error (s_cells (cs_st r)) p = Some c ->
    exists m, replay p (msgs_of k (cs_st r)) = Some m /\ reports G None P p c m.
Proof.
  intros G s0 progs sched -> WG L r Q k scs sc p P c Hk Hsc Hc HP Hcell. rewrite replay_latest.
  refine (concurrent_coherent G (activate_all G s0) (subs0 G) progs sched WG _ (served_activate G s0) Q
            k scs sc p P c Hk Hsc Hc HP Hcell).
  rewrite activate_all_cells; auto.
Qed.
Print Assumptions C05_concurrent_activation_coherent.

(* (2) refinement ("cut from the design" in the first version).  [ctrace] lists what the threads commit, in the order
   of the commit points: the wrapper prologue of an operation (bookkeeping of raising_methods), its announce region
   (at the clock read right after updateLock is taken: for one module that is the order in which the threads acquired
   the lock), every initial value of handle_activate (when it is built, inside the lock), registrations and
   deregistrations.  [arun] executes that list sequentially with every region atomic: an announce region serves all
   its listeners at once, an initial value is delivered when it is built.  For every schedule the concurrent run has
   the cache, the clock, the heap and the subscriptions of that sequential run; the stream of every connection about
   every parameter is the sequential one minus what threads inside a region still have in hand ([pend]); at a
   quiescent point the streams (and what a client replays from them) are equal.
   Streams are compared per (connection, parameter): messages about parameters of different modules are sent by
   threads holding different locks and may reach two connections in different orders -- the property orders messages
   per parameter only. *)
Theorem C05_concurrent_refinement : forall G st ss progs sched,
  src_flags = flags_ok -> length (s_cells st) = length (g_params G) ->
  let r := crun G src_flags (cinit st ss progs) sched in
  let q := arun G (ctrace G src_flags (cinit st ss progs) sched) (st, ss) in
  s_cells (cs_st r) = s_cells (fst q) /\ s_heap (cs_st r) = s_heap (fst q) /\ s_now (cs_st r) = s_now (fst q) /\
  cs_subs r = snd q /\
  (forall k p, plog k p (s_log (fst q)) = pend k p (cs_thr r) ++ plog k p (s_log (cs_st r))) /\
  (quiet r = true -> forall k p, pstream k p (cs_st r) = pstream k p (fst q) /\
                                 replay p (msgs_of k (cs_st r)) = replay p (msgs_of k (fst q))).
Proof. intros G st ss progs sched -> L. exact (concurrent_refinement G st ss progs sched L). Qed.
Print Assumptions C05_concurrent_refinement.

(* ... and the sequential reading is the sequential model: the two actions of a driver operation, executed one after
   the other with the subscriptions of the configuration, are one [step] (so C05_order_no_phantom and
   C05_recovery_announced speak about every announce region of every schedule) *)
Theorem C05_sequential_reading_is_step : forall G s o P,
  nth_error (g_params G) (o_p o) = Some P ->
  arun G (AHeap P o :: match snd (pre P (s_heap s) o) with Some inp => [AFun P o inp] | None => [] end) (s, subs0 G)
  = (step G s o, subs0 G).
Proof. exact step_as_actions. Qed.
Print Assumptions C05_sequential_reading_is_step.

(* ------------------------------------------------------------------ parameter callbacks (Module.addCallback /
   registerCallbacks).  An operation comes with a script c : cbs, the tree of what the callbacks registered on its
   parameter do in this invocation: return, raise an exception of any class, or call announceUpdate of a module (whose
   own callbacks run in turn; <follower>.announceUpdate registered by registerCallbacks(autoupdate) included), for
   strict callables (update_<p>(self, value)) python's own TypeError when the entry is an error.  [step_cb] is the
   operation with the callback loop between the store and the notification; the hypothesis on the except clause is a
   source fact (C05_source_facts). *)

(* no callback behaviour suppresses, alters or duplicates the update of the operation that triggered it:
   (1) callbacks that return or raise -- whatever they raise -- leave the operation exactly as it is without callbacks
       (whole state: cache, clock, raising-method lists, every stream);
   (2) for any tree of nested announcements that are not about the operation's own parameter, the cache entry of that
       parameter and what every connection is sent about it are those of the operation without callbacks -- so
       C05_order_no_phantom and C05_recovery_announced hold for it as they stand. *)
Theorem C05_callbacks_cannot_suppress_update : forall G s o c,
  callback_except_class = s_exception ->
  (cbs_flat c = true -> step_cb G callback_except_class s (o, c) = step G s o) /\
  (cbs_avoid (o_p o) c = true ->
   nth_error (s_cells (step_cb G callback_except_class s (o, c))) (o_p o) = nth_error (s_cells (step G s o)) (o_p o) /\
   forall k, plog k (o_p o) (s_log (step_cb G callback_except_class s (o, c))) = plog k (o_p o) (s_log (step G s o))).
Proof.
  intros G s o c ->. split; [apply step_cb_flat|]. intros AV. exact (step_cb_own G s o c AV).
Qed.
Print Assumptions C05_callbacks_cannot_suppress_update.

(* frame of nested announcements: running any callback tree (for any entry pc handed to the callbacks, from any
   state) lets no exception out of the loop, leaves the raising-method lists alone, and for every parameter p that no
   announcement of the tree is about: the cache entry of p and the stream of every connection about p are untouched *)
Theorem C05_nested_announcements_frame : forall G c pc s,
  callback_except_class = s_exception ->
  let r := run_cbs G callback_except_class c pc s in
  snd r = None /\ s_heap (fst r) = s_heap s /\
  forall p, cbs_avoid p c = true ->
    nth_error (s_cells (fst r)) p = nth_error (s_cells s) p /\
    forall k, plog k p (s_log (fst r)) = plog k p (s_log s).
Proof. intros G c pc s ->. exact (run_cbs_frame G c pc s). Qed.
Print Assumptions C05_nested_announcements_frame.

(* ... and coherence itself needs no restriction on the tree (announcements about the operation's own parameter, about
   parameters of the same module, chains of followers): after any history of operations with any callback scripts
   every connection's newest message of every parameter it covers reports the cached entry (as in
   C05_coherent_except_error_text, which is the case of empty scripts) *)
Theorem C05_coherent_with_callbacks : forall G s0 ocs,
  callback_except_class = s_exception ->
  let s' := run_cb G callback_except_class (activate_all G s0) ocs in
  forall k sc p P c,
    nth_error (g_conns G) k = Some sc -> covers G sc p = true ->
    nth_error (g_params G) p = Some P -> nth_error (s_cells s') p = Some c ->
    exists m, replay p (msgs_of k s') = Some m /\ reports G None P p c m.
Proof.
  intros G s0 ocs -> s' k sc p P c Hk Hc HP Hcell. rewrite replay_latest.
  exact (run_cb_coherent G ocs _ (activate_coherent G s0) k sc p P c Hk Hc HP Hcell).
Qed.
Print Assumptions C05_coherent_with_callbacks.


(* ------------------------------------------------------------------ request threads (read / change requests through
   the dispatcher).  A request is the wrapped read_ / write_ method (a job of the concurrent model) followed by the
   construction of the reply -- pobj.export_value() and pobj.timestamp, read WITHOUT the module's updateLock, with
   park points inside the conversion ([rstep], ModelReq.v).  Source facts export_value_pure (Parameter.export_value is
   `return self.datatype.export_value(self.value)`, nothing is stored) and reply_built_from_cache (the reply is built
   after the wrapper call from these two reads only) are obligations of C05_source_facts. *)

(* frame: a step of a thread that is building a reply, from any state, for any flags, changes nothing that is shared:
   cache, clock, raising-method lists, the stream of every connection, the subscription table and the park points
   (hence the locks) of all threads are the same; the other threads' request bookkeeping is untouched *)
Theorem C05_reply_building_is_pure : forall G F s i,
  is_reply s i = true ->
  let s' := rstep G F s i in
  r_cs s' = r_cs s /\
  s_cells (cs_st (r_cs s')) = s_cells (cs_st (r_cs s)) /\
  (forall k, msgs_of k (cs_st (r_cs s')) = msgs_of k (cs_st (r_cs s))) /\
  cs_subs (r_cs s') = cs_subs (r_cs s) /\
  (forall j, j <> i -> nth_error (r_req s') j = nth_error (r_req s) j).
Proof.
  intros G F s i H s'. pose proof (rstep_reply_frame G F s i H) as E. fold s' in E.
  split; [exact E|]. rewrite E. repeat split; auto.
  intros j N. exact (rstep_reply_others G F s i j H N).
Qed.
Print Assumptions C05_reply_building_is_pure.

(* every schedule of the system with request threads is, once the reply steps are erased, a schedule of the
   concurrent model with the same shared state: request threads add no behaviour *)
Theorem C05_request_threads_add_nothing : forall G F s sched,
  r_cs (rrun G F s sched) = crun G F (r_cs s) (erase G F s sched).
Proof. intros. apply rrun_erase. Qed.
Print Assumptions C05_request_threads_add_nothing.

(* ... so coherence at quiescent points holds with any number of request threads, replies under construction or not
   (marks: any number of reply park points after any job of any thread), under every schedule: in particular a
   connection activated after (or while) replies were built holds the cached entries *)
Theorem C05_coherent_with_request_threads : forall G s0 progs marks sched,
  src_flags = flags_ok -> wf_config G -> length (s_cells s0) = length (g_params G) ->
  let r := r_cs (rrun G src_flags (rinit (activate_all G s0) (subs0 G) progs marks) sched) in
  quiet r = true ->
  forall k scs sc p P c,
    nth_error (cs_subs r) k = Some scs -> In sc scs -> covers G sc p = true ->
    nth_error (g_params G) p = Some P -> nth_error (s_cells (cs_st r)) p = Some c ->
    exists m, replay p (msgs_of k (cs_st r)) = Some m /\ reports G None P p c m.
Proof.
  intros G s0 progs marks sched HF WG L r. subst r. rewrite rrun_erase. simpl r_cs.
  exact (C05_concurrent_activation_coherent G s0 progs _ HF WG L).
Qed.
Print Assumptions C05_coherent_with_request_threads.

Print Assumptions C05_refuted_error_text_stable.
Print Assumptions C05_refuted_without_update_lock.
Print Assumptions C05_refuted_registration_after_snapshot.
Print Assumptions C05_refuted_snapshot_outside_lock.
Print Assumptions C05_refuted_live_listener_set.
Print Assumptions C05_refuted_callback_exception_escapes.

(* non-vacuity: a run in which an activation races with two updates reaches a quiescent state with a registered,
   covered, served connection *)
(* non-vacuity of the callback theorems: a script with a raising callback, a nested announcement about another
   parameter and one about the operation's own parameter; the operation ends with both connections' streams coherent *)
Example C05_callbacks_nonvacuous :
  let c := CRaise false s_zerodiv (CAnn false 0 (PFloat (fmk 3 0)) None 0%Z 1%Z wcx CNil (Some s_zerodiv) CNil) in
  let s' := step_cb wG s_exception wS ({| o_p := 0; o_k := KAssign (PFloat (fmk 1 0)); o_dt := 1%Z; o_cx := wcx |}, c) in
  cbs_avoid 0 c = false /\ length (msgs_of 0 s') = 3 /\
  match nth_error (s_cells s') 0, replay 0 (msgs_of 0 s') with
  | Some e, Some m => Z.eqb (m_ts m) (c_ts e) && Z.eqb (c_ts e) 8002%Z = true
  | _, _ => False
  end.
Proof. vm_compute. repeat split; reflexivity. Qed.

Example C05_concurrent_nonvacuous :
  let r := crun aG flags_ok (cinit aS (subs0 aG) a_progs) [1; 1; 0; 0; 0; 0; 1; 1] in
  cs_ok r && quiescent r && quiet r && Nat.eqb (length (msgs_of 0 (cs_st r))) 2 = true.
Proof. vm_compute. reflexivity. Qed.
