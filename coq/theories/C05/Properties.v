(* C05 -- property theorems only; each is closed by a lemma of Lemmas.v / LemmasConc.v / Refuted.v.
   G ranges over every configuration (parameters of any datatype, any omit interval, any export setting, any set
   of subscribed connections), s over every cache state, ops over every history of wrapped reads / writes /
   assignments / announceUpdate calls with any driver behaviour and any clock. *)
From Coq Require Import List Arith ZArith Bool.
Import ListNotations.
Require Import FV.Base.PyVal FV.Gen.C05 FV.C05.Model FV.C05.Lemmas FV.C05.LemmasConc FV.C05.Refuted.

(* obligations on the facts regenerated from /repo (Gen/C05.v) *)
Theorem C05_source_facts :
  announce_in_updateLock = true /\ updateLock_is_rlock_per_module = true /\ store_then_notify = true /\
  notify_only_if_exported = true /\ changed_includes_readerror = true /\ repeated_error_test = true /\
  omit_test = true /\ read_wrapper_routes = true /\ write_wrapper_routes = true /\ assignment_routes = true /\
  make_update_reads_cache = true /\ announce_update_broadcasts = true /\ omit_resolution = true /\
  error_eq_ignores_methods = true /\ update_unchanged_codes = (0, 999999999, -1)%Z.
Proof. repeat split; reflexivity. Qed.
Print Assumptions C05_source_facts.

(* activation: the snapshot a connection gets reports, for every parameter it covers, the cached entry *)
Theorem C05_activation_coherent : forall G s, coherent G (activate_all G s).
Proof. exact activate_coherent. Qed.
Print Assumptions C05_activation_coherent.

(* replaying the stream reproduces the cache, after any history.
   Full statement (refuted on the pinned tree, see C05_refuted_error_text_stable):
     ... replay p (msgs_of k s') = Some m /\ reports G (Some (s_heap s')) P p c m      (error text exactly as cached)
   Proved: the same with [reports G None]: the message has the timestamp of the cached entry and either the value
   (up to python ==, the comparison the funnel itself uses) or the SECoP name of the cached error object and the
   text of that very object, rendered with some state of its raising-method list (the part finding
   C05/error-text-changes-after-announce is about). *)
Theorem C05_coherent_except_error_text : forall G s0 ops,
  let s' := run G (activate_all G s0) ops in
  forall k sc p P c,
    nth_error (g_conns G) k = Some sc -> covers G sc p = true ->
    nth_error (g_params G) p = Some P -> nth_error (s_cells s') p = Some c ->
    exists m, replay p (msgs_of k s') = Some m /\ reports G None P p c m.
Proof.
  intros G s0 ops s' k sc p P c Hk Hc HP Hcell. rewrite replay_latest.
  exact (run_coherent G ops _ (activate_coherent G s0) k sc p P c Hk Hc HP Hcell).
Qed.
Print Assumptions C05_coherent_except_error_text.

(* order / no phantom state / nothing lost, for every operation from every state: what the operation appends to the
   stream is built from the entry the cache holds right after it, and a covered parameter it is silent about did not
   change for a client (same error object, same timestamp, value equal by ==) *)
Theorem C05_order_no_phantom : forall G s o,
  let s' := step G s o in
  exists new, s_log s' = new ++ s_log s /\
    (forall k m, In (k, m) new -> exists P c', m_p m = o_p o /\ nth_error (g_params G) (o_p o) = Some P /\
        nth_error (s_cells s') (o_p o) = Some c' /\ m = render G (s_heap s') P (o_p o) c') /\
    (forall k sc p c, nth_error (g_conns G) k = Some sc -> covers G sc p = true -> nth_error (s_cells s) p = Some c ->
        (forall m, In (k, m) new -> m_p m <> p) ->
        exists c', nth_error (s_cells s') p = Some c' /\ quiet_change c c').
Proof. exact step_sound. Qed.
Print Assumptions C05_order_no_phantom.

(* a recovery from an error is always announced, whatever the value, the time and the omit interval *)
Theorem C05_recovery_announced : forall G s o k sc p P c e c',
  nth_error (g_conns G) k = Some sc -> covers G sc p = true -> nth_error (g_params G) p = Some P ->
  nth_error (s_cells s) p = Some c -> c_err c = Some e ->
  nth_error (s_cells (step G s o)) p = Some c' -> c_err c' = None ->
  latest k p (s_log (step G s o)) = Some (render G (s_heap (step G s o)) P p c') /\
  m_pay (render G (s_heap (step G s o)) P p c') = PVal (dt_export (p_dt P) (c_val c')) /\
  In (k, render G (s_heap (step G s o)) P p c')
     (firstn (length (s_log (step G s o)) - length (s_log s)) (s_log (step G s o))).
Proof. exact recovery_announced. Qed.
Print Assumptions C05_recovery_announced.

(* any number of threads, any schedule: the region of announceUpdate between the clock read and the last send_reply
   of one module is never executed by two threads at once -- given that the source encloses it by the lock *)
Theorem C05_update_region_exclusive : forall G s progs sched,
  announce_in_updateLock = true ->
  exclusive G (cs_thr (crun G announce_in_updateLock (cinit s progs) sched)).
Proof. intros G s progs sched ->. apply crun_exclusive, cinit_exclusive. Qed.
Print Assumptions C05_update_region_exclusive.

(* ... and a thread outside that region (before the lock) changes neither the cache nor any stream *)
Theorem C05_outside_region_frame : forall G locked st ts i t st' t',
  tstep G locked st ts i t = Some (st', t') ->
  match t_pk t with KStart | KAcqA | KDrv => True | _ => False end ->
  s_cells st' = s_cells st /\ s_log st' = s_log st.
Proof. exact tstep_outside_frame. Qed.
Print Assumptions C05_outside_region_frame.

Print Assumptions C05_refuted_error_text_stable.
Print Assumptions C05_refuted_without_update_lock.
