(* C05 -- parameter callbacks cannot suppress, alter or reorder the update of the operation that triggered them;
   nested announcements are framed; the coherence invariant survives any callback tree *)
From Coq Require Import ZArith NArith Bool List Arith Lia.
Import ListNotations.
Require Import FV.Base.Util FV.Base.F64 FV.Base.PyVal FV.C01.Model FV.C05.Model FV.C05.ModelCb FV.C05.Lemmas
  FV.C05.LemmasRef.

Arguments swallows : simpl never.
Lemma swallows_exception tn : swallows s_exception tn = true.
Proof. reflexivity. Qed.

(* ------------------------------------------------------------------ the store half of the announce region *)
Lemma region_store_spec G ks P o inp s :
  ann_region G ks P o inp s =
  match region_store G P o inp s with
  | (s3, Some c') => if exported P then (s3, ks, Some (render G (s_heap s) P (o_p o) c')) else (s3, [], None)
  | (s3, None) => (s3, [], None)
  end.
Proof.
  unfold ann_region, region_store, apply_funnel_with.
  set (s2 := if Z.eqb (explicit_ts o) 0 then tick s (o_dt o) else s).
  assert (H2 : s_heap s2 = s_heap s) by (unfold s2; destruct (Z.eqb _ _); reflexivity).
  destruct (nth_error (s_cells s2) (o_p o)) as [c|]; [|reflexivity].
  destruct (funnel P c inp (o_cx o) _) as [c' emit]. rewrite H2.
  destruct emit, (exported P); reflexivity.
Qed.

Lemma region_store_props G P o inp s s3 oc :
  region_store G P o inp s = (s3, oc) ->
  s_heap s3 = s_heap s /\ s_log s3 = s_log s /\
  (forall p, p <> o_p o -> nth_error (s_cells s3) p = nth_error (s_cells s) p) /\
  match oc with
  | Some c' => nth_error (s_cells s3) (o_p o) = Some c'
  | None => forall c, nth_error (s_cells s) (o_p o) = Some c ->
                      exists c', nth_error (s_cells s3) (o_p o) = Some c' /\ quiet_change c c'
  end.
Proof.
  unfold region_store.
  set (s2 := if Z.eqb (explicit_ts o) 0 then tick s (o_dt o) else s).
  assert (C2 : s_cells s2 = s_cells s) by (unfold s2; destruct (Z.eqb _ _); reflexivity).
  assert (L2 : s_log s2 = s_log s) by (unfold s2; destruct (Z.eqb _ _); reflexivity).
  assert (H2 : s_heap s2 = s_heap s) by (unfold s2; destruct (Z.eqb _ _); reflexivity).
  rewrite C2. destruct (nth_error (s_cells s) (o_p o)) as [c|] eqn:EC.
  - destruct (funnel P c inp (o_cx o) _) as [c' emit] eqn:EF. intros H; inversion H; subst; clear H. simpl.
    repeat split; auto.
    + intros p N. apply nth_set_nth_neq; auto.
    + destruct emit.
      * eapply nth_set_nth_eq; eauto.
      * intros c0 E0; inversion E0; subst c0. exists c'; split; [eapply nth_set_nth_eq; eauto|].
        eapply funnel_quiet; eauto.
  - intros H; inversion H; subst; clear H. repeat split; auto; try congruence.
Qed.

Lemma notify_spec G P p s :
  match nth_error (s_cells s) p with
  | Some c => s_cells (notify G P p s) = s_cells s /\ s_heap (notify G P p s) = s_heap s /\
              s_log (notify G P p s) = rev (map (fun k => (k, render G (s_heap s) P p c)) (listeners G p)) ++ s_log s
  | None => notify G P p s = s
  end.
Proof.
  unfold notify. destruct (nth_error (s_cells s) p) as [c|]; auto.
  destruct (deliver_all_spec s (listeners G p) (render G (s_heap s) P p c)) as (A & B & _ & D). auto.
Qed.

Lemma pre_announce P h q v x ts dt cx : fst (pre P h (ann_op q v x ts dt cx)) = h.
Proof. unfold pre, ann_op; simpl. destruct x; reflexivity. Qed.

(* ------------------------------------------------------------------ (a) callbacks that return or raise *)
Lemma run_cbs_flat G c : cbs_flat c = true -> forall pc s, run_cbs G s_exception c pc s = (s, None).
Proof.
  induction c; simpl; intros F pc s; try discriminate; auto.
  all: rewrite ?swallows_exception; simpl; rewrite ?andb_false_r; auto.
Qed.

Lemma ann_k_plain G s o K :
  (forall pc s0, K pc s0 = (s0, None)) -> fst (ann_k G K s o) = step G s o.
Proof.
  intros HK. unfold ann_k, step. destruct (nth_error (g_params G) (o_p o)) as [P|]; [|reflexivity].
  destruct (pre P (s_heap s) o) as [h1 [inp|]]; [|reflexivity].
  unfold ann_atomic. rewrite region_store_spec.
  destruct (region_store G P o inp (set_heap s h1)) as [s3 [c'|]] eqn:RS; [|reflexivity].
  rewrite HK. destruct (region_store_props _ _ _ _ _ _ _ RS) as (HH & _ & _ & HC).
  destruct (exported P); [|reflexivity]. simpl.
  unfold notify. rewrite HC, HH. reflexivity.
Qed.

Theorem step_cb_flat G s o c : cbs_flat c = true -> step_cb G s_exception s (o, c) = step G s o.
Proof. intros F. unfold step_cb; simpl. apply ann_k_plain. intros; apply run_cbs_flat; auto. Qed.

Theorem run_cb_flat G ocs : forall s,
  forallb (fun oc => cbs_flat (snd oc)) ocs = true -> run_cb G s_exception s ocs = run G s (map fst ocs).
Proof.
  unfold run_cb, run. induction ocs as [|[o c] r IH]; simpl; intros s F; auto.
  apply andb_prop in F. destruct F as [F1 F2]. rewrite step_cb_flat by auto. apply IH; auto.
Qed.

(* ------------------------------------------------------------------ (c) frame of nested announcements *)
(* parameter p looks the same in s' as in s: same entry, same stream of every connection *)
Definition same_at (p : nat) (s s' : state) : Prop :=
  nth_error (s_cells s') p = nth_error (s_cells s) p /\ forall k, plog k p (s_log s') = plog k p (s_log s).
Lemma same_at_refl p s : same_at p s s.
Proof. split; auto. Qed.
Lemma same_at_trans p a b c : same_at p a b -> same_at p b c -> same_at p a c.
Proof. intros [A1 A2] [B1 B2]; split; [congruence|]. intros k; rewrite B2; auto. Qed.

Lemma same_at_set_heap p s h : same_at p s (set_heap s h).
Proof. split; reflexivity. Qed.

Lemma plog_other k p new : (forall k' m, In (k', m) new -> m_p m <> p) -> plog k p new = [].
Proof.
  induction new as [|[k' m] r IH]; intros H; simpl; auto.
  assert (N : m_p m <> p) by (apply (H k'); left; auto). apply Nat.eqb_neq in N. rewrite N, andb_false_r.
  apply IH. intros; eapply H; right; eauto.
Qed.

Lemma notify_frame G P q p s : q <> p -> same_at p s (notify G P q s).
Proof.
  intros N. pose proof (notify_spec G P q s) as H. destruct (nth_error (s_cells s) q) as [c|].
  - destruct H as (A & _ & L). split; [rewrite A; auto|]. intros k. rewrite L, plog_app, plog_other; auto.
    intros k' m Hin. rewrite <- in_rev, in_map_iff in Hin. destruct Hin as (x & E & _). inversion E; subst; simpl; auto.
  - rewrite H. apply same_at_refl.
Qed.

Lemma ann_k_frame G K s o p :
  (forall pc s0, same_at p s0 (fst (K pc s0))) -> o_p o <> p -> same_at p s (fst (ann_k G K s o)).
Proof.
  intros HK N. unfold ann_k. destruct (nth_error (g_params G) (o_p o)) as [P|]; [|apply same_at_refl].
  destruct (pre P (s_heap s) o) as [h1 [inp|]]; simpl; [|apply same_at_set_heap].
  destruct (region_store G P o inp (set_heap s h1)) as [s3 oc] eqn:RS.
  destruct (region_store_props _ _ _ _ _ _ _ RS) as (_ & HL & HC & _).
  assert (S3 : same_at p s s3).
  { split; [rewrite HC; auto|]. intros k; rewrite HL; reflexivity. }
  destruct oc as [c'|]; simpl; auto.
  specialize (HK c' s3). destruct (K c' s3) as [s4 [tn|]]; simpl in *.
  - eapply same_at_trans; eauto.
  - destruct (exported P); [|eapply same_at_trans; eauto].
    eapply same_at_trans; [eapply same_at_trans; eauto|]. apply notify_frame; auto.
Qed.

Lemma ann_k_heap G K s q v x ts dt cx :
  (forall pc s0, s_heap (fst (K pc s0)) = s_heap s0) ->
  s_heap (fst (ann_k G K s (ann_op q v x ts dt cx))) = s_heap s.
Proof.
  intros HK. unfold ann_k. set (o := ann_op q v x ts dt cx).
  destruct (nth_error (g_params G) (o_p o)) as [P|]; [|reflexivity].
  pose proof (pre_announce P (s_heap s) q v x ts dt cx) as HP. fold o in HP.
  destruct (pre P (s_heap s) o) as [h1 [inp|]]; simpl in HP; subst h1; simpl; auto.
  destruct (region_store G P o inp (set_heap s (s_heap s))) as [s3 oc] eqn:RS.
  destruct (region_store_props _ _ _ _ _ _ _ RS) as (HH & _).
  destruct oc as [c'|]; simpl; auto.
  specialize (HK c' s3). destruct (K c' s3) as [s4 [tn|]]; simpl in *; [congruence|].
  destruct (exported P); [|congruence].
  change (o_p o) with q. pose proof (notify_spec G P q s4) as H. destruct (nth_error (s_cells s4) q).
  - destruct H as (_ & B & _). congruence.
  - rewrite H. congruence.
Qed.

(* with "except Exception" nothing leaves the callback loop, the raising-method lists are untouched, and a
   parameter no announcement of the tree is about keeps its entry and its streams *)
Lemma run_cbs_frame G c : forall pc s,
  snd (run_cbs G s_exception c pc s) = None /\
  s_heap (fst (run_cbs G s_exception c pc s)) = s_heap s /\
  forall p, cbs_avoid p c = true -> same_at p s (fst (run_cbs G s_exception c pc s)).
Proof.
  induction c as [|st r IHr|st tn r IHr|st q v x ts dt cx sub IHsub after r IHr|q dt cx sub IHsub r IHr];
    intros pc s; simpl.
  - repeat split; auto.
  - rewrite ?swallows_exception; simpl; rewrite ?andb_false_r. apply IHr.
  - rewrite ?swallows_exception. apply IHr.
  - rewrite ?swallows_exception.
    destruct (st && is_some (c_err pc)).
    { destruct (IHr pc s) as (A & B & C). split; [auto|split; [auto|]]. intros p Hp. apply C.
      apply andb_prop in Hp; tauto. }
    destruct (ann_k G (run_cbs G s_exception sub) s (ann_op q v x ts dt cx)) as [s' esc] eqn:EA.
    assert (HH : s_heap s' = s_heap s).
    { change s' with (fst (s', esc)). rewrite <- EA. apply ann_k_heap. intros; apply IHsub. }
    assert (HF : forall p, cbs_avoid p (CAnn st q v x ts dt cx sub after r) = true -> same_at p s s').
    { intros p Hp. simpl in Hp. apply andb_prop in Hp; destruct Hp as [Hp _]. apply andb_prop in Hp; destruct Hp as [N Hs].
      change s' with (fst (s', esc)). rewrite <- EA. apply ann_k_frame.
      - intros; apply IHsub; auto.
      - simpl. apply negb_true_iff, Nat.eqb_neq in N; auto. }
    assert (R : forall t : state * option str, (snd t = None /\ s_heap (fst t) = s_heap s' /\
                           forall p, cbs_avoid p r = true -> same_at p s' (fst t)) ->
                snd t = None /\ s_heap (fst t) = s_heap s /\
                forall p, cbs_avoid p (CAnn st q v x ts dt cx sub after r) = true -> same_at p s (fst t)).
    { intros t (A & B & C). split; [auto|split; [congruence|]]. intros p Hp.
      eapply same_at_trans; [apply HF; auto|]. apply C. simpl in Hp. apply andb_prop in Hp; tauto. }
    destruct esc as [tn|]; [apply R, IHr|]. destruct after; apply R, IHr.
  - destruct (ann_k G (run_cbs G s_exception sub) s (auto_op pc q dt cx)) as [s' esc] eqn:EA.
    assert (HH : s_heap s' = s_heap s).
    { change s' with (fst (s', esc)). rewrite <- EA. unfold auto_op. apply ann_k_heap. intros; apply IHsub. }
    assert (HF : forall p, cbs_avoid p (CAuto q dt cx sub r) = true -> same_at p s s').
    { intros p Hp. simpl in Hp. apply andb_prop in Hp; destruct Hp as [Hp _]. apply andb_prop in Hp; destruct Hp as [N Hs].
      change s' with (fst (s', esc)). rewrite <- EA. apply ann_k_frame.
      - intros; apply IHsub; auto.
      - simpl. apply negb_true_iff, Nat.eqb_neq in N; auto. }
    assert (R : forall t : state * option str, (snd t = None /\ s_heap (fst t) = s_heap s' /\
                           forall p, cbs_avoid p r = true -> same_at p s' (fst t)) ->
                snd t = None /\ s_heap (fst t) = s_heap s /\
                forall p, cbs_avoid p (CAuto q dt cx sub r) = true -> same_at p s (fst t)).
    { intros t (A & B & C). split; [auto|split; [congruence|]]. intros p Hp.
      eapply same_at_trans; [apply HF; auto|]. apply C. simpl in Hp. apply andb_prop in Hp; tauto. }
    rewrite ?swallows_exception. destruct esc; apply R, IHr.
Qed.

(* ------------------------------------------------------------------ (b) the operation's own entry and messages *)
Theorem step_cb_own G s o c :
  cbs_avoid (o_p o) c = true -> same_at (o_p o) (step G s o) (step_cb G s_exception s (o, c)).
Proof.
  intros AV. unfold step_cb, ann_k, step; simpl.
  destruct (nth_error (g_params G) (o_p o)) as [P|]; [|apply same_at_refl].
  destruct (pre P (s_heap s) o) as [h1 [inp|]]; simpl; [|apply same_at_refl].
  unfold ann_atomic. rewrite region_store_spec.
  destruct (region_store G P o inp (set_heap s h1)) as [s3 [c'|]] eqn:RS; [|apply same_at_refl].
  destruct (region_store_props _ _ _ _ _ _ _ RS) as (HH & _ & _ & HC).
  destruct (run_cbs_frame G c c' s3) as (A & B & C). specialize (C _ AV).
  destruct (run_cbs G s_exception c c' s3) as [s4 esc]; simpl in *. subst esc.
  destruct (exported P); [|exact C].
  destruct C as [C1 C2].
  pose proof (notify_spec G P (o_p o) s4) as N. rewrite C1, HC in N. destruct N as (N1 & _ & N3).
  destruct (deliver_all_spec s3 (listeners G (o_p o)) (render G (s_heap (set_heap s h1)) P (o_p o) c')) as (D1 & _ & _ & D4).
  change (s_heap (set_heap s h1)) with h1 in *. simpl fst. split.
  - rewrite N1, D1. auto.
  - intros k. rewrite N3, D4, !plog_app, C2, B, HH. reflexivity.
Qed.

(* ------------------------------------------------------------------ coherence survives any callback tree *)
Definition coh_at (G : config) (s : state) (k p : nat) : Prop :=
  forall sc P c,
    nth_error (g_conns G) k = Some sc -> covers G sc p = true ->
    nth_error (g_params G) p = Some P -> nth_error (s_cells s) p = Some c ->
    exists m, latest k p (s_log s) = Some m /\ reports G None P p c m.
(* ... for every parameter outside D (the parameters whose notification is still to come) *)
Definition coh_out (G : config) (D : nat -> Prop) (s : state) : Prop := forall k p, ~ D p -> coh_at G s k p.

Lemma coherent_coh_out G s : coherent G s <-> coh_out G (fun _ => False) s.
Proof.
  split.
  - intros H k p _ sc P c. apply H.
  - intros H k sc p P c. apply (H k p); auto.
Qed.

Lemma coh_at_same G s s' k p :
  nth_error (s_cells s') p = nth_error (s_cells s) p -> latest k p (s_log s') = latest k p (s_log s) ->
  coh_at G s k p -> coh_at G s' k p.
Proof. intros EC EL H sc P c Hk Hc HP Hcell. rewrite EC in Hcell. rewrite EL. eauto. Qed.

Lemma ann_k_coh G K :
  (forall D pc s0, coh_out G D s0 -> coh_out G D (fst (K pc s0))) ->
  (forall pc s0, snd (K pc s0) = None) ->
  forall D s o, coh_out G D s -> coh_out G D (fst (ann_k G K s o)).
Proof.
  intros HK HN D s o I. unfold ann_k.
  destruct (nth_error (g_params G) (o_p o)) as [P|] eqn:EP; [|exact I].
  destruct (pre P (s_heap s) o) as [h1 fi].
  assert (I1 : coh_out G D (set_heap s h1)) by exact I.
  destruct fi as [inp|]; simpl; [|exact I1].
  destruct (region_store G P o inp (set_heap s h1)) as [s3 oc] eqn:RS.
  destruct (region_store_props _ _ _ _ _ _ _ RS) as (_ & HL & HC & HO).
  destruct oc as [c'|]; simpl.
  - (* stored: parameter o_p o awaits its notification while the callbacks run *)
    assert (I3 : coh_out G (fun p => D p \/ p = o_p o) s3).
    { intros k p ND. apply coh_at_same with (s := set_heap s h1).
      - apply HC. intros E; apply ND; auto.
      - rewrite HL; auto.
      - apply I1. intros Dp; apply ND; auto. }
    specialize (HK _ c' s3 I3). specialize (HN c' s3).
    destruct (K c' s3) as [s4 esc]; simpl in *. subst esc.
    destruct (exported P) eqn:EX; simpl fst.
    + intros k p ND. pose proof (notify_spec G P (o_p o) s4) as N.
      destruct (nth_error (s_cells s4) (o_p o)) as [c4|] eqn:E4.
      * destruct N as (N1 & _ & N3). destruct (Nat.eq_dec p (o_p o)) as [E|NE].
        -- subst p. intros sc P' c Hk Hc HP Hcell. rewrite EP in HP; inversion HP; subst P'.
           rewrite N1, E4 in Hcell; inversion Hcell; subst c. rewrite N3. eexists; split.
           ++ apply latest_deliveries_in; [eapply listeners_in; eauto|reflexivity].
           ++ apply reports_weaken with (h := s_heap s4). apply reports_render.
        -- apply coh_at_same with (s := s4); [rewrite N1; auto| |apply HK; tauto].
           rewrite N3. apply latest_app_other. intros k' m Hin. right.
           rewrite <- in_rev, in_map_iff in Hin. destruct Hin as (y & E & _). inversion E; subst; simpl; auto.
      * rewrite N. destruct (Nat.eq_dec p (o_p o)) as [E|NE]; [|apply HK; tauto].
        subst p. intros sc P' c _ _ _ Hcell. congruence.
    + intros k p ND. destruct (Nat.eq_dec p (o_p o)) as [E|NE]; [|apply HK; tauto].
      subst p. intros sc P' c _ Hc HP _. pose proof (covers_exported _ _ _ _ Hc EP). congruence.
  - (* suppressed: the entry changed, if at all, in a way no client can see *)
    intros k p ND. destruct (Nat.eq_dec p (o_p o)) as [E|NE].
    + subst p. intros sc P' c Hk Hc HP Hcell. rewrite HL.
      destruct (nth_error (s_cells (set_heap s h1)) (o_p o)) as [c0|] eqn:E0.
      * destruct (HO c0 eq_refl) as (c1 & E1 & Q). rewrite E1 in Hcell; inversion Hcell; subst c1.
        destruct (I1 k (o_p o) ND sc P' c0 Hk Hc HP E0) as (m & L & R).
        exists m; split; auto. eapply reports_quiet; eauto.
      * exfalso. unfold region_store in RS.
        assert (C2 : s_cells (if Z.eqb (explicit_ts o) 0 then tick (set_heap s h1) (o_dt o) else set_heap s h1) =
                     s_cells (set_heap s h1)) by (destruct (Z.eqb _ _); reflexivity).
        rewrite C2, E0 in RS. inversion RS; subst s3.
        rewrite C2 in Hcell. congruence.
    + apply coh_at_same with (s := set_heap s h1); [apply HC; auto|rewrite HL; auto|apply I1; auto].
Qed.

Lemma run_cbs_coh G c : forall D pc s, coh_out G D s -> coh_out G D (fst (run_cbs G s_exception c pc s)).
Proof.
  induction c as [|st r IHr|st tn r IHr|st q v x ts dt cx sub IHsub after r IHr|q dt cx sub IHsub r IHr];
    intros D pc s I; simpl.
  - exact I.
  - rewrite ?swallows_exception; simpl; rewrite ?andb_false_r. apply IHr; auto.
  - rewrite ?swallows_exception. apply IHr; auto.
  - rewrite ?swallows_exception. destruct (st && is_some (c_err pc)); [apply IHr; auto|].
    pose proof (ann_k_coh G (run_cbs G s_exception sub) IHsub (fun pc s0 => proj1 (run_cbs_frame G sub pc s0))
                  D s (ann_op q v x ts dt cx) I) as H.
    destruct (ann_k G (run_cbs G s_exception sub) s (ann_op q v x ts dt cx)) as [s' esc]; simpl in H.
    destruct esc; [apply IHr; auto|]. destruct after; apply IHr; auto.
  - rewrite ?swallows_exception.
    pose proof (ann_k_coh G (run_cbs G s_exception sub) IHsub (fun pc s0 => proj1 (run_cbs_frame G sub pc s0))
                  D s (auto_op pc q dt cx) I) as H.
    destruct (ann_k G (run_cbs G s_exception sub) s (auto_op pc q dt cx)) as [s' esc]; simpl in H.
    destruct esc; apply IHr; auto.
Qed.

Theorem step_cb_coherent G s oc : coherent G s -> coherent G (step_cb G s_exception s oc).
Proof.
  rewrite !coherent_coh_out. intros I. unfold step_cb. apply ann_k_coh; auto.
  - intros; apply run_cbs_coh; auto.
  - intros; apply run_cbs_frame.
Qed.

Theorem run_cb_coherent G ocs : forall s, coherent G s -> coherent G (run_cb G s_exception s ocs).
Proof. unfold run_cb. induction ocs; simpl; intros; auto. apply IHocs, step_cb_coherent; auto. Qed.

(* nothing leaves announceUpdate except the KeyError of an unknown parameter name *)
Lemma step_cb_no_escape G s o c P :
  nth_error (g_params G) (o_p o) = Some P -> snd (ann_k G (run_cbs G s_exception c) s o) = None.
Proof.
  intros EP. unfold ann_k. rewrite EP. destruct (pre P (s_heap s) o) as [h1 [inp|]]; auto.
  destruct (region_store G P o inp (set_heap s h1)) as [s3 [c'|]]; auto.
  pose proof (proj1 (run_cbs_frame G c c' s3)) as H.
  destruct (run_cbs G s_exception c c' s3) as [s4 esc]; simpl in *. subst; auto.
Qed.
