(* C05 -- coherence under concurrency: driver threads, activation threads, deactivation / removal.
   Invariant over every schedule: a registered connection either is owed the current state of a covered parameter
   by a thread that is inside a region (and will deliver it), or its newest message of that parameter reports the
   cached entry.  At a quiescent point nobody owes anything. *)
From Coq Require Import ZArith NArith Bool List Arith Lia.
Import ListNotations.
Require Import FV.Base.Util FV.Base.F64 FV.Base.PyVal FV.C01.Model FV.C05.Model FV.C05.Lemmas FV.C05.LemmasConc.

Definition wf_config (G : config) : Prop :=
  forall p P, nth_error (g_params G) p = Some P -> p_mod P < g_nmods G.

(* message m reports what the cache holds now for its parameter *)
Definition fresh (G : config) (st : state) (m : msg) : Prop :=
  forall P c, nth_error (g_params G) (m_p m) = Some P -> nth_error (s_cells st) (m_p m) = Some c ->
    reports G None P (m_p m) c m.

Definition pend_msg (t : thread) : option msg :=
  match t_pk t with KSend m _ | KSnap m _ _ => Some m | _ => None end.

Definition all_fresh (G : config) (s : cstate) : Prop :=
  forall i t m, nth_error (cs_thr s) i = Some t -> pend_msg t = Some m -> fresh G (cs_st s) m.

(* thread t still owes connection k the state of parameter p *)
Definition owes (G : config) (t : thread) (k p : nat) : Prop :=
  match t_pk t with
  | KSend m rest => m_p m = p /\ In k rest
  | KAcqS ms => exists sc r, t_ops t = JConn k (AActivate sc) :: r /\ covers G sc p = true /\
                  exists mo, in_mod G mo p = true /\ In mo ms
  | KSnap m ps ms => exists sc r, t_ops t = JConn k (AActivate sc) :: r /\
                  (m_p m = p \/ In p ps \/ (covers G sc p = true /\ exists mo, in_mod G mo p = true /\ In mo ms))
  | _ => False
  end.

Definition ccoherent (G : config) (s : cstate) : Prop :=
  forall k scs sc p P c,
    nth_error (cs_subs s) k = Some scs -> In sc scs -> covers G sc p = true ->
    nth_error (g_params G) p = Some P -> nth_error (s_cells (cs_st s)) p = Some c ->
    (exists i t, nth_error (cs_thr s) i = Some t /\ owes G t k p) \/
    (exists m, latest k p (s_log (cs_st s)) = Some m /\ reports G None P p c m).

Lemma owes_quiet G t k p : quiet_pk (t_pk t) = true -> ~ owes G t k p.
Proof. unfold owes. destruct (t_pk t); simpl; auto; discriminate. Qed.
Lemma idle_quiet k : idle_pk k = true -> quiet_pk k = true.
Proof. destruct k; simpl; auto. Qed.
Lemma pend_quiet t : quiet_pk (t_pk t) = true -> pend_msg t = None.
Proof. unfold pend_msg. destruct (t_pk t); simpl; auto; discriminate. Qed.

(* a thread with a message in hand holds the lock of the module the message is about *)
Lemma pend_holds G t m P :
  wf_thread G t -> pend_msg t = Some m -> nth_error (g_params G) (m_p m) = Some P ->
  holds_U G FK (Some (p_mod P)) t = true.
Proof.
  unfold wf_thread, pend_msg, holds_U. destruct (t_pk t); try discriminate; intros W E EP; inversion E; subst; simpl.
  - destruct W as ((o & r & P' & O & Q & _) & _). unfold cur_mod, op_mod. rewrite O, <- Q, EP. simpl. apply Nat.eqb_refl.
  - unfold msg_mod. rewrite EP. simpl. apply Nat.eqb_refl.
Qed.

Lemma latest_cons k p k0 m log :
  latest k p ((k0, m) :: log) = if Nat.eqb k0 k && Nat.eqb (m_p m) p then Some m else latest k p log.
Proof. reflexivity. Qed.

Lemma fresh_render G st P p c :
  nth_error (g_params G) p = Some P -> nth_error (s_cells st) p = Some c -> fresh G st (render G (s_heap st) P p c).
Proof.
  intros EP EC P' c'. simpl. rewrite EP, EC. intros A B; inversion A; inversion B; subst.
  apply reports_weaken with (h := s_heap st), reports_render.
Qed.

(* ------------------------------------------------------------------ subscriptions *)
Lemma sub_del_in G ss k0 a k scs' sc :
  nth_error (sub_del G ss k0 a) k = Some scs' -> In sc scs' ->
  exists scs, nth_error ss k = Some scs /\ In sc scs.
Proof.
  unfold sub_del. destruct (nth_error ss k0) as [l|] eqn:E0; [|eauto].
  destruct a as [sc0|sc0|]; [eauto| |];
    (destruct (Nat.eq_dec k0 k) as [<-|N];
     [rewrite (nth_set_nth_eq _ _ _ _ E0); intros Q; inversion Q; subst
     |rewrite nth_set_nth_neq by auto; eauto]).
  - intros H. apply filter_In in H. exists l; tauto.
  - intros [].
Qed.
Lemma sub_add_in ss k0 sc0 k scs' sc :
  nth_error (sub_add ss k0 sc0) k = Some scs' -> In sc scs' ->
  (k = k0 /\ sc = sc0) \/ exists scs, nth_error ss k = Some scs /\ In sc scs.
Proof.
  unfold sub_add. destruct (nth_error ss k0) as [l|] eqn:E0; [|eauto].
  destruct (Nat.eq_dec k0 k) as [<-|N].
  - rewrite (nth_set_nth_eq _ _ _ _ E0). intros Q; inversion Q; subst. intros [<-|H]; eauto.
  - rewrite nth_set_nth_neq by auto. eauto.
Qed.

Lemma dlisteners_from_in G p k0 ss k scs sc :
  nth_error ss k = Some scs -> In sc scs -> covers G sc p = true -> In (k0 + k) (dlisteners_from G p k0 ss).
Proof.
  revert k0 k; induction ss as [|l r IH]; intros k0 [|k] E I C; simpl in *; try discriminate.
  - inversion E; subst. assert (Q : sub_covers G scs p = true) by (apply existsb_exists; eauto).
    rewrite Q. left; lia.
  - specialize (IH (S k0) k E I C). replace (k0 + S k) with (S k0 + k) by lia.
    destruct (sub_covers G l p); simpl; auto.
Qed.
Lemma dlisteners_in G ss p k scs sc :
  nth_error ss k = Some scs -> In sc scs -> covers G sc p = true -> In k (dlisteners G ss p).
Proof. intros. unfold dlisteners. change k with (0 + k). eapply dlisteners_from_in; eauto. Qed.

Lemma scope_mods_covers G sc p P :
  wf_config G -> covers G sc p = true -> nth_error (g_params G) p = Some P -> In (p_mod P) (scope_mods G sc).
Proof.
  intros W C EP. unfold covers in C. rewrite EP in C. apply andb_prop in C. destruct C as [_ C].
  destruct sc as [|m|q|]; simpl; try discriminate.
  - apply in_seq. specialize (W p P EP). lia.
  - apply Nat.eqb_eq in C. left; auto.
  - apply Nat.eqb_eq in C. subst q. rewrite EP. left; auto.
Qed.

(* ------------------------------------------------------------------ effects by kind *)
Lemma eff_snap_next G st t k ps ms x : eff G (fst (snap_next G FK st t k ps ms)) x = x.
Proof.
  destruct (snap_next_cases G st t k ps ms) as [(p & ps' & P & c & _ & _ & _ & ->)|[(_ & _ & ->)|(-> & _)]];
    destruct x; reflexivity.
Qed.

Lemma pend_snap_next G st t k ps ms m :
  pend_msg (snd (snap_next G FK st t k ps ms)) = Some m -> fresh G st m.
Proof.
  destruct (snap_next_cases G st t k ps ms) as [(p & ps' & P & c & _ & EP & EC & ->)|[(_ & _ & ->)|(-> & _)]]; simpl.
  - unfold pend_msg; simpl. intros E; inversion E; subst. apply fresh_render; auto.
  - discriminate.
  - rewrite pend_quiet; [discriminate|]. apply idle_quiet, finish_idle.
Qed.

Lemma fresh_cells G st st' m : s_cells st' = s_cells st -> fresh G st m -> fresh G st' m.
Proof. unfold fresh. intros ->; auto. Qed.

Lemma op_mod_some G o P : nth_error (g_params G) (o_p o) = Some P -> op_mod G o = Some (p_mod P).
Proof. unfold op_mod. intros ->; reflexivity. Qed.

(* the thread that commits an announce region is the only one holding the lock of that module *)
Lemma fun_sole G ts i t o r inp P :
  exclusive G ts -> nth_error ts i = Some t -> t_ops t = JOp o :: r -> nth_error (g_params G) (o_p o) = Some P ->
  (t_pk t = KClock inp \/ (t_pk t = KAcqU inp /\ other_has (holds_U G FK (op_mod G o)) i 0 ts = false)) ->
  sole G ts i (p_mod P).
Proof.
  intros X Et O EP [K|(K & Oth)].
  - eapply exclusive_sole; eauto. unfold holds_U. rewrite K. simpl. unfold cur_mod. rewrite O, (op_mod_some G o P EP).
    simpl. apply Nat.eqb_refl.
  - apply other_sole. rewrite <- (op_mod_some G o P EP). exact Oth.
Qed.

Lemma cstep_fresh G s i :
  wf_cstate G s -> exclusive G (cs_thr s) -> all_fresh G s -> all_fresh G (cstep G FK s i).
Proof.
  intros W X Fr. destruct (cstep_cases G s i W) as [(A & B & C)|(t & acts & t' & Et & K & Wt & Thr & St & Ss)].
  { intros j tj m Ej Pm. rewrite C in Ej. rewrite A. eauto. }
  intros j tj m Ej Pm. rewrite Thr in Ej. rewrite St.
  destruct (Nat.eq_dec i j) as [<-|N].
  - (* the stepping thread *)
    rewrite (nth_set_nth_eq _ _ _ _ Et) in Ej. inversion Ej; subst tj. clear Ej.
    destruct K.
    + rewrite pend_quiet in Pm by (apply idle_quiet; auto). discriminate.
    + discriminate.
    + unfold do_funnel in Pm; simpl in Pm. simpl.
      pose proof (ann_region_spec G (dlisteners G (cs_subs s) (o_p o)) P o inp (cs_st s)) as R.
      destruct (nth_error (s_cells (cs_st s)) (o_p o)) as [c|] eqn:EC.
      * destruct R as (ts0 & c' & emit & s' & _ & A & B & _ & R). rewrite R in *. simpl.
        destruct (emit && exported P);
          [|rewrite pend_quiet in Pm by (apply idle_quiet, finish_idle); discriminate].
        destruct (dlisteners G (cs_subs s) (o_p o));
          [rewrite pend_quiet in Pm by (apply idle_quiet, finish_idle); discriminate|].
        unfold pend_msg in Pm; simpl in Pm. inversion Pm; subst m. rewrite <- B.
        apply fresh_render; auto. rewrite A. eapply nth_set_nth_eq; eauto.
      * destruct R as (s' & R & _). rewrite R in Pm.
        rewrite pend_quiet in Pm by (apply idle_quiet, finish_idle); discriminate.
    + simpl. apply fresh_cells with (st := cs_st s); auto.
      apply (Fr i t m Et). unfold pend_msg. rewrite H.
      destruct rest; [rewrite pend_quiet in Pm by (apply idle_quiet, finish_idle); discriminate|].
      unfold pend_msg in Pm; simpl in Pm. exact Pm.
    + rewrite pend_quiet in Pm by (apply idle_quiet, finish_idle); discriminate.
    + destruct (scope_mods G sc); [rewrite pend_quiet in Pm by (apply idle_quiet, finish_idle)|]; discriminate.
    + rewrite eff_snap_next. simpl. eapply pend_snap_next; eauto.
    + simpl. change (fold_left (fun x a => ceff G a x) ?a ?x) with (eff G a x). rewrite eff_snap_next. simpl.
      eapply pend_snap_next; eauto.
  - (* another thread: its message is about a module whose lock it holds, so the entry did not change *)
    rewrite nth_set_nth_neq in Ej by auto.
    specialize (Fr j tj m Ej Pm).
    destruct K; try (apply fresh_cells with (st := cs_st s); auto; fail).
    + apply fresh_cells with (st := cs_st s); auto.
      destruct (heap_acts_frame G acts (cs_st s, cs_subs s) H) as (A & _). exact A.
    + simpl. pose proof (ann_region_spec G (dlisteners G (cs_subs s) (o_p o)) P o inp (cs_st s)) as R.
      destruct (nth_error (s_cells (cs_st s)) (o_p o)) as [c|] eqn:EC.
      * destruct R as (ts0 & c' & emit & s' & _ & A & _ & _ & ->). simpl.
        intros P' c1 EP' EC'. rewrite A in EC'.
        destruct (Nat.eq_dec (o_p o) (m_p m)) as [Q|Q].
        -- exfalso. rewrite <- Q, H0 in EP'. inversion EP'; subst P'.
           pose proof (fun_sole G _ i t o r inp P X Et H H0 H1 j tj Ej (fun e => N (eq_sym e))) as S.
           rewrite (pend_holds G tj m P) in S; try discriminate; auto.
           ++ destruct W as (_ & W). eauto.
           ++ rewrite <- Q; auto.
        -- rewrite nth_set_nth_neq in EC' by auto. apply Fr; auto.
      * destruct R as (s' & -> & A & _). simpl. apply fresh_cells with (st := cs_st s); auto.
    + rewrite eff_snap_next. simpl. exact Fr.
    + simpl. change (fold_left (fun x a => ceff G a x) ?a ?x) with (eff G a x). rewrite eff_snap_next. simpl.
      apply fresh_cells with (st := cs_st s); auto.
Qed.

(* ------------------------------------------------------------------ the coherence invariant is preserved *)
Lemma coh_step G thr i t t' k p (R : Prop) :
  nth_error thr i = Some t ->
  (exists j tj, nth_error thr j = Some tj /\ owes G tj k p) ->
  (owes G t k p -> (exists j tj, nth_error (set_nth i t' thr) j = Some tj /\ owes G tj k p) \/ R) ->
  (exists j tj, nth_error (set_nth i t' thr) j = Some tj /\ owes G tj k p) \/ R.
Proof.
  intros Et (j & tj & Ej & Ow) H. destruct (Nat.eq_dec i j) as [<-|N].
  - rewrite Et in Ej; inversion Ej; subst; auto.
  - left. exists j, tj. rewrite nth_set_nth_neq by auto. auto.
Qed.
Lemma self_left G thr i t t' k p :
  nth_error thr i = Some t -> owes G t' k p ->
  exists j tj, nth_error (set_nth i t' thr) j = Some tj /\ owes G tj k p.
Proof. intros Et Ow. exists i, t'. split; auto. eapply nth_set_nth_eq; eauto. Qed.

Lemma snap_params_intro G sc m p : covers G sc p = true -> in_mod G m p = true -> In p (snap_params G sc m).
Proof.
  intros C I. unfold snap_params. apply filter_In. split; [|rewrite C, I; reflexivity].
  apply in_seq. apply in_mod_spec in I. destruct I as (P & E & _).
  assert (p < length (g_params G)) by (apply nth_error_Some; congruence). lia.
Qed.
Lemma valid_cell G st mo p :
  length (s_cells st) = length (g_params G) -> in_mod G mo p = true -> nth_error (s_cells st) p <> None.
Proof.
  intros L I. apply in_mod_spec in I. destruct I as (P & E & _).
  apply nth_error_Some. rewrite L. apply nth_error_Some. congruence.
Qed.
Lemma valid_param G mo p : in_mod G mo p = true -> nth_error (g_params G) p <> None.
Proof. intros I. apply in_mod_spec in I. destruct I as (P & E & _). congruence. Qed.

(* the thread goes on with the snapshot: what it owed, it still owes (or the index was not valid, which cannot be) *)
Lemma owes_snap_next G st t k sc r mo ps ms p :
  length (s_cells st) = length (g_params G) ->
  t_ops t = JConn k (AActivate sc) :: r -> Forall (fun q => in_mod G mo q = true) ps ->
  In p ps \/ (covers G sc p = true /\ exists m', in_mod G m' p = true /\ In m' ms) ->
  owes G (snd (snap_next G FK st t k ps ms)) k p.
Proof.
  intros L O Fa H.
  destruct (snap_next_cases G st t k ps ms) as [(q & ps' & P & c & -> & EP & EC & ->)|[(-> & N & ->)|(-> & Q)]]; simpl.
  - unfold owes; simpl. exists sc, r. split; auto. destruct H as [[<-|H]|H]; auto.
  - unfold owes; simpl. destruct H as [[]|(C & H)]. exists sc, r. auto.
  - exfalso. destruct Q as [(-> & ->)|(q & ps' & -> & Q)].
    + destruct H as [[]|(_ & m' & _ & [])].
    + inversion Fa; subst. destruct Q as [Q|Q]; [eapply valid_param|eapply valid_cell]; eauto.
Qed.

Lemma cstep_coherent G s i :
  wf_config G -> wf_cstate G s -> all_fresh G s -> ccoherent G s -> ccoherent G (cstep G FK s i).
Proof.
  intros WG W Fr Co. destruct (cstep_cases G s i W) as [(A & B & C)|(t & acts & t' & Et & K & Wt & Thr & St & Ss)].
  { intros k scs sc p P c. rewrite A, B, C. apply Co. }
  intros k scs sc p P c Hk Hsc Hc HP Hcell. rewrite Thr. rewrite St in *. rewrite Ss in *. clear St Ss Thr.
  destruct W as (WL & WT).
  destruct K.
  - (* no effect on cache, streams, subscriptions *)
    destruct (heap_acts_frame G acts (cs_st s, cs_subs s) H) as (A & B & _ & D). simpl in A, B, D.
    rewrite A in Hcell. rewrite D in Hk. rewrite B.
    destruct (Co k scs sc p P c Hk Hsc Hc HP Hcell) as [L|R]; auto.
    eapply coh_step; eauto. intros Ow. exfalso. eapply owes_quiet; eauto.
  - unfold eff in *; simpl in *. destruct (Co k scs sc p P c Hk Hsc Hc HP Hcell) as [L|R]; auto.
    eapply coh_step; eauto. unfold owes. rewrite H0. tauto.
  - (* an announce region commits *)
    assert (NoOw : ~ owes G t k p) by (unfold owes; destruct H1 as [Q|(Q & _)]; rewrite Q; tauto).
    unfold eff in *; simpl in *. unfold do_funnel; simpl.
    pose proof (ann_region_spec G (dlisteners G (cs_subs s) (o_p o)) P0 o inp (cs_st s)) as R.
    destruct (nth_error (s_cells (cs_st s)) (o_p o)) as [c0|] eqn:EC.
    + destruct R as (ts0 & c' & emit & s' & EF & A & B & C & R). rewrite R in *. simpl in *. rewrite C.
      rewrite A in Hcell.
      destruct (Nat.eq_dec (o_p o) p) as [Q|Q].
      * subst p. rewrite H0 in HP; inversion HP; subst P0.
        rewrite (nth_set_nth_eq _ _ _ _ EC) in Hcell. inversion Hcell; subst c'.
        rewrite (covers_exported _ _ _ _ Hc H0), andb_true_r.
        destruct emit.
        -- left. pose proof (dlisteners_in G _ _ _ _ _ Hk Hsc Hc) as I.
           destruct (dlisteners G (cs_subs s) (o_p o)) as [|k0 ks] eqn:DL; [destruct I|].
           eapply self_left; eauto. unfold owes; simpl. auto.
        -- destruct (Co k scs sc (o_p o) P c0 Hk Hsc Hc H0 EC) as [L|(m & L & Rp)].
           ++ eapply coh_step; eauto. tauto.
           ++ right. exists m. split; auto. eapply reports_quiet; eauto. eapply funnel_quiet; eauto.
      * rewrite nth_set_nth_neq in Hcell by auto.
        destruct (Co k scs sc p P c Hk Hsc Hc HP Hcell) as [L|Rp]; auto.
        eapply coh_step; eauto. tauto.
    + destruct R as (s' & R & A & B & C). rewrite R in *. simpl in *. rewrite A in Hcell. rewrite C.
      destruct (Co k scs sc p P c Hk Hsc Hc HP Hcell) as [L|Rp]; auto.
      eapply coh_step; eauto. tauto.
  - (* one send_reply of a fan-out *)
    unfold eff in *; simpl in *.
    assert (Fm : Nat.eqb k0 k && Nat.eqb (m_p m) p = true -> reports G None P p c m).
    { intros Q. apply andb_prop in Q. destruct Q as [_ Q]. apply Nat.eqb_eq in Q. subst p.
      apply (Fr i t m Et); auto. unfold pend_msg. rewrite H. reflexivity. }
    destruct (Co k scs sc p P c Hk Hsc Hc HP Hcell) as [L|(m1 & L & Rp)].
    + eapply coh_step; eauto. unfold owes at 1. rewrite H. intros (Q & [<-|I]).
      * right. rewrite Nat.eqb_refl. apply Nat.eqb_eq in Q. rewrite Q. simpl. exists m. split; auto.
        apply Fm. rewrite Nat.eqb_refl, Q. reflexivity.
      * left. destruct rest as [|k1 rest]; [destruct I|]. eapply self_left; eauto. unfold owes; simpl. auto.
    + right. destruct (Nat.eqb k0 k && Nat.eqb (m_p m) p) eqn:Q; eauto.
  - (* deactivation / removal *)
    unfold eff in *; simpl in *. destruct (sub_del_in _ _ _ _ _ _ _ Hk Hsc) as (scs0 & Hk0 & Hsc0).
    destruct (Co k scs0 sc p P c Hk0 Hsc0 Hc HP Hcell) as [L|Rp]; auto.
    eapply coh_step; eauto. unfold owes. rewrite H0. tauto.
  - (* registration *)
    unfold eff in *; simpl in *. destruct (sub_add_in _ _ _ _ _ _ Hk Hsc) as [(-> & ->)|(scs0 & Hk0 & Hsc0)].
    + left. pose proof (scope_mods_covers G sc0 p P WG Hc HP) as I.
      destruct (scope_mods G sc0) as [|m0 ms] eqn:SM; [destruct I|].
      eapply self_left; eauto. unfold owes; simpl. exists sc0, r. repeat split; auto.
      exists (p_mod P). split; auto. apply in_mod_spec. eauto.
    + destruct (Co k scs0 sc p P c Hk0 Hsc0 Hc HP Hcell) as [L|Rp]; auto.
      eapply coh_step; eauto. unfold owes. rewrite H0. tauto.
  - (* handle_activate takes the lock of the next module *)
    rewrite eff_snap_next in *. simpl in *.
    destruct (Co k scs sc p P c Hk Hsc Hc HP Hcell) as [L|Rp]; auto.
    eapply coh_step; eauto. unfold owes at 1. rewrite H0, H. intros (sc1 & r1 & O1 & Cv & mo & Im & I).
    inversion O1; subst k0 sc1 r1. left. eapply self_left; eauto.
    eapply owes_snap_next with (mo := m); eauto.
    + apply Forall_forall. intros q Hq. apply snap_params_in in Hq; tauto.
    + destruct I as [<-|I]; [left; apply snap_params_intro; auto|right; eauto].
  - (* send_reply of an initial value *)
    unfold eff in *; simpl in *. change (fold_left (fun x a => ceff G a x) ?a ?x) with (eff G a x) in *.
    rewrite eff_snap_next in *. simpl in *.
    assert (Fm : Nat.eqb k0 k && Nat.eqb (m_p m) p = true -> reports G None P p c m).
    { intros Q. apply andb_prop in Q. destruct Q as [_ Q]. apply Nat.eqb_eq in Q. subst p.
      apply (Fr i t m Et); auto. unfold pend_msg. rewrite H0. reflexivity. }
    destruct (Co k scs sc p P c Hk Hsc Hc HP Hcell) as [L|(m1 & L & Rp)].
    + eapply coh_step; eauto. unfold owes at 1. rewrite H0, H. intros (sc1 & r1 & O1 & Q).
      inversion O1; subst k0 sc1 r1.
      pose proof (WT i t Et) as Wt'. unfold wf_thread in Wt'. rewrite H0, H in Wt'.
      destruct Wt' as (k1 & sc1 & r1 & mo & _ & _ & Fa).
      destruct Q as [Q|Q].
      * right. rewrite Nat.eqb_refl. apply Nat.eqb_eq in Q. rewrite Q. simpl. exists m. split; auto.
        apply Fm. rewrite Nat.eqb_refl, Q. reflexivity.
      * left. eapply self_left; eauto. eapply owes_snap_next with (mo := mo); eauto.
    + right. destruct (Nat.eqb k0 k && Nat.eqb (m_p m) p) eqn:Q; eauto.
Qed.

(* ------------------------------------------------------------------ the invariant, all schedules *)
Record cinv (G : config) (s : cstate) : Prop := {
  ci_wf : wf_cstate G s;
  ci_ex : exclusive G (cs_thr s);
  ci_fresh : all_fresh G s;
  ci_coh : ccoherent G s;
}.

Lemma cstep_cinv G s i : wf_config G -> cinv G s -> cinv G (cstep G FK s i).
Proof.
  intros WG [W X Fr Co]. split.
  - apply cstep_wf; auto.
  - apply cstep_exclusive; auto.
  - apply cstep_fresh; auto.
  - apply cstep_coherent; auto.
Qed.
Theorem crun_cinv G sched : wf_config G -> forall s, cinv G s -> cinv G (crun G FK s sched).
Proof. intros WG. unfold crun. induction sched; simpl; intros; auto. apply IHsched, cstep_cinv; auto. Qed.

(* the initial condition: every registration is served *)
Definition served (G : config) (st : state) (ss : subs) : Prop :=
  forall k scs sc p P c, nth_error ss k = Some scs -> In sc scs -> covers G sc p = true ->
    nth_error (g_params G) p = Some P -> nth_error (s_cells st) p = Some c ->
    exists m, latest k p (s_log st) = Some m /\ reports G None P p c m.

Lemma cinit_cinv G st ss progs :
  length (s_cells st) = length (g_params G) -> served G st ss -> cinv G (cinit st ss progs).
Proof.
  intros L S. split.
  - apply cinit_wf; auto.
  - apply cinit_exclusive.
  - intros i t m E. unfold cinit in E; simpl in E. rewrite nth_error_map in E.
    destruct (nth_error progs i); inversion E; subst. discriminate.
  - intros k scs sc p P c Hk Hsc Hc HP Hcell. right. eapply S; eauto.
Qed.

Lemma served_activate G s0 : served G (activate_all G s0) (subs0 G).
Proof.
  intros k scs sc p P c Hk Hsc Hc HP Hcell. unfold subs0 in Hk. rewrite nth_error_map in Hk.
  destruct (nth_error (g_conns G) k) as [sc0|] eqn:E; inversion Hk; subst scs.
  destruct Hsc as [<-|[]]. exact (activate_coherent G s0 k sc0 p P c E Hc HP Hcell).
Qed.
Lemma activate_all_cells G s0 : s_cells (activate_all G s0) = s_cells s0.
Proof. unfold activate_all. destruct (activate_from_spec G (g_conns G) 0 s0) as (A & _). exact A. Qed.

Lemma quiet_no_owes G s i t k p : quiet s = true -> nth_error (cs_thr s) i = Some t -> ~ owes G t k p.
Proof.
  unfold quiet. intros Q E Ow. rewrite forallb_forall in Q. specialize (Q t (nth_error_In _ _ E)).
  unfold owes, in_flight in *. destruct (t_pk t); simpl in *; try discriminate; tauto.
Qed.

(* at every quiescent point of every schedule: every registration of every connection is served *)
Theorem concurrent_coherent G st ss progs sched :
  wf_config G -> length (s_cells st) = length (g_params G) -> served G st ss ->
  let r := crun G FK (cinit st ss progs) sched in
  quiet r = true -> served G (cs_st r) (cs_subs r).
Proof.
  intros WG L S r Q k scs sc p P c Hk Hsc Hc HP Hcell.
  destruct (crun_cinv G sched WG _ (cinit_cinv G st ss progs L S)) as [_ _ _ Co].
  destruct (Co k scs sc p P c Hk Hsc Hc HP Hcell) as [(i & t & E & Ow)|R]; auto.
  exfalso. eapply quiet_no_owes; eauto.
Qed.
