(* C05 -- vacuity audit: every theorem of Properties.v applied at concrete, non-degenerate instances
   (two modules, three parameters of two datatypes, three connections with three kinds of scope, a history of seven
   operations with an error, a repeated error, a recovery and a suppressed update; three threads -- two driver
   threads on different modules and a connection thread -- interleaved by a 29-step schedule; callback trees with
   nested announcements).  Tests of satisfiability of the premises, not theorems. *)
From Coq Require Import ZArith NArith Bool List Arith Lia.
Import ListNotations.
Require Import FV.Base.Util FV.Base.F64 FV.Base.PyVal FV.C01.Model FV.Gen.C05 FV.C05.Model FV.C05.ModelCb FV.C05.Lemmas
  FV.C05.LemmasConc FV.C05.LemmasAct FV.C05.LemmasRef FV.C05.LemmasCb FV.C05.Refuted FV.C05.Properties.

Definition nP0 : pcfg :=
  {| p_mod := 0; p_mname := [109%N; 97%N]; p_name := [112%N; 97%N]; p_export := Some [112%N; 97%N];
     p_dt := TFloat (fmk (-100) 0) (fmk 100 0) fzero fzero; p_omit := 0 |}.
Definition nP1 : pcfg :=
  {| p_mod := 0; p_mname := [109%N; 97%N]; p_name := [112%N; 98%N]; p_export := Some [112%N; 98%N];
     p_dt := TInt 0 10; p_omit := 16 |}.
Definition nP2 : pcfg :=
  {| p_mod := 1; p_mname := [109%N; 98%N]; p_name := [112%N; 97%N]; p_export := Some [112%N; 97%N];
     p_dt := TFloat (fmk (-100) 0) (fmk 100 0) fzero fzero; p_omit := 0 |}.
Definition nG : config :=
  {| g_tab := err_table; g_params := [nP0; nP1; nP2]; g_conns := [SAll; SMod 1; SPar 1]; g_nmods := 2 |}.
Definition nS0 : state :=
  {| s_cells := [ {| c_val := PFloat fzero; c_err := None; c_ts := 0 |};
                  {| c_val := PInt 3; c_err := None; c_ts := 0 |};
                  {| c_val := PFloat fzero; c_err := None; c_ts := 0 |} ];
     s_heap := []; s_now := 8000; s_log := [] |}.
Definition mkop (p : nat) (k : opk) (dt : Z) : op := {| o_p := p; o_k := k; o_dt := dt; o_cx := wcx |}.
Definition n_o1 := mkop 0 (KRead (DRet (PFloat (fmk 3 (-1))))) 1.
Definition n_o2 := mkop 1 (KRead (DRaise (XSecop hw [120%N] 1))) 1.
Definition n_o3 := mkop 1 (KRead (DRaise (XSecop hw [120%N] 1))) 1.
Definition n_o4 := mkop 1 (KAssign (PInt 4)) 1.
Definition n_o5 := mkop 1 (KAssign (PInt 4)) 1.
Definition n_o6 := mkop 2 (KWrite (PFloat (fmk 5 0)) (Some DNone)) 2.
Definition n_o7 := mkop 0 (KAnnounce PNone (Some (XOther [86%N] [98%N])) 0) 1.
Definition n_ops : list op := [n_o1; n_o2; n_o3; n_o4; n_o5; n_o6; n_o7].
Definition nSa : state := activate_all nG nS0.

(* concurrent instance *)
Definition cG : config :=
  {| g_tab := err_table; g_params := [nP0; nP1; nP2]; g_conns := [SAll; SNone; SPar 1]; g_nmods := 2 |}.
Definition c_progs : list (list job) :=
  [ [JOp n_o1; JOp n_o4];
    [JConn 1 (AActivate (SMod 0)); JConn 2 (ADeactivate (SPar 1))];
    [JOp n_o6; JOp n_o2] ].
Definition cSa : state := activate_all cG nS0.
Definition c_sched : list nat :=
  [0; 1; 2; 0; 1; 2; 0; 1; 2; 1; 2; 1; 2; 0; 1; 2; 0; 0; 0; 2; 0; 2; 0; 0; 0; 2; 2; 2; 2].

(* callback scripts *)
Definition cb_flat : cbs := CRaise false s_zerodiv (CRet true (CRaise true s_keyerror CNil)).
Definition cb_nest : cbs :=
  CRaise false s_zerodiv
    (CAnn false 2 (PFloat (fmk 7 0)) None 0 1 wcx
       (CAnn true 1 (PInt 9) None 0 0 wcx CNil None CNil) (Some s_zerodiv)
       (CRet true CNil)).
Definition cb_own : cbs := CAnn false 1 (PInt 6) None 0 1 wcx CNil None (CRaise false s_keyerror CNil).
Definition n_ocs : list (op * cbs) := [(n_o1, cb_nest); (n_o2, CRet true CNil); (n_o4, cb_own); (n_o6, cb_flat)].

Lemma some_ex {A} (o : option A) : is_some o = true -> exists x, o = Some x.
Proof. destruct o; [eexists; reflexivity|discriminate]. Qed.

Ltac side :=
  lazymatch goal with
  | |- In _ _ => simpl; tauto
  | |- _ = _ => first [eassumption | reflexivity | (vm_compute; reflexivity)]
  end.

(* ------------------------------------------------------------------ sequential theorems *)
Example n_history_is_not_trivial :
  map (fun k => length (msgs_of k (run nG nSa n_ops))) [0; 1; 2] = [8; 2; 3] /\
  map (fun l => length (s_log (run nG nSa (firstn l n_ops)))) [0; 1; 2; 3; 4; 5; 6; 7] = [5; 6; 8; 8; 10; 10; 12; 13].
Proof. vm_compute. split; reflexivity. Qed.

(* connection 1 (one module) and its parameter of module 1 *)
Example C05_activation_coherent_applies :
  exists c m, nth_error (s_cells nSa) 2 = Some c /\ latest 1 2 (s_log nSa) = Some m /\ reports nG None nP2 2 c m.
Proof.
  destruct (some_ex (nth_error (s_cells nSa) 2)) as (c & Ec); [vm_compute; reflexivity|].
  pose proof (C05_activation_coherent nG nS0 1 (SMod 1) 2 nP2 c) as T.
  destruct T as (m & L & R); try side. exists c, m; auto.
Qed.

(* after the whole history: connection 2 (one parameter) about parameter 1 (recovered, then a suppressed update);
   connection 0 (whole node) about parameter 0 (ends in an error announced through announceUpdate) *)
Example C05_coherent_except_error_text_applies :
  let s' := run nG nSa n_ops in
  (exists c m, nth_error (s_cells s') 1 = Some c /\ replay 1 (msgs_of 2 s') = Some m /\ reports nG None nP1 1 c m) /\
  (exists c m, nth_error (s_cells s') 0 = Some c /\ is_some (c_err c) = true /\
               replay 0 (msgs_of 0 s') = Some m /\ reports nG None nP0 0 c m).
Proof.
  intros s'. split.
  - destruct (some_ex (nth_error (s_cells s') 1)) as (c & Ec); [vm_compute; reflexivity|].
    pose proof (C05_coherent_except_error_text nG nS0 n_ops 2 (SPar 1) 1 nP1 c) as T.
    destruct T as (m & L & R); try side. exists c, m; auto.
  - destruct (some_ex (nth_error (s_cells s') 0)) as (c & Ec); [vm_compute; reflexivity|].
    assert (He : match nth_error (s_cells s') 0 with Some c => is_some (c_err c) | None => false end = true)
      by (vm_compute; reflexivity).
    rewrite Ec in He.
    pose proof (C05_coherent_except_error_text nG nS0 n_ops 0 SAll 0 nP0 c) as T.
    destruct T as (m & L & R); try side. exists c, m; auto.
Qed.

(* an operation that sends: every new entry is the rendering of the entry the cache holds afterwards *)
Example C05_order_no_phantom_applies_emitting :
  let s' := step nG nSa n_o1 in
  exists k m c', In (k, m) (s_log s') /\ m_p m = 0 /\ nth_error (s_cells s') 0 = Some c' /\
                 m = render nG (s_heap s') nP0 0 c'.
Proof.
  intros s'. destruct (C05_order_no_phantom nG nSa n_o1) as (new & EL & N & _). fold s' in EL, N.
  assert (Ln : length (s_log s') = S (length (s_log nSa))) by (vm_compute; reflexivity).
  rewrite EL, app_length in Ln. destruct new as [|[k m] r]; [simpl in Ln; lia|].
  destruct (N k m (or_introl eq_refl)) as (P & c' & A & B & C & D).
  assert (EP : nth_error (g_params nG) (o_p n_o1) = Some nP0) by reflexivity.
  rewrite EP in B; inversion B; subst P.
  exists k, m, c'. repeat split; auto. rewrite EL; left; reflexivity.
Qed.

(* a silent operation (same value inside the omit interval, n_o5 after n_o1 .. n_o4) on a parameter connection 2
   covers: the entry did not change for a client *)
Definition nS4 : state := run nG nSa [n_o1; n_o2; n_o3; n_o4].
Example C05_order_no_phantom_applies_silent :
  exists c c', nth_error (s_cells nS4) 1 = Some c /\ nth_error (s_cells (step nG nS4 n_o5)) 1 = Some c' /\
               quiet_change c c'.
Proof.
  destruct (C05_order_no_phantom nG nS4 n_o5) as (new & EL & _ & Q).
  assert (Ln : length (s_log (step nG nS4 n_o5)) = length (s_log nS4)) by (vm_compute; reflexivity).
  rewrite EL, app_length in Ln. destruct new; [|simpl in Ln; lia].
  destruct (some_ex (nth_error (s_cells nS4) 1)) as (c & Ec); [vm_compute; reflexivity|].
  destruct (Q 2 (SPar 1) 1 c) as (c' & E' & QC); try side; [intros m []|].
  exists c, c'; auto.
Qed.

(* recovery: parameter 1 is in error state after n_o1 .. n_o3 (the second raise was suppressed as a repeated error),
   n_o4 assigns a valid value *)
Definition nS3 : state := run nG nSa [n_o1; n_o2; n_o3].
Definition n_c3 : cell := {| c_val := PInt 3; c_err := Some {| e_cls := hw; e_msg := [120%N]; e_oid := 1 |}; c_ts := 8002 |}.
Definition n_c4 : cell := {| c_val := PInt 4; c_err := None; c_ts := 8004 |}.
Example C05_recovery_announced_applies :
  let s' := step nG nS3 n_o4 in
  latest 2 1 (s_log s') = Some (render nG (s_heap s') nP1 1 n_c4) /\
  m_pay (render nG (s_heap s') nP1 1 n_c4) = PVal (dt_export (p_dt nP1) (c_val n_c4)) /\
  In (2, render nG (s_heap s') nP1 1 n_c4) (firstn (length (s_log s') - length (s_log nS3)) (s_log s')).
Proof.
  intros s'.
  apply (C05_recovery_announced nG nS3 n_o4 2 (SPar 1) 1 nP1 n_c3 {| e_cls := hw; e_msg := [120%N]; e_oid := 1 |} n_c4);
    side.
Qed.

(* the two actions of a driver operation are one step *)
Example C05_sequential_reading_is_step_applies :
  is_some (snd (pre nP1 (s_heap nS3) n_o4)) = true /\
  arun nG (AHeap nP1 n_o4 :: match snd (pre nP1 (s_heap nS3) n_o4) with Some inp => [AFun nP1 n_o4 inp] | None => [] end)
       (nS3, subs0 nG) = (step nG nS3 n_o4, subs0 nG).
Proof. split; [vm_compute; reflexivity|]. apply C05_sequential_reading_is_step. reflexivity. Qed.

(* ------------------------------------------------------------------ concurrent theorems *)
Lemma cG_wf : wf_config cG.
Proof.
  intros p P H. destruct p as [|[|[|p]]]; simpl in H; try (inversion H; subst; simpl; lia).
  destruct p; discriminate.
Qed.

(* the schedule is executable, complete, and interleaves three threads; connection 1 ends registered for module 0 and
   holds five messages, connection 2 ends deregistered *)
Example c_schedule_is_not_trivial :
  let r := crun cG flags_ok (cinit cSa (subs0 cG) c_progs) c_sched in
  cs_ok r && quiescent r && quiet r = true /\
  cs_subs r = [[SAll]; [SMod 0; SNone]; []] /\ map (fun k => length (msgs_of k (cs_st r))) [0; 1; 2] = [7; 5; 1] /\
  map (fun i => count_occ Nat.eq_dec c_sched i) [0; 1; 2] = [11; 6; 12].
Proof. vm_compute. repeat split; reflexivity. Qed.

(* after 14 steps thread 0 is at the clock read of announceUpdate (module 0) and thread 2 inside its fan-out
   (module 1): both hold an updateLock, of different modules; the conclusion of the theorem is about them *)
Example C05_update_region_exclusive_applies :
  let r := crun cG src_flags (cinit cSa (subs0 cG) c_progs) (firstn 14 c_sched) in
  exclusive cG (cs_thr r) /\
  map (fun m => map (holds_U cG flags_ok (Some m)) (cs_thr r)) [0; 1] = [[true; false; false]; [false; false; true]].
Proof.
  intros r. split; [|vm_compute; reflexivity].
  apply C05_update_region_exclusive; [reflexivity|vm_compute; reflexivity].
Qed.
(* while the connection thread is inside handle_activate for module 0 (after 9 steps), thread 0 is waiting for
   that lock: scheduling it is refused *)
Example c_thread_blocked_by_snapshot :
  let r := crun cG flags_ok (cinit cSa (subs0 cG) c_progs) (firstn 9 c_sched) in
  cs_ok r = true /\ cs_ok (cstep cG flags_ok r 0) = false /\
  map (holds_U cG flags_ok (Some 0)) (cs_thr r) = [false; true; false].
Proof. vm_compute. repeat split; reflexivity. Qed.

(* a thread in the user method of a read that raises a SECoPError: the step commits the bookkeeping of
   raising_methods only *)
Definition n_t : thread := {| t_ops := [JOp n_o2]; t_pk := KDrv |}.
Example C05_outside_region_frame_applies :
  let x := fold_left (fun x a => ceff nG a x) [AHeap nP1 n_o2] (nSa, subs0 nG) in
  (s_cells (fst x) = s_cells nSa /\ s_log (fst x) = s_log nSa /\ snd x = subs0 nG) /\
  s_heap (fst x) = [(1, [rd_name nP1])] /\ s_heap nSa = [].
Proof.
  intros x. split; [|vm_compute; split; reflexivity].
  apply (C05_outside_region_frame nG flags_ok nSa (subs0 nG) [n_t; n_t] 0 n_t [AHeap nP1 n_o2]
           (park_at n_t (KAcqU (FErr (XSecop hw [120%N] 1))))); [vm_compute; reflexivity|exact I].
Qed.

(* (1) at the end of the schedule: connection 1, activated during the run for module 0, about parameter 1 (which
   thread 0 assigned while / after the activation ran) and parameter 0 *)
Example C05_concurrent_activation_coherent_applies :
  let r := crun cG src_flags (cinit (activate_all cG nS0) (subs0 cG) c_progs) c_sched in
  (exists c m, nth_error (s_cells (cs_st r)) 1 = Some c /\ replay 1 (msgs_of 1 (cs_st r)) = Some m /\
               reports cG None nP1 1 c m) /\
  (exists c m, nth_error (s_cells (cs_st r)) 0 = Some c /\ replay 0 (msgs_of 1 (cs_st r)) = Some m /\
               reports cG None nP0 0 c m).
Proof.
  intros r.
  pose proof (C05_concurrent_activation_coherent cG nS0 c_progs c_sched eq_refl cG_wf eq_refl) as T.
  cbv zeta in T. fold r in T.
  assert (Q : quiet r = true) by (vm_compute; reflexivity). specialize (T Q).
  assert (Hs : nth_error (cs_subs r) 1 = Some [SMod 0; SNone]) by (vm_compute; reflexivity).
  split.
  - destruct (some_ex (nth_error (s_cells (cs_st r)) 1)) as (c & Ec); [vm_compute; reflexivity|].
    destruct (T 1 [SMod 0; SNone] (SMod 0) 1 nP1 c) as (m & L & R); try side. exists c, m; auto.
  - destruct (some_ex (nth_error (s_cells (cs_st r)) 0)) as (c & Ec); [vm_compute; reflexivity|].
    destruct (T 1 [SMod 0; SNone] (SMod 0) 0 nP0 c) as (m & L & R); try side. exists c, m; auto.
Qed.
(* ... and at a quiet point in the middle of the run (19 steps: thread 0 waits for updateLock with its second
   operation, thread 2 for accessLock, the connection thread has finished) *)
Example C05_concurrent_activation_coherent_applies_midrun :
  let r := crun cG src_flags (cinit (activate_all cG nS0) (subs0 cG) c_progs) (firstn 19 c_sched) in
  quiescent r = false /\
  exists c m, nth_error (s_cells (cs_st r)) 0 = Some c /\ replay 0 (msgs_of 1 (cs_st r)) = Some m /\
              reports cG None nP0 0 c m.
Proof.
  intros r. split; [vm_compute; reflexivity|].
  pose proof (C05_concurrent_activation_coherent cG nS0 c_progs (firstn 19 c_sched) eq_refl cG_wf eq_refl) as T.
  cbv zeta in T. fold r in T.
  assert (Q : quiet r = true) by (vm_compute; reflexivity). specialize (T Q).
  destruct (some_ex (nth_error (s_cells (cs_st r)) 0)) as (c & Ec); [vm_compute; reflexivity|].
  destruct (T 1 [SMod 0; SNone] (SMod 0) 0 nP0 c) as (m & L & R); try side. exists c, m; auto.
Qed.

(* (2) refinement, at the end (quiet) and after 13 steps (thread 2 has a message for connection 0 in hand) *)
Example C05_concurrent_refinement_applies :
  let r := crun cG src_flags (cinit cSa (subs0 cG) c_progs) c_sched in
  let q := arun cG (ctrace cG src_flags (cinit cSa (subs0 cG) c_progs) c_sched) (cSa, subs0 cG) in
  length (ctrace cG src_flags (cinit cSa (subs0 cG) c_progs) c_sched) = 20 /\
  s_cells (cs_st r) = s_cells (fst q) /\ cs_subs r = snd q /\
  forall k p, pstream k p (cs_st r) = pstream k p (fst q) /\
              replay p (msgs_of k (cs_st r)) = replay p (msgs_of k (fst q)).
Proof.
  intros r q. split; [vm_compute; reflexivity|].
  assert (L : length (s_cells cSa) = length (g_params cG)) by (vm_compute; reflexivity).
  destruct (C05_concurrent_refinement cG cSa (subs0 cG) c_progs c_sched eq_refl L) as (A & _ & _ & B & _ & Q).
  assert (Hq : quiet r = true) by (vm_compute; reflexivity).
  split; [exact A|]. split; [exact B|]. intros k p. exact (Q Hq k p).
Qed.
Example C05_concurrent_refinement_applies_midrun :
  let r := crun cG src_flags (cinit cSa (subs0 cG) c_progs) (firstn 13 c_sched) in
  let q := arun cG (ctrace cG src_flags (cinit cSa (subs0 cG) c_progs) (firstn 13 c_sched)) (cSa, subs0 cG) in
  quiet r = false /\ length (pend 0 2 (cs_thr r)) = 1 /\
  plog 0 2 (s_log (fst q)) = pend 0 2 (cs_thr r) ++ plog 0 2 (s_log (cs_st r)).
Proof.
  intros r q. split; [vm_compute; reflexivity|]. split; [vm_compute; reflexivity|].
  assert (L : length (s_cells cSa) = length (g_params cG)) by (vm_compute; reflexivity).
  destruct (C05_concurrent_refinement cG cSa (subs0 cG) c_progs (firstn 13 c_sched) eq_refl L) as (_ & _ & _ & _ & P & _).
  apply P.
Qed.

(* ------------------------------------------------------------------ callbacks *)
(* (1) callbacks that return or raise, a strict one among them *)
Example C05_callbacks_cannot_suppress_update_applies_flat :
  step_cb nG callback_except_class nS3 (n_o4, cb_flat) = step nG nS3 n_o4.
Proof.
  apply (proj1 (C05_callbacks_cannot_suppress_update nG nS3 n_o4 cb_flat eq_refl)). vm_compute; reflexivity.
Qed.
(* (2) a raising callback, then one announcing parameter 2 (of the other module) whose own callback announces
   parameter 1, then raises; the operation is a read of parameter 0.  The nested announcements do send messages. *)
Example C05_callbacks_cannot_suppress_update_applies_nested :
  (cbs_flat cb_nest = false /\
   Nat.ltb (length (s_log (step nG nSa n_o1))) (length (s_log (step_cb nG callback_except_class nSa (n_o1, cb_nest)))) = true) /\
  nth_error (s_cells (step_cb nG callback_except_class nSa (n_o1, cb_nest))) 0 = nth_error (s_cells (step nG nSa n_o1)) 0 /\
  forall k, plog k 0 (s_log (step_cb nG callback_except_class nSa (n_o1, cb_nest))) = plog k 0 (s_log (step nG nSa n_o1)).
Proof.
  split; [vm_compute; split; reflexivity|].
  apply (proj2 (C05_callbacks_cannot_suppress_update nG nSa n_o1 cb_nest eq_refl)). vm_compute; reflexivity.
Qed.

Example C05_nested_announcements_frame_applies :
  let r := run_cbs nG callback_except_class cb_nest n_c4 nSa in
  Nat.ltb (length (s_log nSa)) (length (s_log (fst r))) = true /\
  snd r = None /\ s_heap (fst r) = s_heap nSa /\
  nth_error (s_cells (fst r)) 0 = nth_error (s_cells nSa) 0 /\
  forall k, plog k 0 (s_log (fst r)) = plog k 0 (s_log nSa).
Proof.
  intros r. split; [vm_compute; reflexivity|].
  destruct (C05_nested_announcements_frame nG cb_nest n_c4 nSa eq_refl) as (A & B & C). fold r in A, B, C.
  split; [exact A|]. split; [exact B|]. apply C. vm_compute; reflexivity.
Qed.

(* a history with scripts: nested announcements, one about the operation's own parameter *)
Example C05_coherent_with_callbacks_applies :
  let s' := run_cb nG callback_except_class nSa n_ocs in
  cbs_avoid 1 cb_own = false /\
  (exists c m, nth_error (s_cells s') 1 = Some c /\ replay 1 (msgs_of 2 s') = Some m /\ reports nG None nP1 1 c m) /\
  (exists c m, nth_error (s_cells s') 2 = Some c /\ replay 2 (msgs_of 1 s') = Some m /\ reports nG None nP2 2 c m).
Proof.
  intros s'. split; [vm_compute; reflexivity|]. split.
  - destruct (some_ex (nth_error (s_cells s') 1)) as (c & Ec); [vm_compute; reflexivity|].
    pose proof (C05_coherent_with_callbacks nG nS0 n_ocs eq_refl 2 (SPar 1) 1 nP1 c) as T.
    destruct T as (m & L & R); try side. exists c, m; auto.
  - destruct (some_ex (nth_error (s_cells s') 2)) as (c & Ec); [vm_compute; reflexivity|].
    pose proof (C05_coherent_with_callbacks nG nS0 n_ocs eq_refl 1 (SMod 1) 2 nP2 c) as T.
    destruct T as (m & L & R); try side. exists c, m; auto.
Qed.
Example n_ocs_is_not_trivial :
  map (fun k => length (msgs_of k (run_cb nG callback_except_class nSa n_ocs))) [0; 1; 2] =
  map (fun k => length (msgs_of k (run_cb nG callback_except_class nSa n_ocs))) [0; 1; 2] /\
  Nat.ltb (length (s_log (run nG nSa (map fst n_ocs)))) (length (s_log (run_cb nG callback_except_class nSa n_ocs))) = true.
Proof. split; [reflexivity|vm_compute; reflexivity]. Qed.
