(* C05 -- request threads (ModelReq.v): reply building is a frame step; every schedule of the system with request
   threads is, after erasing the reply steps, a schedule of the concurrent model *)
From Coq Require Import List Arith ZArith Bool Lia.
Import ListNotations.
Require Import FV.C05.Model FV.C05.ModelReq.

Lemma rstep_reply_frame : forall G F s i, is_reply s i = true -> r_cs (rstep G F s i) = r_cs s.
Proof.
  intros G F s i H. unfold is_reply in H. unfold rstep.
  destruct (nth_error (r_req s) i) as [rt|]; [|discriminate].
  destruct (rt_pend rt); [discriminate|reflexivity].
Qed.

Lemma rstep_real : forall G F s i, is_reply s i = false -> r_cs (rstep G F s i) = cstep G F (r_cs s) i.
Proof.
  intros G F s i H. unfold is_reply in H. unfold rstep.
  destruct (nth_error (r_req s) i) as [rt|]; [|reflexivity].
  destruct (rt_pend rt); [|discriminate]. simpl.
  destruct (Nat.ltb _ _); reflexivity.
Qed.

(* a reply step touches the request bookkeeping of the stepping thread only *)
Lemma rstep_reply_others : forall G F s i j, is_reply s i = true -> j <> i ->
  nth_error (r_req (rstep G F s i)) j = nth_error (r_req s) j.
Proof.
  intros G F s i j H N. unfold is_reply in H. unfold rstep.
  destruct (nth_error (r_req s) i) as [rt|] eqn:E; [|discriminate].
  destruct (rt_pend rt); [discriminate|]. simpl.
  revert i j N E. generalize (r_req s). intros l. induction l as [|a l IH]; intros i j N E.
  - destruct i; discriminate.
  - destruct i, j; simpl in *; try reflexivity; try (exfalso; apply N; reflexivity).
    apply IH with (i := i); auto.
Qed.

Lemma rrun_erase : forall G F sched s, r_cs (rrun G F s sched) = crun G F (r_cs s) (erase G F s sched).
Proof.
  intros G F sched. induction sched as [|i r IH]; intros s; [reflexivity|].
  simpl. unfold rrun in *. simpl. rewrite IH.
  destruct (is_reply s i) eqn:E; simpl.
  - rewrite rstep_reply_frame by exact E. reflexivity.
  - unfold crun. simpl. rewrite rstep_real by exact E. reflexivity.
Qed.

Lemma erase_length : forall G F sched s, length (erase G F s sched) <= length sched.
Proof.
  intros G F sched. induction sched as [|i r IH]; intros s; simpl; [lia|].
  rewrite app_length. specialize (IH (rstep G F s i)). destruct (is_reply s i); simpl; lia.
Qed.
