(* C05 -- executable model of the cache funnel of frappy:
     Module.announceUpdate            frappy/modulebase.py  (convert, compare, suppress, stamp, store, notify)
     the read_/write_ wrappers         frappy/modulebase.py  (HasAccessibles.__init_subclass__)
     Parameter.__set__                 frappy/params.py
     make_update / broadcast_event / the snapshot of handle_activate   frappy/protocol/dispatcher.py
     SECoPError.__eq__ / format / secop_error                          frappy/errors.py
   Values are pyval, datatype conversion is the C01 model (dt_call / dt_validate).
   Sequential big step [step]; concurrent small step [cstep] whose atomic steps end at the synchronisation
   points of the implementation run under harness/dsched.py.  No proofs here. *)
From Coq Require Import ZArith NArith Bool List Arith.
Import ListNotations.
Require Import FV.Base.Util FV.Base.F64 FV.Base.PyVal FV.C01.Model.

(* ------------------------------------------------------------------ python == on cached values *)
Definition b2z (b : bool) : Z := if b then 1%Z else 0%Z.
Definition z_eq_f (z : Z) (f : f64) : bool := match cmp_Z_f z f with Some Eq => true | _ => false end.

Fixpoint py_eqb (a b : pyval) {struct a} : bool :=
  match a, b with
  | PNone, PNone => true
  | PBool x, PBool y => Bool.eqb x y
  | PBool x, PInt y => Z.eqb (b2z x) y
  | PInt y, PBool x => Z.eqb y (b2z x)
  | PInt x, PInt y => Z.eqb x y
  | PFloat x, PFloat y => feq x y
  | PInt z, PFloat f => z_eq_f z f
  | PFloat f, PInt z => z_eq_f z f
  | PBool x, PFloat f => z_eq_f (b2z x) f
  | PFloat f, PBool x => z_eq_f (b2z x) f
  | PStr x, PStr y => str_eqb x y
  | PBytes x, PBytes y => str_eqb x y
  | PList x, PList y | PTuple x, PTuple y =>
      (fix go (x y : list pyval) : bool :=
         match x, y with
         | [], [] => true
         | p :: x', q :: y' => py_eqb p q && go x' y'
         | _, _ => false
         end) x y
  | PDict x, PDict y =>
      Nat.eqb (length x) (length y) &&
      (fix go (x : list (str * pyval)) : bool :=
         match x with
         | [] => true
         | (k, p) :: x' =>
             (fix find (y : list (str * pyval)) : bool :=
                match y with
                | [] => false
                | (k', q) :: y' => if str_eqb k k' then py_eqb p q else find y'
                end) y && go x'
         end) x
  | PEnum _ v, PEnum _ w => Z.eqb v w            (* EnumMember.__eq__ compares the values *)
  | PEnum _ v, PInt w => Z.eqb v w
  | PInt w, PEnum _ v => Z.eqb v w
  | PEnum n _, PStr s => str_eqb n s
  | PStr s, PEnum n _ => str_eqb n s
  | POpaque, POpaque => true                     (* same object only; the harness never offers two *)
  | _, _ => false
  end.
Definition py_neq (a b : pyval) : bool := negb (py_eqb a b).

(* ------------------------------------------------------------------ export_value of the modelled datatypes *)
Fixpoint dt_export (d : dtype) (v : pyval) {struct d} : pyval :=
  match d with
  | TFloat _ _ _ _ =>
      match v with
      | PInt z => match float_of_Z z with Some f => PFloat f | None => v end
      | PBool b => PFloat (of_Z (b2z b))
      | _ => v
      end
  | TInt _ _ => match v with PBool b => PInt (b2z b) | _ => v end
  | TEnum _ => match v with PEnum _ z => PInt z | _ => v end
  | TArray e _ _ =>
      match v with
      | PTuple l | PList l => PList (map (dt_export e) l)
      | _ => v
      end
  | TTuple es =>
      match v with
      | PTuple l | PList l =>
          PList ((fix go (es : list dtype) (l : list pyval) : list pyval :=
                    match es, l with
                    | d' :: es', x :: l' => dt_export d' x :: go es' l'
                    | _, _ => []
                    end) es l)
      | _ => v
      end
  | TStruct ms _ _ =>
      match v with
      | PDict kv =>
          PDict (map (fun kx =>
                   (fst kx,
                    (fix look (ms : list (str * dtype)) : pyval :=
                       match ms with
                       | [] => snd kx
                       | (k', d') :: r => if str_eqb (fst kx) k' then dt_export d' (snd kx) else look r
                       end) ms)) kv)
      | _ => v
      end
  | _ => v
  end.

(* ------------------------------------------------------------------ errors *)
(* an exception as offered by the fake driver / a caller of announceUpdate *)
Inductive pyexc :=
| XSecop (cls msg : str) (oid : nat)     (* SECoPError subclass instance cls(msg); oid = object identity *)
| XOther (tname msg : str).              (* any other exception: type name and str(exc) *)

(* the error object held in Parameter.readerror *)
Record eobj := { e_cls : str; e_msg : str; e_oid : nat }.

(* SECoPError.__eq__: same type, same args (kwds are empty in the modelled domain) *)
Definition eobj_eqb (a b : eobj) : bool := str_eqb (e_cls a) (e_cls b) && str_eqb (e_msg a) (e_msg b).

Definition s_colon : str := [58%N; 32%N].                 (* ": " *)
Definition s_in : str := [32%N; 105%N; 110%N; 32%N].      (* " in " *)
Definition s_internal : str :=                            (* "InternalError" *)
  [73%N;110%N;116%N;101%N;114%N;110%N;97%N;108%N;69%N;114%N;114%N;111%N;114%N].
Definition s_range : str := [82%N;97%N;110%N;103%N;101%N;69%N;114%N;114%N;111%N;114%N].              (* "RangeError" *)
Definition s_wrongtype : str :=                                                                     (* "WrongTypeError" *)
  [87%N;114%N;111%N;110%N;103%N;84%N;121%N;112%N;101%N;69%N;114%N;114%N;111%N;114%N].
Definition s_read : str := [46%N;114%N;101%N;97%N;100%N;95%N].            (* ".read_" *)
Definition s_write : str := [46%N;119%N;114%N;105%N;116%N;101%N;95%N].    (* ".write_" *)

(* secop_error: InternalError(f'{type(exc).__name__}: {exc}') for a foreign exception; a fresh object (oid 0) *)
Definition secop_error (x : pyexc) : eobj :=
  match x with
  | XSecop c m o => {| e_cls := c; e_msg := m; e_oid := o |}
  | XOther t m => {| e_cls := s_internal; e_msg := t ++ s_colon ++ m; e_oid := 0 |}
  end.

(* raising_methods of the exception objects: oid -> list of method names.  oid 0 = objects that are never touched *)
Definition heap := list (nat * list str).
Fixpoint heap_get (h : heap) (o : nat) : list str :=
  match h with [] => [] | (o', l) :: r => if Nat.eqb o o' then l else heap_get r o end.
Fixpoint heap_app (h : heap) (o : nat) (s : str) : heap :=
  match h with
  | [] => [(o, [s])]
  | (o', l) :: r => if Nat.eqb o o' then (o', l ++ [s]) :: r else (o', l) :: heap_app r o s
  end.
(* "if isinstance(e, SECoPError): e.raising_methods.append(name)" *)
Definition note_raise (h : heap) (x : pyexc) (name : str) : heap :=
  match x with XSecop _ _ o => if Nat.eqb o 0 then h else heap_app h o name | XOther _ _ => h end.

(* class table read from frappy/errors.py: class name -> (SECoP name, name2class[name] is this class) *)
Definition etable := list (str * (str * bool)).
Definition e_name (T : etable) (cls : str) : str :=
  match assoc_str cls T with Some (n, _) => n | None => s_internal end.
Definition e_own (T : etable) (cls : str) : bool :=
  match assoc_str cls T with Some (_, b) => b | None => false end.

Definition lstrip_sp (s : str) : str := match s with 32%N :: r => r | _ => s end.
(* SECoPError.format(True) == str(error) *)
Definition fmt_text (T : etable) (e : eobj) (rm : list str) : str :=
  let ml := removelast rm in
  let prefix := (if e_own T (e_cls e) then [] else e_cls e) ++ lstrip_sp (flat_map (fun m => s_in ++ m) ml) in
  match prefix with [] => e_msg e | _ => prefix ++ s_colon ++ e_msg e end.

(* ------------------------------------------------------------------ configuration, cache, messages *)
Record pcfg := {
  p_mod : nat;                 (* module index: one accessLock / updateLock per module *)
  p_mname : str;               (* module name *)
  p_name : str;                (* attribute name *)
  p_export : option str;       (* exported name; None: export = False *)
  p_dt : dtype;
  p_omit : Z;                  (* omit_unchanged_within in clock ticks *)
}.

(* Parameter.finish: resolution of update_unchanged (-1 = 'default') against the module / general setting *)
Definition resolve_omit (uu : Z) (mod_omit : option Z) (general : Z) : Z :=
  if Z.eqb uu (-1) then match mod_omit with None => general | Some t => t end else uu.

Record cell := { c_val : pyval; c_err : option eobj; c_ts : Z }.   (* value, readerror, timestamp (0 = unset) *)

Inductive payload := PVal (v : pyval) | PErr (name text : str).
Record msg := { m_p : nat; m_pay : payload; m_ts : Z }.   (* update / error_update for parameter m_p; m_ts 0 = no 't' *)

(* subscription of a connection: activate / activate <module> / activate <module>:<exported name> *)
Inductive scope := SAll | SMod (m : nat) | SPar (p : nat).

Record config := {
  g_tab : etable;
  g_params : list pcfg;
  g_conns : list scope;        (* connection k has scope nth k *)
}.

Definition exported (P : pcfg) : bool := match p_export P with Some _ => true | None => false end.
Definition covers (G : config) (sc : scope) (p : nat) : bool :=
  match nth_error (g_params G) p with
  | None => false
  | Some P =>
      exported P &&
      match sc with SAll => true | SMod m => Nat.eqb m (p_mod P) | SPar q => Nat.eqb q p end
  end.
Fixpoint listeners_from (G : config) (p : nat) (k : nat) (cs : list scope) : list nat :=
  match cs with
  | [] => []
  | sc :: r => if covers G sc p then k :: listeners_from G p (S k) r else listeners_from G p (S k) r
  end.
Definition listeners (G : config) (p : nat) : list nat := listeners_from G p 0 (g_conns G).

(* make_update *)
Definition render (G : config) (h : heap) (P : pcfg) (p : nat) (c : cell) : msg :=
  {| m_p := p;
     m_pay := match c_err c with
              | Some e => PErr (e_name (g_tab G) (e_cls e)) (fmt_text (g_tab G) e (heap_get h (e_oid e)))
              | None => PVal (dt_export (p_dt P) (c_val c))
              end;
     m_ts := c_ts c |}.

(* ------------------------------------------------------------------ the funnel: announceUpdate *)
Inductive finput := FVal (v : pyval) (validate : bool) | FErr (x : pyexc).
(* python-runtime data of a failing conversion: message text, type name of a leaked foreign exception, object id *)
Record cxd := { cx_text : str; cx_tname : str; cx_oid : nat }.
Definition conv_exc (e : exc) (d : cxd) : pyexc :=
  match e with
  | ERange => XSecop s_range (cx_text d) (cx_oid d)
  | EWrongType => XSecop s_wrongtype (cx_text d) (cx_oid d)
  | _ => XOther (cx_tname d) (cx_text d)
  end.

Definition is_some {A} (o : option A) : bool := match o with Some _ => true | None => false end.

Definition funnel_err (c : cell) (x : pyexc) (ts : Z) : cell * bool :=
  let e := secop_error x in
  match c_err c with
  | Some e0 => if eobj_eqb e e0 then (c, false)                    (* no updates for repeated errors *)
               else ({| c_val := c_val c; c_err := Some e; c_ts := ts |}, true)
  | None => ({| c_val := c_val c; c_err := Some e; c_ts := ts |}, true)
  end.

Definition funnel_val (P : pcfg) (c : cell) (v : pyval) (ts : Z) : cell * bool :=
  let changed := py_neq (c_val c) v || is_some (c_err c) in
  if negb changed && Z.ltb ts (c_ts c + p_omit P)
  then ({| c_val := v; c_err := c_err c; c_ts := c_ts c |}, false)  (* value stored, nothing else *)
  else ({| c_val := v; c_err := None; c_ts := ts |}, true).

(* result: new cache entry, and whether the update callback is reached *)
Definition funnel (P : pcfg) (c : cell) (inp : finput) (cx : cxd) (ts : Z) : cell * bool :=
  match inp with
  | FErr x => funnel_err c x ts
  | FVal v false => funnel_val P c v ts
  | FVal v true =>
      match dt_call (p_dt P) v with
      | Ok v' => funnel_val P c v' ts
      | Err e => funnel_err c (conv_exc e cx) ts
      end
  end.

(* ------------------------------------------------------------------ operations *)
Inductive dres := DRet (v : pyval) | DNone | DDone | DRaise (x : pyexc).     (* what the user method does *)
Inductive opk :=
| KRead (r : dres)                             (* wrapped read_<p>() *)
| KWrite (v : pyval) (r : option dres)         (* wrapped write_<p>(v); None: no user write method *)
| KAssign (v : pyval)                          (* self.<p> = v *)
| KAnnounce (v : pyval) (x : option pyexc) (ts : Z).   (* announceUpdate(p, v, x, timestamp=ts); ts 0 = not given *)
Record op := { o_p : nat; o_k : opk; o_dt : Z; o_cx : cxd }.   (* o_dt: clock advance seen by this op's time.time() *)

Definition rd_name (P : pcfg) : str := p_mname P ++ s_read ++ p_name P.
Definition wr_name (P : pcfg) : str := p_mname P ++ s_write ++ p_name P.

(* the wrapper code before announceUpdate: new raising_methods, and the funnel input (None: no announce) *)
Definition pre (P : pcfg) (h : heap) (o : op) : heap * option finput :=
  match o_k o with
  | KRead DDone => (h, None)
  | KRead (DRaise x) => (note_raise h x (rd_name P), Some (FErr x))
  | KRead r =>
      let raw := match r with DRet v => v | _ => PNone end in
      match dt_call (p_dt P) raw with
      | Ok v' => (h, Some (FVal v' false))
      | Err e => let x := conv_exc e (o_cx o) in (note_raise h x (rd_name P), Some (FErr x))
      end
  | KWrite v r =>
      match dt_validate (p_dt P) v PNone with
      | Err _ => (h, None)
      | Ok nv =>
          match r with
          | None => (h, Some (FVal nv false))
          | Some DDone => (h, None)
          | Some (DRaise x) => (note_raise h x (wr_name P), None)
          | Some DNone | Some (DRet PNone) => (h, Some (FVal v false))   (* "value if new_value is None": the raw argument *)
          | Some (DRet w) =>
              match dt_validate (p_dt P) w PNone with
              | Ok w' => (h, Some (FVal w' false))
              | Err _ => (h, None)
              end
          end
      end
  | KAssign v => (h, Some (FVal v true))
  | KAnnounce v None _ => (h, Some (FVal v true))
  | KAnnounce _ (Some x) _ => (h, Some (FErr x))
  end.

Definition explicit_ts (o : op) : Z := match o_k o with KAnnounce _ _ ts => ts | _ => 0%Z end.
Definition needs_access (o : op) : bool := match o_k o with KRead _ | KWrite _ _ => true | _ => false end.

(* ------------------------------------------------------------------ sequential model *)
Record state := {
  s_cells : list cell;
  s_heap : heap;
  s_now : Z;
  s_log : list (nat * msg);     (* deliveries (connection, message), newest first *)
}.

Fixpoint set_nth {A} (n : nat) (x : A) (l : list A) : list A :=
  match l, n with
  | [], _ => []
  | _ :: r, O => x :: r
  | y :: r, S n' => y :: set_nth n' x r
  end.

(* announceUpdate from "timestamp = timestamp or time.time()" to the broadcast, for one prepared input *)
Definition apply_funnel (G : config) (P : pcfg) (o : op) (inp : finput) (ts : Z) (s : state) : state * list nat * option msg :=
  match nth_error (s_cells s) (o_p o) with
  | None => (s, [], None)
  | Some c =>
      let '(c', emit) := funnel P c inp (o_cx o) ts in
      let s' := {| s_cells := set_nth (o_p o) c' (s_cells s); s_heap := s_heap s; s_now := s_now s; s_log := s_log s |} in
      if emit && exported P then (s', listeners G (o_p o), Some (render G (s_heap s) P (o_p o) c'))
      else (s', [], None)
  end.

Definition deliver (s : state) (k : nat) (m : msg) : state :=
  {| s_cells := s_cells s; s_heap := s_heap s; s_now := s_now s; s_log := (k, m) :: s_log s |}.
Definition deliver_all (s : state) (ks : list nat) (m : msg) : state := fold_left (fun s k => deliver s k m) ks s.
Definition set_heap (s : state) (h : heap) : state :=
  {| s_cells := s_cells s; s_heap := h; s_now := s_now s; s_log := s_log s |}.
Definition tick (s : state) (d : Z) : state :=
  {| s_cells := s_cells s; s_heap := s_heap s; s_now := (s_now s + d)%Z; s_log := s_log s |}.

Definition step (G : config) (s : state) (o : op) : state :=
  match nth_error (g_params G) (o_p o) with
  | None => s
  | Some P =>
      let '(h1, fi) := pre P (s_heap s) o in
      let s1 := set_heap s h1 in
      match fi with
      | None => s1
      | Some inp =>
          let s2 := if Z.eqb (explicit_ts o) 0 then tick s1 (o_dt o) else s1 in
          let ts := if Z.eqb (explicit_ts o) 0 then s_now s2 else explicit_ts o in
          match apply_funnel G P o inp ts s2 with
          | (s3, ks, Some m) => deliver_all s3 ks m
          | (s3, _, None) => s3
          end
      end
  end.

Definition run (G : config) (s : state) (ops : list op) : state := fold_left (step G) ops s.

(* the messages a connection got, oldest first *)
Definition msgs_of (k : nat) (s : state) : list msg :=
  rev (map snd (filter (fun e => Nat.eqb (fst e) k) (s_log s))).

(* handle_activate: the snapshot sent to connection k *)
Fixpoint snapshot_from (G : config) (h : heap) (sc : scope) (p : nat) (ps : list pcfg) (cs : list cell) : list msg :=
  match ps, cs with
  | P :: ps', c :: cs' =>
      if covers G sc p then render G h P p c :: snapshot_from G h sc (S p) ps' cs'
      else snapshot_from G h sc (S p) ps' cs'
  | _, _ => []
  end.
Definition snapshot (G : config) (s : state) (sc : scope) : list msg :=
  snapshot_from G (s_heap s) sc 0 (g_params G) (s_cells s).
Fixpoint activate_from (G : config) (s : state) (k : nat) (cs : list scope) : state :=
  match cs with
  | [] => s
  | sc :: r => activate_from G (fold_left (fun s m => deliver s k m) (snapshot G s sc) s) (S k) r
  end.
Definition activate_all (G : config) (s : state) : state := activate_from G s 0 (g_conns G).

(* client side: the last message per parameter wins *)
Fixpoint last_msg (p : nat) (ms : list msg) (acc : option msg) : option msg :=
  match ms with
  | [] => acc
  | m :: r => last_msg p r (if Nat.eqb (m_p m) p then Some m else acc)
  end.
Definition replay (p : nat) (ms : list msg) : option msg := last_msg p ms None.

(* ------------------------------------------------------------------ concurrent model *)
(* where a thread is parked = the synchronisation point it executes next *)
Inductive park :=
| KStart                                     (* thread start *)
| KAcqA                                      (* acquire accessLock of the module (read_/write_ wrapper) *)
| KDrv                                       (* the user method (fake driver yields before it acts) *)
| KAcqU (inp : finput)                       (* acquire updateLock (announceUpdate) *)
| KClock (inp : finput)                      (* time.time() inside announceUpdate *)
| KSend (m : msg) (rest : list nat)          (* connection.send_reply for the next listener *)
| KEnd.

Record thread := { t_ops : list op; t_pk : park }.     (* head of t_ops = the op in progress *)
Record cstate := {
  cs_st : state;
  cs_thr : list thread;
  cs_ok : bool;                 (* false: the schedule named a thread that was not enabled / did not exist *)
}.

Definition op_mod (G : config) (o : op) : option nat := option_map p_mod (nth_error (g_params G) (o_p o)).
Definition cur_mod (G : config) (t : thread) : option nat :=
  match t_ops t with o :: _ => op_mod G o | [] => None end.
Definition opt_nat_eqb (a b : option nat) : bool :=
  match a, b with Some x, Some y => Nat.eqb x y | _, _ => false end.

Definition holds_U (G : config) (m : option nat) (t : thread) : bool :=
  match t_pk t with KClock _ | KSend _ _ => opt_nat_eqb (cur_mod G t) m | _ => false end.
Definition holds_A (G : config) (m : option nat) (t : thread) : bool :=
  match t_pk t, t_ops t with
  | (KDrv | KAcqU _ | KClock _ | KSend _ _), o :: _ => needs_access o && opt_nat_eqb (op_mod G o) m
  | _, _ => false
  end.
(* does any thread other than number i satisfy f *)
Fixpoint other_has (f : thread -> bool) (i : nat) (k : nat) (ts : list thread) : bool :=
  match ts with
  | [] => false
  | t :: r => (negb (Nat.eqb k i) && f t) || other_has f i (S k) r
  end.

(* where a thread parks when it begins its next op *)
Definition first_park (G : config) (ops : list op) : park :=
  match ops with
  | [] => KEnd
  | o :: _ =>
      if needs_access o then KAcqA
      else match nth_error (g_params G) (o_p o) with
           | None => KEnd
           | Some P => match snd (pre P [] o) with Some inp => KAcqU inp | None => KEnd end
           end
  end.
Definition finish_op (G : config) (t : thread) : thread :=
  {| t_ops := tl (t_ops t); t_pk := first_park G (tl (t_ops t)) |}.
Definition park_at (t : thread) (k : park) : thread := {| t_ops := t_ops t; t_pk := k |}.

(* announceUpdate body after the lock is taken and the time is known *)
Definition do_funnel (G : config) (P : pcfg) (o : op) (inp : finput) (ts : Z) (s : state) (t : thread) : state * thread :=
  match apply_funnel G P o inp ts s with
  | (s', k :: ks, Some m) => (s', park_at t (KSend m (k :: ks)))
  | (s', _, _) => (s', finish_op G t)
  end.

(* the wrapper from the call of the user method up to the next synchronisation point *)
Definition drv_step (G : config) (st : state) (t : thread) (o : op) : state * thread :=
  match nth_error (g_params G) (o_p o) with
  | None => (st, finish_op G t)
  | Some P =>
      let '(h1, fi) := pre P (s_heap st) o in
      match fi with
      | None => (set_heap st h1, finish_op G t)
      | Some inp => (set_heap st h1, park_at t (KAcqU inp))
      end
  end.
(* the fake driver yields when a user method is entered; a write_ wrapper without user method has no such point *)
Definition has_driver (G : config) (o : op) : bool :=
  match o_k o with
  | KWrite _ None => false
  | KWrite v (Some _) =>
      match nth_error (g_params G) (o_p o) with
      | Some P => match dt_validate (p_dt P) v PNone with Ok _ => true | Err _ => false end   (* validated first *)
      | None => false
      end
  | _ => true
  end.

(* one step of thread i; [locked] = the body of announceUpdate is enclosed by "with self.updateLock" *)
Definition tstep (G : config) (locked : bool) (st : state) (ts : list thread) (i : nat) (t : thread)
  : option (state * thread) :=
  match t_pk t, t_ops t with
  | KStart, ops => Some (st, park_at t (first_park G ops))
  | KAcqA, o :: _ =>
      if other_has (holds_A G (op_mod G o)) i 0 ts then None
      else if has_driver G o then Some (st, park_at t KDrv) else Some (drv_step G st t o)
  | KDrv, o :: _ => Some (drv_step G st t o)
  | KAcqU inp, o :: _ =>
      if locked && other_has (holds_U G (op_mod G o)) i 0 ts then None
      else if Z.eqb (explicit_ts o) 0 then Some (st, park_at t (KClock inp))
      else match nth_error (g_params G) (o_p o) with
           | None => Some (st, finish_op G t)
           | Some P => Some (do_funnel G P o inp (explicit_ts o) st t)
           end
  | KClock inp, o :: _ =>
      match nth_error (g_params G) (o_p o) with
      | None => Some (st, finish_op G t)
      | Some P => let st1 := tick st (o_dt o) in Some (do_funnel G P o inp (s_now st1) st1 t)
      end
  | KSend m (k :: rest), _ =>
      let st1 := deliver st k m in
      match rest with
      | [] => Some (st1, finish_op G t)
      | _ => Some (st1, park_at t (KSend m rest))
      end
  | _, _ => None
  end.

Definition cstep (G : config) (locked : bool) (s : cstate) (i : nat) : cstate :=
  match nth_error (cs_thr s) i with
  | None => {| cs_st := cs_st s; cs_thr := cs_thr s; cs_ok := false |}
  | Some t =>
      match tstep G locked (cs_st s) (cs_thr s) i t with
      | None => {| cs_st := cs_st s; cs_thr := cs_thr s; cs_ok := false |}
      | Some (st', t') => {| cs_st := st'; cs_thr := set_nth i t' (cs_thr s); cs_ok := cs_ok s |}
      end
  end.

Definition crun (G : config) (locked : bool) (s : cstate) (sched : list nat) : cstate :=
  fold_left (cstep G locked) sched s.
Definition cinit (s : state) (progs : list (list op)) : cstate :=
  {| cs_st := s; cs_thr := map (fun ops => {| t_ops := ops; t_pk := KStart |}) progs; cs_ok := true |}.
Definition quiescent (s : cstate) : bool :=
  forallb (fun t => match t_pk t with KEnd => true | _ => false end) (cs_thr s).
