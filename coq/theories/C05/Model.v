(* C05 -- executable model of the cache funnel of frappy:
     Module.announceUpdate            frappy/modulebase.py  (convert, compare, suppress, stamp, store, notify)
     the read_/write_ wrappers         frappy/modulebase.py  (HasAccessibles.__init_subclass__)
     Parameter.__set__                 frappy/params.py
     make_update / broadcast_event / the snapshot of handle_activate   frappy/protocol/dispatcher.py
     SECoPError.__eq__ / format / secop_error                          frappy/errors.py
   Values are pyval, datatype conversion is the C01 model (dt_call / dt_validate).
   Sequential big step [step]; concurrent small step [cstep] whose atomic steps end at the synchronisation
   points of the implementation run under harness/dsched.py: driver threads (read_/write_/assignment/announceUpdate),
   connection threads (Dispatcher.handle_activate / handle_deactivate / remove_connection) with a dynamic
   subscription table.  No proofs here. *)
From Coq Require Import ZArith NArith Bool List Arith.
Import ListNotations.
Require Import FV.Base.Util FV.Base.F64 FV.Base.PyVal FV.C01.Model.

(* ------------------------------------------------------------------ python == on cached values *)
Definition b2z (b : bool) : Z := if b then 1%Z else 0%Z.
Definition z_eq_f (z : Z) (f : f64) : bool := match cmp_Z_f z f with Some Eq => true | _ => false end.

Fixpoint py_eqb (a b : pyval) {struct a} : bool :=
  match a, b with
  | PNone, PNone => true
  | PBool x, PBool y => Bool.eqb x y
  | PBool x, PInt y => Z.eqb (b2z x) y
  | PInt y, PBool x => Z.eqb y (b2z x)
  | PInt x, PInt y => Z.eqb x y
  | PFloat x, PFloat y => feq x y
  | PInt z, PFloat f => z_eq_f z f
  | PFloat f, PInt z => z_eq_f z f
  | PBool x, PFloat f => z_eq_f (b2z x) f
  | PFloat f, PBool x => z_eq_f (b2z x) f
  | PStr x, PStr y => str_eqb x y
  | PBytes x, PBytes y => str_eqb x y
  | PList x, PList y | PTuple x, PTuple y =>
      (fix go (x y : list pyval) : bool :=
         match x, y with
         | [], [] => true
         | p :: x', q :: y' => py_eqb p q && go x' y'
         | _, _ => false
         end) x y
  | PDict x, PDict y =>
      Nat.eqb (length x) (length y) &&
      (fix go (x : list (str * pyval)) : bool :=
         match x with
         | [] => true
         | (k, p) :: x' =>
             (fix find (y : list (str * pyval)) : bool :=
                match y with
                | [] => false
                | (k', q) :: y' => if str_eqb k k' then py_eqb p q else find y'
                end) y && go x'
         end) x
  | PEnum _ v, PEnum _ w => Z.eqb v w            (* EnumMember.__eq__ compares the values *)
  | PEnum _ v, PInt w => Z.eqb v w
  | PInt w, PEnum _ v => Z.eqb v w
  | PEnum n _, PStr s => str_eqb n s
  | PStr s, PEnum n _ => str_eqb n s
  | POpaque, POpaque => true                     (* same object only; the harness never offers two *)
  | _, _ => false
  end.
Definition py_neq (a b : pyval) : bool := negb (py_eqb a b).

(* ------------------------------------------------------------------ export_value of the modelled datatypes *)
Fixpoint dt_export (d : dtype) (v : pyval) {struct d} : pyval :=
  match d with
  | TFloat _ _ _ _ =>
      match v with
      | PInt z => match float_of_Z z with Some f => PFloat f | None => v end
      | PBool b => PFloat (of_Z (b2z b))
      | _ => v
      end
  | TInt _ _ => match v with PBool b => PInt (b2z b) | _ => v end
  | TEnum _ => match v with PEnum _ z => PInt z | _ => v end
  | TArray e _ _ =>
      match v with
      | PTuple l | PList l => PList (map (dt_export e) l)
      | _ => v
      end
  | TTuple es =>
      match v with
      | PTuple l | PList l =>
          PList ((fix go (es : list dtype) (l : list pyval) : list pyval :=
                    match es, l with
                    | d' :: es', x :: l' => dt_export d' x :: go es' l'
                    | _, _ => []
                    end) es l)
      | _ => v
      end
  | TStruct ms _ _ =>
      match v with
      | PDict kv =>
          PDict (map (fun kx =>
                   (fst kx,
                    (fix look (ms : list (str * dtype)) : pyval :=
                       match ms with
                       | [] => snd kx
                       | (k', d') :: r => if str_eqb (fst kx) k' then dt_export d' (snd kx) else look r
                       end) ms)) kv)
      | _ => v
      end
  | _ => v
  end.

(* ------------------------------------------------------------------ errors *)
(* an exception as offered by the fake driver / a caller of announceUpdate *)
Inductive pyexc :=
| XSecop (cls msg : str) (oid : nat)     (* SECoPError subclass instance cls(msg); oid = object identity *)
| XOther (tname msg : str).              (* any other exception: type name and str(exc) *)

(* the error object held in Parameter.readerror *)
Record eobj := { e_cls : str; e_msg : str; e_oid : nat }.

(* SECoPError.__eq__: same type, same args (kwds are empty in the modelled domain) *)
Definition eobj_eqb (a b : eobj) : bool := str_eqb (e_cls a) (e_cls b) && str_eqb (e_msg a) (e_msg b).

Definition s_colon : str := [58%N; 32%N].                 (* ": " *)
Definition s_in : str := [32%N; 105%N; 110%N; 32%N].      (* " in " *)
Definition s_internal : str :=                            (* "InternalError" *)
  [73%N;110%N;116%N;101%N;114%N;110%N;97%N;108%N;69%N;114%N;114%N;111%N;114%N].
Definition s_range : str := [82%N;97%N;110%N;103%N;101%N;69%N;114%N;114%N;111%N;114%N].              (* "RangeError" *)
Definition s_wrongtype : str :=                                                                     (* "WrongTypeError" *)
  [87%N;114%N;111%N;110%N;103%N;84%N;121%N;112%N;101%N;69%N;114%N;114%N;111%N;114%N].
Definition s_read : str := [46%N;114%N;101%N;97%N;100%N;95%N].            (* ".read_" *)
Definition s_write : str := [46%N;119%N;114%N;105%N;116%N;101%N;95%N].    (* ".write_" *)

(* secop_error: InternalError(f'{type(exc).__name__}: {exc}') for a foreign exception; a fresh object (oid 0) *)
Definition secop_error (x : pyexc) : eobj :=
  match x with
  | XSecop c m o => {| e_cls := c; e_msg := m; e_oid := o |}
  | XOther t m => {| e_cls := s_internal; e_msg := t ++ s_colon ++ m; e_oid := 0 |}
  end.

(* raising_methods of the exception objects: oid -> list of method names.  oid 0 = objects that are never touched *)
Definition heap := list (nat * list str).
Fixpoint heap_get (h : heap) (o : nat) : list str :=
  match h with [] => [] | (o', l) :: r => if Nat.eqb o o' then l else heap_get r o end.
Fixpoint heap_app (h : heap) (o : nat) (s : str) : heap :=
  match h with
  | [] => [(o, [s])]
  | (o', l) :: r => if Nat.eqb o o' then (o', l ++ [s]) :: r else (o', l) :: heap_app r o s
  end.
(* "if isinstance(e, SECoPError): e.raising_methods.append(name)" *)
Definition note_raise (h : heap) (x : pyexc) (name : str) : heap :=
  match x with XSecop _ _ o => if Nat.eqb o 0 then h else heap_app h o name | XOther _ _ => h end.

(* class table read from frappy/errors.py: class name -> (SECoP name, name2class[name] is this class) *)
Definition etable := list (str * (str * bool)).
Definition e_name (T : etable) (cls : str) : str :=
  match assoc_str cls T with Some (n, _) => n | None => s_internal end.
Definition e_own (T : etable) (cls : str) : bool :=
  match assoc_str cls T with Some (_, b) => b | None => false end.

Definition lstrip_sp (s : str) : str := match s with 32%N :: r => r | _ => s end.
(* SECoPError.format(True) == str(error) *)
Definition fmt_text (T : etable) (e : eobj) (rm : list str) : str :=
  let ml := removelast rm in
  let prefix := (if e_own T (e_cls e) then [] else e_cls e) ++ lstrip_sp (flat_map (fun m => s_in ++ m) ml) in
  match prefix with [] => e_msg e | _ => prefix ++ s_colon ++ e_msg e end.

(* ------------------------------------------------------------------ configuration, cache, messages *)
Record pcfg := {
  p_mod : nat;                 (* module index: one accessLock / updateLock per module *)
  p_mname : str;               (* module name *)
  p_name : str;                (* attribute name *)
  p_export : option str;       (* exported name; None: export = False *)
  p_dt : dtype;
  p_omit : Z;                  (* omit_unchanged_within in clock ticks *)
}.

(* Parameter.finish: resolution of update_unchanged (-1 = 'default') against the module / general setting *)
Definition resolve_omit (uu : Z) (mod_omit : option Z) (general : Z) : Z :=
  if Z.eqb uu (-1) then match mod_omit with None => general | Some t => t end else uu.

Record cell := { c_val : pyval; c_err : option eobj; c_ts : Z }.   (* value, readerror, timestamp (0 = unset) *)

Inductive payload := PVal (v : pyval) | PErr (name text : str).
Record msg := { m_p : nat; m_pay : payload; m_ts : Z }.   (* update / error_update for parameter m_p; m_ts 0 = no 't' *)

(* subscription of a connection: activate / activate <module> / activate <module>:<exported name> *)
Inductive scope := SAll | SMod (m : nat) | SPar (p : nat) | SNone.   (* SNone: connection not activated *)

Record config := {
  g_tab : etable;
  g_params : list pcfg;
  g_conns : list scope;        (* connection k has scope nth k (when the history starts) *)
  g_nmods : nat;               (* number of modules of the node (secnode.export) *)
}.

Definition exported (P : pcfg) : bool := match p_export P with Some _ => true | None => false end.
Definition covers (G : config) (sc : scope) (p : nat) : bool :=
  match nth_error (g_params G) p with
  | None => false
  | Some P =>
      exported P &&
      match sc with SAll => true | SMod m => Nat.eqb m (p_mod P) | SPar q => Nat.eqb q p | SNone => false end
  end.
Fixpoint listeners_from (G : config) (p : nat) (k : nat) (cs : list scope) : list nat :=
  match cs with
  | [] => []
  | sc :: r => if covers G sc p then k :: listeners_from G p (S k) r else listeners_from G p (S k) r
  end.
Definition listeners (G : config) (p : nat) : list nat := listeners_from G p 0 (g_conns G).

(* make_update *)
Definition render (G : config) (h : heap) (P : pcfg) (p : nat) (c : cell) : msg :=
  {| m_p := p;
     m_pay := match c_err c with
              | Some e => PErr (e_name (g_tab G) (e_cls e)) (fmt_text (g_tab G) e (heap_get h (e_oid e)))
              | None => PVal (dt_export (p_dt P) (c_val c))
              end;
     m_ts := c_ts c |}.

(* ------------------------------------------------------------------ the funnel: announceUpdate *)
Inductive finput := FVal (v : pyval) (validate : bool) | FErr (x : pyexc).
(* python-runtime data of a failing conversion: message text, type name of a leaked foreign exception, object id *)
Record cxd := { cx_text : str; cx_tname : str; cx_oid : nat }.
Definition conv_exc (e : exc) (d : cxd) : pyexc :=
  match e with
  | ERange => XSecop s_range (cx_text d) (cx_oid d)
  | EWrongType => XSecop s_wrongtype (cx_text d) (cx_oid d)
  | _ => XOther (cx_tname d) (cx_text d)
  end.

Definition is_some {A} (o : option A) : bool := match o with Some _ => true | None => false end.

Definition funnel_err (c : cell) (x : pyexc) (ts : Z) : cell * bool :=
  let e := secop_error x in
  match c_err c with
  | Some e0 => if eobj_eqb e e0 then (c, false)                    (* no updates for repeated errors *)
               else ({| c_val := c_val c; c_err := Some e; c_ts := ts |}, true)
  | None => ({| c_val := c_val c; c_err := Some e; c_ts := ts |}, true)
  end.

Definition funnel_val (P : pcfg) (c : cell) (v : pyval) (ts : Z) : cell * bool :=
  let changed := py_neq (c_val c) v || is_some (c_err c) in
  if negb changed && Z.ltb ts (c_ts c + p_omit P)
  then ({| c_val := v; c_err := c_err c; c_ts := c_ts c |}, false)  (* value stored, nothing else *)
  else ({| c_val := v; c_err := None; c_ts := ts |}, true).

(* result: new cache entry, and whether the update callback is reached *)
Definition funnel (P : pcfg) (c : cell) (inp : finput) (cx : cxd) (ts : Z) : cell * bool :=
  match inp with
  | FErr x => funnel_err c x ts
  | FVal v false => funnel_val P c v ts
  | FVal v true =>
      match dt_call (p_dt P) v with
      | Ok v' => funnel_val P c v' ts
      | Err e => funnel_err c (conv_exc e cx) ts
      end
  end.

(* ------------------------------------------------------------------ operations *)
Inductive dres := DRet (v : pyval) | DNone | DDone | DRaise (x : pyexc).     (* what the user method does *)
Inductive opk :=
| KRead (r : dres)                             (* wrapped read_<p>() *)
| KWrite (v : pyval) (r : option dres)         (* wrapped write_<p>(v); None: no user write method *)
| KAssign (v : pyval)                          (* self.<p> = v *)
| KAnnounce (v : pyval) (x : option pyexc) (ts : Z).   (* announceUpdate(p, v, x, timestamp=ts); ts 0 = not given *)
Record op := { o_p : nat; o_k : opk; o_dt : Z; o_cx : cxd }.   (* o_dt: clock advance seen by this op's time.time() *)

Definition rd_name (P : pcfg) : str := p_mname P ++ s_read ++ p_name P.
Definition wr_name (P : pcfg) : str := p_mname P ++ s_write ++ p_name P.

(* the wrapper code before announceUpdate: new raising_methods, and the funnel input (None: no announce) *)
Definition pre (P : pcfg) (h : heap) (o : op) : heap * option finput :=
  match o_k o with
  | KRead DDone => (h, None)
  | KRead (DRaise x) => (note_raise h x (rd_name P), Some (FErr x))
  | KRead r =>
      let raw := match r with DRet v => v | _ => PNone end in
      match dt_call (p_dt P) raw with
      | Ok v' => (h, Some (FVal v' false))
      | Err e => let x := conv_exc e (o_cx o) in (note_raise h x (rd_name P), Some (FErr x))
      end
  | KWrite v r =>
      match dt_validate (p_dt P) v PNone with
      | Err _ => (h, None)
      | Ok nv =>
          match r with
          | None => (h, Some (FVal nv false))
          | Some DDone => (h, None)
          | Some (DRaise x) => (note_raise h x (wr_name P), None)
          | Some DNone | Some (DRet PNone) => (h, Some (FVal v false))   (* "value if new_value is None": the raw argument *)
          | Some (DRet w) =>
              match dt_validate (p_dt P) w PNone with
              | Ok w' => (h, Some (FVal w' false))
              | Err _ => (h, None)
              end
          end
      end
  | KAssign v => (h, Some (FVal v true))
  | KAnnounce v None _ => (h, Some (FVal v true))
  | KAnnounce _ (Some x) _ => (h, Some (FErr x))
  end.

Definition explicit_ts (o : op) : Z := match o_k o with KAnnounce _ _ ts => ts | _ => 0%Z end.
Definition needs_access (o : op) : bool := match o_k o with KRead _ | KWrite _ _ => true | _ => false end.

(* ------------------------------------------------------------------ sequential model *)
Record state := {
  s_cells : list cell;
  s_heap : heap;
  s_now : Z;
  s_log : list (nat * msg);     (* deliveries (connection, message), newest first *)
}.

Fixpoint set_nth {A} (n : nat) (x : A) (l : list A) : list A :=
  match l, n with
  | [], _ => []
  | _ :: r, O => x :: r
  | y :: r, S n' => y :: set_nth n' x r
  end.

(* announceUpdate from the store to the broadcast, for one prepared input; ks = the connections broadcast_event
   will send to *)
Definition apply_funnel_with (G : config) (ks : list nat) (P : pcfg) (o : op) (inp : finput) (ts : Z) (s : state)
  : state * list nat * option msg :=
  match nth_error (s_cells s) (o_p o) with
  | None => (s, [], None)
  | Some c =>
      let '(c', emit) := funnel P c inp (o_cx o) ts in
      let s' := {| s_cells := set_nth (o_p o) c' (s_cells s); s_heap := s_heap s; s_now := s_now s; s_log := s_log s |} in
      if emit && exported P then (s', ks, Some (render G (s_heap s) P (o_p o) c'))
      else (s', [], None)
  end.
Definition apply_funnel (G : config) (P : pcfg) (o : op) (inp : finput) (ts : Z) (s : state) : state * list nat * option msg :=
  apply_funnel_with G (listeners G (o_p o)) P o inp ts s.

Definition deliver (s : state) (k : nat) (m : msg) : state :=
  {| s_cells := s_cells s; s_heap := s_heap s; s_now := s_now s; s_log := (k, m) :: s_log s |}.
Definition deliver_all (s : state) (ks : list nat) (m : msg) : state := fold_left (fun s k => deliver s k m) ks s.
Definition set_heap (s : state) (h : heap) : state :=
  {| s_cells := s_cells s; s_heap := h; s_now := s_now s; s_log := s_log s |}.
Definition tick (s : state) (d : Z) : state :=
  {| s_cells := s_cells s; s_heap := s_heap s; s_now := (s_now s + d)%Z; s_log := s_log s |}.

(* the announce region: "timestamp = timestamp or time.time()", the funnel, and who is to be told what *)
Definition ann_region (G : config) (ks : list nat) (P : pcfg) (o : op) (inp : finput) (s : state)
  : state * list nat * option msg :=
  let s2 := if Z.eqb (explicit_ts o) 0 then tick s (o_dt o) else s in
  let ts := if Z.eqb (explicit_ts o) 0 then s_now s2 else explicit_ts o in
  apply_funnel_with G ks P o inp ts s2.
(* ... executed atomically: every listener is served at once *)
Definition ann_atomic (G : config) (ks : list nat) (P : pcfg) (o : op) (inp : finput) (s : state) : state :=
  match ann_region G ks P o inp s with
  | (s3, ks', Some m) => deliver_all s3 ks' m
  | (s3, _, None) => s3
  end.

Definition step (G : config) (s : state) (o : op) : state :=
  match nth_error (g_params G) (o_p o) with
  | None => s
  | Some P =>
      let '(h1, fi) := pre P (s_heap s) o in
      let s1 := set_heap s h1 in
      match fi with
      | None => s1
      | Some inp => ann_atomic G (listeners G (o_p o)) P o inp s1
      end
  end.

Definition run (G : config) (s : state) (ops : list op) : state := fold_left (step G) ops s.

(* the messages a connection got, oldest first *)
Definition msgs_of (k : nat) (s : state) : list msg :=
  rev (map snd (filter (fun e => Nat.eqb (fst e) k) (s_log s))).

(* handle_activate: the snapshot sent to connection k *)
Fixpoint snapshot_from (G : config) (h : heap) (sc : scope) (p : nat) (ps : list pcfg) (cs : list cell) : list msg :=
  match ps, cs with
  | P :: ps', c :: cs' =>
      if covers G sc p then render G h P p c :: snapshot_from G h sc (S p) ps' cs'
      else snapshot_from G h sc (S p) ps' cs'
  | _, _ => []
  end.
Definition snapshot (G : config) (s : state) (sc : scope) : list msg :=
  snapshot_from G (s_heap s) sc 0 (g_params G) (s_cells s).
Fixpoint activate_from (G : config) (s : state) (k : nat) (cs : list scope) : state :=
  match cs with
  | [] => s
  | sc :: r => activate_from G (fold_left (fun s m => deliver s k m) (snapshot G s sc) s) (S k) r
  end.
Definition activate_all (G : config) (s : state) : state := activate_from G s 0 (g_conns G).

(* client side: the last message per parameter wins *)
Fixpoint last_msg (p : nat) (ms : list msg) (acc : option msg) : option msg :=
  match ms with
  | [] => acc
  | m :: r => last_msg p r (if Nat.eqb (m_p m) p then Some m else acc)
  end.
Definition replay (p : nat) (ms : list msg) : option msg := last_msg p ms None.

(* ------------------------------------------------------------------ concurrent model *)
(* ---- dynamic subscriptions: Dispatcher._active_connections / _subscriptions.
   Connection k is registered for the scopes [nth k]; SAll = member of _active_connections, SMod m = member of
   _subscriptions[<module>], SPar p = member of _subscriptions[<module>:<parameter>] *)
Definition subs := list (list scope).
Definition sub_covers (G : config) (scs : list scope) (p : nat) : bool := existsb (fun sc => covers G sc p) scs.
(* broadcast_event: the union of the three sets; the fake connections hash to their index, so a set is iterated
   in index order *)
Fixpoint dlisteners_from (G : config) (p : nat) (k : nat) (ss : subs) : list nat :=
  match ss with
  | [] => []
  | scs :: r => if sub_covers G scs p then k :: dlisteners_from G p (S k) r else dlisteners_from G p (S k) r
  end.
Definition dlisteners (G : config) (ss : subs) (p : nat) : list nat := dlisteners_from G p 0 ss.
Definition subs0 (G : config) : subs := map (fun sc => [sc]) (g_conns G).

Definition in_mod (G : config) (m p : nat) : bool :=
  match nth_error (g_params G) p with Some P => Nat.eqb (p_mod P) m | None => false end.

(* what a connection thread does *)
Inductive aop :=
| AActivate (sc : scope)          (* handle_activate(conn, specifier) *)
| ADeactivate (sc : scope)        (* handle_deactivate(conn, specifier) *)
| AReset.                         (* remove_connection / reset_connection *)
Inductive job := JOp (o : op) | JConn (k : nat) (a : aop).

Definition sub_add (ss : subs) (k : nat) (sc : scope) : subs :=
  match nth_error ss k with Some l => set_nth k (sc :: l) ss | None => ss end.
(* handle_deactivate: no specifier -> _active_connections.discard only; a module -> its set and all the
   <module>:<parameter> sets; a parameter -> that set.  Does registration sc survive? *)
Definition unsub_keep (G : config) (a sc : scope) : bool :=
  match a, sc with
  | SAll, SAll => false
  | SMod m, SMod m' => negb (Nat.eqb m m')
  | SMod m, SPar p => negb (in_mod G m p)
  | SPar p, SPar q => negb (Nat.eqb p q)
  | _, _ => true
  end.
Definition sub_del (G : config) (ss : subs) (k : nat) (a : aop) : subs :=
  match nth_error ss k with
  | None => ss
  | Some l =>
      match a with
      | ADeactivate sc => set_nth k (filter (unsub_keep G sc) l) ss
      | AReset => set_nth k [] ss
      | AActivate _ => ss
      end
  end.

(* the shapes of the source the concurrent behaviour rests on (each is a translator fact) *)
Record flags := {
  f_locked : bool;        (* the body of announceUpdate is enclosed by "with self.updateLock" *)
  f_reg_first : bool;     (* handle_activate registers the connection before the loop sending the initial values *)
  f_snap_locked : bool;   (* ... and builds + sends the values of one module inside "with moduleobj.updateLock" *)
  f_private : bool;       (* broadcast_event iterates over a private copy of the listener sets *)
}.
Definition flags_ok : flags := {| f_locked := true; f_reg_first := true; f_snap_locked := true; f_private := true |}.

(* where a thread is parked = the synchronisation point it executes next *)
Inductive park :=
| KStart                                     (* thread start *)
| KAcqA                                      (* acquire accessLock of the module (read_/write_ wrapper) *)
| KDrv                                       (* the user method (fake driver yields before it acts) *)
| KAcqU (inp : finput)                       (* acquire updateLock (announceUpdate) *)
| KClock (inp : finput)                      (* time.time() inside announceUpdate *)
| KSend (m : msg) (rest : list nat)          (* connection.send_reply for the next listener *)
| KSendL (m : msg) (k : nat) (n0 : nat)      (* the same when the live sets are iterated: next recipient, size of the
                                                set when the iteration began *)
| KConn                                      (* before handle_deactivate / remove_connection (the harness yields) *)
| KReg                                       (* registration: _active_connections.add / subscribe *)
| KAcqS (ms : list nat)                      (* handle_activate: acquire updateLock of module hd ms; modules to do *)
| KSnap (m : msg) (ps : list nat) (ms : list nat)   (* send_reply of an initial value; further parameters of the
                                                       module in progress; further modules *)
| KEnd.

Record thread := { t_ops : list job; t_pk : park }.     (* head of t_ops = the job in progress *)
Record cstate := {
  cs_st : state;
  cs_subs : subs;
  cs_thr : list thread;
  cs_ok : bool;                 (* false: the schedule named a thread that was not enabled / did not exist *)
}.

Definition op_mod (G : config) (o : op) : option nat := option_map p_mod (nth_error (g_params G) (o_p o)).
Definition msg_mod (G : config) (m : msg) : option nat := option_map p_mod (nth_error (g_params G) (m_p m)).
Definition cur_mod (G : config) (t : thread) : option nat :=
  match t_ops t with JOp o :: _ => op_mod G o | _ => None end.
Definition opt_nat_eqb (a b : option nat) : bool :=
  match a, b with Some x, Some y => Nat.eqb x y | _, _ => false end.

(* the locks are derived from the park points *)
Definition holds_U (G : config) (F : flags) (m : option nat) (t : thread) : bool :=
  match t_pk t with
  | KClock _ | KSend _ _ | KSendL _ _ _ => f_locked F && opt_nat_eqb (cur_mod G t) m
  | KSnap msg _ _ => f_snap_locked F && opt_nat_eqb (msg_mod G msg) m
  | _ => false
  end.
Definition holds_A (G : config) (m : option nat) (t : thread) : bool :=
  match t_pk t, t_ops t with
  | (KDrv | KAcqU _ | KClock _ | KSend _ _ | KSendL _ _ _), JOp o :: _ => needs_access o && opt_nat_eqb (op_mod G o) m
  | _, _ => false
  end.
(* does any thread other than number i satisfy f *)
Fixpoint other_has (f : thread -> bool) (i : nat) (k : nat) (ts : list thread) : bool :=
  match ts with
  | [] => false
  | t :: r => (negb (Nat.eqb k i) && f t) || other_has f i (S k) r
  end.

(* handle_activate: the modules whose values are sent, and the parameters of one module *)
Definition scope_mods (G : config) (sc : scope) : list nat :=
  match sc with
  | SAll => seq 0 (g_nmods G)
  | SMod m => [m]
  | SPar p => match nth_error (g_params G) p with Some P => [p_mod P] | None => [] end
  | SNone => []
  end.
Definition snap_params (G : config) (sc : scope) (m : nat) : list nat :=
  filter (fun p => covers G sc p && in_mod G m p) (seq 0 (length (g_params G))).

(* where a thread parks when it begins its next job *)
Definition first_park (G : config) (F : flags) (ops : list job) : park :=
  match ops with
  | [] => KEnd
  | JOp o :: _ =>
      if needs_access o then KAcqA
      else match nth_error (g_params G) (o_p o) with
           | None => KEnd
           | Some P => match snd (pre P [] o) with Some inp => KAcqU inp | None => KEnd end
           end
  | JConn _ (AActivate sc) :: _ =>
      if f_reg_first F then KReg else match scope_mods G sc with [] => KReg | ms => KAcqS ms end
  | JConn _ _ :: _ => KConn
  end.
Definition finish_op (G : config) (F : flags) (t : thread) : thread :=
  {| t_ops := tl (t_ops t); t_pk := first_park G F (tl (t_ops t)) |}.
Definition park_at (t : thread) (k : park) : thread := {| t_ops := t_ops t; t_pk := k |}.

(* what one step of a thread does to the shared state.  Two readings: [ceff] is what happens at this very step;
   [aeff] is the reading in which a region is atomic -- everything it sends is delivered when it commits *)
Inductive action :=
| AHeap (P : pcfg) (o : op)                   (* wrapper prologue: bookkeeping of raising_methods *)
| AFun (P : pcfg) (o : op) (inp : finput)     (* announce region commits: clock, funnel, store *)
| ASend (k : nat) (m : msg)                   (* one send_reply of its fan-out *)
| ASnap (k : nat) (P : pcfg) (p : nat)        (* make_update of an initial value *)
| ASnapSend (k : nat) (m : msg)               (* its send_reply *)
| AReg (k : nat) (sc : scope)
| AUnreg (k : nat) (a : aop).

Definition render_at (G : config) (st : state) (P : pcfg) (p : nat) : option msg :=
  option_map (render G (s_heap st) P p) (nth_error (s_cells st) p).

Definition ceff (G : config) (a : action) (x : state * subs) : state * subs :=
  let '(st, ss) := x in
  match a with
  | AHeap P o => (set_heap st (fst (pre P (s_heap st) o)), ss)
  | AFun P o inp => (fst (fst (ann_region G (dlisteners G ss (o_p o)) P o inp st)), ss)
  | ASend k m | ASnapSend k m => (deliver st k m, ss)
  | ASnap _ _ _ => (st, ss)
  | AReg k sc => (st, sub_add ss k sc)
  | AUnreg k a => (st, sub_del G ss k a)
  end.
Definition aeff (G : config) (a : action) (x : state * subs) : state * subs :=
  let '(st, ss) := x in
  match a with
  | AHeap P o => (set_heap st (fst (pre P (s_heap st) o)), ss)
  | AFun P o inp => (ann_atomic G (dlisteners G ss (o_p o)) P o inp st, ss)
  | ASend _ _ | ASnapSend _ _ => (st, ss)
  | ASnap k P p => (match render_at G st P p with Some m => deliver st k m | None => st end, ss)
  | AReg k sc => (st, sub_add ss k sc)
  | AUnreg k a => (st, sub_del G ss k a)
  end.

(* announceUpdate body once the lock is taken: the region commits, the thread goes on to the first send_reply *)
Definition do_funnel (G : config) (F : flags) (P : pcfg) (o : op) (inp : finput) (st : state) (ss : subs) (t : thread)
  : list action * thread :=
  ([AFun P o inp],
   match ann_region G (dlisteners G ss (o_p o)) P o inp st with
   | (_, k :: ks, Some m) => park_at t (if f_private F then KSend m (k :: ks) else KSendL m k (S (length ks)))
   | _ => finish_op G F t
   end).

(* the wrapper from the call of the user method up to the next synchronisation point *)
Definition drv_step (G : config) (F : flags) (st : state) (t : thread) (o : op) : list action * thread :=
  match nth_error (g_params G) (o_p o) with
  | None => ([], finish_op G F t)
  | Some P =>
      match snd (pre P (s_heap st) o) with
      | None => ([AHeap P o], finish_op G F t)
      | Some inp => ([AHeap P o], park_at t (KAcqU inp))
      end
  end.
(* the fake driver yields when a user method is entered; a write_ wrapper without user method has no such point *)
Definition has_driver (G : config) (o : op) : bool :=
  match o_k o with
  | KWrite _ None => false
  | KWrite v (Some _) =>
      match nth_error (g_params G) (o_p o) with
      | Some P => match dt_validate (p_dt P) v PNone with Ok _ => true | Err _ => false end   (* validated first *)
      | None => false
      end
  | _ => true
  end.

(* handle_activate after a send_reply / after the lock is taken: the next initial value of the module in progress,
   else the next module, else the end (where the registration happens if it does not come first) *)
Definition snap_next (G : config) (F : flags) (st : state) (t : thread) (k : nat) (ps ms : list nat)
  : list action * thread :=
  match ps with
  | p :: ps' =>
      match nth_error (g_params G) p with
      | Some P => match render_at G st P p with
                  | Some m => ([ASnap k P p], park_at t (KSnap m ps' ms))
                  | None => ([], finish_op G F t)
                  end
      | None => ([], finish_op G F t)
      end
  | [] =>
      match ms with
      | _ :: _ => ([], park_at t (KAcqS ms))
      | [] => ([], if f_reg_first F then finish_op G F t else park_at t KReg)
      end
  end.

(* one step of thread i: the actions on the shared state and the thread afterwards; None = not enabled *)
Definition tstep (G : config) (F : flags) (st : state) (ss : subs) (ts : list thread) (i : nat) (t : thread)
  : option (list action * thread) :=
  match t_pk t, t_ops t with
  | KStart, ops => Some ([], park_at t (first_park G F ops))
  | KAcqA, JOp o :: _ =>
      if other_has (holds_A G (op_mod G o)) i 0 ts then None
      else if has_driver G o then Some ([], park_at t KDrv) else Some (drv_step G F st t o)
  | KDrv, JOp o :: _ => Some (drv_step G F st t o)
  | KAcqU inp, JOp o :: _ =>
      if f_locked F && other_has (holds_U G F (op_mod G o)) i 0 ts then None
      else if Z.eqb (explicit_ts o) 0 then Some ([], park_at t (KClock inp))
      else match nth_error (g_params G) (o_p o) with
           | None => Some ([], finish_op G F t)
           | Some P => Some (do_funnel G F P o inp st ss t)
           end
  | KClock inp, JOp o :: _ =>
      match nth_error (g_params G) (o_p o) with
      | None => Some ([], finish_op G F t)
      | Some P => Some (do_funnel G F P o inp st ss t)
      end
  | KSend m (k :: rest), _ =>
      match rest with
      | [] => Some ([ASend k m], finish_op G F t)
      | _ => Some ([ASend k m], park_at t (KSend m rest))
      end
  | KSendL m k n0, _ =>
      (* set iterator: RuntimeError when the size changed, else the next element in hash order *)
      let cur := dlisteners G ss (m_p m) in
      if Nat.eqb (length cur) n0
      then match find (fun k' => Nat.ltb k k') cur with
           | Some k' => Some ([ASend k m], park_at t (KSendL m k' n0))
           | None => Some ([ASend k m], finish_op G F t)
           end
      else Some ([ASend k m], finish_op G F t)
  | KConn, JConn k a :: _ => Some ([AUnreg k a], finish_op G F t)
  | KReg, JConn k (AActivate sc) :: _ =>
      if f_reg_first F
      then match scope_mods G sc with
           | [] => Some ([AReg k sc], finish_op G F t)
           | ms => Some ([AReg k sc], park_at t (KAcqS ms))
           end
      else Some ([AReg k sc], finish_op G F t)
  | KAcqS (m :: ms), JConn k (AActivate sc) :: _ =>
      if f_snap_locked F && other_has (holds_U G F (Some m)) i 0 ts then None
      else Some (snap_next G F st t k (snap_params G sc m) ms)
  | KSnap m ps ms, JConn k (AActivate _) :: _ =>
      let '(acts, t') := snap_next G F (deliver st k m) t k ps ms in Some (ASnapSend k m :: acts, t')
  | _, _ => None
  end.

Definition bad (s : cstate) : cstate := {| cs_st := cs_st s; cs_subs := cs_subs s; cs_thr := cs_thr s; cs_ok := false |}.
Definition cstep (G : config) (F : flags) (s : cstate) (i : nat) : cstate :=
  match nth_error (cs_thr s) i with
  | None => bad s
  | Some t =>
      match tstep G F (cs_st s) (cs_subs s) (cs_thr s) i t with
      | None => bad s
      | Some (acts, t') =>
          let x := fold_left (fun x a => ceff G a x) acts (cs_st s, cs_subs s) in
          {| cs_st := fst x; cs_subs := snd x; cs_thr := set_nth i t' (cs_thr s); cs_ok := cs_ok s |}
      end
  end.

Definition crun (G : config) (F : flags) (s : cstate) (sched : list nat) : cstate :=
  fold_left (cstep G F) sched s.
Definition cinit (s : state) (ss : subs) (progs : list (list job)) : cstate :=
  {| cs_st := s; cs_subs := ss; cs_thr := map (fun ops => {| t_ops := ops; t_pk := KStart |}) progs; cs_ok := true |}.
(* every thread has finished *)
Definition quiescent (s : cstate) : bool :=
  forallb (fun t => match t_pk t with KEnd => true | _ => false end) (cs_thr s).
(* quiescent point: no thread is inside the body of announceUpdate or, registered, inside handle_activate *)
Definition in_flight (t : thread) : bool :=
  match t_pk t with KClock _ | KSend _ _ | KSendL _ _ _ | KAcqS _ | KSnap _ _ _ => true | _ => false end.
Definition quiet (s : cstate) : bool := forallb (fun t => negb (in_flight t)) (cs_thr s).

(* the committed actions of a run, in the order in which they were committed *)
Definition cacts (G : config) (F : flags) (s : cstate) (i : nat) : list action :=
  match nth_error (cs_thr s) i with
  | None => []
  | Some t => match tstep G F (cs_st s) (cs_subs s) (cs_thr s) i t with None => [] | Some (acts, _) => acts end
  end.
Fixpoint ctrace (G : config) (F : flags) (s : cstate) (sched : list nat) : list action :=
  match sched with
  | [] => []
  | i :: r => cacts G F s i ++ ctrace G F (cstep G F s i) r
  end.
(* the sequential reading of that trace: regions are atomic *)
Definition arun (G : config) (acts : list action) (x : state * subs) : state * subs :=
  fold_left (fun x a => aeff G a x) acts x.
