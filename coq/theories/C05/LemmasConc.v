(* C05 -- concurrent model: the update region (announceUpdate from the clock read to the last send_reply) of one
   module is executed by at most one thread at a time, for every schedule, when the body is enclosed by the lock *)
From Coq Require Import ZArith NArith Bool List Arith Lia.
Import ListNotations.
Require Import FV.Base.Util FV.Base.F64 FV.Base.PyVal FV.C01.Model FV.C05.Model FV.C05.Lemmas.

Definition exclusive (G : config) (ts : list thread) : Prop :=
  forall a b ta tb m, nth_error ts a = Some ta -> nth_error ts b = Some tb ->
    holds_U G (Some m) ta = true -> holds_U G (Some m) tb = true -> a = b.

Lemma first_park_free G ops m ops' : holds_U G m {| t_ops := ops'; t_pk := first_park G ops |} = false.
Proof.
  unfold holds_U, first_park; simpl. destruct ops as [|o r]; auto.
  destruct (needs_access o); auto. destruct (nth_error _ _); auto. destruct (snd _); auto.
Qed.
Lemma finish_free G t m : holds_U G m (finish_op G t) = false.
Proof. unfold finish_op. apply first_park_free. Qed.

Lemma holds_park_at G m t k :
  holds_U G m (park_at t k) = match k with KClock _ | KSend _ _ => opt_nat_eqb (cur_mod G t) m | _ => false end.
Proof. unfold holds_U, park_at, cur_mod; simpl. destruct k; auto. Qed.

Lemma do_funnel_holder G P o inp ts st t st' t' m :
  do_funnel G P o inp ts st t = (st', t') -> holds_U G m t' = true -> opt_nat_eqb (cur_mod G t) m = true.
Proof.
  unfold do_funnel. destruct (apply_funnel _ _ _ _ _ _) as [[s1 ks] om].
  destruct ks as [|k ks]; [|destruct om]; intros E H; inversion E; subst; clear E;
    try (rewrite finish_free in H; discriminate).
  rewrite holds_park_at in H; auto.
Qed.

Lemma drv_step_free G st t o st' t' m : drv_step G st t o = (st', t') -> holds_U G m t' = false.
Proof.
  unfold drv_step. destruct (nth_error _ _); [destruct (pre _ _ _) as [h [i|]]|]; intros E; inversion E; subst;
    try apply finish_free. rewrite holds_park_at; auto.
Qed.

(* a thread enters the region only through the lock *)
Lemma tstep_holder G st ts i t st' t' m :
  tstep G true st ts i t = Some (st', t') -> holds_U G (Some m) t' = true ->
  holds_U G (Some m) t = true \/ other_has (holds_U G (Some m)) i 0 ts = false.
Proof.
  unfold tstep. destruct (t_pk t) eqn:K; destruct (t_ops t) as [|o r] eqn:O; intros E H; try discriminate.
  - inversion E; subst. rewrite holds_park_at in H. destruct (first_park G []); discriminate.
  - inversion E; subst. rewrite holds_park_at in H. unfold first_park in H.
    destruct (needs_access o); try discriminate. destruct (nth_error _ _); try discriminate.
    destruct (snd _); discriminate.
  - destruct (other_has _ _ _ _); try discriminate. destruct (has_driver G o).
    + inversion E; subst. rewrite holds_park_at in H; discriminate.
    + inversion E as [E']. apply drv_step_free with (m := Some m) in E'. congruence.
  - inversion E as [E']. apply drv_step_free with (m := Some m) in E'. congruence.
  - simpl in E. destruct (other_has (holds_U G (op_mod G o)) i 0 ts) eqn:Oth; try discriminate.
    assert (CM : cur_mod G t = op_mod G o) by (unfold cur_mod; rewrite O; reflexivity).
    assert (Key : opt_nat_eqb (cur_mod G t) (Some m) = true -> other_has (holds_U G (Some m)) i 0 ts = false).
    { rewrite CM. destruct (op_mod G o) as [x|]; simpl; try discriminate. intros Q; apply Nat.eqb_eq in Q; subst; auto. }
    destruct (Z.eqb _ _).
    + inversion E; subst. rewrite holds_park_at in H. right; auto.
    + destruct (nth_error _ _).
      * inversion E as [E']. right. apply Key. eapply do_funnel_holder; eauto.
      * inversion E; subst. rewrite finish_free in H; discriminate.
  - left. unfold holds_U. rewrite K.
    destruct (nth_error _ _).
    + inversion E as [E']. eapply do_funnel_holder; eauto.
    + inversion E; subst. rewrite finish_free in H; discriminate.
  - left. unfold holds_U. rewrite K. destruct rest as [|k rest]; try discriminate.
    destruct rest; inversion E; subst.
    + rewrite finish_free in H; discriminate.
    + rewrite holds_park_at in H; auto.
  - left. unfold holds_U. rewrite K. destruct rest as [|k rest]; try discriminate.
    destruct rest; inversion E; subst.
    + rewrite finish_free in H; discriminate.
    + rewrite holds_park_at in H; auto.
Qed.

Lemma other_has_true f i k ts b tb :
  nth_error ts b = Some tb -> k + b <> i -> f tb = true -> other_has f i k ts = true.
Proof.
  revert k b; induction ts as [|t r IH]; intros k [|b] E N F; simpl in *; try discriminate.
  - inversion E; subst. rewrite F. replace (k + 0) with k in N by lia.
    apply Nat.eqb_neq in N. rewrite N; reflexivity.
  - rewrite (IH (S k) b); auto; [apply orb_true_r | lia].
Qed.

Lemma cstep_exclusive G s i : exclusive G (cs_thr s) -> exclusive G (cs_thr (cstep G true s i)).
Proof.
  intros X. unfold cstep. destruct (nth_error (cs_thr s) i) as [t|] eqn:Et; auto.
  destruct (tstep G true (cs_st s) (cs_thr s) i t) as [[st' t']|] eqn:Es; auto. simpl.
  assert (Hold : forall m b tb, holds_U G (Some m) t' = true -> nth_error (cs_thr s) b = Some tb -> b <> i ->
                   holds_U G (Some m) tb = true -> False).
  { intros m b tb H Eb N Hb. destruct (tstep_holder _ _ _ _ _ _ _ m Es H) as [Q|Q].
    - apply N. eapply X; eauto.
    - rewrite (other_has_true _ i 0 _ b tb) in Q; auto; discriminate. }
  intros a b ta tb m Ea Eb Ha Hb.
  destruct (Nat.eq_dec a i) as [Ai|Ai]; destruct (Nat.eq_dec b i) as [Bi|Bi]; try congruence.
  - subst a. rewrite nth_set_nth_neq in Eb by auto. rewrite (nth_set_nth_eq _ _ _ _ Et) in Ea. inversion Ea; subst ta.
    exfalso; eapply Hold; eauto.
  - subst b. rewrite nth_set_nth_neq in Ea by auto. rewrite (nth_set_nth_eq _ _ _ _ Et) in Eb. inversion Eb; subst tb.
    exfalso; eapply Hold; eauto.
  - rewrite nth_set_nth_neq in Ea, Eb by auto. eapply X; eauto.
Qed.

Theorem crun_exclusive G sched : forall s, exclusive G (cs_thr s) -> exclusive G (cs_thr (crun G true s sched)).
Proof. unfold crun. induction sched; simpl; intros; auto. apply IHsched, cstep_exclusive; auto. Qed.

Lemma cinit_exclusive G s progs : exclusive G (cs_thr (cinit s progs)).
Proof.
  intros a b ta tb m Ea Eb Ha. exfalso. unfold cinit in Ea; simpl in Ea.
  rewrite nth_error_map in Ea. destruct (nth_error progs a); inversion Ea; subst. discriminate.
Qed.

(* the cache and the per-connection streams are only touched inside the region or by the delivering thread:
   a step of a thread that is outside the region leaves cache and stream alone *)
Lemma tstep_outside_frame G locked st ts i t st' t' :
  tstep G locked st ts i t = Some (st', t') ->
  match t_pk t with KStart | KAcqA | KDrv => True | _ => False end ->
  s_cells st' = s_cells st /\ s_log st' = s_log st.
Proof.
  unfold tstep. destruct (t_pk t); try tauto; destruct (t_ops t) as [|o r]; intros E _; try discriminate;
    try (inversion E; subst; auto; fail).
  - destruct (other_has _ _ _ _); try discriminate. destruct (has_driver G o); inversion E as [E']; auto.
    unfold drv_step in E'. destruct (nth_error _ _); [destruct (pre _ _ _) as [h [x|]]|]; inversion E'; auto.
  - inversion E as [E']. unfold drv_step in E'.
    destruct (nth_error _ _); [destruct (pre _ _ _) as [h [x|]]|]; inversion E'; auto.
Qed.
