(* C05 -- concurrent model (driver threads, connection threads, dynamic subscriptions), all source shapes present
   (flags_ok): inversion of one thread step, well-formedness, mutual exclusion of the update regions of a module *)
From Coq Require Import ZArith NArith Bool List Arith Lia.
Import ListNotations.
Require Import FV.Base.Util FV.Base.F64 FV.Base.PyVal FV.C01.Model FV.C05.Model FV.C05.Lemmas.

Notation FK := flags_ok.

(* ------------------------------------------------------------------ parks at which a thread claims nothing *)
Definition idle_pk (k : park) : bool :=
  match k with KStart | KAcqA | KDrv | KAcqU _ | KConn | KReg | KEnd => true | _ => false end.

Lemma first_park_idle G ops : idle_pk (first_park G FK ops) = true.
Proof.
  unfold first_park. destruct ops as [|[o|k [sc|sc|]] r]; simpl; auto.
  destruct (needs_access o); auto. destruct (nth_error _ _); auto. destruct (snd _); auto.
Qed.
Lemma finish_idle G t : idle_pk (t_pk (finish_op G FK t)) = true.
Proof. unfold finish_op; simpl. apply first_park_idle. Qed.

(* parks at which a thread owes nobody a message *)
Definition quiet_pk (k : park) : bool :=
  match k with KSend _ _ | KSendL _ _ _ | KAcqS _ | KSnap _ _ _ => false | _ => true end.

Lemma idle_not_holding G t m : idle_pk (t_pk t) = true -> holds_U G FK m t = false.
Proof. unfold holds_U. destruct (t_pk t); simpl; auto; discriminate. Qed.

(* ------------------------------------------------------------------ one thread step, by kind *)
Inductive skind (G : config) (st : state) (ss : subs) (ts : list thread) (i : nat) (t : thread)
  : list action -> thread -> Prop :=
| SK_idle acts t' :
    (forall a, In a acts -> exists P o, a = AHeap P o) -> idle_pk (t_pk t') = true -> quiet_pk (t_pk t) = true ->
    skind G st ss ts i t acts t'
| SK_clock o r inp :
    t_ops t = JOp o :: r -> t_pk t = KAcqU inp -> other_has (holds_U G FK (op_mod G o)) i 0 ts = false ->
    skind G st ss ts i t [] (park_at t (KClock inp))
| SK_fun o r inp P :
    t_ops t = JOp o :: r -> nth_error (g_params G) (o_p o) = Some P ->
    (t_pk t = KClock inp \/ (t_pk t = KAcqU inp /\ other_has (holds_U G FK (op_mod G o)) i 0 ts = false)) ->
    skind G st ss ts i t [AFun P o inp] (snd (do_funnel G FK P o inp st ss t))
| SK_send m k rest :
    t_pk t = KSend m (k :: rest) ->
    skind G st ss ts i t [ASend k m] (match rest with [] => finish_op G FK t | _ => park_at t (KSend m rest) end)
| SK_unreg k a r :
    t_ops t = JConn k a :: r -> t_pk t = KConn -> skind G st ss ts i t [AUnreg k a] (finish_op G FK t)
| SK_reg k sc r :
    t_ops t = JConn k (AActivate sc) :: r -> t_pk t = KReg ->
    skind G st ss ts i t [AReg k sc] (match scope_mods G sc with [] => finish_op G FK t | ms => park_at t (KAcqS ms) end)
| SK_acqS k sc r m ms :
    t_ops t = JConn k (AActivate sc) :: r -> t_pk t = KAcqS (m :: ms) ->
    other_has (holds_U G FK (Some m)) i 0 ts = false ->
    skind G st ss ts i t (fst (snap_next G FK st t k (snap_params G sc m) ms))
                         (snd (snap_next G FK st t k (snap_params G sc m) ms))
| SK_snap k sc r m ps ms :
    t_ops t = JConn k (AActivate sc) :: r -> t_pk t = KSnap m ps ms ->
    skind G st ss ts i t (ASnapSend k m :: fst (snap_next G FK (deliver st k m) t k ps ms))
                         (snd (snap_next G FK (deliver st k m) t k ps ms)).

Lemma drv_step_kind G st ss ts i t o :
  quiet_pk (t_pk t) = true ->
  skind G st ss ts i t (fst (drv_step G FK st t o)) (snd (drv_step G FK st t o)).
Proof.
  intros Q. unfold drv_step. destruct (nth_error _ _) as [P|]; [destruct (snd (pre P (s_heap st) o))|]; simpl;
    apply SK_idle; simpl; auto using first_park_idle; try tauto; try (intros a [<-|[]]; eauto).
Qed.

Lemma tstep_kind G st ss ts i t acts t' :
  (forall m k n, t_pk t <> KSendL m k n) ->
  tstep G FK st ss ts i t = Some (acts, t') -> skind G st ss ts i t acts t'.
Proof.
  intros NL. unfold tstep.
  destruct (t_pk t) eqn:K; try (exfalso; eapply NL; eauto; fail).
  - intros E; inversion E; subst. apply SK_idle; simpl; [tauto|apply first_park_idle|rewrite K; reflexivity].
  - destruct (t_ops t) as [|[o|k a] r] eqn:O; try discriminate.
    destruct (other_has _ _ _ _); try discriminate. destruct (has_driver G o).
    + intros E; inversion E; subst. apply SK_idle; simpl; auto; try tauto. rewrite K; reflexivity.
    + intros E; inversion E. rewrite (surjective_pairing (drv_step G FK st t o)) in H0. inversion H0; subst.
      apply drv_step_kind. rewrite K; reflexivity.
  - destruct (t_ops t) as [|[o|k a] r] eqn:O; try discriminate.
    intros E; inversion E. rewrite (surjective_pairing (drv_step G FK st t o)) in H0. inversion H0; subst.
    apply drv_step_kind. rewrite K; reflexivity.
  - destruct (t_ops t) as [|[o|k a] r] eqn:O; try discriminate. simpl.
    destruct (other_has (holds_U G FK (op_mod G o)) i 0 ts) eqn:Oth; try discriminate.
    destruct (Z.eqb _ _).
    + intros E; inversion E; subst. eapply SK_clock; eauto.
    + destruct (nth_error (g_params G) (o_p o)) as [P|] eqn:EP.
      * intros E; injection E as E'. unfold do_funnel in E'. inversion E'; subst.
        exact (SK_fun G st ss ts i t o r inp P O EP (or_intror (conj K Oth))).
      * intros E; inversion E; subst. apply SK_idle; simpl; [tauto|apply finish_idle|rewrite K; reflexivity].
  - destruct (t_ops t) as [|[o|k a] r] eqn:O; try discriminate.
    destruct (nth_error (g_params G) (o_p o)) as [P|] eqn:EP.
    + intros E; injection E as E'. unfold do_funnel in E'. inversion E'; subst.
      exact (SK_fun G st ss ts i t o r inp P O EP (or_introl K)).
    + intros E; inversion E; subst. apply SK_idle; simpl; [tauto|apply finish_idle|rewrite K; reflexivity].
  - destruct rest as [|k rest]; try discriminate.
    destruct rest; intros E; inversion E; subst; exact (SK_send G st ss ts i t m k _ K).
  - destruct (t_ops t) as [|[o|k a] r] eqn:O; try discriminate.
    intros E; inversion E; subst. eapply SK_unreg; eauto.
  - destruct (t_ops t) as [|[o|k [sc|sc|]] r] eqn:O; try discriminate. simpl.
    pose proof (SK_reg G st ss ts i t k sc r O K) as Q.
    destruct (scope_mods G sc); intros E; inversion E; subst; exact Q.
  - destruct ms as [|m ms]; try discriminate.
    destruct (t_ops t) as [|[o|k [sc|sc|]] r] eqn:O; try discriminate. simpl.
    destruct (other_has (holds_U G FK (Some m)) i 0 ts) eqn:Oth; try discriminate.
    intros E; inversion E. rewrite (surjective_pairing (snap_next _ _ _ _ _ _ _)) in H0. inversion H0; subst.
    eapply SK_acqS; eauto.
  - destruct (t_ops t) as [|[o|k [sc|sc|]] r] eqn:O; try discriminate.
    destruct (snap_next G FK (deliver st k m) t k ps ms) as [a0 t0] eqn:SN.
    intros E; inversion E; subst.
    pose proof (SK_snap G st ss ts i t k sc r m ps ms O K) as Q. rewrite SN in Q. exact Q.
  - discriminate.
Qed.

(* ------------------------------------------------------------------ snap_next by cases *)
Lemma snap_next_cases G st t k ps ms :
  (exists p ps' P c, ps = p :: ps' /\ nth_error (g_params G) p = Some P /\ nth_error (s_cells st) p = Some c /\
      snap_next G FK st t k ps ms = ([ASnap k P p], park_at t (KSnap (render G (s_heap st) P p c) ps' ms)))
  \/ (ps = [] /\ ms <> [] /\ snap_next G FK st t k ps ms = ([], park_at t (KAcqS ms)))
  \/ (snap_next G FK st t k ps ms = ([], finish_op G FK t) /\
      (ps = [] /\ ms = [] \/
       exists p ps', ps = p :: ps' /\ (nth_error (g_params G) p = None \/ nth_error (s_cells st) p = None))).
Proof.
  unfold snap_next, render_at. destruct ps as [|p ps'].
  - destruct ms; [right; right|right; left]; simpl; auto. repeat split; auto; discriminate.
  - destruct (nth_error (g_params G) p) as [P|] eqn:EP.
    + destruct (nth_error (s_cells st) p) as [c|] eqn:EC; simpl.
      * left. exists p, ps', P, c. auto.
      * right; right. split; auto. right. eauto.
    + right; right. split; auto. right. eauto.
Qed.

Lemma in_mod_spec G m p : in_mod G m p = true <-> exists P, nth_error (g_params G) p = Some P /\ p_mod P = m.
Proof.
  unfold in_mod. destruct (nth_error _ _) as [P|].
  - rewrite Nat.eqb_eq. split; [eauto|]. intros (P' & E & M); inversion E; subst; auto.
  - split; [discriminate|]. intros (P' & E & _); discriminate.
Qed.
Lemma in_mod_msg_mod G m msg : in_mod G m (m_p msg) = true -> msg_mod G msg = Some m.
Proof. intros H. apply in_mod_spec in H. destruct H as (P & E & M). unfold msg_mod. rewrite E; simpl; congruence. Qed.

Lemma snap_params_in G sc m p : In p (snap_params G sc m) -> in_mod G m p = true /\ covers G sc p = true.
Proof. unfold snap_params. rewrite filter_In. intros (_ & H). apply andb_prop in H; tauto. Qed.

(* ------------------------------------------------------------------ well-formedness *)
Lemma dlisteners_from_ge G p k ss x : In x (dlisteners_from G p k ss) -> k <= x.
Proof.
  revert k; induction ss as [|scs r IH]; intros k; simpl; [tauto|].
  destruct (sub_covers G scs p); simpl; [intros [<-|H]; auto|intros H]; apply IH in H; lia.
Qed.
Lemma dlisteners_from_nodup G p k ss : NoDup (dlisteners_from G p k ss).
Proof.
  revert k; induction ss as [|scs r IH]; intros k; simpl; [constructor|].
  destruct (sub_covers G scs p); auto. constructor; auto. intros H. apply dlisteners_from_ge in H. lia.
Qed.
Lemma dlisteners_nodup G ss p : NoDup (dlisteners G ss p).
Proof. apply dlisteners_from_nodup. Qed.

Definition wf_thread (G : config) (t : thread) : Prop :=
  match t_pk t with
  | KSend m rest => (exists o r P, t_ops t = JOp o :: r /\ m_p m = o_p o /\ nth_error (g_params G) (o_p o) = Some P)
                    /\ NoDup rest
  | KSnap m ps ms => exists k sc r mo, t_ops t = JConn k (AActivate sc) :: r /\
                       in_mod G mo (m_p m) = true /\ Forall (fun p => in_mod G mo p = true) ps
  | KSendL _ _ _ => False
  | _ => True
  end.
Definition wf_cstate (G : config) (s : cstate) : Prop :=
  length (s_cells (cs_st s)) = length (g_params G) /\
  forall i t, nth_error (cs_thr s) i = Some t -> wf_thread G t.

Lemma wf_idle G t : idle_pk (t_pk t) = true -> wf_thread G t.
Proof. unfold wf_thread. destruct (t_pk t); simpl; auto; discriminate. Qed.

Lemma wf_snap_next G st t k sc r ps ms mo :
  t_ops t = JConn k (AActivate sc) :: r -> Forall (fun p => in_mod G mo p = true) ps ->
  wf_thread G (snd (snap_next G FK st t k ps ms)).
Proof.
  intros O Fa. destruct (snap_next_cases G st t k ps ms) as [(p & ps' & P & c & -> & EP & EC & ->)|[(-> & _ & ->)|(-> & _)]]; simpl.
  - unfold wf_thread; simpl. inversion Fa; subst. exists k, sc, r, mo. auto.
  - exact I.
  - apply wf_idle, finish_idle.
Qed.

Lemma skind_wf G st ss ts i t acts t' :
  skind G st ss ts i t acts t' -> wf_thread G t -> wf_thread G t'.
Proof.
  intros K W. destruct K.
  - apply wf_idle; auto.
  - exact I.
  - unfold do_funnel; simpl.
    pose proof (ann_region_spec G (dlisteners G ss (o_p o)) P o inp st) as R.
    destruct (nth_error (s_cells st) (o_p o)) as [c|].
    + destruct R as (ts0 & c' & emit & s' & _ & _ & _ & _ & ->).
      destruct (emit && exported P); [|apply wf_idle, finish_idle].
      pose proof (dlisteners_nodup G ss (o_p o)) as ND.
      destruct (dlisteners G ss (o_p o)) as [|k ks]; [apply wf_idle, finish_idle|].
      unfold wf_thread; simpl. split; eauto 6.
    + destruct R as (s' & -> & _). apply wf_idle, finish_idle.
  - unfold wf_thread in W. rewrite H in W. destruct W as (W1 & W2). inversion W2; subst.
    destruct rest as [|k' rest]; [apply wf_idle, finish_idle|]. unfold wf_thread; simpl. auto.
  - apply wf_idle, finish_idle.
  - destruct (scope_mods G sc); [apply wf_idle, finish_idle|exact I].
  - eapply wf_snap_next with (mo := m); eauto. apply Forall_forall. intros p Hp. apply snap_params_in in Hp; tauto.
  - unfold wf_thread in W. rewrite H0 in W. destruct W as (k0 & sc0 & r0 & mo & _ & _ & Fa).
    eapply wf_snap_next; eauto.
Qed.

(* ------------------------------------------------------------------ one step of the system *)
Definition eff (G : config) (acts : list action) (x : state * subs) : state * subs :=
  fold_left (fun x a => ceff G a x) acts x.

Lemma cstep_cases G s i :
  wf_cstate G s ->
  (cs_st (cstep G FK s i) = cs_st s /\ cs_subs (cstep G FK s i) = cs_subs s /\ cs_thr (cstep G FK s i) = cs_thr s)
  \/ exists t acts t', nth_error (cs_thr s) i = Some t /\
       skind G (cs_st s) (cs_subs s) (cs_thr s) i t acts t' /\ wf_thread G t /\
       cs_thr (cstep G FK s i) = set_nth i t' (cs_thr s) /\
       cs_st (cstep G FK s i) = fst (eff G acts (cs_st s, cs_subs s)) /\
       cs_subs (cstep G FK s i) = snd (eff G acts (cs_st s, cs_subs s)).
Proof.
  intros (_ & W). unfold cstep. destruct (nth_error (cs_thr s) i) as [t|] eqn:Et; [|left; auto].
  destruct (tstep G FK (cs_st s) (cs_subs s) (cs_thr s) i t) as [[acts t']|] eqn:Es; [|left; auto].
  right. exists t, acts, t'. simpl. split; [reflexivity|]. split; [|split; [eauto|repeat split; auto]].
  apply tstep_kind; auto. intros m k n E. specialize (W i t Et). unfold wf_thread in W. rewrite E in W. exact W.
Qed.

Lemma heap_acts_frame G acts x :
  (forall a, In a acts -> exists P o, a = AHeap P o) ->
  s_cells (fst (eff G acts x)) = s_cells (fst x) /\ s_log (fst (eff G acts x)) = s_log (fst x) /\
  s_now (fst (eff G acts x)) = s_now (fst x) /\ snd (eff G acts x) = snd x.
Proof.
  unfold eff. revert x; induction acts as [|a r IH]; intros [st ss] H; simpl; auto.
  destruct (H a (or_introl eq_refl)) as (P & o & ->). simpl.
  destruct (IH (set_heap st (fst (pre P (s_heap st) o)), ss)) as (A & B & C & D); [intros; apply H; right; auto|].
  simpl in *. auto.
Qed.

Lemma cstep_wf G s i : wf_cstate G s -> wf_cstate G (cstep G FK s i).
Proof.
  intros W. destruct (cstep_cases G s i W) as [(A & B & C)|(t & acts & t' & Et & K & Wt & Thr & St & Ss)].
  - destruct W as (W1 & W2). split; [rewrite A; auto|rewrite C; auto].
  - destruct W as (W1 & W2). split.
    + rewrite St. clear Thr Ss. destruct K; try (simpl; auto; fail).
      * destruct (heap_acts_frame G acts (cs_st s, cs_subs s) H) as (A & _). simpl in A. rewrite A; auto.
      * simpl. pose proof (ann_region_spec G (dlisteners G (cs_subs s) (o_p o)) P o inp (cs_st s)) as R.
        destruct (nth_error (s_cells (cs_st s)) (o_p o)).
        -- destruct R as (ts0 & c' & emit & s' & _ & A & _ & _ & ->). simpl. rewrite A, set_nth_length; auto.
        -- destruct R as (s' & -> & A & _). simpl. congruence.
      * destruct (snap_next_cases G (cs_st s) t k (snap_params G sc m) ms)
          as [(p & ps' & P & c & _ & _ & _ & ->)|[(_ & _ & ->)|(-> & _)]]; simpl; auto.
      * simpl. destruct (snap_next_cases G (deliver (cs_st s) k m) t k ps ms)
          as [(p & ps' & P & c & _ & _ & _ & ->)|[(_ & _ & ->)|(-> & _)]]; simpl; auto.
    + rewrite Thr. intros j tj Ej. destruct (Nat.eq_dec i j) as [<-|N].
      * rewrite (nth_set_nth_eq _ _ _ _ Et) in Ej. inversion Ej; subst. eapply skind_wf; eauto.
      * rewrite nth_set_nth_neq in Ej by auto. eauto.
Qed.

Lemma crun_wf G sched : forall s, wf_cstate G s -> wf_cstate G (crun G FK s sched).
Proof. unfold crun. induction sched; simpl; intros; auto. apply IHsched, cstep_wf; auto. Qed.

Lemma cinit_wf G st ss progs : length (s_cells st) = length (g_params G) -> wf_cstate G (cinit st ss progs).
Proof.
  intros L. split; auto. unfold cinit; simpl. intros i t E. rewrite nth_error_map in E.
  destruct (nth_error progs i); inversion E; subst. exact I.
Qed.

(* ------------------------------------------------------------------ mutual exclusion of the update regions *)
Definition exclusive (G : config) (ts : list thread) : Prop :=
  forall a b ta tb m, nth_error ts a = Some ta -> nth_error ts b = Some tb ->
    holds_U G FK (Some m) ta = true -> holds_U G FK (Some m) tb = true -> a = b.

Lemma holds_park_at G m t k :
  holds_U G FK m (park_at t k) =
  match k with
  | KClock _ | KSend _ _ | KSendL _ _ _ => opt_nat_eqb (cur_mod G t) m
  | KSnap msg _ _ => opt_nat_eqb (msg_mod G msg) m
  | _ => false
  end.
Proof. unfold holds_U, park_at, cur_mod; simpl. destruct k; auto. Qed.

Lemma opt_nat_eqb_some a m : opt_nat_eqb a (Some m) = true -> a = Some m.
Proof. destruct a; simpl; try discriminate. intros H; apply Nat.eqb_eq in H; congruence. Qed.

Lemma holds_snap_next G st t k ps ms mo m :
  Forall (fun p => in_mod G mo p = true) ps ->
  holds_U G FK (Some m) (snd (snap_next G FK st t k ps ms)) = true -> m = mo.
Proof.
  intros Fa. destruct (snap_next_cases G st t k ps ms) as [(p & ps' & P & c & -> & EP & EC & ->)|[(-> & _ & ->)|(-> & _)]]; simpl.
  - rewrite holds_park_at. intros H. apply opt_nat_eqb_some in H. inversion Fa; subst.
    rewrite (in_mod_msg_mod G mo (render G (s_heap st) P p c)) in H by (simpl; auto). congruence.
  - rewrite holds_park_at. discriminate.
  - rewrite idle_not_holding by apply finish_idle. discriminate.
Qed.

(* a thread enters a region only through the lock *)
Lemma skind_holder G st ss ts i t acts t' m :
  skind G st ss ts i t acts t' -> wf_thread G t -> holds_U G FK (Some m) t' = true ->
  holds_U G FK (Some m) t = true \/ other_has (holds_U G FK (Some m)) i 0 ts = false.
Proof.
  intros K W H. destruct K.
  - rewrite idle_not_holding in H by auto. discriminate.
  - rewrite holds_park_at in H. right. apply opt_nat_eqb_some in H.
    unfold cur_mod in H. rewrite H0 in H. rewrite H in H2. exact H2.
  - unfold do_funnel in H; simpl in H.
    assert (Q : opt_nat_eqb (cur_mod G t) (Some m) = true).
    { destruct (ann_region _ _ _ _ _ _) as [[s1 ks] om]. destruct ks as [|k ks]; [|destruct om];
        try (rewrite idle_not_holding in H by apply finish_idle; discriminate).
      rewrite holds_park_at in H. exact H. }
    destruct H2 as [K|(K & Oth)].
    + left. unfold holds_U. rewrite K. exact Q.
    + right. apply opt_nat_eqb_some in Q. unfold cur_mod in Q. rewrite H0 in Q. rewrite Q in Oth. exact Oth.
  - left. destruct rest as [|k' rest].
    + rewrite idle_not_holding in H by apply finish_idle. discriminate.
    + rewrite holds_park_at in H. unfold holds_U. rewrite H0. exact H.
  - rewrite idle_not_holding in H by apply finish_idle. discriminate.
  - destruct (scope_mods G sc).
    + rewrite idle_not_holding in H by apply finish_idle. discriminate.
    + rewrite holds_park_at in H. discriminate.
  - right. apply holds_snap_next with (mo := m0) in H.
    + subst; auto.
    + apply Forall_forall. intros p Hp. apply snap_params_in in Hp; tauto.
  - left. unfold wf_thread in W. rewrite H1 in W. destruct W as (k0 & sc0 & r0 & mo & _ & Im & Fa).
    apply holds_snap_next with (mo := mo) in H; auto. subst m.
    unfold holds_U. rewrite H1. simpl. rewrite (in_mod_msg_mod G mo m0 Im). simpl. apply Nat.eqb_refl.
Qed.

Lemma other_has_true f i k ts b tb :
  nth_error ts b = Some tb -> k + b <> i -> f tb = true -> other_has f i k ts = true.
Proof.
  revert k b; induction ts as [|t r IH]; intros k [|b] E N F; simpl in *; try discriminate.
  - inversion E; subst. rewrite F. replace (k + 0) with k in N by lia.
    apply Nat.eqb_neq in N. rewrite N; reflexivity.
  - rewrite (IH (S k) b); auto; [apply orb_true_r | lia].
Qed.
Lemma other_has_false f i ts b tb :
  other_has f i 0 ts = false -> nth_error ts b = Some tb -> b <> i -> f tb = false.
Proof.
  intros H E N. destruct (f tb) eqn:F; auto. rewrite (other_has_true f i 0 ts b tb) in H; auto.
Qed.

(* if thread i holds U m, or is about to take it, nobody else holds it *)
Definition sole (G : config) (ts : list thread) (i : nat) (m : nat) : Prop :=
  forall b tb, nth_error ts b = Some tb -> b <> i -> holds_U G FK (Some m) tb = false.

Lemma exclusive_sole G ts i t m :
  exclusive G ts -> nth_error ts i = Some t -> holds_U G FK (Some m) t = true -> sole G ts i m.
Proof.
  intros X Et H b tb Eb N. destruct (holds_U G FK (Some m) tb) eqn:Hb; auto. exfalso; apply N. eapply X; eauto.
Qed.
Lemma other_sole G ts i m : other_has (holds_U G FK (Some m)) i 0 ts = false -> sole G ts i m.
Proof. intros H b tb Eb N. eapply other_has_false; eauto. Qed.

Lemma cstep_exclusive G s i : wf_cstate G s -> exclusive G (cs_thr s) -> exclusive G (cs_thr (cstep G FK s i)).
Proof.
  intros W X. destruct (cstep_cases G s i W) as [(_ & _ & ->)|(t & acts & t' & Et & K & Wt & -> & _)]; auto.
  assert (Hold : forall m, holds_U G FK (Some m) t' = true -> sole G (cs_thr s) i m).
  { intros m H. destruct (skind_holder _ _ _ _ _ _ _ _ m K Wt H) as [Q|Q].
    - eapply exclusive_sole; eauto.
    - apply other_sole; auto. }
  intros a b ta tb m Ea Eb Ha Hb.
  destruct (Nat.eq_dec a i) as [Ai|Ai]; destruct (Nat.eq_dec b i) as [Bi|Bi]; try congruence.
  - subst a. rewrite nth_set_nth_neq in Eb by auto. rewrite (nth_set_nth_eq _ _ _ _ Et) in Ea. inversion Ea; subst ta.
    rewrite (Hold m Ha b tb Eb Bi) in Hb. discriminate.
  - subst b. rewrite nth_set_nth_neq in Ea by auto. rewrite (nth_set_nth_eq _ _ _ _ Et) in Eb. inversion Eb; subst tb.
    rewrite (Hold m Hb a ta Ea Ai) in Ha. discriminate.
  - rewrite nth_set_nth_neq in Ea, Eb by auto. eapply X; eauto.
Qed.

Theorem crun_exclusive G sched : forall s,
  wf_cstate G s -> exclusive G (cs_thr s) -> exclusive G (cs_thr (crun G FK s sched)).
Proof.
  unfold crun. induction sched; simpl; intros; auto. apply IHsched; [apply cstep_wf|apply cstep_exclusive]; auto.
Qed.

Lemma cinit_exclusive G s ss progs : exclusive G (cs_thr (cinit s ss progs)).
Proof.
  intros a b ta tb m Ea Eb Ha. exfalso. unfold cinit in Ea; simpl in Ea.
  rewrite nth_error_map in Ea. destruct (nth_error progs a); inversion Ea; subst. discriminate.
Qed.

(* the cache and the streams are only touched inside a region: a thread that has not yet reached the lock
   (start / accessLock / user method) commits nothing but the bookkeeping of raising_methods -- whatever the flags *)
Lemma tstep_outside_frame G F st ss ts i t acts t' :
  tstep G F st ss ts i t = Some (acts, t') ->
  match t_pk t with KStart | KAcqA | KDrv => True | _ => False end ->
  let x := fold_left (fun x a => ceff G a x) acts (st, ss) in
  s_cells (fst x) = s_cells st /\ s_log (fst x) = s_log st /\ snd x = ss.
Proof.
  assert (D : forall o, let x := fold_left (fun x a => ceff G a x) (fst (drv_step G F st t o)) (st, ss) in
                        s_cells (fst x) = s_cells st /\ s_log (fst x) = s_log st /\ snd x = ss).
  { intros o. unfold drv_step. destruct (nth_error _ _) as [P|]; [destruct (snd (pre P (s_heap st) o))|]; simpl; auto. }
  unfold tstep. destruct (t_pk t); try tauto; intros E _.
  - inversion E; subst; simpl; auto.
  - destruct (t_ops t) as [|[o|k a] r]; try discriminate.
    destruct (other_has _ _ _ _); try discriminate. destruct (has_driver G o).
    + inversion E; subst; simpl; auto.
    + inversion E. rewrite (surjective_pairing (drv_step G F st t o)) in H0. inversion H0; subst. apply D.
  - destruct (t_ops t) as [|[o|k a] r]; try discriminate.
    inversion E. rewrite (surjective_pairing (drv_step G F st t o)) in H0. inversion H0; subst. apply D.
Qed.
