(* C05 -- witnesses: (1) the text of a cached error can change after its error_update was sent (finding
   C05/error-text-changes-after-announce); (2) without the update lock the stream and the cache diverge. *)
From Coq Require Import ZArith NArith Bool List Arith.
Import ListNotations.
Require Import FV.Base.Util FV.Base.F64 FV.Base.PyVal FV.C01.Model FV.Gen.C05 FV.C05.Model FV.C05.Lemmas.

Definition wP : pcfg :=
  {| p_mod := 0; p_mname := [109%N]; p_name := [112%N]; p_export := Some [95%N; 112%N];
     p_dt := TFloat (fmk (-100) 0) (fmk 100 0) fzero fzero; p_omit := 0 |}.
Definition wG : config := {| g_tab := err_table; g_params := [wP]; g_conns := [SAll] |}.
Definition wS : state :=
  activate_all wG {| s_cells := [{| c_val := PFloat fzero; c_err := None; c_ts := 0 |}]; s_heap := []; s_now := 8000; s_log := [] |}.
Definition wcx : cxd := {| cx_text := []; cx_tname := []; cx_oid := 0 |}.
Definition hw : str := [72%N;97%N;114%N;100%N;119%N;97%N;114%N;101%N;69%N;114%N;114%N;111%N;114%N].   (* "HardwareError" *)

(* the driver raises the same HardwareError instance in two consecutive reads: the second one is suppressed as a
   repeated error, yet the text of the cached error has grown *)
Definition w_same_instance : list op :=
  [ {| o_p := 0; o_k := KRead (DRaise (XSecop hw [120%N] 1)); o_dt := 1; o_cx := wcx |};
    {| o_p := 0; o_k := KRead (DRaise (XSecop hw [120%N] 1)); o_dt := 1; o_cx := wcx |} ].

Theorem C05_refuted_error_text_stable :
  exists G s ops k p P c m,
    nth_error (g_conns G) k = Some SAll /\ covers G SAll p = true /\ nth_error (g_params G) p = Some P /\
    nth_error (s_cells (run G s ops)) p = Some c /\
    replay p (msgs_of k (run G s ops)) = Some m /\
    m_ts m = c_ts c /\                                                   (* same entry ... *)
    m_pay m <> m_pay (render G (s_heap (run G s ops)) P p c).           (* ... but the cached text differs *)
Proof.
  exists wG, wS, w_same_instance, 0, 0, wP.
  eexists; eexists. repeat split; try (vm_compute; reflexivity).
  vm_compute. discriminate.
Qed.

(* two threads assign different values; with the body of announceUpdate not enclosed by the lock (locked = false)
   thread 1 stores and sends while thread 0 is between building and sending its message *)
Definition w_progs : list (list op) :=
  [ [ {| o_p := 0; o_k := KAssign (PFloat (fmk 1 0)); o_dt := 1; o_cx := wcx |} ];
    [ {| o_p := 0; o_k := KAssign (PFloat (fmk 2 0)); o_dt := 1; o_cx := wcx |} ] ].
Definition w_sched : list nat := [0; 1; 0; 0; 1; 1; 1; 0].

Theorem C05_refuted_without_update_lock :
  exists G s progs sched c m,
    let r := crun G false (cinit s progs) sched in
    cs_ok r = true /\ quiescent r = true /\
    nth_error (s_cells (cs_st r)) 0 = Some c /\ replay 0 (msgs_of 0 (cs_st r)) = Some m /\
    m_ts m <> c_ts c.
Proof.
  exists wG, wS, w_progs, w_sched. eexists; eexists. cbv zeta.
  repeat split; try (vm_compute; reflexivity). vm_compute. discriminate.
Qed.

(* the same schedule is not executable when the lock is there: thread 1 is blocked at the acquire *)
Example with_lock_blocked : cs_ok (crun wG true (cinit wS w_progs) w_sched) = false.
Proof. vm_compute. reflexivity. Qed.
