(* C05 -- witnesses: (1) the text of a cached error can change after its error_update was sent (finding
   C05/error-text-changes-after-announce); (2) without the update lock the stream and the cache diverge;
   (3) without each of the three shapes of handle_activate / broadcast_event the multi-thread clause fails;
   (4) with a narrower except clause around the parameter callbacks a raising callback costs the connections the
   update of a change the cache has already made. *)
From Coq Require Import ZArith NArith Bool List Arith.
Import ListNotations.
Require Import FV.Base.Util FV.Base.F64 FV.Base.PyVal FV.C01.Model FV.Gen.C05 FV.C05.Model FV.C05.ModelCb FV.C05.Lemmas.

Definition wP : pcfg :=
  {| p_mod := 0; p_mname := [109%N]; p_name := [112%N]; p_export := Some [95%N; 112%N];
     p_dt := TFloat (fmk (-100) 0) (fmk 100 0) fzero fzero; p_omit := 0 |}.
Definition wG : config := {| g_tab := err_table; g_params := [wP]; g_conns := [SAll]; g_nmods := 1 |}.
Definition wS : state :=
  activate_all wG {| s_cells := [{| c_val := PFloat fzero; c_err := None; c_ts := 0 |}]; s_heap := []; s_now := 8000; s_log := [] |}.
Definition wcx : cxd := {| cx_text := []; cx_tname := []; cx_oid := 0 |}.
Definition hw : str := [72%N;97%N;114%N;100%N;119%N;97%N;114%N;101%N;69%N;114%N;114%N;111%N;114%N].   (* "HardwareError" *)

(* the driver raises the same HardwareError instance in two consecutive reads: the second one is suppressed as a
   repeated error, yet the text of the cached error has grown *)
Definition w_same_instance : list op :=
  [ {| o_p := 0; o_k := KRead (DRaise (XSecop hw [120%N] 1)); o_dt := 1; o_cx := wcx |};
    {| o_p := 0; o_k := KRead (DRaise (XSecop hw [120%N] 1)); o_dt := 1; o_cx := wcx |} ].

Theorem C05_refuted_error_text_stable :
  exists G s ops k p P c m,
    nth_error (g_conns G) k = Some SAll /\ covers G SAll p = true /\ nth_error (g_params G) p = Some P /\
    nth_error (s_cells (run G s ops)) p = Some c /\
    replay p (msgs_of k (run G s ops)) = Some m /\
    m_ts m = c_ts c /\                                                   (* same entry ... *)
    m_pay m <> m_pay (render G (s_heap (run G s ops)) P p c).           (* ... but the cached text differs *)
Proof.
  exists wG, wS, w_same_instance, 0, 0, wP.
  eexists; eexists. repeat split; try (vm_compute; reflexivity).
  vm_compute. discriminate.
Qed.

(* two threads assign different values; with the body of announceUpdate not enclosed by the lock (f_locked = false)
   thread 1 stores and sends while thread 0 is between building and sending its message *)
Definition w_progs : list (list job) :=
  [ [ JOp {| o_p := 0; o_k := KAssign (PFloat (fmk 1 0)); o_dt := 1; o_cx := wcx |} ];
    [ JOp {| o_p := 0; o_k := KAssign (PFloat (fmk 2 0)); o_dt := 1; o_cx := wcx |} ] ].
Definition w_sched : list nat := [0; 1; 0; 0; 1; 1; 1; 0].
Definition no_update_lock : flags := {| f_locked := false; f_reg_first := true; f_snap_locked := true; f_private := true |}.

Theorem C05_refuted_without_update_lock :
  exists G s progs sched c m,
    let r := crun G no_update_lock (cinit s (subs0 G) progs) sched in
    cs_ok r = true /\ quiescent r = true /\
    nth_error (s_cells (cs_st r)) 0 = Some c /\ replay 0 (msgs_of 0 (cs_st r)) = Some m /\
    m_ts m <> c_ts c.
Proof.
  exists wG, wS, w_progs, w_sched. eexists; eexists. cbv zeta.
  repeat split; try (vm_compute; reflexivity). vm_compute. discriminate.
Qed.

(* the same schedule is not executable when the lock is there: thread 1 is blocked at the acquire *)
Example with_lock_blocked : cs_ok (crun wG flags_ok (cinit wS (subs0 wG) w_progs) w_sched) = false.
Proof. vm_compute. reflexivity. Qed.

(* ------------------------------------------------------------------ activation racing with an update.
   One module, one parameter; connection 0 is not activated when the history starts.  Thread 0 assigns a new value,
   thread 1 runs handle_activate for connection 0 (whole node).  In each witness the run is complete (every thread
   finished), connection 0 is registered for the whole node at the end, and the newest message it holds for the
   parameter carries another timestamp than the cached entry: a lost update / a stale snapshot. *)
Definition aG : config := {| g_tab := err_table; g_params := [wP]; g_conns := [SNone]; g_nmods := 1 |}.
Definition aS : state :=
  activate_all aG {| s_cells := [{| c_val := PFloat fzero; c_err := None; c_ts := 0 |}]; s_heap := []; s_now := 8000; s_log := [] |}.
Definition a_progs : list (list job) :=
  [ [ JOp {| o_p := 0; o_k := KAssign (PFloat (fmk 1 0)); o_dt := 1; o_cx := wcx |} ];
    [ JConn 0 (AActivate SAll) ] ].

Definition stale_at_end (G : config) (F : flags) (s : state) (progs : list (list job)) (sched : list nat) : Prop :=
  exists c m,
    let r := crun G F (cinit s (subs0 G) progs) sched in
    cs_ok r = true /\ quiescent r = true /\ nth_error (cs_subs r) 0 = Some [SAll; SNone] /\
    nth_error (s_cells (cs_st r)) 0 = Some c /\ replay 0 (msgs_of 0 (cs_st r)) = Some m /\
    m_ts m <> c_ts c.

(* (1) without "registration precedes the loop sending the initial values": the initial value is sent, then the
   other thread's update finds nobody registered, then the connection is registered: the update is lost *)
Definition reg_after_snapshot : flags := {| f_locked := true; f_reg_first := false; f_snap_locked := true; f_private := true |}.
Definition a_sched_late_reg : list nat := [1; 1; 1; 0; 0; 0; 1].
Theorem C05_refuted_registration_after_snapshot :
  exists G s progs sched, stale_at_end G reg_after_snapshot s progs sched.
Proof.
  exists aG, aS, a_progs, a_sched_late_reg. unfold stale_at_end. eexists; eexists. cbv zeta.
  repeat split; try (vm_compute; reflexivity). vm_compute. discriminate.
Qed.

(* (2) without "the initial values of a module are built and sent inside its updateLock": the initial value is built,
   the other thread stores, announces and delivers the new value, then the older initial value is delivered *)
Definition snapshot_outside_lock : flags := {| f_locked := true; f_reg_first := true; f_snap_locked := false; f_private := true |}.
Definition a_sched_unlocked : list nat := [1; 1; 1; 0; 0; 0; 0; 1].
Theorem C05_refuted_snapshot_outside_lock :
  exists G s progs sched, stale_at_end G snapshot_outside_lock s progs sched.
Proof.
  exists aG, aS, a_progs, a_sched_unlocked. unfold stale_at_end. eexists; eexists. cbv zeta.
  repeat split; try (vm_compute; reflexivity). vm_compute. discriminate.
Qed.

(* with the shapes present neither schedule is executable: in (1) the thread is at the registration, not at the lock;
   in (2) the assigning thread is blocked at updateLock while the initial value is in hand *)
Example with_facts_late_reg : cs_ok (crun aG flags_ok (cinit aS (subs0 aG) a_progs) a_sched_unlocked) = false.
Proof. vm_compute. reflexivity. Qed.

(* (3) without "broadcast_event iterates over a private copy": three activated connections; while the update is
   handed to connection 0, connection 2 is removed; the set iterator of the updating thread raises ("Set changed
   size during iteration"), connection 1 -- activated all the time -- never gets the update *)
Definition lG : config := {| g_tab := err_table; g_params := [wP]; g_conns := [SAll; SAll; SAll]; g_nmods := 1 |}.
Definition lS : state :=
  activate_all lG {| s_cells := [{| c_val := PFloat fzero; c_err := None; c_ts := 0 |}]; s_heap := []; s_now := 8000; s_log := [] |}.
Definition l_progs : list (list job) :=
  [ [ JOp {| o_p := 0; o_k := KAssign (PFloat (fmk 1 0)); o_dt := 1; o_cx := wcx |} ];
    [ JConn 2 AReset ] ].
Definition live_listener_set : flags := {| f_locked := true; f_reg_first := true; f_snap_locked := true; f_private := false |}.
Definition l_sched : list nat := [0; 0; 0; 1; 1; 0].
Theorem C05_refuted_live_listener_set :
  exists G s progs sched c m,
    let r := crun G live_listener_set (cinit s (subs0 G) progs) sched in
    cs_ok r = true /\ quiescent r = true /\ nth_error (cs_subs r) 1 = Some [SAll] /\
    nth_error (s_cells (cs_st r)) 0 = Some c /\ replay 0 (msgs_of 1 (cs_st r)) = Some m /\
    m_ts m <> c_ts c.
Proof.
  exists lG, lS, l_progs, l_sched. eexists; eexists. cbv zeta.
  repeat split; try (vm_compute; reflexivity). vm_compute. discriminate.
Qed.
(* with the private copy the same schedule serves connection 1 (two more steps: the remaining send_reply calls) *)
Example with_private_copy :
  let r := crun lG flags_ok (cinit lS (subs0 lG) l_progs) (l_sched ++ [0; 0]) in
  cs_ok r && quiescent r && Nat.eqb (length (msgs_of 1 (cs_st r))) 2 = true.
Proof. vm_compute. reflexivity. Qed.
Example with_facts_late_reg' : cs_ok (crun aG flags_ok (cinit aS (subs0 aG) a_progs) a_sched_late_reg) = false.
Proof. vm_compute. reflexivity. Qed.

(* ------------------------------------------------------------------ (4) parameter callbacks.
   One parameter, one connection activated for the whole node, one callback registered on the parameter (a follower
   computing reference / value) which raises ZeroDivisionError when the parameter is assigned.  With
   "except TypeError:" in place of "except Exception:" the exception leaves the callback loop: the cache holds the new
   value and its time, the connection still holds the initial one. *)
Definition s_zerodiv : str :=
  [90%N;101%N;114%N;111%N;68%N;105%N;118%N;105%N;115%N;105%N;111%N;110%N;69%N;114%N;114%N;111%N;114%N].
Definition w_cb_op : op * cbs :=
  ({| o_p := 0; o_k := KAssign (PFloat (fmk 1 0)); o_dt := 1; o_cx := wcx |}, CRaise false s_zerodiv CNil).

Theorem C05_refuted_callback_exception_escapes :
  exists G s oc k p c m,
    let s' := step_cb G s_typeerror s oc in
    nth_error (g_conns G) k = Some SAll /\ covers G SAll p = true /\
    nth_error (s_cells s') p = Some c /\ replay p (msgs_of k s') = Some m /\
    m_ts m <> c_ts c.
Proof.
  exists wG, wS, w_cb_op, 0, 0. eexists; eexists. cbv zeta.
  repeat split; try (vm_compute; reflexivity). vm_compute. discriminate.
Qed.
(* with "except Exception:" the same operation sends the update; so does a callback raising TypeError under the
   narrower clause (which is why the pinned tests do not notice the difference) *)
Example with_except_exception :
  let s' := step_cb wG s_exception wS w_cb_op in
  match nth_error (s_cells s') 0, replay 0 (msgs_of 0 s') with
  | Some c, Some m => Z.eqb (m_ts m) (c_ts c) && Z.eqb (c_ts c) 8001
  | _, _ => false
  end = true.
Proof. vm_compute. reflexivity. Qed.
Example typeerror_is_caught_either_way :
  length (msgs_of 0 (step_cb wG s_typeerror wS (fst w_cb_op, CRaise false s_typeerror CNil))) = 2 /\
  length (msgs_of 0 (step_cb wG s_typeerror wS w_cb_op)) = 1.
Proof. vm_compute. split; reflexivity. Qed.
